import Libp2pModel.Model.C25Tok
/-!
Line protocol of C25 (one fresh `Codec` per case):
```
op const                                 impl max_frame=<MAX_FRAME_SIZE>
op enc <O|D|C|R> <num> <d|l> <bytes>     impl ok <bytes> | err:InvalidData:size
op feed <bytes>                          impl <frames|-> <need|err:…> rem=<bytes left in the BytesMut>
```
`<bytes>` = `-` or `+`-joined parts, a part being lowercase hex or `rXXxN` (N copies of byte XX);
the canonical printer emits `rXXxN` for runs of ≥ 32 equal bytes.  Frames: `O:num:r`, `D:num:r:<bytes>`,
`C:num:r`, `R:num:r`, comma-joined.
-/
namespace Driver.C25
open Drv _root_.C25 _root_.C25.Tok

/-- model state: the decoder of `feed` ops (codec state + BytesMut) and the shared encoder buffer -/
structure MSt where
  dec : St × List Nat := (.begin, [])
  out : List Nat := []

structure TSt where
  feed : SpecSt := {}
  enc : EncSpecSt := {}

def parseSizes (s : String) : Option (List Nat) :=
  if s = "-" then some [] else (s.splitOn ",").mapM String.toNat?

/-- `<ok|err:InvalidData:size> add=<bytes> len=<n> prefix=<same|changed>` -/
def parseEncs (outs : List String) : Option (Bool × List Nat × Nat × Bool) :=
  match outs with
  | [r, a, l, p] =>
    match a.splitOn "=", l.splitOn "=", p.splitOn "=" with
    | ["add", ab], ["len", ln], ["prefix", pf] =>
      match parseBytes ab, ln.toNat? with
      | some ab, some ln =>
        if r = "ok" then some (true, ab, ln, pf = "same")
        else if r = "err:InvalidData:size" then some (false, ab, ln, pf = "same")
        else none
      | _, _ => none
    | _, _, _ => none
  | _ => none

def machine : Machine MSt TSt where
  init _ := {}
  specInit _ := {}
  op s args :=
    match args with
    | ["const"] => (s, s!"max_frame={MAX_FRAME_SIZE}")
    | "enc" :: rest =>
      match parseEnc rest with
      | some f =>
        match encode f with
        | some bs => (s, "ok " ++ showBytes bs)
        | none => (s, "err:InvalidData:size")
      | none => (s, "bad-op")
    | "encs" :: rest =>
      match parseEnc rest with
      | some f =>
        let r := encodeInto s.out f
        let add := r.2.drop s.out.length
        let res := match r.1 with
          | .ok _ => "ok"
          | .error _ => "err:InvalidData:size"
        ({ s with out := r.2 }, s!"{res} add={showBytes add} len={r.2.length} prefix=same")
      | none => (s, "bad-op")
    | ["decs", sz] =>
      match parseSizes sz with
      | some ns =>
        let r := feedMany .begin [] (cutChunks s.out ns)
        (s, s!"{showFrames r.1} {showStatus (statusOf r.2.2.2)} rem={r.2.2.1.length}")
      | none => (s, "bad-op")
    | ["feed", b] =>
      match parseBytes b with
      | some c =>
        let r := modelFeed s.dec c
        ({ s with dec := r.1 }, s!"{showFrames r.2.1} {showStatus r.2.2.1} rem={r.2.2.2}")
      | none => (s, "bad-op")
    | _ => (s, "bad-op")
  spec t args outs :=
    match outs with
    | "panic" :: _ => (t, "FAIL:panic")
    | _ =>
    match args with
    | ["const"] => (t, if outs = [s!"max_frame={MAX_FRAME_SIZE}"] then "ok" else "FAIL:max_frame_const")
    | "enc" :: rest =>
      match parseEnc rest with
      | some f =>
        let key := if f.payload.length > MAX_FRAME_SIZE then "FAIL:encode_limit" else "FAIL:roundtrip"
        match outs with
        | ["ok", b] =>
          match parseBytes b with
          | some bs => (t, if specEnc f (some bs) then "ok" else key)
          | none => (t, "FAIL:unparsable")
        | ["err:InvalidData:size"] => (t, if specEnc f none then "ok" else "FAIL:encode_limit")
        | _ => (t, "FAIL:unparsable")
      | none => (t, "FAIL:unparsable")
    | "encs" :: rest =>
      match parseEnc rest, parseEncs outs with
      | some f, some (ok, add, len, same) =>
        let r := specEncInto t.enc f ok add len same
        ({ t with enc := r.1 }, if r.2 = "ok" then "ok" else "FAIL:" ++ r.2)
      | _, _ => (t, "FAIL:unparsable")
    | ["decs", _] =>
      match outs with
      | [fs, st, rem] =>
        match parseFrames fs, parseStatus st, (rem.splitOn "=") with
        | some fs, some st, ["rem", n] =>
          match n.toNat? with
          | some n => let v := specDecs t.enc fs st n; (t, if v = "ok" then "ok" else "FAIL:" ++ v)
          | none => (t, "FAIL:unparsable")
        | _, _, _ => (t, "FAIL:unparsable")
      | _ => (t, "FAIL:unparsable")
    | ["feed", b] =>
      match parseBytes b, outs with
      | some c, [fs, st, rem] =>
        match parseFrames fs, parseStatus st, (rem.splitOn "=") with
        | some fs, some st, ["rem", n] =>
          match n.toNat? with
          | some n =>
            let r := specFeed t.feed c (fs, st, n)
            ({ t with feed := r.1 }, if r.2 = "ok" then "ok" else "FAIL:" ++ r.2)
          | none => (t, "FAIL:unparsable")
        | _, _, _ => (t, "FAIL:unparsable")
      | _, _ => (t, "FAIL:unparsable")
    | _ => (t, "FAIL:unparsable")

end Driver.C25

def main : IO Unit := Driver.C25.machine.run
