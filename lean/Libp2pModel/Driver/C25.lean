import Libp2pModel.Model.C25Tok
/-!
Line protocol of C25 (one fresh `Codec` per case):
```
op const                                 impl max_frame=<MAX_FRAME_SIZE>
op enc <O|D|C|R> <num> <d|l> <bytes>     impl ok <bytes> | err:InvalidData:size
op feed <bytes>                          impl <frames|-> <need|err:…> rem=<bytes left in the BytesMut>
```
`<bytes>` = `-` or `+`-joined parts, a part being lowercase hex or `rXXxN` (N copies of byte XX);
the canonical printer emits `rXXxN` for runs of ≥ 32 equal bytes.  Frames: `O:num:r`, `D:num:r:<bytes>`,
`C:num:r`, `R:num:r`, comma-joined.
-/
namespace Driver.C25
open Drv _root_.C25 _root_.C25.Tok

def machine : Machine (St × List Nat) SpecSt where
  init _ := (.begin, [])
  specInit _ := {}
  op s args :=
    match args with
    | ["const"] => (s, s!"max_frame={MAX_FRAME_SIZE}")
    | "enc" :: rest =>
      match parseEnc rest with
      | some f =>
        match encode f with
        | some bs => (s, "ok " ++ showBytes bs)
        | none => (s, "err:InvalidData:size")
      | none => (s, "bad-op")
    | ["feed", b] =>
      match parseBytes b with
      | some c =>
        let r := modelFeed s c
        (r.1, s!"{showFrames r.2.1} {showStatus r.2.2.1} rem={r.2.2.2}")
      | none => (s, "bad-op")
    | _ => (s, "bad-op")
  spec t args outs :=
    match outs with
    | "panic" :: _ => (t, "FAIL:panic")
    | _ =>
    match args with
    | ["const"] => (t, if outs = [s!"max_frame={MAX_FRAME_SIZE}"] then "ok" else "FAIL:max_frame_const")
    | "enc" :: rest =>
      match parseEnc rest with
      | some f =>
        let key := if f.payload.length > MAX_FRAME_SIZE then "FAIL:encode_limit" else "FAIL:roundtrip"
        match outs with
        | ["ok", b] =>
          match parseBytes b with
          | some bs => (t, if specEnc f (some bs) then "ok" else key)
          | none => (t, "FAIL:unparsable")
        | ["err:InvalidData:size"] => (t, if specEnc f none then "ok" else "FAIL:encode_limit")
        | _ => (t, "FAIL:unparsable")
      | none => (t, "FAIL:unparsable")
    | ["feed", b] =>
      match parseBytes b, outs with
      | some c, [fs, st, rem] =>
        match parseFrames fs, parseStatus st, (rem.splitOn "=") with
        | some fs, some st, ["rem", n] =>
          match n.toNat? with
          | some n =>
            let r := specFeed t c (fs, st, n)
            (r.1, if r.2 = "ok" then "ok" else "FAIL:" ++ r.2)
          | none => (t, "FAIL:unparsable")
        | _, _, _ => (t, "FAIL:unparsable")
      | _, _ => (t, "FAIL:unparsable")
    | _ => (t, "FAIL:unparsable")

end Driver.C25

def main : IO Unit := Driver.C25.machine.run
