import Libp2pModel.Model.C23
/-!
Line protocol of C23 (see `harness/h_dns/src/c23.rs`):
```
op   dial <addr> inner:<default>:<seq|-> {<kind>:<hexname>=<answer> | #<idx>=<answer>}*
impl <ok:k|dial|norecords|panic|unexpected> <errs|-> <trace|~>
```
-/
namespace Driver.C23
open Drv _root_.C23

def dropS (n : Nat) (s : String) : String := String.ofList (s.toList.drop n)

def parseChunk (t : String) : Option Chunk :=
  match t.toList with
  | 'g' :: rest => (Maddr.parse (String.ofList rest)).map .good
  | 'b' :: _ => some .bad
  | _ => none

def parseRec (t : String) : Option Rec :=
  match t.toList with
  | 'a' :: r => (String.ofList r).toNat?.map .a
  | 'q' :: r => (String.ofList r).toNat?.map .aaaa
  | ['c'] => some .other
  | ['t'] => some (.txt [])
  | 't' :: r => (((String.ofList r).splitOn "+").mapM parseChunk).map .txt
  | _ => none

def parseAnswer (t : String) : Option Answer :=
  if t = "err" then some .err
  else if t = "r:-" then some (.recs [])
  else if t.startsWith "r:" then (((dropS 2 t).splitOn ",").mapM parseRec).map .recs
  else none

def parseKind : String → Option QKind
  | "ip" => some .ip
  | "a" => some .a
  | "aaaa" => some .aaaa
  | "txt" => some .txt
  | _ => none

def showKind : QKind → String
  | .ip => "ip"
  | .a => "a"
  | .aaaa => "aaaa"
  | .txt => "txt"

def parseVerdict : Char → Option Verdict
  | 'o' => some .ok
  | 'f' => some .fail
  | 'r' => some .refused
  | 'x' => some .other
  | _ => none

def showVerdict : Verdict → String
  | .ok => "o"
  | .fail => "f"
  | .refused => "r"
  | .other => "x"

structure Scen where
  addr : Maddr
  innerDefault : Verdict
  innerSeq : List Verdict
  graph : List (Query × Answer)
  overrides : List (Nat × Answer)
  deriving Inhabited

/-- the resolver of a scenario: call-indexed overrides first, then the record graph, else error -/
def Scen.R (s : Scen) : Resolver := fun k q =>
  match s.overrides.reverse.lookup k with
  | some a => a
  | none =>
    match s.graph.reverse.lookup q with
    | some a => a
    | none => .err

def Scen.I (s : Scen) : Inner := fun k _ => s.innerSeq.getD k s.innerDefault

def parseInner (t : String) : Option (Verdict × List Verdict) :=
  match t.splitOn ":" with
  | ["inner", d, seq] =>
    match d.toList with
    | [c] =>
      match parseVerdict c, (if seq = "-" then some [] else seq.toList.mapM parseVerdict) with
      | some d, some l => some (d, l)
      | _, _ => none
    | _ => none
  | _ => none

def parseEntries : List String → Scen → Option Scen
  | [], s => some s
  | t :: ts, s =>
    match t.splitOn "=" with
    | [key, ans] =>
      match parseAnswer ans with
      | none => none
      | some a =>
        match key.toList with
        | '#' :: i =>
          match (String.ofList i).toNat? with
          | some i => parseEntries ts { s with overrides := s.overrides ++ [(i, a)] }
          | none => none
        | _ =>
          match key.splitOn ":" with
          | [k, n] =>
            match parseKind k, unhex n with
            | some k, some n => parseEntries ts { s with graph := s.graph ++ [(⟨k, n⟩, a)] }
            | _, _ => none
          | _ => none
    | _ => none

def parseOp : List String → Option Scen
  | "dial" :: addr :: inner :: rest =>
    match Maddr.parse addr, parseInner inner with
    | some a, some (d, l) => parseEntries rest ⟨a, d, l, [], []⟩
    | _, _ => none
  | _ => none

def showErr : DErr → String
  | .transport => "tr"
  | .resolve => "re"
  | .notSupported a => "ns:" ++ Maddr.render a
  | .tooMany => "tl"

def showEvent : Event → String
  | .lookup q => "L:" ++ showKind q.kind ++ ":" ++ hex q.name
  | .dial a v => "D:" ++ Maddr.render a ++ "=" ++ showVerdict v

def showOut (o : Result × List Event) : String :=
  let tr := if o.2.isEmpty then "~" else ";".intercalate (o.2.map showEvent)
  match o.1 with
  | .ok k => s!"ok:{k} - {tr}"
  | .dial errs => s!"dial {if errs.isEmpty then "-" else ",".intercalate (errs.map showErr)} {tr}"
  | .noRecords => s!"norecords - {tr}"
  | .panic => s!"panic - {tr}"

def parseEvent (t : String) : Option Event :=
  match t.toList with
  | 'L' :: ':' :: r =>
    match (String.ofList r).splitOn ":" with
    | [k, n] =>
      match parseKind k, unhex n with
      | some k, some n => some (.lookup ⟨k, n⟩)
      | _, _ => none
    | _ => none
  | 'D' :: ':' :: r =>
    match (String.ofList r).splitOn "=" with
    | [a, v] =>
      match Maddr.parse a, v.toList with
      | some a, [c] => (parseVerdict c).map (.dial a)
      | _, _ => none
    | _ => none
  | _ => none

def parseTrace (t : String) : Option (List Event) :=
  if t = "~" then some [] else (t.splitOn ";").mapM parseEvent

/-- the implementation's result class (the error list is not needed by the Spec) -/
def parseRes (t : String) : Option Result :=
  if t = "dial" then some (.dial [])
  else if t = "norecords" then some .noRecords
  else if t = "panic" then some .panic
  else if t.startsWith "ok:" then (dropS 3 t).toNat?.map .ok
  else none

def machine : Machine Unit Unit where
  init _ := ()
  specInit _ := ()
  op _ args :=
    match parseOp args with
    | some s => ((), showOut (doDial false s.R s.I s.addr))
    | none => ((), "bad-op")
  spec _ args outs :=
    match parseOp args, outs with
    | some s, [res, _errs, tr] =>
      match parseRes res, parseTrace tr with
      | some r, some tr =>
        match C23.spec s.addr r tr with
        | none => ((), "ok")
        | some k => ((), "FAIL:" ++ k)
      | _, _ => ((), "FAIL:unparsable")
    | _, _ => ((), "FAIL:unparsable")

end Driver.C23

def main : IO Unit := Driver.C23.machine.run
