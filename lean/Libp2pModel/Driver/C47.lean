import Libp2pModel.Model.C47
namespace Driver.C47
open _root_.C47 (Cfg Circuit Op Out Variant step spec DOp DOut dstep ledgerStep specLedger)
open Drv (Machine)

structure MSt where
  cfg : Cfg
  st : _root_.C47.St
  /-- split schedule (race cases): requests the handlers have reported but the behaviour has not
  seen yet (peer, connection, renewed) -/
  chan : List (Nat × Nat × Bool) := []
  /-- requests the behaviour has answered and the handlers have not completed yet
  (peer, connection, renewed, accepted) -/
  inflight : List (Nat × Nat × Bool × Bool) := []
  /-- reservations that expired with no request in flight: `ReservationTimedOut` queued -/
  tmo : List (Nat × Nat) := []
  expired : Bool := false

def parseCfg (cfg : List String) : Cfg :=
  -- [idx, class, nt, max_res, max_res_peer, max_circ, max_circ_peer, npeers]
  match cfg with
  | _ :: _ :: _ :: a :: b :: c :: d :: _ => ⟨a.toNat?.getD 0, b.toNat?.getD 0, c.toNat?.getD 0, d.toNat?.getD 0⟩
  | _ => ⟨0, 0, 0, 0⟩

def insertBy {α} (lt : α → α → Bool) (x : α) : List α → List α
  | [] => [x]
  | y :: ys => if lt x y then x :: y :: ys else y :: insertBy lt x ys

def sortBy {α} (lt : α → α → Bool) (l : List α) : List α := l.foldr (insertBy lt) []

def joinOr (l : List String) : String := if l.isEmpty then "-" else ",".intercalate l

def snap (st : _root_.C47.St) : String :=
  let cs := sortBy (fun (a b : Nat × Nat × Bool) => a.1 < b.1 || (a.1 == b.1 && a.2.1 < b.2.1)) st.conns
  let ks := sortBy (fun (a b : Circuit) => a.id < b.id) st.circuits
  "R=" ++ joinOr (cs.map fun e => s!"{e.1}.{e.2.1}.{if e.2.2 then 1 else 0}") ++
  " C=" ++ joinOr (ks.map fun k =>
    s!"{k.id}.{k.src}.{k.srcConn}.{k.dst}.{k.dstConn}.{if k.accepted then 1 else 0}")

def parseDots (s : String) : Option (List Nat) := (s.splitOn ".").mapM String.toNat?

def parseR (tok : String) : Option (List (Nat × Nat × Bool)) :=
  if !tok.startsWith "R=" then none else
  let body := (tok.drop 2).toString
  if body == "-" then some [] else
  (body.splitOn ",").mapM fun e =>
    match parseDots e with
    | some [p, c, a] => some (p, c, a == 1)
    | _ => none

def parseC (tok : String) : Option (List Circuit) :=
  if !tok.startsWith "C=" then none else
  let body := (tok.drop 2).toString
  if body == "-" then some [] else
  (body.splitOn ",").mapM fun e =>
    match parseDots e with
    | some [id, sp, sc, dp, dc, a] => some ⟨id, sp, sc, dp, dc, a == 1⟩
    | _ => none

def machine : Machine MSt (Cfg × List Circuit) where
  init cfg := { cfg := parseCfg cfg, st := _root_.C47.St.empty }
  specInit cfg := (parseCfg cfg, [])
  op m args :=
    let v := Variant.repaired
    let fin (st : _root_.C47.St) (o : String) : MSt × String := ({ m with st := st }, o ++ " " ++ snap st)
    let viaD (d : DOp) (r : Nat) : MSt × String :=
      match dstep v m.cfg m.st d with
      | (st', .ok) => fin st' "ok"
      | (st', .resAcc) => fin st' s!"acc{r}"
      | (st', .resDeny) => fin st' "deny:ResourceLimitExceeded"
      | (st', .circAcc _) => fin st' "acc"
      | (st', .circDenyLimit) => fin st' "deny:ResourceLimitExceeded"
      | (st', .circDenyNoRes) => fin st' "deny:NoReservation"
      | (st', .stopFail) => fin st' "stopfail"
      | (_, .panic) => (m, "panic")
      | (_, .badOracle) => (m, "bad-oracle")
    match args.map String.toNat? with
    | [_, some p, some c] =>
      match args.head? with
      | some "conn" => viaD (.conn p c) 0
      | some "closeconn" => viaD (.closeconn p c) 0
      | _ => (m, "bad-op")
    | [_, some p, some c, some r] =>
      if args.head? == some "rbegin" then
        ({ m with chan := m.chan ++ [(p, c, r == 1)] }, "sent " ++ snap m.st) else
      if args.head? != some "reserve" then (m, "bad-op") else
      viaD (.reserve p c (r == 1)) r
    | [_, some p, some c, some q, pick] =>
      if args.head? != some "circuit" then (m, "bad-op") else
      -- `fail`: oracle, the destination refused the STOP request after the relay had admitted the
      -- circuit; the admission itself is validated (any active connection of `q` serves)
      if args.getLast? == some "fail" then viaD (.circuitFail p c q) 0
      else viaD (.circuit p c q pick) 0
    | [_, some id] =>
      if args.head? != some "closecirc" then (m, "bad-op") else
      viaD (.closecirc id) 0
    | _ =>
      -- the split schedule of the race cases; the handler is the repaired one: a reservation with
      -- a request in flight is not reported as timed out
      match args with
      | ["rbegin", p, c, r] =>
        match p.toNat?, c.toNat?, r.toNat? with
        | some p, some c, some r => ({ m with chan := m.chan ++ [(p, c, r == 1)] }, "sent " ++ snap m.st)
        | _, _, _ => (m, "bad-op")
      | ["expire"] =>
        let busy (e : Nat × Nat × Bool) : Bool :=
          m.chan.any (fun q => q.1 == e.1 && q.2.1 == e.2.1) || m.inflight.any (fun q => q.1 == e.1 && q.2.1 == e.2.1)
        let t := (m.st.conns.filter (fun e => e.2.2 && !busy e)).map (fun e => (e.1, e.2.1))
        ({ m with tmo := m.tmo ++ t, expired := true }, "ok " ++ snap m.st)
      | ["rdeliver"] =>
        let (st1, infl) := m.chan.foldl (fun (acc : _root_.C47.St × List (Nat × Nat × Bool × Bool)) q =>
          match step v m.cfg acc.1 (.resReq q.1 q.2.1 q.2.2 true) with
          | (st', .resAccept) => (st', acc.2 ++ [(q.1, q.2.1, q.2.2, true)])
          | (st', _) => (st', acc.2 ++ [(q.1, q.2.1, q.2.2, false)])) (m.st, m.inflight)
        let st2 := m.tmo.foldl (fun st q => (step v m.cfg st (.resTimedOut q.1 q.2)).1) st1
        ({ m with st := st2, chan := [], inflight := infl, tmo := [] },
         "+".intercalate ("delivered" :: m.tmo.map (fun _ => "timedout")) ++ " " ++ snap st2)
      | ["rend"] =>
        let (st1, outs) := m.inflight.foldl (fun (acc : _root_.C47.St × List String) q =>
          if q.2.2.2 then ((step v m.cfg acc.1 (.resAccepted q.1 q.2.1)).1, acc.2 ++ [s!"acc{if q.2.2.1 then 1 else 0}"])
          else if m.expired && q.2.2.1 then
            -- a denied renewal of an expired reservation: the timeout is reported after the denial
            ((step v m.cfg acc.1 (.resTimedOut q.1 q.2.1)).1, acc.2 ++ ["deny", "timedout"])
          else (acc.1, acc.2 ++ ["deny"])) (m.st, [])
        let sorted := sortBy (fun (a b : String) => a < b) outs
        ({ m with st := st1, inflight := [] },
         (if sorted.isEmpty then "none" else "+".intercalate sorted) ++ " " ++ snap st1)
      | _ => (m, "bad-op")
  spec τ args outs :=
    match outs with
    | "panic" :: _ => (τ, "FAIL:panic")
    | [o, r, c] =>
      match parseR r, parseC c with
      | some conns, some circs =>
        -- part 2: the ledger of circuits, kept from what the relay did (not from its tracker)
        let nat (i : Nat) : Nat := ((args.getD i "").toNat?).getD 0
        let (ledger, lv) : List Circuit × String :=
          match args.head? with
          | some "circuit" =>
            if o == "acc" then
              let (p, cc, q) := (nat 1, nat 2, nat 3)
              -- the circuit this request created, with the destination connection recorded at acceptance
              match circs.find? (fun k => k.src == p && k.srcConn == cc && k.dst == q
                  && !τ.2.any (fun l => l.id == k.id)) with
              | some k => (ledgerStep τ.2 (.circuit p cc q (some k.dstConn)) (.circAcc k.id), "ok")
              | none => (τ.2, "FAIL:circ_ledger")
            else (τ.2, "ok")
          | some "closecirc" => if o == "ok" then (ledgerStep τ.2 (.closecirc (nat 1)) .ok, "ok") else (τ.2, "ok")
          | some "closeconn" => if o == "ok" then (ledgerStep τ.2 (.closeconn (nat 1) (nat 2)) .ok, "ok") else (τ.2, "ok")
          | _ => (τ.2, "ok")
        let v1 := spec τ.1 conns circs
        let v2 := specLedger τ.1 ledger
        ((τ.1, ledger), if v1 != "ok" then v1 else if lv != "ok" then lv else v2)
      | _, _ => (τ, "FAIL:unparsable")
    | _ => (τ, "FAIL:unparsable")

end Driver.C47

def main : IO Unit := Driver.C47.machine.run
