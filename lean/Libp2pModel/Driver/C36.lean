import Libp2pModel.Model.C36
namespace Driver.C36
open Drv
open _root_.C36

/-- prefix notation: `all` | `wl <topics>` | `mc <maxTopics> <maxPerRequest> F` | `cb F F` -/
def parseF : Nat → List String → Option (Filter × List String)
  | 0, _ => none
  | _ + 1, "all" :: r => some (.allowAll, r)
  | _ + 1, "wl" :: l :: r => (natList l).map fun ts => (.pred (fun t => ts.contains t), r)
  | fuel + 1, "mc" :: a :: b :: r =>
    match a.toNat?, b.toNat?, parseF fuel r with
    | some a, some b, some (f, r') => some (.maxCount f a b, r')
    | _, _, _ => none
  | fuel + 1, "cb" :: r =>
    match parseF fuel r with
    | some (f1, r1) =>
      match parseF fuel r1 with
      | some (f2, r2) => some (.combined f1 f2, r2)
      | none => none
    | none => none
  | _ + 1, _ => none

def filterOf (cfg : List String) : Filter :=
  match cfg.find? (·.startsWith "F=") with
  | some t =>
    match parseF 50 ((t.drop 2).toString.splitOn "/") with
    | some (f, _) => f
    | none => .allowAll
  | none => .allowAll

def parseSub (s : String) : Option Sub :=
  match s.toList with
  | '+' :: r => (String.ofList r).toNat?.map (⟨true, ·⟩)
  | '-' :: r => (String.ofList r).toNat?.map (⟨false, ·⟩)
  | _ => none

def parseSubs (s : String) : Option (List Sub) :=
  if s = "-" then some [] else (s.splitOn ",").mapM parseSub

def subLe (a b : Sub) : Bool := a.topic < b.topic || (a.topic == b.topic && (!a.subscribe || b.subscribe))

def showSub (s : Sub) : String := (if s.subscribe then "+" else "-") ++ toString s.topic

def showSubs (l : List Sub) : String :=
  if l.isEmpty then "-" else ",".intercalate ((l.mergeSort subLe).map showSub)

def showTopics (l : List Nat) : String := showNatList (l.mergeSort (· ≤ ·))

def showOut (o : Out) (topics : List Nat) : String :=
  (match o.verdict with | none => "err" | some r => "ok:" ++ showSubs r) ++ " " ++ showTopics topics ++ " " ++
    showSubs o.events

structure SpecSt where
  F : Filter
  topics : State     -- per peer: topics as last reported by the implementation
  grafted : State    -- per peer: topics that entered through a GRAFT

def machine : Machine (Filter × State) SpecSt where
  init cfg := (filterOf cfg, [])
  specInit cfg := ⟨filterOf cfg, [], []⟩
  op st args :=
    match args with
    | ["subs", p, l] =>
      match p.toNat?, parseSubs l with
      | some p, some l =>
        let (st', o) := step st.1 st.2 (.subs p l)
        ((st.1, st'), showOut o (topicsOf st' p))
      | _, _ => (st, "bad-op")
    | ["graft", p, t] =>
      match p.toNat?, t.toNat? with
      | some p, some t =>
        let (st', o) := step st.1 st.2 (.graft p t)
        ((st.1, st'), showOut o (topicsOf st' p))
      | _, _ => (st, "bad-op")
    | _ => (st, "bad-op")
  spec s args outs :=
    match args, outs with
    | ["subs", p, l], [verdict, topics, events] =>
      match p.toNat?, parseSubs l, natList topics, parseSubs events with
      | some p, some l, some after, some ev =>
        let v := specSubs s.F l.length (topicsOf s.topics p) after (topicsOf s.grafted p) (verdict == "err") ev.length
        ({ s with topics := setTopics s.topics p after }, v)
      | _, _, _, _ => (s, "FAIL:unparsable")
    | ["graft", p, t], [_, topics, _] =>
      match p.toNat?, t.toNat?, natList topics with
      | some p, some t, some after =>
        ({ s with topics := setTopics s.topics p after,
                  grafted := setTopics s.grafted p (setInsert (topicsOf s.grafted p) t) }, "ok")
      | _, _, _ => (s, "FAIL:unparsable")
    | _, _ => (s, "FAIL:unparsable")

end Driver.C36

def main : IO Unit := Driver.C36.machine.run
