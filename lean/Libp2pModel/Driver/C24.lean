import Libp2pModel.Model.C26Drv
import Libp2pModel.Model.C24
/-!
Line protocol of C24.  Two kinds of cases, told apart by the `mux=` token of the case line:

* `mux=mplex1 ms=.. mb=.. beh=.. split=..` — one real mplex endpoint against a scripted remote:
  exactly the protocol of `Model/C26Drv.lean` (model = `C26.step`, exact prediction);
* `mux=mplex|yamux …` — two real endpoints of the same muxer joined by an in-memory connection with
  scripted chunking; the model makes no exact prediction (`-`), the outputs are judged by the
  end-to-end Spec `C24.specStep`:
```
op open <A|B>                 impl opened <name> | pending | err:..        name = a<k> / b<k>
op accept <A|B>               impl accepted <name> | accepted ? | pending | err:..
op write <name> <A|B> <bytes> impl wrote:<n> | pending | err:..
op read <name> <A|B> <n>      impl data:<bytes> | eof | pending | err:..
op flush|close <name> <A|B>   impl ok | pending | err:..
op link <AB|BA> <0|1> | chunk <n> | finish      impl ok
```
-/
namespace Driver.C24
open Drv _root_.C24

def parseSide : String → Option Side
  | "A" => some .A
  | "B" => some .B
  | _ => none

def parseName (s : String) : Option Name :=
  match s.toList with
  | 'a' :: k => (String.ofList k).toNat?.map fun k => ⟨.A, k⟩
  | 'b' :: k => (String.ofList k).toNat?.map fun k => ⟨.B, k⟩
  | _ => none

/-- the observable event of an (op, impl) pair; `none` = unparsable -/
def evOf (args outs : List String) : Option Ev :=
  match args, outs with
  | ["open", _], ["opened", n] => (parseName n).map .opened
  | ["open", _], _ => some .other
  | ["accept", s], ["accepted", n] => (parseSide s).map fun s => .accepted s (parseName n)
  | ["accept", _], _ => some .other
  | ["write", n, s, b], [r] =>
    match parseName n, parseSide s, _root_.C25.Tok.parseBytes b, r.splitOn ":" with
    | some n, some s, some b, ["wrote", k] => k.toNat?.map fun k => .wrote n s (b.take k)
    | some _, some _, some _, _ => some .other
    | _, _, _, _ => none
  | ["close", n, s], [r] =>
    match parseName n, parseSide s with
    | some n, some s => some (if r = "ok" || r = "pending" then .closed n s else .other)
    | _, _ => none
  | ["read", n, s, _], [r] =>
    match parseName n, parseSide s with
    | some n, some s =>
      if r = "eof" then some (.eof n s)
      else match r.splitOn ":" with
        | ["data", b] => (_root_.C25.Tok.parseBytes b).map fun b => .data n s b
        | _ => some .other
    | _, _ => none
  | ["finish"], _ => some .finish
  | _, _ => some .other

inductive MSt
  | one (d : _root_.C26.Drv1.DSt)
  | pair
  deriving Inhabited

inductive TSt
  | one (t : _root_.C26.SpecSt)
  | pair (t : SpecSt)
  deriving Inhabited

def isOne (toks : List String) : Bool := toks.contains "mux=mplex1"

def machine : Machine MSt TSt where
  init toks := if isOne toks then .one (_root_.C26.Drv1.machine.init toks) else .pair
  specInit toks := if isOne toks then .one (_root_.C26.Drv1.machine.specInit toks) else .pair {}
  op m args :=
    match m with
    | .one d => let r := _root_.C26.Drv1.machine.op d args; (.one r.1, r.2)
    | .pair => (.pair, "-")
  spec t args outs :=
    match t with
    | .one t1 => let r := _root_.C26.Drv1.machine.spec t1 args outs; (.one r.1, r.2)
    | .pair t2 =>
      if outs.head? = some "panic" then (.pair t2, "FAIL:panic") else
      match evOf args outs with
      | some ev => let r := specStep t2 ev; (.pair r.1, if r.2 = "ok" then "ok" else "FAIL:" ++ r.2)
      | none => (.pair t2, "FAIL:unparsable")

end Driver.C24

def main : IO Unit := Driver.C24.machine.run
