import Libp2pModel.Model.C26Drv
/-! C26 driver: see `Model/C26Drv.lean` for the line protocol. -/
namespace Driver.C26
def machine := _root_.C26.Drv1.machine
end Driver.C26

def main : IO Unit := Driver.C26.machine.run
