import Libp2pModel.Common.Drv
import Libp2pModel.Model.C44
namespace Driver.C44
open Drv
open _root_.C44

/-! token syntax (see `harness/h_kad_c/src/c44.rs`):
message fields `|`, list of peers `,` (`-` empty), peer/record fields `+`, addresses `;` (`~` empty) -/

def kv (key : String) (toks : List String) : Option String :=
  (toks.find? (fun t => t.startsWith (key ++ "="))).map (fun t => (t.drop (key.length + 1)).toString)

def parseRel (now : Nat) (s : String) : Option (Option Nat) :=
  if s = "none" then some none
  else if s.startsWith "in:" then (s.drop 3).toString.toNat?.map (fun d => some (now + d))
  else if s.startsWith "ago:" then (s.drop 4).toString.toNat?.map (fun d => some (now - d))
  else none

def showRel (now : Nat) : Option Nat → String
  | none => "none"
  | some t => if t > now then s!"in:{t - now}" else s!"ago:{now - t}"

def parseConn (s : String) : Option ConnTy := s.toInt?.bind ConnTy.ofInt

def showConn (c : ConnTy) : String := toString c.toInt

/-! ### Kademlia level -/

def parsePeer (s : String) : Option KadPeer :=
  match s.splitOn "+" with
  | [id, c, addrs] =>
    match unhex id, parseConn c, Maddr.parseList addrs with
    | some id, some c, some a => some ⟨id, c, a⟩
    | _, _, _ => none
  | _ => none

def showPeer (p : KadPeer) : String :=
  s!"{hex p.nodeId}+{showConn p.conn}+{Maddr.renderList p.addrs}"

def parsePeers (s : String) : Option (List KadPeer) :=
  if s = "-" then some [] else (s.splitOn ",").mapM parsePeer

def showPeers (l : List KadPeer) : String :=
  if l.isEmpty then "-" else ",".intercalate (l.map showPeer)

def parseRecord (now : Nat) (s : String) : Option Record :=
  match s.splitOn "+" with
  | [k, v, p, e] =>
    match unhex k, unhex v, unhex p, parseRel now e with
    | some k, some v, some p, some e => some ⟨k, v, if p.isEmpty then none else some p, e⟩
    | _, _, _, _ => none
  | _ => none

def showRecord (now : Nat) (r : Record) : String :=
  s!"{hex r.key}+{hex r.value}+{hex (r.publisher.getD [])}+{showRel now r.expires}"

def parseReq (now : Nat) (s : String) : Option Req :=
  match s.splitOn "|" with
  | ["ping"] => some .ping
  | ["findnode", k] => (unhex k).map .findNode
  | ["getprov", k] => (unhex k).map .getProviders
  | ["getval", k] => (unhex k).map .getValue
  | ["addprov", k, p] =>
    match unhex k, parsePeer p with
    | some k, some p => some (.addProvider k p)
    | _, _ => none
  | ["putval", r] => (parseRecord now r).map .putValue
  | _ => none

def showReq (now : Nat) : Req → String
  | .ping => "ping"
  | .findNode k => s!"findnode|{hex k}"
  | .getProviders k => s!"getprov|{hex k}"
  | .getValue k => s!"getval|{hex k}"
  | .addProvider k p => s!"addprov|{hex k}|{showPeer p}"
  | .putValue r => s!"putval|{showRecord now r}"

def parseResp (now : Nat) (s : String) : Option Resp :=
  match s.splitOn "|" with
  | ["pong"] => some .pong
  | ["findnode", c] => (parsePeers c).map .findNode
  | ["getprov", c, p] =>
    match parsePeers c, parsePeers p with
    | some c, some p => some (.getProviders c p)
    | _, _ => none
  | ["getval", r, c] =>
    match (if r = "nil" then some none else (parseRecord now r).map some), parsePeers c with
    | some r, some c => some (.getValue r c)
    | _, _ => none
  | ["putval", k, v] =>
    match unhex k, unhex v with
    | some k, some v => some (.putValue k v)
    | _, _ => none
  | _ => none

def showResp (now : Nat) : Resp → String
  | .pong => "pong"
  | .findNode c => s!"findnode|{showPeers c}"
  | .getProviders c p => s!"getprov|{showPeers c}|{showPeers p}"
  | .getValue r c => s!"getval|{match r with | none => "nil" | some r => showRecord now r}|{showPeers c}"
  | .putValue k v => s!"putval|{hex k}|{hex v}"

/-! ### proto level -/

def parsePId (s : String) : Option PId :=
  if s.startsWith "v" then (unhex (s.drop 1).toString).map (⟨·, true⟩)
  else if s.startsWith "x" then (unhex (s.drop 1).toString).map (⟨·, false⟩)
  else none

def showPId (p : PId) : String := (if p.valid then "v" else "x") ++ hex p.bytes

def parsePAddr (s : String) : Option PAddr :=
  if s.startsWith "m" then (Maddr.parse (s.drop 1).toString).map .good
  else if s.startsWith "x" then (unhex (s.drop 1).toString).map .bad
  else none

def showPAddr : PAddr → String
  | .good a => "m" ++ Maddr.render a
  | .bad b => "x" ++ hex b

def parsePPeer (s : String) : Option PPeer :=
  match s.splitOn "+" with
  | [id, c, addrs] =>
    match parsePId id, c.toInt?, (if addrs = "~" then some [] else (addrs.splitOn ";").mapM parsePAddr) with
    | some id, some c, some a => some ⟨id, c, a⟩
    | _, _, _ => none
  | _ => none

def showPPeer (p : PPeer) : String :=
  s!"{showPId p.id}+{p.conn}+{if p.addrs.isEmpty then "~" else ";".intercalate (p.addrs.map showPAddr)}"

def parsePPeers (s : String) : Option (List PPeer) :=
  if s = "-" then some [] else (s.splitOn ",").mapM parsePPeer

def showPPeers (l : List PPeer) : String :=
  if l.isEmpty then "-" else ",".intercalate (l.map showPPeer)

def parsePRecord (s : String) : Option (Option PRecord) :=
  if s = "nil" then some none else
  match s.splitOn "+" with
  | [k, v, p, ttl, tr] =>
    match unhex k, unhex v, parsePId p, ttl.toNat?, unhex tr with
    | some k, some v, some p, some ttl, some tr => some (some ⟨k, v, p, ttl, tr⟩)
    | _, _, _, _, _ => none
  | _ => none

def showPRecord : Option PRecord → String
  | none => "nil"
  | some r => s!"{hex r.key}+{hex r.value}+{showPId r.publisher}+{r.ttl}+{hex r.timeReceived}"

def parsePMsg (s : String) : Option PMsg :=
  match s.splitOn "|" with
  | [ty, cl, k, r, c, p] =>
    match ty.toInt?, cl.toInt?, unhex k, parsePRecord r, parsePPeers c, parsePPeers p with
    | some ty, some cl, some k, some r, some c, some p => some ⟨ty, cl, k, r, c, p⟩
    | _, _, _, _, _, _ => none
  | _ => none

def showPMsg (m : PMsg) : String :=
  s!"{m.ty}|{m.cl}|{hex m.key}|{showPRecord m.record}|{showPPeers m.closer}|{showPPeers m.provider}"

def showErr : Err → String
  | .unknownType => "err:unknown_type"
  | .badPublisher => "err:bad_publisher"
  | .noValidPeer => "err:no_valid_peer"
  | .noRecord => "err:no_record"
  | .unexpectedAddProvider => "err:unexpected_add_provider"

def parseErr : String → Option Err
  | "err:unknown_type" => some .unknownType
  | "err:bad_publisher" => some .badPublisher
  | "err:no_valid_peer" => some .noValidPeer
  | "err:no_record" => some .noRecord
  | "err:unexpected_add_provider" => some .unexpectedAddProvider
  | _ => none

def showResReq (now : Nat) : Except Err Req → String
  | .ok m => "ok " ++ showReq now m
  | .error e => showErr e

def showResResp (now : Nat) : Except Err Resp → String
  | .ok m => "ok " ++ showResp now m
  | .error e => showErr e

/-- the result tokens of an impl line -/
def parseResReq (now : Nat) : List String → Option (Res Req)
  | ["ok", m] => (parseReq now m).map .ok
  | [e] => (parseErr e).map .err
  | "panic" :: _ => some .panic
  | _ => none

def parseResResp (now : Nat) : List String → Option (Res Resp)
  | ["ok", m] => (parseResp now m).map .ok
  | [e] => (parseErr e).map .err
  | "panic" :: _ => some .panic
  | _ => none

structure St where
  now : Nat := 0
  deriving Inhabited

def initSt (cfg : List String) : St := { now := ((kv "now" cfg).bind String.toNat?).getD 0 }

def modelOp (st : St) (args : List String) : St × String :=
  let now := st.now
  match args with
  | ["req", m] =>
    match parseReq now m with
    | some m =>
      let p := reqToProto now m
      (st, s!"{showPMsg p} rt=1 {showResReq now (protoToReq now p)}")
    | none => (st, "bad-op")
  | ["resp", m] =>
    match parseResp now m with
    | some m =>
      let p := respToProto now m
      (st, s!"{showPMsg p} rt=1 {showResResp now (protoToResp now p)}")
    | none => (st, "bad-op")
  | ["dreq", p] =>
    match parsePMsg p with
    | some p => (st, showResReq now (protoToReq now p))
    | none => (st, "bad-op")
  | ["dresp", p] =>
    match parsePMsg p with
    | some p => (st, showResResp now (protoToResp now p))
    | none => (st, "bad-op")
  | ["bytes", _, _] => (st, "-")
  | _ => (st, "bad-op")

def specOp (st : St) (args outs : List String) : St × String :=
  let now := st.now
  if outs.head? == some "panic" then (st, "FAIL:panic") else
  match args with
  | ["req", m] =>
    match parseReq now m, outs with
    | some m, _ :: _ :: res =>
      match parseResReq now res with
      | some r => (st, specReq now m r)
      | none => (st, "FAIL:unparsable")
    | _, _ => (st, "FAIL:unparsable")
  | ["resp", m] =>
    match parseResp now m, outs with
    | some m, _ :: _ :: res =>
      match parseResResp now res with
      | some r => (st, specResp now m r)
      | none => (st, "FAIL:unparsable")
    | _, _ => (st, "FAIL:unparsable")
  | ["dreq", _] =>
    match parseResReq now outs with
    | some r => (st, specDecode r)
    | none => (st, "FAIL:unparsable")
  | ["dresp", _] =>
    match parseResResp now outs with
    | some r => (st, specDecode r)
    | none => (st, "FAIL:unparsable")
  | ["bytes", dir, _] =>
    -- `need` (incomplete frame) / `ferr` (framing or protobuf error) / `<pmsg> <result…>`
    match outs with
    | ["need"] => (st, "ok")
    | ["ferr"] => (st, "ok")
    | p :: res =>
      match parsePMsg p with
      | none => (st, "FAIL:unparsable")
      | some p =>
        -- the conversion of whatever protobuf message the bytes contained must agree with the model
        if dir = "req" then
          (st, if unwords res = showResReq now (protoToReq now p) then "ok" else "FAIL:decode_mismatch")
        else
          (st, if unwords res = showResResp now (protoToResp now p) then "ok" else "FAIL:decode_mismatch")
    | _ => (st, "FAIL:unparsable")
  | _ => (st, "FAIL:unparsable")

def machine : Machine St St where
  init := initSt
  specInit := initSt
  op := modelOp
  spec := specOp

end Driver.C44

def main : IO Unit := Driver.C44.machine.run
