import Libp2pModel.Model.C48
namespace Driver.C48
open _root_.C48 (Cfg Out Mon perIp perPeer specStep ipKey)
open Drv (Machine)

/-- model state of one case: kind, config, limiter A (and B, the per-IP twin fed other peer ids);
`dead` after a panic -/
structure MSt where
  ip : Bool
  c : Cfg
  a : _root_.C48.St
  b : _root_.C48.St
  dead : Bool

structure SSt where
  ip : Bool
  c : Cfg
  mon : Mon

def parseCfg (cfg : List String) : Bool × Cfg :=
  -- cfg = [idx, class, nt=.., kind, limit, interval]
  match cfg with
  | [_, _, _, kind, l, i] => (kind == "ip", ⟨l.toNat?.getD 1, i.toNat?.getD 1⟩)
  | _ => (false, ⟨1, 1⟩)

def showOut : Out → String
  | .accept true => "true"
  | .accept false => "false"
  | .panic => "panic"

def parseOut : String → Option Out
  | "true" => some (.accept true)
  | "false" => some (.accept false)
  | "panic" => some .panic
  | _ => none

def machine : Machine MSt SSt where
  init cfg := let (ip, c) := parseCfg cfg; ⟨ip, c, _root_.C48.St.empty, _root_.C48.St.empty, false⟩
  specInit cfg := let (ip, c) := parseCfg cfg; ⟨ip, c, Mon.empty⟩
  op st args :=
    match args with
    | ["req", p, p2, addr, now] =>
      match p.toNat?, p2.toNat?, Maddr.parse addr, now.toNat? with
      | some p, some p2, some addr, some now =>
        if st.dead then (st, "-") else
        if st.ip then
          let (a, ra) := perIp st.c st.a p addr now
          let (b, rb) := perIp st.c st.b p2 addr now
          if ra == .panic || rb == .panic then ({ st with dead := true }, "panic")
          else ({ st with a := a, b := b }, showOut ra ++ " " ++ showOut rb)
        else
          let (a, ra) := perPeer st.c st.a p addr now
          ({ st with a := a, dead := ra == .panic }, showOut ra)
      | _, _, _, _ => (st, "bad-op")
    | _ => (st, "bad-op")
  spec st args outs :=
    match args with
    | ["req", p, _, addr, now] =>
      match p.toNat?, Maddr.parse addr, now.toNat? with
      | some p, some addr, some now =>
        let key := if st.ip then ipKey addr else some p
        match outs with
        | "panic" :: _ => (st, "FAIL:panic")
        | [r] =>
          if st.ip then (st, "FAIL:unparsable") else
          match parseOut r with
          | some o => let (m, v) := specStep st.c st.mon key now o; ({ st with mon := m }, v)
          | none => (st, "FAIL:unparsable")
        | [ra, rb] =>
          if !st.ip then (st, "FAIL:unparsable") else
          match parseOut ra, parseOut rb with
          | some oa, some ob =>
            -- the per-IP decision may not depend on the peer id: the twin fed other peer ids agrees
            if oa != ob then (st, "FAIL:peer_dependence") else
            let (m, v) := specStep st.c st.mon key now oa; ({ st with mon := m }, v)
          | _, _ => (st, "FAIL:unparsable")
        | _ => (st, "FAIL:unparsable")
      | _, _, _ => (st, "FAIL:unparsable")
    | _ => (st, "FAIL:unparsable")

end Driver.C48

def main : IO Unit := Driver.C48.machine.run
