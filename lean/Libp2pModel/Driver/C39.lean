import Libp2pModel.Common.Drv
import Libp2pModel.Model.C39
import Libp2pModel.Model.C39_Fixed
import Libp2pModel.Model.C39_Disjoint
namespace Driver.C39
open Drv

/-! case header: `kind=closest|disjoint par= nr= to= k= n= known=<list>` or `kind=fixed par= peers=<list>`
ops      `next <now>` · `succ <p> <closer>` · `fail <p>` · `finish` · `finishpaths <list>` · `result`
impl     closest: `<out> <num_waiting> <waiting()> <is_finished> <result>`; fixed/disjoint: `<out> <is_finished>`,
         and `res <list>` for the final `result` op -/

def showOut : _root_.C39.Out → String
  | .waiting (some p) => "W:" ++ toString p
  | .waiting none => "W:none"
  | .atCapacity => "CAP"
  | .finished => "FIN"
  | .bool true => "true"
  | .bool false => "false"
  | .unit => "unit"
  | .panic => "panic"

def parseOut (s : String) : Option _root_.C39.Out :=
  if s = "W:none" then some (.waiting none)
  else if s = "CAP" then some .atCapacity
  else if s = "FIN" then some .finished
  else if s = "true" then some (.bool true)
  else if s = "false" then some (.bool false)
  else if s = "unit" then some .unit
  else if s = "panic" then some .panic
  else match s.splitOn ":" with
    | ["W", p] => p.toNat?.map (fun p => .waiting (some p))
    | _ => none

def showB (b : Bool) : String := if b then "1" else "0"
def parseB (s : String) : Option Bool := if s = "1" then some true else if s = "0" then some false else none

def cfgStr (cfg : List String) (name : String) : Option String :=
  (cfg.filterMap (fun t => match t.splitOn "=" with
      | [n, v] => if n = name then some v else none
      | _ => none)).head?

def cfgNat (cfg : List String) (name : String) : Nat := ((cfgStr cfg name).bind String.toNat?).getD 0
def cfgList (cfg : List String) (name : String) : List Nat := ((cfgStr cfg name).bind natList).getD []

def parseCfg (cfg : List String) : _root_.C39.Cfg := ⟨cfgNat cfg "par", cfgNat cfg "nr", cfgNat cfg "to"⟩

inductive M
  | closest (s : _root_.C39.Iter)
  | fixed (s : _root_.C39.Fixed.Iter)
  | disjoint (s : _root_.C39.Disjoint.DIter)
  | bad

inductive T
  | closest (m : _root_.C39.Mon)
  | fixed (m : _root_.C39.Fixed.Mon)
  | disjoint (m : _root_.C39.Disjoint.Mon)
  | bad

def parseClosestOp : List String → Option _root_.C39.Op
  | ["next", now] => now.toNat?.map .next
  | ["succ", p, cl] =>
    match p.toNat?, natList cl with
    | some p, some cl => some (.success p cl)
    | _, _ => none
  | ["fail", p] => p.toNat?.map .failure
  | ["finish"] => some .finish
  | _ => none

def parseFixedOp : List String → Option _root_.C39.Fixed.Op
  | ["next"] => some .next
  | ["succ", p] => p.toNat?.map .success
  | ["fail", p] => p.toNat?.map .failure
  | ["finish"] => some .finish
  | _ => none

def parseDisjointOp : List String → Option _root_.C39.Disjoint.Op
  | ["next", now] => now.toNat?.map .next
  | ["succ", p, cl] =>
    match p.toNat?, natList cl with
    | some p, some cl => some (.success p cl)
    | _, _ => none
  | ["fail", p] => p.toNat?.map .failure
  | ["finishpaths", ps] => (natList ps).map .finishPaths
  | ["finish"] => some .finish
  | _ => none

def showObs (o : _root_.C39.Obs) : String :=
  unwords [toString o.nw, showNatList o.waiting, showB o.fin, showNatList o.result]

def parseObs : List String → Option _root_.C39.Obs
  | [nw, w, f, r] =>
    match nw.toNat?, natList w, parseB f, natList r with
    | some nw, some w, some f, some r => some ⟨nw, w, f, r⟩
    | _, _, _, _ => none
  | _ => none

def sortNat (l : List Nat) : List Nat := l.mergeSort (fun a b => a ≤ b)

def verdict : Option String → String
  | none => "ok"
  | some k => "FAIL:" ++ k

def machine : Machine M T where
  init cfg :=
    match cfgStr cfg "kind" with
    | some "closest" => .closest (_root_.C39.init (parseCfg cfg) (cfgNat cfg "k") (cfgList cfg "known"))
    | some "fixed" => .fixed (_root_.C39.Fixed.init (cfgList cfg "peers") (cfgNat cfg "par"))
    | some "disjoint" => .disjoint (_root_.C39.Disjoint.init (parseCfg cfg) (cfgNat cfg "k") (cfgList cfg "known"))
    | _ => .bad
  specInit cfg :=
    match cfgStr cfg "kind" with
    | some "closest" => .closest (_root_.C39.monInit (parseCfg cfg) (cfgNat cfg "k") (cfgNat cfg "n") (cfgList cfg "known"))
    | some "fixed" => .fixed (_root_.C39.Fixed.monInit (cfgList cfg "peers") (cfgNat cfg "par"))
    | some "disjoint" => .disjoint (_root_.C39.Disjoint.monInit (parseCfg cfg) (cfgNat cfg "k") (cfgNat cfg "n") (cfgList cfg "known"))
    | _ => .bad
  op st args :=
    match st with
    | .closest s =>
      match parseClosestOp args with
      | some op =>
        let r := _root_.C39.step s op
        (.closest r.1, showOut r.2 ++ " " ++ showObs (_root_.C39.observe r.1))
      | none => (st, "bad-op")
    | .fixed s =>
      if args = ["result"] then (st, "res " ++ showNatList (sortNat (_root_.C39.Fixed.result s)))
      else match parseFixedOp args with
        | some op =>
          let r := _root_.C39.Fixed.step s op
          (.fixed r.1, showOut r.2 ++ " " ++ showB (_root_.C39.Fixed.isFinished r.1))
        | none => (st, "bad-op")
    | .disjoint s =>
      if args = ["result"] then (st, "res " ++ showNatList (_root_.C39.Disjoint.result s))
      else match parseDisjointOp args with
        | some op =>
          let r := _root_.C39.Disjoint.step s op
          (.disjoint r.1, showOut r.2 ++ " " ++ showB (_root_.C39.Disjoint.isFinished r.1))
        | none => (st, "bad-op")
    | .bad => (st, "bad-case")
  spec t args outs :=
    -- a panic of the real code is an output, and a violation (the iterators never panic)
    if outs.head? = some "panic" then (t, "FAIL:panic") else
    match t with
    | .closest m =>
      match parseClosestOp args, outs with
      | some op, o :: obs =>
        match parseOut o, parseObs obs with
        | some out, some ob =>
          let r := _root_.C39.monStep m op out ob
          (.closest r.1, verdict r.2)
        | _, _ => (t, "FAIL:unparsable")
      | _, _ => (t, "FAIL:unparsable")
    | .fixed m =>
      if args = ["result"] then
        match outs with
        | ["res", l] =>
          match natList l with
          | some l => (t, verdict (_root_.C39.Fixed.monResult m l))
          | none => (t, "FAIL:unparsable")
        | _ => (t, "FAIL:unparsable")
      else match parseFixedOp args, outs with
        | some op, [o, f] =>
          match parseOut o, parseB f with
          | some out, some f =>
            let r := _root_.C39.Fixed.monStep m op out f
            (.fixed r.1, verdict r.2)
          | _, _ => (t, "FAIL:unparsable")
        | _, _ => (t, "FAIL:unparsable")
    | .disjoint m =>
      if args = ["result"] then
        match outs with
        | ["res", l] =>
          match natList l with
          | some l => (t, verdict (_root_.C39.Disjoint.monResult m l))
          | none => (t, "FAIL:unparsable")
        | _ => (t, "FAIL:unparsable")
      else match parseDisjointOp args, outs with
        | some op, [o, f] =>
          match parseOut o, parseB f with
          | some out, some f =>
            let r := _root_.C39.Disjoint.monStep m op out f
            (.disjoint r.1, verdict r.2)
          | _, _ => (t, "FAIL:unparsable")
        | _, _ => (t, "FAIL:unparsable")
    | .bad => (t, "FAIL:bad-case")

end Driver.C39

def main : IO Unit := Driver.C39.machine.run
