import Libp2pModel.Common.Drv
import Libp2pModel.Model.C43
namespace Driver.C43
open Drv
open _root_.C43

def kv (key : String) (toks : List String) : Option String :=
  (toks.find? (fun t => t.startsWith (key ++ "="))).map (fun t => (t.drop (key.length + 1)).toString)

def kvNat (key : String) (toks : List String) (d : Nat) : Nat := ((kv key toks).bind String.toNat?).getD d

def parseCfg (t : List String) : Cfg :=
  { localId := kvNat "local" t 0, filter := kv "filt" t == some "1",
    maxRecords := kvNat "maxrec" t 1024, maxValueBytes := kvNat "maxval" t 66560,
    maxProvidersPerKey := kvNat "maxppk" t 20, maxProvidedKeys := kvNat "maxpk" t 1024 }

/-! tokens -/

def parsePub (s : String) : Option (Option Nat) := if s = "n" then some none else s.toNat?.map some
def showPub : Option Nat → String
  | none => "n"
  | some p => toString p

def parseAddrs (s : String) : Option (List Nat) :=
  if s = "~" then some [] else (s.splitOn ".").mapM String.toNat?
def showAddrs (l : List Nat) : String := if l.isEmpty then "~" else ".".intercalate (l.map toString)

def showRec (r : Rec) : String := s!"{r.key}:{hex r.value}:{showPub r.publisher}"
def parseRec (s : String) : Option Rec :=
  match s.splitOn ":" with
  | [k, v, p] =>
    match k.toNat?, unhex v, parsePub p with
    | some k, some v, some p => some ⟨k, v, p⟩
    | _, _, _ => none
  | _ => none

def showProvIn (p : Prov) : String := s!"{p.provider}/{showAddrs p.addrs}"
def parseProvIn (key : Nat) (s : String) : Option Prov :=
  match s.splitOn "/" with
  | [p, a] =>
    match p.toNat?, parseAddrs a with
    | some p, some a => some ⟨key, p, a⟩
    | _, _ => none
  | _ => none

def showEntry (e : Nat × List Prov) : String := s!"{e.1}:{";".intercalate (e.2.map showProvIn)}"
def parseEntry (s : String) : Option (Nat × List Prov) :=
  match s.splitOn ":" with
  | [k, l] =>
    match k.toNat? with
    | some k => ((l.splitOn ";").mapM (parseProvIn k)).map (fun l => (k, l))
    | none => none
  | _ => none

def listTok (l : List String) : String := if l.isEmpty then "-" else ",".intercalate l
def parseListTok {α} (f : String → Option α) (s : String) : Option (List α) :=
  if s = "-" then some [] else (s.splitOn ",").mapM f

def showDump (d : Dump) : String :=
  s!"recs={listTok (d.recs.map showRec)} provs={listTok (d.provs.map showEntry)} provd={listTok (d.provided.map toString)}"

def parseDump (t : List String) : Option Dump :=
  match (kv "recs" t).bind (parseListTok parseRec), (kv "provs" t).bind (parseListTok parseEntry),
        (kv "provd" t).bind (parseListTok String.toNat?) with
  | some r, some p, some d => some ⟨r, p, d⟩
  | _, _, _ => none

def showEv : List Out → String
  | .evAddProvider none :: _ => "ap:null"
  | .evAddProvider (some p) :: _ => s!"ap:{p.key}:{showProvIn p}"
  | .evPutRecord none :: _ => "pr:null"
  | .evPutRecord (some r) :: _ => s!"pr:{showRec r}"
  | _ :: rest => showEv rest
  | [] => "absent"

def showAck : List Out → String
  | .ack k v r :: _ => s!"ack:{k}:{hex v}:{r}"
  | .reset r :: _ => s!"reset:{r}"
  | _ :: rest => showAck rest
  | [] => "none"

def parseOuts (t : List String) : Option (List Out) :=
  let ev : Option (List Out) :=
    match kv "ev" t with
    | some "absent" => some []
    | some "ap:null" => some [.evAddProvider none]
    | some "pr:null" => some [.evPutRecord none]
    | some s =>
      if s.startsWith "ap:" then
        match ((s.drop 3).toString.splitOn ":") with
        | [k, p] => (k.toNat?.bind (fun k => parseProvIn k p)).map (fun p => [.evAddProvider (some p)])
        | _ => none
      else if s.startsWith "pr:" then (parseRec (s.drop 3).toString).map (fun r => [.evPutRecord (some r)])
      else none
    | none => none
  let ack : Option (List Out) :=
    match kv "ack" t with
    | some "none" => some []
    | some s =>
      match s.splitOn ":" with
      | ["ack", k, v, r] =>
        match k.toNat?, unhex v, r.toNat? with
        | some k, some v, some r => some [.ack k v r]
        | _, _, _ => none
      | ["reset", r] => r.toNat?.map (fun r => [.reset r])
      | _ => none
    | none => none
  match ev, ack with
  | some e, some a => some (e ++ a)
  | _, _ => none

def parseOp : List String → Option Op
  | ["addprov", src, key, prov, addrs] =>
    match src.toNat?, key.toNat?, prov.toNat?, parseAddrs addrs with
    | some s, some k, some p, some a => some (.addProvider s k p a)
    | _, _, _, _ => none
  | ["put", src, key, val, pub, req] =>
    match src.toNat?, key.toNat?, unhex val, parsePub pub, req.toNat? with
    | some s, some k, some v, some p, some r => some (.putRecord s k v p r)
    | _, _, _, _, _ => none
  | _ => none

structure St where
  cfg : Cfg
  store : Store

def modelOp (st : St) (args : List String) : St × String :=
  match args with
  | ["lput", key, val, pub] =>
    match key.toNat?, unhex val, parsePub pub with
    | some k, some v, some p =>
      match storePut st.cfg st.store ⟨k, v, p⟩ with
      | some s' => ({ st with store := s' }, s!"{showDump (dump s')} r=ok")
      | none => (st, s!"{showDump (dump st.store)} r=err")
    | _, _, _ => (st, "bad-op")
  | ["lprov", key, addrs] =>
    match key.toNat?, parseAddrs addrs with
    | some k, some a =>
      match storeAddProvider st.cfg st.store ⟨k, st.cfg.localId, a⟩ with
      | some s' => ({ st with store := s' }, s!"{showDump (dump s')} r=ok")
      | none => (st, s!"{showDump (dump st.store)} r=err")
    | _, _ => (st, "bad-op")
  | _ =>
    match parseOp args with
    | some op =>
      let (s', outs) := step st.cfg st.store op
      ({ st with store := s' }, s!"{showDump (dump s')} ev={showEv outs} ack={showAck outs}")
    | none => (st, "bad-op")

structure Mon where
  cfg : Cfg
  prev : Dump

def specOp (m : Mon) (args outs : List String) : Mon × String :=
  if outs.head? == some "panic" then (m, "FAIL:panic") else
  match parseDump outs with
  | none => (m, "FAIL:unparsable")
  | some d =>
    let m' := { m with prev := d }
    match args with
    | "lput" :: _ => (m', "ok")
    | "lprov" :: _ => (m', "ok")
    | _ =>
      match parseOp args, parseOuts outs with
      | some op, some o => (m', spec m.cfg m.prev op d o)
      | _, _ => (m', "FAIL:unparsable")

def machine : Machine St Mon where
  init cfg := ⟨parseCfg cfg, Store.empty⟩
  specInit cfg := ⟨parseCfg cfg, Dump.empty⟩
  op := modelOp
  spec := specOp

end Driver.C43

def main : IO Unit := Driver.C43.machine.run
