import Libp2pModel.Common.Drv
import Libp2pModel.Model.C20
namespace Driver.C20
open Drv _root_.C20

def showMh (p : Mh) : String := s!"ok:{p.code}:{hex p.digest}"

def showParse : Except ParseErr Mh → String
  | .ok p => unwords [showMh p, hex (toBytes p), hex ((toBase58 p).map (·.toNat))]
  | .error .invalidMultihash => "err:mh - -"
  | .error (.unsupportedCode c) => s!"err:code:{c} - -"
  | .error .b58 => "err:b58 - -"

def parseMh (s : String) : Option Mh :=
  match s.splitOn ":" with
  | ["ok", c, d] => match c.toNat?, unhex d with
    | some c, some d => some ⟨c, d⟩
    | _, _ => none
  | _ => none

def parseParse (toks : List String) : Option (Except ParseErr Mh × List Nat × List Nat) :=
  match toks with
  | [r, tb, b58] =>
    if r = "err:mh" then some (.error .invalidMultihash, [], [])
    else if r = "err:b58" then some (.error .b58, [], [])
    else match r.splitOn ":" with
      | ["err", "code", c] => c.toNat?.map fun c => (.error (.unsupportedCode c), [], [])
      | _ => match parseMh r, unhex tb, unhex b58 with
        | some p, some tb, some b58 => some (.ok p, tb, b58)
        | _, _, _ => none
  | _ => none

def showKeyRes : Except KeyErr (Nat × List Nat) → String
  | .ok (ty, d) => s!"ok:{ty}:{hex d}"
  | .error .badProtobuf => "err:protobuf"
  | .error .unknownKeyType => "err:keytype"
  | .error .badKey => "err:key"

/-- oracle token: `-` (key parser not reached), `0` (rejected), `1:<canonical re-encoding>` -/
def parseOracle (s : String) : Option (Option (Option (List Nat))) :=
  if s = "-" then some none
  else if s = "0" then some (some none)
  else match s.splitOn ":" with
    | ["1", c] => (unhex c).map fun c => some (some c)
    | _ => none

def chars (bs : List Nat) : List Char := bs.map Char.ofNat

def machine : Machine Unit Unit where
  init _ := ()
  specInit _ := ()
  op _ args :=
    match args with
    | ["frombytes", h] =>
      match unhex h with
      | some bs => ((), showParse (fromBytes bs))
      | none => ((), "bad-op")
    | ["fromstr", h] =>
      match unhex h with
      | some bs => ((), showParse (fromStr (chars bs)))
      | none => ((), "bad-op")
    | ["pubkey", ty, d, sha] =>
      match ty.toNat?, unhex d, unhex sha with
      | some ty, some d, some sha =>
        let enc := encodeKeyMsg ty d
        let dec := decodeKeyProto (fun _ x => some x) enc
        let pid := fromPublicKey (fun _ => sha) enc
        ((), unwords [hex enc, showKeyRes dec, s!"{pid.code}:{hex pid.digest}"])
      | _, _, _ => ((), "bad-op")
    | [which, h, o] =>
      if which = "decpub" ∨ which = "decpriv" then
        match unhex h, parseOracle o with
        | some bs, some orc =>
          match orc with
          | none =>
            -- the key parser must not be reached
            (match decodeKeyMsg bs with
             | none => ((), "err:protobuf")
             | some m => if m.ty ≥ 4 then ((), "err:keytype") else ((), "oracle-missing"))
          | some v => ((), showKeyRes (decodeKeyProto (fun _ _ => v) bs))
        | _, _ => ((), "bad-op")
      else if which = "rawdec" then ((), "-")
      else if which = "privkey" then
        -- h = key type, o = encoding (or `unsupported`)
        match h.toNat? with
        | some ty =>
          if o = "unsupported" then ((), if ty = 0 then "unsupported -" else "bad-unsupported -")
          else match unhex o with
            | some enc =>
              match decodeKeyMsg enc with
              | some m => ((), if m.ty = ty ∧ encodeKeyMsg m.ty m.data = enc then "ok:same same" else "noncanonical -")
              | none => ((), "err:protobuf -")
            | none => ((), "bad-op")
        | none => ((), "bad-op")
      else ((), "bad-op")
    | _ => ((), "bad-op")
  spec _ args outs :=
    match args with
    | ["frombytes", h] =>
      match unhex h, parseParse outs with
      | some bs, some (r, tb, b58) =>
        let okShape := match r with
          | .ok p => tb == toBytes p && b58 == (toBase58 p).map (·.toNat)
          | .error _ => true
        ((), if isOverlong bs r then "FAIL:overlong_varint_accepted"
             else if !specFromBytes bs r then "FAIL:from_bytes_accepts_exactly"
             else if !okShape then "FAIL:to_bytes_or_base58_shape" else "ok")
      | _, _ => ((), "FAIL:unparsable")
    | ["fromstr", h] =>
      match unhex h, parseParse outs with
      | some sb, some (r, _, _) =>
        match b58decode (chars sb) with
        | none => ((), match r with | .error .b58 => "ok" | _ => "FAIL:invalid_base58_accepted")
        | some bs =>
          ((), match r with
            | .error .b58 => "FAIL:valid_base58_rejected"
            | _ => if isOverlong bs r then "FAIL:overlong_varint_accepted"
                   else if specFromBytes bs r then "ok" else "FAIL:from_str_accepts_exactly")
      | _, _ => ((), "FAIL:unparsable")
    | ["pubkey", ty, d, sha] =>
      match ty.toNat?, unhex d, unhex sha, outs with
      | some ty, some d, some sha, [enc, dec, pid] =>
        let e := encodeKeyMsg ty d
        let p := fromPublicKey (fun _ => sha) e
        ((), if enc != hex e then "FAIL:key_encoding"
             else if dec != s!"ok:{ty}:{hex d}" then "FAIL:key_proto_roundtrip"
             else if pid != s!"{p.code}:{hex p.digest}" then "FAIL:inline_threshold_or_digest"
             else "ok")
      | _, _, _, _ => ((), "FAIL:unparsable")
    | [which, h, _] =>
      if which = "decpub" ∨ which = "decpriv" then
        match unhex h, outs with
        | some bs, [r] =>
          if r.startsWith "panic" then ((), "FAIL:decode_panicked")
          else if r.startsWith "ok:" then
            match decodeKeyMsg bs, r.splitOn ":" with
            | some m, ["ok", ty, _] => ((), if toString m.ty = ty && m.ty < 4 then "ok" else "FAIL:decoded_type_mismatch")
            | _, _ => ((), "FAIL:accepted_malformed_protobuf")
          else if r.startsWith "err:" then ((), "ok")
          else ((), "FAIL:unparsable")
        | _, _ => ((), "FAIL:unparsable")
      else if which = "rawdec" then
        ((), match outs with
          | ["ok"] => "ok"
          | ["err"] => "ok"
          | _ => "FAIL:decode_panicked")
      else if which = "privkey" then
        ((), match h, outs with
          | "0", ["unsupported", "-"] => "ok"
          | _, ["ok:same", "same"] => "ok"
          | _, _ => "FAIL:private_key_roundtrip")
      else ((), "FAIL:unparsable")
    | _ => ((), "FAIL:unparsable")

end Driver.C20

def main : IO Unit := Driver.C20.machine.run
