import Libp2pModel.Common.Drv
import Libp2pModel.Model.C33
namespace Driver.C33
open Drv

def cfgTok (pre : String) (cfg : List String) (dflt : Nat) : Nat :=
  match cfg.findSome? (fun t => if t.startsWith pre then (t.drop pre.length).toString.toNat? else none) with
  | some n => n
  | none => dflt

structure MSt where
  limit : Nat
  dup : Option C33.TC
  tc : Option C33.TC
  mc : Option C33.MC

structure SSt where
  limit : Nat
  dup : Option C33.DMon
  tc : Option C33.DMon
  mm : Option C33.MMon

def showBool (b : Bool) : String := if b then "true" else "false"

def parseBool : String → Option Bool
  | "true" => some true
  | "false" => some false
  | _ => none

def showTOut : C33.TOut → String
  | .bool b => showBool b
  | .val v => toString v

def parseTOut (s : String) : Option C33.TOut :=
  match parseBool s with
  | some b => some (.bool b)
  | none => s.toNat?.map .val

def showOut : C33.MOut → String
  | .unit => "ok"
  | .bool b => showBool b
  | .iwant none => "none"
  | .iwant (some (t, v, n)) => s!"some {t} {showBool v} {n}"
  | .msg none => "none"
  | .msg (some (t, v, ps)) => s!"some {t} {showBool v} {showNatList ps}"
  | .ids none => "panic:slice"
  | .ids (some l) => "ids " ++ showNatList l

def parseMOp : List String → Option C33.MOp
  | ["put", a, b] => do some (.put (← a.toNat?) (← b.toNat?))
  | ["obs", a, b] => do some (.observe (← a.toNat?) (← b.toNat?))
  | ["iwant", a, b] => do some (.iwant (← a.toNat?) (← b.toNat?))
  | ["val", a] => do some (.validate (← a.toNat?))
  | ["gossip", a] => do some (.gossip (← a.toNat?))
  | ["shift"] => some .shift
  | ["rm", a] => do some (.remove (← a.toNat?))
  | _ => none

/-- the implementation's output of a message-cache op, as a model output value -/
def parseMOut (op : C33.MOp) (outs : List String) : Option C33.MOut :=
  match op, outs with
  | .put _ _, [b] => (parseBool b).map .bool
  | .observe _ _, ["ok"] => some .unit
  | .shift, ["ok"] => some .unit
  | .iwant _ _, ["none"] => some (.iwant none)
  | .iwant _ _, ["some", t, v, n] => do some (.iwant (some (← t.toNat?, ← parseBool v, ← n.toNat?)))
  | .validate _, ["none"] => some (.msg none)
  | .validate _, ["some", t, v, ps] => do some (.msg (some (← t.toNat?, ← parseBool v, ← natList ps)))
  | .remove _, ["none"] => some (.msg none)
  | .remove _, ["some", t, v, ps] => do some (.msg (some (← t.toNat?, ← parseBool v, ← natList ps)))
  | .gossip _, ["ids", l] => do some (.ids (some (← natList l)))
  | .gossip _, ["panic:slice"] => some (.ids none)
  | _, _ => none

def verdict : Option String → String
  | none => "ok"
  | some e => "FAIL:" ++ e

def machine : Machine MSt SSt where
  init cfg := { limit := cfgTok "lim=" cfg 0, dup := none, tc := none, mc := none }
  specInit cfg := { limit := cfgTok "lim=" cfg 0, dup := none, tc := none, mm := none }
  op st args :=
    match args with
    | ["tnew", _, ttl] =>
      match ttl.toNat? with
      | some ttl => ({ st with dup := some (C33.tcNew st.limit ttl), tc := some (C33.tcNew st.limit ttl) }, "ok")
      | none => (st, "bad-op")
    | ["mnew", g, h] =>
      match g.toNat?, h.toNat? with
      | some g, some h => ({ st with mc := some (C33.mcNew g h) }, "ok")
      | _, _ => (st, "bad-op")
    | ["ins", now, k] =>
      match now.toNat?, k.toNat?, st.dup with
      | some now, some k, some c => let r := C33.tstep c (now, .ins k); ({ st with dup := some r.1 }, showTOut r.2)
      | some _, some _, none => (st, "nostate")
      | _, _, _ => (st, "bad-op")
    | ["has", now, k] =>
      match now.toNat?, k.toNat?, st.dup with
      | some now, some k, some c => let r := C33.tstep c (now, .has k); ({ st with dup := some r.1 }, showTOut r.2)
      | some _, some _, none => (st, "nostate")
      | _, _, _ => (st, "bad-op")
    | ["add", now, k, d] =>
      match now.toNat?, k.toNat?, d.toNat?, st.tc with
      | some now, some k, some d, some c => let r := C33.tstep c (now, .add k d); ({ st with tc := some r.1 }, showTOut r.2)
      | some _, some _, some _, none => (st, "nostate")
      | _, _, _, _ => (st, "bad-op")
    | ["tchas", now, k] =>
      match now.toNat?, k.toNat?, st.tc with
      | some now, some k, some c => let r := C33.tstep c (now, .has k); ({ st with tc := some r.1 }, showTOut r.2)
      | some _, some _, none => (st, "nostate")
      | _, _, _ => (st, "bad-op")
    | _ =>
      match parseMOp args, st.mc with
      | some op, some c => let r := C33.mstep c op; ({ st with mc := some r.1 }, showOut r.2)
      | some _, none => (st, "nostate")
      | none, _ => (st, "bad-op")
  spec st args outs :=
    if outs = ["nostate"] then (st, "ok") else
    match args with
    | ["tnew", _, ttl] =>
      match ttl.toNat? with
      | some ttl => ({ st with dup := some (C33.dmonNew st.limit ttl), tc := some (C33.dmonNew st.limit ttl) },
                     if outs = ["ok"] then "ok" else "FAIL:panic")
      | none => (st, "FAIL:unparsable")
    | ["mnew", g, h] =>
      match g.toNat?, h.toNat? with
      | some g, some h => ({ st with mm := some (C33.mmonNew g h) }, if outs = ["ok"] then "ok" else "FAIL:panic")
      | _, _ => (st, "FAIL:unparsable")
    | ["ins", now, k] =>
      match now.toNat?, k.toNat?, st.dup, outs with
      | some now, some k, some m, [r] =>
        match parseTOut r with
        | some r => ({ st with dup := some (C33.dstep m (now, .ins k)) }, verdict (C33.dcheck m (now, .ins k) r))
        | none => (st, "FAIL:unparsable")
      | _, _, _, _ => (st, "FAIL:unparsable")
    | ["has", now, k] =>
      match now.toNat?, k.toNat?, st.dup, outs with
      | some now, some k, some m, [r] =>
        match parseTOut r with
        | some r => ({ st with dup := some (C33.dstep m (now, .has k)) }, verdict (C33.dcheck m (now, .has k) r))
        | none => (st, "FAIL:unparsable")
      | _, _, _, _ => (st, "FAIL:unparsable")
    | ["add", now, k, d] =>
      match now.toNat?, k.toNat?, d.toNat?, st.tc, outs with
      | some now, some k, some d, some m, [v] =>
        match parseTOut v with
        | some v => ({ st with tc := some (C33.dstep m (now, .add k d)) }, verdict (C33.dcheck m (now, .add k d) v))
        | none => (st, "FAIL:unparsable")
      | _, _, _, _, _ => (st, "FAIL:unparsable")
    | ["tchas", now, k] =>
      match now.toNat?, k.toNat?, st.tc, outs with
      | some now, some k, some m, [r] =>
        match parseTOut r with
        | some r => ({ st with tc := some (C33.dstep m (now, .has k)) }, verdict (C33.dcheck m (now, .has k) r))
        | none => (st, "FAIL:unparsable")
      | _, _, _, _ => (st, "FAIL:unparsable")
    | _ =>
      match parseMOp args, st.mm with
      | some op, some m =>
        match parseMOut op outs with
        | some out =>
          -- a slice panic is the documented consequence of gossip > history_length (config.rs rejects it)
          ({ st with mm := some (C33.mmonStep m op out) }, verdict (C33.mcheck m op out))
        | none => (st, "FAIL:unparsable")
      | _, _ => (st, "FAIL:unparsable")

end Driver.C33

def main : IO Unit := Driver.C33.machine.run
