import Libp2pModel.Model.C16
import Libp2pModel.Common.Drv
/-!
Driver for C16. Principals: 1 = honest dialer A, 2 = honest listener B, 3 = attacker M (static
DH key 3), 4 = third party V (static DH key 4; its payload is RECORDED from an honest handshake).

ops
* `mitm ta tb pro act… lens=L1,L2,L3` — honest A dials honest B through a man in the middle.
  `pro` = 1 iff both use the same prologue. `lens` (oracle) = body lengths of the three handshake
  messages as produced in this run (0 = never produced). impl: `<dialer> <listener>`.
  acts: `none` | `flip k pos m` | `flip2 k p1 m1 p2 m2` | `flipx k1 p1 m1 k2 p2 m2` | `trunc k n`
  | `cutstream k n` | `drop k` | `dup k` | `replay k` | `swap k j`   (positions count the 2-byte
  length prefix; `replay`/`swap` splice the message of an independent honest session)
* `mal role tv tm key sig` — the real endpoint (`role` = d: dialer, l: listener) talks to a
  malicious endpoint that runs a correct XX with its own static key but presents the identity
  payload (key variant, signature variant). impl: `<result>`.
results: `ok:<principal>` | `err:<class>`
-/
namespace Driver.C16
open Drv
open _root_.C16

def showErr : Err → String
  | .io .invalidData => "Io:InvalidData"
  | .io .unexpectedEof => "Io:UnexpectedEof"
  | .io .other => "Io:Other"
  | .noise => "Noise"
  | .invalidKey => "InvalidKey"
  | .invalidLength => "InvalidLength"
  | .badSignature => "BadSignature"
  | .authenticationFailed => "AuthenticationFailed"
  | .unknownWebTransportCerthashes => "Certhashes"

def showRes : Res → String
  | .ok p => "ok:" ++ toString p
  | .error e => "err:" ++ showErr e

def parseRes (s : String) : Option Res :=
  if s.startsWith "ok:" then ((s.drop 3).toString.toNat?).map Except.ok
  else if s.startsWith "err:" then
    let c := (s.drop 4).toString
    some (.error (
      if c = "Io:InvalidData" then .io .invalidData
      else if c = "Io:UnexpectedEof" then .io .unexpectedEof
      else if c = "Noise" then .noise
      else if c = "InvalidKey" then .invalidKey
      else if c = "InvalidLength" then .invalidLength
      else if c = "BadSignature" then .badSignature
      else if c = "AuthenticationFailed" then .authenticationFailed
      else if c = "Certhashes" then .unknownWebTransportCerthashes
      else .io .other))
  else none

def kv (args : List String) (key : String) : Option String :=
  (args.find? (fun t => t.startsWith (key ++ "="))).map fun t => (t.drop (key.length + 1)).toString

/-- what the receiver sees of a frame with body length `L` after xor-ing `flips` (frame positions
include the two prefix bytes) -/
def frameSeen (L : Nat) (flips0 : List (Nat × Nat)) : Seen :=
  let flips := flips0.filter (fun f => f.1 < L + 2)   -- positions beyond the frame: no-op
  let hi := (flips.filter (·.1 = 0)).foldl (fun a f => Nat.xor a f.2) 0
  let lo := (flips.filter (·.1 = 1)).foldl (fun a f => Nat.xor a f.2) 0
  let L' := Nat.xor L (hi * 256 + lo)
  let body := flips.any (fun f => f.1 ≥ 2 && f.2 % 256 ≠ 0)
  if L' > L then .never
  else if L' < L then .altered L'
  else if body then .altered L else .intact

def setSeen (s : Seen × Seen × Seen) (k : Nat) (v : Seen) : Seen × Seen × Seen :=
  match k with
  | 1 => (v, s.2.1, s.2.2)
  | 2 => (s.1, v, s.2.2)
  | _ => (s.1, s.2.1, v)

def lenOf (lens : List Nat) (k : Nat) : Nat := lens.getD (k - 1) 0

def nats (l : List String) : Option (List Nat) := l.mapM String.toNat?

/-- man-in-the-middle action ↦ what each receiver sees -/
def seenOf (act : List String) (lens : List Nat) : Option (Seen × Seen × Seen) :=
  let all : Seen × Seen × Seen := (.intact, .intact, .intact)
  match act with
  | ["none"] => some all
  | "flip" :: r =>
    match nats r with
    | some [k, p, m] => some (setSeen all k (frameSeen (lenOf lens k) [(p, m)]))
    | _ => none
  | "flip2" :: r =>
    match nats r with
    | some [k, p1, m1, p2, m2] => some (setSeen all k (frameSeen (lenOf lens k) [(p1, m1), (p2, m2)]))
    | _ => none
  | "flipx" :: r =>
    match nats r with
    | some [k1, p1, m1, k2, p2, m2] =>
      let s := setSeen all k1 (frameSeen (lenOf lens k1) [(p1, m1)])
      some (setSeen s k2 (frameSeen (lenOf lens k2) [(p2, m2)]))
    | _ => none
  | "trunc" :: r =>
    match nats r with
    | some [k, n] => some (setSeen all k (if n < lenOf lens k then .altered n else .intact))
    | _ => none
  | "cutstream" :: r =>
    match nats r with
    | some [k, _] => some (setSeen all k .never)
    | _ => none
  | "drop" :: r =>
    match nats r with
    | some [k] => some (setSeen all k .never)
    | _ => none
  | "dup" :: r =>
    match nats r with
    | some [k] => some (if k = 1 then setSeen all 3 (.injected (lenOf lens 1)) else all)
    | _ => none
  | "replay" :: r =>
    match nats r with
    | some [k] => some (setSeen all k (.altered (lenOf lens k)))
    | _ => none
  | "swap" :: r =>
    match nats r with
    | some [k, _] => if k = 1 then none else some (setSeen all k (.altered (lenOf lens k)))
    | _ => none
  | _ => none

def partyA : Party := { id := 1, dh := 1 }
def partyB : Party := { id := 2, dh := 2 }

def actOf (args : List String) : List String :=
  ((args.dropWhile (· ≠ "act")).drop 1).takeWhile (fun t => !t.startsWith "lens=")

def mitmModel (args : List String) : Option (Res × Res) :=
  match kv args "pro", kv args "lens" with
  | some pro, some l =>
    match natList l with
    | some lens =>
      match seenOf (actOf args) lens with
      | some (s1, s2, s3) => simulate partyA partyB (pro = "1") s1 s2 s3
      | none => none
    | none => none
  | _, _ => none

/-- the symbolic identity payload a malicious endpoint presents -/
def malPayload (key sig : String) : Option Payload :=
  let k : Option Bytes :=
    if key = "own" then some (symKey 3) else if key = "other" then some (symKey 4)
    else if key = "garbage" then some [9, 9, 9] else if key = "empty" then some [] else none
  let s : Option Bytes :=
    if sig = "m_good" then some (symSign 3 (STATIC_KEY_DOMAIN ++ symDh 3))
    else if sig = "v_rec" then some (symSign 4 (STATIC_KEY_DOMAIN ++ symDh 4))
    else if sig = "m_nodomain" then some (symSign 3 (symDh 3))
    else if sig = "m_wrongdomain" then some (symSign 3 (7 :: symDh 3))
    else if sig = "m_otherstatic" then some (symSign 3 (STATIC_KEY_DOMAIN ++ symDh 5))
    else if sig = "empty" then some []
    else if sig = "garbage" then some [8, 8]
    else none
  match k, s with
  | some k, some s => some { identityKey := k, identitySig := s }
  | _, _ => none

def malModel (role : String) (p : Payload) : Option Res :=
  let sess : SessionEnd := { remoteStatic := some (symDh 3), finished := true }
  if role = "d" then some (upgradeOutbound Sym none true (.payload p) true sess)
  else if role = "l" then some (upgradeInbound Sym none (.payload {}) true (.payload p) sess)
  else none

def machine : Machine Unit Unit where
  init _ := ()
  specInit _ := ()
  op _ args :=
    match args with
    | "mitm" :: rest =>
      match mitmModel rest with
      | some (rd, rl) => ((), showRes rd ++ " " ++ showRes rl)
      | none => ((), "-")
    | ["mal", role, _, _, key, sig] =>
      match malPayload key sig with
      | some p =>
        match malModel role p with
        | some r => ((), showRes r)
        | none => ((), "bad-op")
      | none => ((), "bad-op")
    | _ => ((), "bad-op")
  spec _ args outs :=
    if outs.head? = some "panic" then ((), "FAIL:panic") else
    match args with
    | "mitm" :: rest =>
      match outs with
      | [d, l] =>
        match parseRes d, parseRes l with
        | some rd, some rl =>
          if !(specReport partyB.id rd && specReport partyA.id rl) then ((), "FAIL:misreported_peer")
          else if kv rest "pro" = some "0" && (rd.toBool || rl.toBool) then
            ((), "FAIL:prologue_mismatch_accepted")
          else ((), "ok")
        | _, _ => ((), "FAIL:unparsable")
      | _ => ((), "FAIL:unparsable")
    | ["mal", _, _, _, key, sig] =>
      match malPayload key sig, outs with
      | some p, [r] =>
        match parseRes r with
        | some res => ((), if specMal 3 p res then "ok" else "FAIL:spliced_identity_accepted")
        | none => ((), "FAIL:unparsable")
      | _, _ => ((), "FAIL:unparsable")
    | _ => ((), "FAIL:unparsable")

end Driver.C16

def main : IO Unit := Driver.C16.machine.run
