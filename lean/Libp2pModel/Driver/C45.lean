import Libp2pModel.Model.C45
import Libp2pModel.Common.Drv
open Drv C45
namespace Driver.C45

def parseOp : List String → Option Op
  | ["send", p] => p.toNat?.map Op.send
  | ["est", p, c, _] => do some (.established (← p.toNat?) (← c.toNat?))
  | ["closed", p, c] => do some (.closed (← p.toNat?) (← c.toNat?))
  | ["dialfail", p, c, k] => do
    let po ← if p = "-" then some none else p.toNat?.map some
    some (.dialFailure po (← c.toNat?) (k = "cond"))
  | ["hout", p, c, id, k] => do
    let k ← match k with
      | "response" => some HOut.response | "timeout" => some .timeout
      | "unsupported" => some .unsupported | "io" => some .streamFailed | _ => none
    some (.hOut (← p.toNat?) (← c.toNat?) (← id.toNat?) k)
  | ["hreq", p, c, id] => do some (.hRequest (← p.toNat?) (← c.toNat?) (← id.toNat?))
  | ["hin", p, c, id, k] => do
    let k ← match k with
      | "sent" => some HIn.responseSent | "omission" => some .omission
      | "timeout" => some .timeout | "io" => some .streamFailed | _ => none
    some (.hIn (← p.toNat?) (← c.toNat?) (← id.toNat?) k)
  | _ => none

def outErrTok : OutErr → String
  | .dialFailure => "dial" | .timeout => "timeout" | .connectionClosed => "closed"
  | .unsupported => "unsupported" | .io => "io"
def inErrTok : InErr → String
  | .timeout => "timeout" | .connectionClosed => "closed" | .omission => "omission" | .io => "io"

def evTok : Ev → String
  | .dial p => s!"dial:{p}"
  | .notify p c id => s!"notify:{p}:{c}:{id}"
  | .response p c id => s!"resp:{p}:{c}:{id}"
  | .request p c id => s!"req:{p}:{c}:{id}"
  | .outFail p c id e => s!"of:{p}:{c}:{id}:{outErrTok e}"
  | .inFail p c id e => s!"if:{p}:{c}:{id}:{inErrTok e}"
  | .respSent p c id => s!"sent:{p}:{c}:{id}"

def parseEv (s : String) : Option Ev :=
  match s.splitOn ":" with
  | ["dial", p] => p.toNat?.map Ev.dial
  | ["notify", p, c, id] => do some (.notify (← p.toNat?) (← c.toNat?) (← id.toNat?))
  | ["resp", p, c, id] => do some (.response (← p.toNat?) (← c.toNat?) (← id.toNat?))
  | ["req", p, c, id] => do some (.request (← p.toNat?) (← c.toNat?) (← id.toNat?))
  | ["sent", p, c, id] => do some (.respSent (← p.toNat?) (← c.toNat?) (← id.toNat?))
  | ["of", p, c, id, e] => do
    let e ← match e with
      | "dial" => some OutErr.dialFailure | "timeout" => some .timeout | "closed" => some .connectionClosed
      | "unsupported" => some .unsupported | "io" => some .io | _ => none
    some (.outFail (← p.toNat?) (← c.toNat?) (← id.toNat?) e)
  | ["if", p, c, id, e] => do
    let e ← match e with
      | "timeout" => some InErr.timeout | "closed" => some .connectionClosed
      | "omission" => some .omission | "io" => some .io | _ => none
    some (.inFail (← p.toNat?) (← c.toNat?) (← id.toNat?) e)
  | _ => none

def listTok (l : List String) : String := if l.isEmpty then "-" else ",".intercalate l
def pairTok (x : Peer × RId) : String := s!"{x.1}:{x.2}"

def parseList {α} (f : String → Option α) (s : String) : Option (List α) :=
  if s = "-" then some [] else (s.splitOn ",").mapM f

def parsePair (s : String) : Option (Peer × RId) :=
  match s.splitOn ":" with
  | [p, id] => do some ((← p.toNat?), (← id.toNat?))
  | _ => none

def field (pfx : String) (tok : String) : Option String :=
  if tok.startsWith pfx then some (tok.drop pfx.length).toString else none

def evId : Ev → Nat
  | .dial _ => 0 | .notify _ _ id => id | .response _ _ id => id | .request _ _ id => id
  | .outFail _ _ id _ => id | .inFail _ _ id _ => id | .respSent _ _ id => id

def insEv (e : Ev) : List Ev → List Ev
  | [] => [e]
  | x :: xs => if evId e < evId x then e :: x :: xs else x :: insEv e xs

def sortEvs (l : List Ev) : List Ev := l.foldl (fun acc e => insEv e acc) []

def isInFail : Ev → Bool
  | .inFail .. => true
  | _ => false

/-- `on_connection_closed` iterates two `HashSet`s: canonical order = inbound failures by id,
then outbound failures by id (the harness sorts the same way) -/
def canonEvs (op : Op) (evs : List Ev) : List Ev :=
  match op with
  | .closed _ _ => sortEvs (evs.filter isInFail) ++ sortEvs (evs.filter (fun e => !isInFail e))
  | _ => evs

structure MS where
  s : St
  seen : List RId
  np : Nat
  real : Bool
  hq : HQ := []

def cfgNat (cfg : List String) (key : String) (dflt : Nat) : Nat :=
  match cfg.filterMap (field (key ++ "=")) with
  | v :: _ => v.toNat?.getD dflt
  | [] => dflt

def render (real : Bool) (op : Op) (o : Out) (po pi : List (Peer × RId)) : String :=
  let _ := real
  let pre := listTok (o.pre.map toString)
  unwords [
    "ret=" ++ (match o.ret with | some r => toString r | none => "-"),
    "pre=" ++ pre,
    "evs=" ++ listTok ((canonEvs op o.evs).map evTok),
    "panic=" ++ (match o.panic with | some m => m.replace " " "_" | none => "-"),
    "po=" ++ listTok (po.map pairTok),
    "pi=" ++ listTok (pi.map pairTok)]

/-- the Spec monitor's state: the implementation's trace so far -/
structure SS where
  trace : Trace
  hq : HQ := []

/-- handler-level op `hfail p c k`: expected `hev` token = failure `k` for the oldest request -/
def hfailExpect (q : HQ) : List String → Option String
  | [p, c, k] => do
    let p ← p.toNat?
    let c ← c.toNat?
    some (match hqHead q p c with
      | some id => s!"hev={k}:{id}"
      | none => "hev=none")
  | _ => none

def parsePre : List String → Option (List RId)
  | _ :: pre :: _ => do parseList String.toNat? (← field "pre=" pre)
  | _ => none

def parseImpl (op : Op) : List String → Option Entry
  | [ret, _pre, evs, panic, po, pi] => do
    let ret ← field "ret=" ret
    let evs ← field "evs=" evs
    let panic ← field "panic=" panic
    let po ← field "po=" po
    let pi ← field "pi=" pi
    let ret ← if ret = "-" then some none else ret.toNat?.map some
    let evs ← parseList parseEv evs
    let po ← parseList parsePair po
    let pi ← parseList parsePair pi
    some { op := op, out := { ret := ret, pre := [], evs := evs, panic := if panic = "-" then none else some panic },
           po := po, pi := pi }
  | _ => none

def machine : Machine MS SS where
  init cfg := { s := _root_.C45.init (cfgNat cfg "dbg" 1 == 1), seen := [], np := cfgNat cfg "np" 3,
                real := cfgNat cfg "real" 0 == 1 }
  specInit _ := { trace := [] }
  op m args :=
    if args.head? == some "hfail" then
      (m, (hfailExpect m.hq args.tail).getD "bad-op")
    else
    match parseOp args with
    | none => (m, "bad-op")
    | some op =>
      -- the model is the code as it is (`step false`), defined on in-contract operations
      if !inContract m.s op then (m, "bad-op out-of-contract") else
      let r := step false m.s op
      let seen := seenAfter m.seen op
      ({ m with s := r.1, seen := seen, hq := hqAfter m.hq op r.2 },
       render m.real op r.2 (samplePo m.np r.1) (samplePi m.np r.1 seen))
  spec ss args outs :=
    if outs.head? == some "harness-panic" then (ss, "FAIL:harness_panic")
    else if args.head? == some "hfail" then
      -- handler contract: the failed negotiation is reported, for the oldest request, with its kind
      match hfailExpect ss.hq args.tail, outs with
      | some e, [o] =>
        -- the handler holds nothing for this connection: out-of-contract (replay only), no judgement
        if e == "hev=none" then (ss, "ok")
        else if o == e then (ss, "ok")
        else if o == "hev=none" then (ss, "FAIL:handler_no_outcome")
        else (ss, "FAIL:handler_wrong_outcome")
      | _, _ => (ss, "FAIL:unparsable")
    else
    match parseOp args with
    | none => (ss, "FAIL:unparsable")
    | some op =>
      match parseImpl op outs with
      | none => (ss, "FAIL:unparsable")
      | some e =>
        let t := ss.trace ++ [e]
        ({ trace := t, hq := hqAfter ss.hq op { e.out with pre := (parsePre outs).getD [] } },
         match specKey t with | none => "ok" | some k => "FAIL:" ++ k)

end Driver.C45

def main : IO Unit := Driver.C45.machine.run
