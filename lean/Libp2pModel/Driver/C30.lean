import Libp2pModel.Model.C30
namespace Driver.C30
open Drv
open _root_.C30

def parseOpt (s : String) : Option (Option Bytes) :=
  if s = "~" then some none else (unhex s).map some

def parseMode (s : String) : Option Mode :=
  match s with
  | "strict" => some .strict | "permissive" => some .permissive | "anonymous" => some .anonymous
  | "none" => some .none | _ => none

/-- the eight oracle bits: tooLarge fromParses keyDec inlDec matchKey matchInl verKey verInl -/
structure Orc where
  tooLarge : Bool
  fromParses : Bool
  keyDec : Bool
  inlDec : Bool
  matchKey : Bool
  matchInl : Bool
  verKey : Bool
  verInl : Bool

def parseOrc (s : String) : Option Orc :=
  match s.toList.map (· == '1') with
  | [a, b, c, d, e, f, g, h] => some ⟨a, b, c, d, e, f, g, h⟩
  | _ => none

/-- the primitives as far as this one message exercises them (peer ids: 0 = the source, keys: 1 = the
key field's key, 2 = the key inlined in the source) -/
def primsOf (m : Msg) (o : Orc) : Prims Nat Nat where
  parsePeerId := fun _ => if o.fromParses then some 0 else none
  peerIdBytes := fun _ => [0, 0] ++ (m.key.getD [] ++ [0])
  decodeKey := fun b => if some b = m.key then (if o.keyDec then some 1 else none) else (if o.inlDec then some 2 else none)
  peerIdOf := fun k => if (if k = 1 then o.matchKey else o.matchInl) then 0 else 1
  verify := fun k _ _ => if k = 1 then o.verKey else o.verInl
  encode := fun _ => []
  encodedLen := fun _ => 1
  maxFor := fun _ => if o.tooLarge then some 0 else none

def showRaw (r : Raw Nat) : String :=
  s!"src={if r.source.isSome then 1 else 0} seq={match r.seqno with | none => "~" | some n => toString n} sig={if r.signature.isSome then 1 else 0} key={if r.key.isSome then 1 else 0} dlen={r.data.length}"

def showOutcome : Outcome Nat → String
  | .valid r => "valid " ++ showRaw r
  | .invalid k r => "invalid:" ++ k.name ++ " " ++ showRaw r

def parseMsg : List String → Option Msg
  | [f, d, s, t, sg, k] =>
    match parseOpt f, parseOpt d, parseOpt s, unhex t, parseOpt sg, parseOpt k with
    | some f, some d, some s, some t, some sg, some k => some ⟨f, d, s, t, sg, k⟩
    | _, _, _, _, _, _ => none
  | _ => none

def factsOf (m : Msg) (o : Orc) : Facts :=
  { fromParses := m.src.isSome && o.fromParses,
    sigValid := m.src.isSome && o.fromParses && m.signature.isSome &&
      ((m.key.isSome && o.keyDec && o.matchKey && o.verKey) || (o.inlDec && o.matchInl && o.verInl)) }

def machine : Machine Unit Unit where
  init _ := ()
  specInit _ := ()
  op _ args :=
    match args with
    | ["msg", mode, f, d, s, t, sg, k, orc] =>
      match parseMode mode, parseMsg [f, d, s, t, sg, k], parseOrc orc with
      | some mode, some m, some o => ((), showOutcome (validateMsg (primsOf m o) mode m))
      | _, _, _ => ((), "bad-op")
    | _ => ((), "bad-op")
  spec _ args outs :=
    match args with
    | ["msg", mode, f, d, s, t, sg, k, orc] =>
      match parseMode mode, parseMsg [f, d, s, t, sg, k], parseOrc orc with
      | some mode, some m, some o =>
        match outs.head? with
        | some "valid" => ((), specValid mode m (factsOf m o))
        | some v => ((), if v.startsWith "invalid:" then "ok" else "FAIL:unparsable")
        | none => ((), "FAIL:unparsable")
      | _, _, _ => ((), "FAIL:unparsable")
    | _ => ((), "FAIL:unparsable")

end Driver.C30

def main : IO Unit := Driver.C30.machine.run
