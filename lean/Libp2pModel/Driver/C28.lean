import Libp2pModel.Driver.C28Node
import Libp2pModel.Model.C28
namespace Driver.C28
open Drv
open _root_.C28
open Driver.C28Node

structure Mon where
  m : State
  mesh : Nat → Option (List Nat)

def specLine (mo : Mon) (args outs : List String) : Mon × String :=
  match parseTOp args, parseImpl outs with
  | some o, some im =>
    let peers := im.peers.map (fun p => ({ id := p.id, gossip := p.gossip, topics := p.topics } : Spec.IPeer))
    let v := Spec.check mo.m o mo.mesh im.mesh peers im.explicit im.rpcs
    ({ m := (step mo.m o).1, mesh := im.mesh }, match v with | some k => "FAIL:" ++ k | none => "ok")
  | _, _ => (mo, "FAIL:unparsable")

def machineG (fx : Fixes) : Machine State Mon where
  init cfg := initState cfg
  specInit cfg := { m := initState cfg, mesh := fun _ => none }
  op s args := opLine fx s args
  spec mo args outs := specLine mo args outs

def machine : Machine State Mon := machineG fixed

end Driver.C28

def main (args : List String) : IO Unit :=
  if args.contains "--buggy" then (Driver.C28.machineG ⟨false, false⟩).run else Driver.C28.machine.run
