import Libp2pModel.Model.C40
namespace Driver.C40
open Drv _root_.C40

/-- a 32-byte key token -/
def pKey (s : String) : Option (List Nat) :=
  match unhex s with
  | some bs => if validKey bs then some bs else none
  | none => none

/-- a 256-bit integer token (32 bytes big-endian hex) -/
def pInt (s : String) : Option Nat := (pKey s).map fromBE

def showInt (n : Nat) : String := hex (toBE 32 n)

def showOpt : Option Nat → String
  | none => "none"
  | some i => toString i

def pOpt (s : String) : Option (Option Nat) :=
  if s = "none" then some none else s.toNat?.map some

def pBool (s : String) : Option Bool :=
  if s = "1" then some true else if s = "0" then some false else none

def showBool (b : Bool) : String := if b then "1" else "0"

def opLine (args : List String) : String :=
  match args with
  | ["dist", a, b] =>
    match pKey a, pKey b with
    | some a, some b =>
      let d := distance a b
      unwords [showInt d, showInt (distance b a), showOpt (ilog2 d), showOpt (bucketIndex d),
        showBool (contains ((bucketIndex d).getD 0) d)]
    | _, _ => "bad-op"
  | ["tri", a, b, c] =>
    match pKey a, pKey b, pKey c with
    | some a, some b, some c =>
      let ab := distance a b; let bc := distance b c; let ac := distance a c
      unwords [showInt ab, showInt bc, showInt ac, showBool (triLe ab bc ac)]
    | _, _, _ => "bad-op"
  | ["uni", a, b, c] =>
    match pKey a, pKey b, pKey c with
    | some a, some b, some c => unwords [showInt (distance a b), showInt (distance a c)]
    | _, _, _ => "bad-op"
  | ["fordist", a, d] =>
    match pKey a, pInt d with
    | some a, some d =>
      let k := forDistance a d
      unwords [hex k, showInt (distance a k)]
    | _, _ => "bad-op"
  | ["inv", a, b] =>
    match pKey a, pKey b with
    | some a, some b => hex (forDistance a (distance a b))
    | _, _ => "bad-op"
  | ["range", i] =>
    match i.toNat? with
    | some i => if i < 256 then unwords [showInt (range i).1, showInt (range i).2] else "bad-op"
    | none => "bad-op"
  | ["cmp", x, y] =>
    match pInt x, pInt y with
    | some x, some y => cmpTok x y
    | _, _ => "bad-op"
  | _ => "bad-op"

def specLine (args outs : List String) : String :=
  match args, outs with
  | ["dist", a, b], [dab, dba, il, bi, cont] =>
    match pKey a, pKey b, pInt dab, pInt dba, pOpt il, pOpt bi, pBool cont with
    | some a, some b, some dab, some dba, some il, some bi, some cont =>
      if !specZeroIff a b dab then "FAIL:zero_iff"
      else if !specSymm dab dba then "FAIL:symmetry"
      else if !specIlog2 dab il then "FAIL:ilog2_highest_bit"
      else if !specBucketIndex dab il bi cont then "FAIL:bucket_index"
      else if specDist a b dab dba il bi cont then "ok" else "FAIL:dist"
    | _, _, _, _, _, _, _ => "FAIL:unparsable"
  | ["tri", _, _, _], [ab, bc, ac, le] =>
    match pInt ab, pInt bc, pInt ac, pBool le with
    | some ab, some bc, some ac, some le => if specTri ab bc ac le then "ok" else "FAIL:triangle"
    | _, _, _, _ => "FAIL:unparsable"
  | ["uni", _, b, c], [dab, dac] =>
    match pKey b, pKey c, pInt dab, pInt dac with
    | some b, some c, some dab, some dac => if specUni b c dab dac then "ok" else "FAIL:unidirectional"
    | _, _, _, _ => "FAIL:unparsable"
  | ["fordist", _, d], [k, dak] =>
    match pInt d, unhex k, pInt dak with
    | some d, some k, some dak => if specForDist d k dak then "ok" else "FAIL:for_distance"
    | _, _, _ => "FAIL:unparsable"
  | ["inv", _, b], [k] =>
    match pKey b, unhex k with
    | some b, some k => if specInv b k then "ok" else "FAIL:for_distance_inverse"
    | _, _ => "FAIL:unparsable"
  | ["range", i], [mn, mx] =>
    match i.toNat?, pInt mn, pInt mx with
    | some i, some mn, some mx => if specRange i mn mx then "ok" else "FAIL:bucket_range"
    | _, _, _ => "FAIL:unparsable"
  | ["cmp", x, y], [r] =>
    match pInt x, pInt y with
    | some x, some y => if specCmp x y r then "ok" else "FAIL:distance_order"
    | _, _ => "FAIL:unparsable"
  | _, _ => "FAIL:unparsable"

def machine : Machine Unit Unit where
  init _ := ()
  specInit _ := ()
  op _ args := ((), opLine args)
  spec _ args outs := ((), specLine args outs)

end Driver.C40

def main : IO Unit := Driver.C40.machine.run
