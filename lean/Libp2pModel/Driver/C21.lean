import Libp2pModel.Common.Drv
import Libp2pModel.Model.C21
namespace Driver.C21
open Drv _root_.C21

def bit (s : String) : Option Bool :=
  if s = "1" then some true else if s = "0" then some false else none

def showVerdict : Verdict → String
  | .ok => "ok" | .errType => "err:type" | .errSig => "err:sig"

def parseVerdict (s : String) : Option Verdict :=
  if s = "ok" then some .ok else if s = "err:type" then some .errType
  else if s = "err:sig" then some .errSig else none

def showRec : RecVerdict → String
  | .ok => "ok" | .errPayload => "err:payload" | .errRecord => "err:record"
  | .errPeerId => "err:peerid" | .errMismatch => "err:mismatch" | .errAddr => "err:multiaddr"

def parseRec (s : String) : Option RecVerdict :=
  if s = "ok" then some .ok else if s = "err:payload" then some .errPayload
  else if s = "err:record" then some .errRecord else if s = "err:peerid" then some .errPeerId
  else if s = "err:mismatch" then some .errMismatch else if s = "err:multiaddr" then some .errAddr else none

def facts (l : List String) : Option Facts :=
  match l.mapM bit with
  | some [a, b, c, d, e, f] => some ⟨a, b, c, d, e, f⟩
  | _ => none

def recFacts (l : List String) : Option RecFacts :=
  match l.mapM bit with
  | some [a, b, c, d, e] => some ⟨a, b, c, d, e⟩
  | _ => none

def b2s (b : Bool) : String := if b then "1" else "0"

def machine : Machine Unit Unit where
  init _ := ()
  specInit _ := ()
  op _ args :=
    match args with
    | ["sigver", _ty, m, s] =>
      match bit m, bit s with
      | some m, some s => ((), "verify=" ++ b2s (!m && !s))
      | _, _ => ((), "bad-op")
    | "env" :: fl =>
      match facts fl with
      | some f => let (v, r) := decideEnv f; ((), unwords ["verify=" ++ b2s v, showVerdict r])
      | none => ((), "bad-op")
    | "rec" :: fl =>
      match recFacts fl with
      | some f => ((), showRec (decideRec f))
      | none => ((), "bad-op")
    | "mutate" :: _ => ((), "-")
    | ["sigstruct", scheme, variant, c] =>
      match bit c with
      | some c =>
        let (v, e, r) := sigstructModel scheme variant c
        ((), unwords ["verify=" ++ b2s v, "env=" ++ (if e then "ok" else "err:sig"), "rec=" ++ (if r then "ok" else "err:payload")])
      | none => ((), "bad-op")
    | ["sigpayload", d, t, p] =>
      match unhex d, unhex t, unhex p with
      | some d, some t, some p => ((), hex (signaturePayload d t p))
      | _, _, _ => ((), "bad-op")
    | ["resplit", _kty, d, t, p, d', t', p', _enc] =>
      match unhex d, unhex t, unhex p, unhex d', unhex t', unhex p' with
      | some d, some t, some p, some d', some t', some p' =>
        let (v, r) := resplitModel d t p d' t' p'
        ((), unwords ["verify=" ++ b2s v, showVerdict r])
      | _, _, _, _, _, _ => ((), "bad-op")
    | _ => ((), "bad-op")
  spec _ args outs :=
    match args, outs with
    | ["sigver", _ty, m, s], [v] =>
      match bit m, bit s with
      | some m, some s =>
        ((), if v = "verify=1" then (if m || s then "FAIL:mutated_message_or_signature_verifies" else "ok")
             else if v = "verify=0" then (if m || s then "ok" else "FAIL:own_signature_rejected")
             else "FAIL:unparsable")
      | _, _ => ((), "FAIL:unparsable")
    | "env" :: fl, [v, r] =>
      match facts fl, parseVerdict r with
      | some f, some r =>
        ((), if v ≠ "verify=1" ∧ v ≠ "verify=0" then "FAIL:unparsable"
             else if specEnvelope f (v = "verify=1") r then "ok" else "FAIL:envelope_accept_iff")
      | _, _ => ((), "FAIL:unparsable")
    | "rec" :: fl, [r] =>
      match recFacts fl, parseRec r with
      | some f, some r => ((), if specRecord f r then "ok" else "FAIL:record_accept_iff")
      | _, _ => ((), "FAIL:unparsable")
    | ["sigstruct", scheme, variant, c], [v, e, r] =>
      match bit c with
      | some c =>
        if (v ≠ "verify=1" ∧ v ≠ "verify=0") ∨ !e.startsWith "env=" ∨ !r.startsWith "rec=" then ((), "FAIL:unparsable")
        else if specSigstruct c (v = "verify=1") (e = "env=ok") (r = "rec=ok") then ((), "ok")
        else if c then ((), "FAIL:changed_signature_accepted:" ++ scheme ++ "_" ++ variant)
        else ((), "FAIL:own_signature_rejected")
      | none => ((), "FAIL:unparsable")
    | ["sigpayload", d, t, p], [bs] =>
      match unhex d, unhex t, unhex p, unhex bs with
      | some d, some t, some p, some bs =>
        ((), if specPayloadBytes d t p bs then "ok" else "FAIL:signed_bytes_do_not_delimit_fields")
      | _, _, _, _ => ((), "FAIL:unparsable")
    | ["resplit", _kty, d, t, p, d', t', p', _enc], [v, r] =>
      match unhex d, unhex t, unhex p, unhex d', unhex t', unhex p', parseVerdict r with
      | some d, some t, some p, some d', some t', some p', some r =>
        ((), if v ≠ "verify=1" ∧ v ≠ "verify=0" then "FAIL:unparsable"
             else if specResplit d t p d' t' p' (v = "verify=1") r then "ok"
             else if v = "verify=1" ∨ r = .ok then "FAIL:resplit_fields_accepted"
             else "FAIL:signed_triple_rejected")
      | _, _, _, _, _, _, _ => ((), "FAIL:unparsable")
    | "mutate" :: _, [r] =>
      ((), if r.startsWith "rejected:" || r = "accepted:same" then "ok"
           else if r.startsWith "accepted:" then "FAIL:mutated_envelope_accepted_with_different_record"
           else "FAIL:unparsable")
    | _, _ => ((), "FAIL:unparsable")

end Driver.C21

def main : IO Unit := Driver.C21.machine.run
