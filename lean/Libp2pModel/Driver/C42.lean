import Libp2pModel.Common.Drv
import Libp2pModel.Model.C42
namespace Driver.C42
open Drv

structure St where
  ttl : Option Nat := none
  k : Nat := 20
  filt : Bool := false
  now : Nat := 0
  deriving Inhabited

def kv (key : String) (toks : List String) : Option String :=
  (toks.find? (fun t => t.startsWith (key ++ "="))).map (fun t => (t.drop (key.length + 1)).toString)

def parseOptNat (s : String) : Option (Option Nat) :=
  if s = "none" then some none else s.toNat?.map some

def initSt (cfg : List String) : St :=
  { ttl := ((kv "ttl" cfg).bind parseOptNat).getD none
    k := ((kv "k" cfg).bind String.toNat?).getD 20
    filt := (kv "filt" cfg) == some "1"
    now := ((kv "now" cfg).bind String.toNat?).getD 0 }

/-- expiry relative to `now`: `none`, `in:<ns>` (later than now), `ago:<ns>` (now or earlier) -/
def parseRel (now : Nat) (s : String) : Option (Option Nat) :=
  if s = "none" then some none
  else if s.startsWith "in:" then (s.drop 3).toString.toNat?.map (fun d => some (now + d))
  else if s.startsWith "ago:" then (s.drop 4).toString.toNat?.map (fun d => some (now - d))
  else none

def showRel (now : Nat) : Option Nat → String
  | none => "none"
  | some t => if t > now then s!"in:{t - now}" else s!"ago:{now - t}"

def panicMsg : String := "panic overflow_when_adding_duration_to_instant"

def showOutcome (st : St) (key val req : String) : _root_.C42.Outcome → String
  | .panic => panicMsg
  | .dropped _ => s!"store=absent ev=absent ack=PutRecordRes:{key}:{val}:{req}"
  | .kept e =>
    if st.filt then s!"store=absent ev={showRel st.now e} ack=PutRecordRes:{key}:{val}:{req}"
    else s!"store={showRel st.now e} ev=null ack=PutRecordRes:{key}:{val}:{req}"

def modelOp (st : St) (args : List String) : St × String :=
  match args with
  | ["warp", d] =>
    match d.toNat? with
    | some d => ({ st with now := st.now + d }, "ok")
    | none => (st, "bad-op")
  | "put" :: key :: val :: rem :: rest =>
    match parseRel st.now rem, (kv "nb" rest).bind String.toNat?, kv "req" rest with
    | some remote, some nb, some req =>
      (st, showOutcome st key val req (_root_.C42.recordReceived remote st.ttl st.k nb st.now))
    | _, _, _ => (st, "bad-op")
  | ["toproto", _, rem] =>
    match parseRel st.now rem with
    | some e => (st, s!"ttl {_root_.C42.toProtoTtl e st.now}")
    | none => (st, "bad-op")
  | ["fromproto", _, ttl] =>
    match ttl.toNat? with
    | some ttl =>
      match _root_.C42.fromProtoExpires ttl st.now with
      | some e => (st, s!"exp {showRel st.now e}")
      | none => (st, panicMsg)
    | none => (st, "bad-op")
  | "relay" :: key :: val :: rem :: delay :: rest =>
    match parseRel st.now rem, delay.toNat?, (kv "nb" rest).bind String.toNat?, kv "req" rest with
    | some e0, some delay, some nb, some req =>
      let w := _root_.C42.toProtoTtl e0 st.now
      let st' := { st with now := st.now + delay }
      match _root_.C42.fromProtoExpires w st'.now with
      | none => (st', panicMsg)
      | some remote =>
        match _root_.C42.recordReceived remote st'.ttl st'.k nb st'.now with
        | .panic => (st', panicMsg)
        | o => (st', s!"ttl={w} " ++ showOutcome st' key val req o)
    | _, _, _, _ => (st, "bad-op")
  | _ => (st, "bad-op")

/-- the expiry the implementation stored / handed on, `none` when nothing was kept -/
def keptOf (now : Nat) (outs : List String) : Option (Option Nat) :=
  match kv "store" outs, kv "ev" outs with
  | some s, some e =>
    if s ≠ "absent" then parseRel now s
    else if e ≠ "absent" ∧ e ≠ "null" then parseRel now e
    else none
  | _, _ => none

def specOp (st : St) (args outs : List String) : St × String :=
  if outs.head? == some "panic" then
    -- a panic stores nothing and sends nothing: the property is silent; a panic the model does
    -- not predict is reported by the correspondence
    (match args with
      | ["warp", d] => { st with now := st.now + (d.toNat?.getD 0) }
      | "relay" :: _ :: _ :: _ :: delay :: _ => { st with now := st.now + (delay.toNat?.getD 0) }
      | _ => st, "ok")
  else
  match args with
  | ["warp", d] => ({ st with now := st.now + (d.toNat?.getD 0) }, "ok")
  | "put" :: _ :: _ :: rem :: _ =>
    match parseRel st.now rem with
    | some remote =>
      match keptOf st.now outs with
      | some e => (st, _root_.C42.specKept remote st.ttl st.now e)
      | none => (st, "ok")
    | none => (st, "FAIL:unparsable")
  | ["toproto", _, rem] =>
    match parseRel st.now rem, outs with
    | some e, ["ttl", w] =>
      match w.toNat? with
      | some w => (st, _root_.C42.specToProto e st.now w)
      | none => (st, "FAIL:unparsable")
    | _, _ => (st, "FAIL:unparsable")
  | ["fromproto", _, ttl] =>
    match ttl.toNat?, outs with
    | some ttl, ["exp", e] =>
      match parseRel st.now e with
      | some e => (st, _root_.C42.specFromProto ttl st.now e)
      | none => (st, "FAIL:unparsable")
    | _, _ => (st, "FAIL:unparsable")
  | "relay" :: _ :: _ :: rem :: delay :: _ =>
    match parseRel st.now rem, delay.toNat?, (kv "ttl" outs).bind String.toNat? with
    | some e0, some delay, some w =>
      let st' := { st with now := st.now + delay }
      let v1 := _root_.C42.specToProto e0 st.now w
      if v1 ≠ "ok" then (st', v1) else
      match keptOf st'.now outs with
      | none => (st', "ok")
      | some e =>
        -- the expiry the peer gave = what the wire TTL means at the receiver
        let remote := if w = 0 then none else some (st'.now + w * _root_.C42.NS)
        let v2 := _root_.C42.specKept remote st'.ttl st'.now e
        if v2 ≠ "ok" then (st', v2) else
        -- end to end: not later than the sender's expiry (or one wire unit) plus the transit delay
        match e0, e with
        | some t, some x =>
          (st', if x ≤ max t (st.now + _root_.C42.NS) + delay then "ok" else "FAIL:extended_in_transit")
        | some _, none => (st', "FAIL:remote_ttl_lost")
        | none, _ => (st', "ok")
    | _, _, _ => (st, "FAIL:unparsable")
  | _ => (st, "FAIL:unparsable")

def machine : Machine St St where
  init := initSt
  specInit := initSt
  op := modelOp
  spec := specOp

end Driver.C42

def main : IO Unit := Driver.C42.machine.run
