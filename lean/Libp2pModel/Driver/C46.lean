import Libp2pModel.Model.C46
/-!
# C46 driver

Keys and envelopes are the small integers the harness interns them to (`K = E = Nat`).  The
environment of the model is the accumulated oracle tables of the case: every op line carries the
results of the primitives (`PublicKey::try_decode_protobuf`/`to_peer_id`, `Multiaddr::try_from`,
`SignedEnvelope::from_protobuf_encoding`/`verify`, record payload decoding, `PeerId::from_bytes`)
on the byte strings of its message; byte strings without an entry decode to nothing.
-/
namespace Driver.C46
open Drv
open _root_.C46

structure Tables where
  keyDec : List (Bytes × Option Nat) := []
  kpid   : List (Nat × Bytes) := []
  addr   : List (Bytes × Option Maddr) := []
  envDec : List (Bytes × Option Nat) := []
  einfo  : List (Nat × (Nat × Bytes × Bytes × Bool)) := []
  recs   : List (Bytes × Option RecordPb) := []
  pids   : List (Bytes × Option Bytes) := []

def Tables.env (t : Tables) : Env Nat Nat where
  decodeKey b := (t.keyDec.lookup b).bind id
  peerIdOf k := (t.kpid.lookup k).getD []
  decodeAddr b := (t.addr.lookup b).bind id
  decodeEnvelope b := (t.envDec.lookup b).bind id
  envKey e := ((t.einfo.lookup e).map (·.1)).getD 0
  envPayloadType e := ((t.einfo.lookup e).map (·.2.1)).getD []
  envPayload e := ((t.einfo.lookup e).map (·.2.2.1)).getD []
  verify e d := d == legacyDomain && ((t.einfo.lookup e).map (·.2.2.2)).getD false
  decodeRecord b := (t.recs.lookup b).bind id
  decodePeerId b := (t.pids.lookup b).bind id

/-! ### token parsing -/

def optBytes (s : String) : Option (Option Bytes) :=
  if s = "none" then some none else (unhex s).map some

def bytesList (sep : String) (s : String) : Option (List Bytes) :=
  if s = "~" then some [] else (s.splitOn sep).mapM unhex

/-- `~` or `;`-joined `keyhex>value` -/
def tableEntries (s : String) : Option (List (Bytes × String)) :=
  if s = "~" then some [] else
    (s.splitOn ";").mapM fun ent =>
      match ent.splitOn ">" with
      | [k, v] => (unhex k).map fun kb => (kb, v)
      | _ => none

def parseMsg : List String → Option Msg
  | [pk, la, spr, obs, pr, pv, av] => do
    let pk ← optBytes pk
    let la ← bytesList "," la
    let spr ← optBytes spr
    let obs ← optBytes obs
    let pr ← bytesList "," pr
    let pv ← optBytes pv
    let av ← optBytes av
    pure ⟨pk, la, spr, obs, pr, pv, av⟩
  | _ => none

def addK (t : Tables) (ents : List (Bytes × String)) : Option Tables :=
  ents.foldlM (fun t (kb, v) =>
    if v = "!" then some { t with keyDec := (kb, none) :: t.keyDec } else
    match v.splitOn "," with
    | [kid, pid] => do
      let kid ← kid.toNat?
      let pid ← unhex pid
      pure { t with keyDec := (kb, some kid) :: t.keyDec, kpid := (kid, pid) :: t.kpid }
    | _ => none) t

def addA (t : Tables) (ents : List (Bytes × String)) : Option Tables :=
  ents.foldlM (fun t (kb, v) =>
    if v = "!" then some { t with addr := (kb, none) :: t.addr } else
    (Maddr.parse v).map fun a => { t with addr := (kb, some a) :: t.addr }) t

def addE (t : Tables) (ents : List (Bytes × String)) : Option Tables :=
  ents.foldlM (fun t (kb, v) =>
    if v = "!" then some { t with envDec := (kb, none) :: t.envDec } else
    match v.splitOn "," with
    | [eid, kid, pid, pty, pl, vf] => do
      let eid ← eid.toNat?
      let kid ← kid.toNat?
      let pid ← unhex pid
      let pty ← unhex pty
      let pl ← unhex pl
      pure { t with envDec := (kb, some eid) :: t.envDec, kpid := (kid, pid) :: t.kpid,
                    einfo := (eid, (kid, pty, pl, vf == "1")) :: t.einfo }
    | _ => none) t

def addR (t : Tables) (ents : List (Bytes × String)) : Option Tables :=
  ents.foldlM (fun t (kb, v) =>
    if v = "!" then some { t with recs := (kb, none) :: t.recs } else
    match v.splitOn "," with
    | [peer, seq, addrs] => do
      let peer ← unhex peer
      let seq ← seq.toNat?
      let addrs ← bytesList "+" addrs
      pure { t with recs := (kb, some ⟨peer, seq, addrs⟩) :: t.recs }
    | _ => none) t

def addP (t : Tables) (ents : List (Bytes × String)) : Option Tables :=
  ents.foldlM (fun t (kb, v) =>
    if v = "!" then some { t with pids := (kb, none) :: t.pids } else
    (unhex v).map fun p => { t with pids := (kb, some p) :: t.pids }) t

def addTables (t : Tables) : List String → Option Tables
  | [k, a, e, r, p] => do
    let t ← (tableEntries k).bind (addK t)
    let t ← (tableEntries a).bind (addA t)
    let t ← (tableEntries e).bind (addE t)
    let t ← (tableEntries r).bind (addR t)
    (tableEntries p).bind (addP t)
  | _ => none

/-- op tokens ↦ (kind, message, ideal label, tables extended by the op's oracle) -/
def parseOp (t : Tables) : List String → Option (String × Msg × String × Tables)
  | kind0 :: rest =>
    -- the end-to-end ops are the same model steps, executed through two real swarms
    let kind := if kind0 = "e2e-identify" then "identify" else if kind0 = "e2e-push" then "push" else kind0
    if rest.length = 13 then do
      let m ← parseMsg (rest.take 7)
      let t' ← addTables t (rest.drop 8)
      pure (kind, m, rest.getD 7 "x", t')
    else none
  | _ => none

/-! ### rendering / parsing of `Info` -/

def showBytesList (l : List Bytes) : String :=
  if l.isEmpty then "~" else ",".intercalate (l.map hex)

def showInfo (env : Env Nat Nat) (i : Info Nat Nat) : String :=
  s!"key={i.publicKey} pid={hex (env.peerIdOf i.publicKey)} la={Maddr.renderList i.listenAddrs} " ++
  s!"rec={match i.signedPeerRecord with | none => "none" | some e => s!"e{e}"} " ++
  s!"pr={showBytesList i.protocols} obs={Maddr.render i.observedAddr} " ++
  s!"pv={hex i.protocolVersion} av={hex i.agentVersion}"

def field (pfx : String) (tok : String) : Option String :=
  if tok.startsWith pfx then some (tok.drop pfx.length).toString else none

/-- the 8 info tokens ↦ (info, reported pid) -/
def parseInfo : List String → Option (Info Nat Nat × Bytes)
  | [k, pid, la, rc, pr, obs, pv, av] => do
    let k ← (field "key=" k).bind String.toNat?
    let pid ← (field "pid=" pid).bind unhex
    let la ← (field "la=" la).bind Maddr.parseList
    let rc ← field "rec=" rc
    let rc ← if rc = "none" then some none else ((field "e" rc).bind String.toNat?).map some
    let pr ← (field "pr=" pr).bind (bytesList ",")
    let obs ← (field "obs=" obs).bind Maddr.parse
    let pv ← (field "pv=" pv).bind unhex
    let av ← (field "av=" av).bind unhex
    pure (⟨k, pv, av, la, pr, obs, rc⟩, pid)
  | _ => none

/-! ### the machine -/

structure MSt where
  p : Bytes := []
  t : Tables := {}
  st : HState Nat Nat := none

structure SSt where
  p : Bytes := []
  t : Tables := {}
  prev : Option (Info Nat Nat) := none

def cfgPeer (cfg : List String) : Bytes :=
  ((cfg.findSome? (field "p=")).bind unhex).getD []

def showOut (env : Env Nat Nat) : Out Nat Nat → String
  | .received i => "recv " ++ showInfo env i
  | .error => "err:PublicKey"
  | .nothing => "none"

/-- does an ideal verifier's verdict (generator label) agree with the oracle tables? -/
def idealOk (env : Env Nat Nat) (m : Msg) (ideal : String) : Bool :=
  let used := match msgKey env m with
    | some k => (recordFor env k m.signedPeerRecord).isSome
    | none => false
  if ideal = "1" then used else if ideal = "0" then !used else true

def isWire : List String → Bool
  | [k, _] => k = "wire-identify" || k = "wire-push"
  | _ => false

def machine : Machine MSt SSt where
  init cfg := { p := cfgPeer cfg }
  specInit cfg := { p := cfgPeer cfg }
  op s args :=
    -- malformed stream: no message reaches the decision logic; state unchanged, which error is
    -- raised is the codec's business ("-" = judged by the Spec only)
    if isWire args then (s, "-") else
    match parseOp s.t args with
    | none => (s, "bad-op")
    | some (kind, m, _, t') =>
      let env := t'.env
      let s := { s with t := t' }
      if kind = "tryfrom" then
        match tryDirect env s.p m with
        | none => (s, "err:PublicKey")
        | some (i, acc, filt) =>
          (s, s!"ok {showInfo env i} acc={if acc then 1 else 0} filt={Maddr.renderList filt}")
      else if kind = "identify" then
        let (st', out) := step env s.p s.st (.identify m)
        ({ s with st := st' }, showOut env out)
      else if kind = "push" then
        let (st', out) := step env s.p s.st (.push m)
        ({ s with st := st' }, showOut env out)
      else (s, "bad-op")
  spec s args outs :=
    if isWire args then
      (s, match outs with
          | [o] => if o.startsWith "err:" then "ok" else "FAIL:malformed_stream_reported"
          | _ => "FAIL:malformed_stream_reported") else
    match parseOp s.t args with
    | none => (s, "FAIL:unparsable")
    | some (kind, m, ideal, t') =>
      let env := t'.env
      let s := { s with t := t' }
      if !idealOk env m ideal && kind ≠ "push" then (s, "FAIL:ideal_crypto") else
      if kind = "tryfrom" then
        match outs with
        | ["err:PublicKey"] => (s, if specTryFrom env s.p m none then "ok" else "FAIL:tryfrom_error")
        | "ok" :: rest =>
          match parseInfo (rest.take 8), rest.drop 8 with
          | some (i, pid), [acc, filt] =>
            match (field "acc=" acc), (field "filt=" filt).bind Maddr.parseList with
            | some acc, some filt =>
              if pid ≠ env.peerIdOf i.publicKey then (s, "FAIL:pid_oracle") else
              (s, if specTryFrom env s.p m (some (i, acc == "1", filt)) then "ok" else "FAIL:tryfrom_spec")
            | _, _ => (s, "FAIL:unparsable")
          | _, _ => (s, "FAIL:unparsable")
        | _ => (s, "FAIL:unparsable")
      else
        let op? : Option Op :=
          if kind = "identify" then some (.identify m) else if kind = "push" then some (.push m) else none
        let out? : Option (Out Nat Nat × Bool) :=
          match outs with
          | ["none"] => some (.nothing, true)
          | ["err:PublicKey"] => some (.error, true)
          | "recv" :: rest => (parseInfo rest).map fun (i, pid) => (.received i, pid == env.peerIdOf i.publicKey)
          | _ => none
        match op?, out? with
        | some op, some (out, pidOk) =>
          if !pidOk then (s, "FAIL:pid_oracle") else
          let ok := specStep env s.p s.prev op out
          ({ s with prev := specNext s.prev out },
            if ok then "ok" else
              match out with
              | .received i =>
                if env.peerIdOf i.publicKey != s.p then "FAIL:key_mismatch_reported"
                else if !(i.listenAddrs.all (matchesPeer · s.p)) then "FAIL:foreign_p2p_reported"
                else "FAIL:signed_record_use"
              | .error => "FAIL:unexpected_error"
              | .nothing => "FAIL:not_reported")
        | _, _ => (s, "FAIL:unparsable")

end Driver.C46

def main : IO Unit := Driver.C46.machine.run
