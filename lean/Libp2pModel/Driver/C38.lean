import Libp2pModel.Model.C38_Walk
import Libp2pModel.Model.C40
namespace Driver.C38
open Drv _root_.C38

/-- a 32-byte big-endian token as a 256-bit integer -/
def pKey (s : String) : Option Nat :=
  match unhex s with
  | some bs => if C40.validKey bs then some (C40.fromBE bs) else none
  | none => none

def showKey (n : Nat) : String := hex (C40.toBE 32 n)

def pKeys (s : String) : Option (List Nat) :=
  if s = "-" then some [] else (s.splitOn ",").mapM pKey

def showKeys (l : List Nat) : String :=
  if l.isEmpty then "-" else ",".intercalate (l.map showKey)

def cfgVal (cfg : List String) (name : String) : Option String :=
  cfg.findSome? fun t => if t.startsWith (name ++ "=") then some ((t.drop (name.length + 1)).toString) else none

structure Cfg where
  localKey : Nat
  bsize : Nat
  timeout : Nat
  keys : List Nat

def parseCfg (cfg : List String) : Cfg :=
  { localKey := ((cfgVal cfg "local").bind pKey).getD 0
    bsize := ((cfgVal cfg "bsize").bind String.toNat?).getD 20
    timeout := ((cfgVal cfg "timeout").bind String.toNat?).getD 60
    keys := ((cfgVal cfg "keys").map fun s => (s.splitOn ",").filterMap pKey).getD [] }

/-- key token: index into the case's key list, or `L` for the local key -/
def keyOf (c : Cfg) (s : String) : Option Nat :=
  if s = "L" then some c.localKey else s.toNat?.bind fun i => c.keys[i]?

def idxOf (c : Cfg) (k : Nat) : String :=
  if k = c.localKey then "L" else
  match c.keys.findIdx? (· == k) with
  | some i => toString i
  | none => "?"

def pSt (s : String) : Option C37.Status :=
  if s = "c" then some .connected else if s = "d" then some .disconnected else none

def showSt : C37.Status → String
  | .connected => "c"
  | .disconnected => "d"

def showInfo (l : List (Nat × Nat × Bool)) : String :=
  if l.isEmpty then "info:-" else
  "info:" ++ ",".intercalate (l.map fun (i, n, hp) => s!"{i}.{n}.{if hp then 1 else 0}")

/-- same tokens as the C37 harness prints for the result of a table operation -/
def showRes (c : Cfg) : C37.OpResult → String
  | .isLocal => "local"
  | .entry .isLocal => "local"
  | .entry .absent => "absent"
  | .entry (.present st v) => s!"present:{showSt st}:{v}"
  | .entry (.pending st v) => s!"pendingentry:{showSt st}:{v}"
  | .insert .inserted => "inserted"
  | .insert .full => "full"
  | .insert (.pending d) => s!"pending:{idxOf c d}"
  | .removed v st false => s!"removed:{v}:{showSt st}"
  | .removed v st true => s!"removedpending:{v}:{showSt st}"
  | .unit => "ok"
  | .info l => showInfo l

def parseOp (c : Cfg) : List String → Option C37.Op
  | ["ins", k, v, st] => do some (.insert (← keyOf c k) (← v.toNat?) (← pSt st))
  | ["upd", k, st] => do some (.update (← keyOf c k) (← pSt st))
  | ["rem", k] => do some (.remove (← keyOf c k))
  | ["look", k] => do some (.lookup (← keyOf c k))
  | ["bkt", k] => do some (.bucketInfo (← keyOf c k))
  | ["iter"] => some .iter
  | ["adv", n] => do some (.advance (← n.toNat?))
  | _ => none

structure MSt where
  cfg : Cfg
  table : C37.Table

def sortNat (l : List Nat) : List Nat := l.mergeSort (fun a b => decide (a ≤ b))

def closestLine (s : MSt) (tg : String) : MSt × String :=
  match pKey tg with
  | some tg =>
    let (t', out) := closestFull s.cfg.bsize s.table tg
    ({ s with table := { t' with applied := [] } },
      unwords [showKeys out, "#", showKeys (sortNat (storedKeys t'))])
  | none => (s, "bad-op")

def specClosest (tg ks stored : String) : String :=
  match pKey tg, pKeys ks, pKeys stored with
  | some tg, some ks, some stored =>
    if !exactlyOnce stored ks then "FAIL:not_every_key_exactly_once"
    else if !sortedTo tg ks then "FAIL:not_sorted_by_distance"
    else if spec stored tg ks then "ok" else "FAIL:closest"
  | _, _, _ => "FAIL:unparsable"

def machine : Machine MSt Unit where
  init cfg :=
    let c := parseCfg cfg
    ⟨c, C37.Table.new c.localKey c.bsize c.timeout⟩
  specInit _ := ()
  op s args :=
    match args with
    | ["closest", tg] => closestLine s tg
    | ["closestv", tg] => closestLine s tg
    | ["order", d] =>
      match pKey d with
      | some d => (s, showNatList (bucketOrder d))
      | none => (s, "bad-op")
    | _ =>
      match parseOp s.cfg args with
      | none => (s, "bad-op")
      | some op =>
        let (t1, r) := s.table.step op
        ({ s with table := (t1.drain).1 }, showRes s.cfg r)
  spec _ args outs :=
    match args, outs with
    | ["closest", tg], [ks, "#", stored] => ((), specClosest tg ks stored)
    | ["closestv", tg], [ks, "#", stored] => ((), specClosest tg ks stored)
    | ["order", _], [l] =>
      match natList l with
      | some l => ((), if specOrder l then "ok" else "FAIL:bucket_order_not_a_permutation")
      | none => ((), "FAIL:unparsable")
    | op :: _, [_] =>
      -- table-building operations: judged by C37; here only the exact comparison with the model
      ((), if ["ins", "upd", "rem", "look", "bkt", "iter", "adv"].contains op then "ok" else "FAIL:unparsable")
    | _, _ => ((), "FAIL:unparsable")

end Driver.C38

def main : IO Unit := Driver.C38.machine.run
