import Libp2pModel.Model.C38
import Libp2pModel.Model.C40
namespace Driver.C38
open Drv _root_.C38

/-- a 32-byte big-endian token as a 256-bit integer -/
def pKey (s : String) : Option Nat :=
  match unhex s with
  | some bs => if C40.validKey bs then some (C40.fromBE bs) else none
  | none => none

def showKey (n : Nat) : String := hex (C40.toBE 32 n)

def pKeys (s : String) : Option (List Nat) :=
  if s = "-" then some [] else (s.splitOn ",").mapM pKey

def showKeys (l : List Nat) : String :=
  if l.isEmpty then "-" else ",".intercalate (l.map showKey)

def cfgVal (cfg : List String) (name : String) : Option String :=
  cfg.findSome? fun t => if t.startsWith (name ++ "=") then some ((t.drop (name.length + 1)).toString) else none

def initTable (cfg : List String) : Table :=
  let l := ((cfgVal cfg "local").bind pKey).getD 0
  let s := ((cfgVal cfg "bsize").bind String.toNat?).getD 20
  Table.new l s

def showIns : InsertRes → String
  | .isLocal => "local"
  | .present => "present"
  | .inserted => "inserted"
  | .full => "full"

/-- spec monitor state: the keys the IMPLEMENTATION reported as inserted -/
structure Mon where
  stored : List Nat

def machine : Machine Table Mon where
  init cfg := initTable cfg
  specInit _ := ⟨[]⟩
  op t args :=
    match args with
    | ["insert", k] =>
      match pKey k with
      | some k => let (t', r) := t.insert k; (t', showIns r)
      | none => (t, "bad-op")
    | ["closest", tg] =>
      match pKey tg with
      | some tg => (t, showKeys (closestKeys t tg))
      | none => (t, "bad-op")
    | ["closestv", tg] =>
      match pKey tg with
      | some tg => (t, showKeys (closestKeys t tg))
      | none => (t, "bad-op")
    | ["order", d] =>
      match pKey d with
      | some d => (t, showNatList (bucketOrder d))
      | none => (t, "bad-op")
    | _ => (t, "bad-op")
  spec m args outs :=
    match args, outs with
    | ["insert", k], [r] =>
      match pKey k with
      | some k =>
        if r = "inserted" then
          if m.stored.contains k then (m, "FAIL:inserted_twice") else (⟨m.stored ++ [k]⟩, "ok")
        else if r = "full" ∨ r = "present" ∨ r = "local" then (m, "ok")
        else (m, "FAIL:insert_result")
      | none => (m, "FAIL:unparsable")
    | ["closest", tg], [ks] =>
      match pKey tg, pKeys ks with
      | some tg, some ks =>
        if !exactlyOnce m.stored ks then (m, "FAIL:not_every_key_exactly_once")
        else if !sortedTo tg ks then (m, "FAIL:not_sorted_by_distance")
        else (m, if spec m.stored tg ks then "ok" else "FAIL:closest")
      | _, _ => (m, "FAIL:unparsable")
    | ["closestv", tg], [ks] =>
      match pKey tg, pKeys ks with
      | some tg, some ks =>
        if !exactlyOnce m.stored ks then (m, "FAIL:not_every_key_exactly_once")
        else if !sortedTo tg ks then (m, "FAIL:not_sorted_by_distance")
        else (m, if spec m.stored tg ks then "ok" else "FAIL:closest")
      | _, _ => (m, "FAIL:unparsable")
    | ["order", _], [l] =>
      match natList l with
      | some l => (m, if specOrder l then "ok" else "FAIL:bucket_order_not_a_permutation")
      | none => (m, "FAIL:unparsable")
    | _, _ => (m, "FAIL:unparsable")

end Driver.C38

def main : IO Unit := Driver.C38.machine.run
