import Libp2pModel.Model.C11
namespace Driver.C11
open Drv
open _root_.C11

def parseNames (tok : String) : Option (List Name) :=
  if tok = "-" then some [] else (tok.splitOn ",").mapM unhex

def sortNames (l : List Name) : List Name := l.mergeSort (fun a b => !decide (b < a))

def showNames (l : List Name) : String :=
  if l.isEmpty then "-" else ",".intercalate ((sortNames l).map hex)

def showEv : Ev → String
  | .added l => "A:" ++ showNames l
  | .removed l => "R:" ++ showNames l

def showEvs (l : List Ev) : String :=
  if l.isEmpty then "-" else "+".intercalate (l.map showEv)

def parseEv (tok : String) : Option Ev :=
  match tok.splitOn ":" with
  | ["A", n] => (parseNames n).map .added
  | ["R", n] => (parseNames n).map .removed
  | _ => none

def parseEvs (tok : String) : Option (List Ev) :=
  if tok = "-" then some [] else (tok.splitOn "+").mapM parseEv

/-- monitor state: the handler-side folds of the IMPLEMENTATION's events, and the fold of the reports -/
structure Mon where
  lfold : List Name := []
  rfold : List Name := []
  reported : List Name := []

def machine : Machine (Option Conn) Mon where
  init _ := none
  specInit _ := {}
  op st args :=
    match args with
    | [kind, l] =>
      match parseNames l with
      | none => (st, "bad-op")
      | some names =>
        match kind, st with
        | "init", _ =>
          let c := connInit names
          (some c, showEvs (initLocal names).2 ++ " " ++ showNames (keys c.lmap))
        | "local", some c =>
          let r := connStep c (.local_ names)
          (some r.1, showEvs r.2 ++ " " ++ showNames (keys r.1.lmap))
        | "radd", some c =>
          let r := connStep c (.radd names)
          (some r.1, showEvs r.2 ++ " " ++ showNames r.1.rset)
        | "rrem", some c =>
          let r := connStep c (.rrem names)
          (some r.1, showEvs r.2 ++ " " ++ showNames r.1.rset)
        | "radd", none =>
          let r := connStep (connInit []) (.radd names)
          (some r.1, showEvs r.2 ++ " " ++ showNames r.1.rset)
        | "rrem", none =>
          let r := connStep (connInit []) (.rrem names)
          (some r.1, showEvs r.2 ++ " " ++ showNames r.1.rset)
        | _, _ => (st, "bad-op")
    | _ => (st, "bad-op")
  spec mon args outs :=
    match args, outs with
    | [kind, l], [evs, retained] =>
      match parseNames l, parseEvs evs, parseNames retained with
      | some names, some evs, some kept =>
        if kind == "init" || kind == "local" then
          let lf := applyEvs (if kind == "init" then [] else mon.lfold) evs
          ({ mon with lfold := lf }, if specLocal lf names then "ok" else "FAIL:local_fold")
        else if kind == "radd" || kind == "rrem" then
          let rf := applyEvs mon.rfold evs
          let rep := reportFold mon.reported (kind == "radd") names
          ({ mon with rfold := rf, reported := rep },
            if !specRemote rf rep then "FAIL:remote_fold"
            else if !setEq kept rep then "FAIL:remote_set" else "ok")
        else (mon, "FAIL:unparsable")
      | _, _, _ => (mon, "FAIL:unparsable")
    | _, _ => (mon, "FAIL:unparsable")

end Driver.C11

def main : IO Unit := Driver.C11.machine.run
