import Libp2pModel.Model.C11
namespace Driver.C11
open Drv
open _root_.C11

def parseNames (tok : String) : Option (List Name) :=
  if tok = "-" then some [] else (tok.splitOn ",").mapM unhex

def sortNames (l : List Name) : List Name := l.mergeSort (fun a b => !decide (b < a))

def showNames (l : List Name) : String :=
  if l.isEmpty then "-" else ",".intercalate ((sortNames l).map hex)

def showEv : Ev → String
  | .added l => "A:" ++ showNames l
  | .removed l => "R:" ++ showNames l

def showEvs (l : List Ev) : String :=
  if l.isEmpty then "-" else "+".intercalate (l.map showEv)

def parseEv (tok : String) : Option Ev :=
  match tok.splitOn ":" with
  | ["A", n] => (parseNames n).map .added
  | ["R", n] => (parseNames n).map .removed
  | _ => none

def parseEvs (tok : String) : Option (List Ev) :=
  if tok = "-" then some [] else (tok.splitOn "+").mapM parseEv

/-- monitor state: the handler-side folds of the IMPLEMENTATION's events, and the fold of the reports -/
structure Mon where
  lfold : List Name := []
  rfold : List Name := []
  reported : List Name := []

/-! ### end-to-end ops (`Connection::poll` granularity) -/
def showList (l : List Name) : String :=
  if l.isEmpty then "-" else ",".intercalate (l.map hex)

def optList (tok pre : String) : Option (Option (List Name)) :=
  if tok == pre then some none
  else if tok.startsWith (pre ++ "=") then (parseNames (tok.drop (pre.length + 1)).toString).map some
  else none

def parseStep (tok : String) : Option Step :=
  match optList tok "P" with
  | some s => some (.pend s)
  | none =>
  match optList tok "E" with
  | some s => some (.event s)
  | none =>
  match optList tok "RA" with
  | some (some l) => some (.radd l)
  | _ =>
  match optList tok "RR" with
  | some (some l) => some (.rrem l)
  | _ => none

def parseOnEv (tok : String) : Option (Option (List Name)) :=
  if tok == "N" then some none else
  match optList tok "S" with
  | some (some l) => some (some l)
  | _ => none

def parsePOp : List String → Option POp
  | ["steps", l] => ((l.splitOn ";").mapM parseStep).map .steps
  | ["onev", l] => ((l.splitOn ";").mapM parseOnEv).map .onEv
  | ["beh", l] => (parseNames l).map .beh
  | ["poll"] => some .poll
  | _ => none

def showHEv (e : HEv) : String := (if e.1 then "L" else "R") ++ showEv e.2

def showPC (res : String) (c : PC) : String :=
  let ev := if c.log.isEmpty then "-" else "+".intercalate (c.log.map showHEv)
  let em := if c.emitted.isEmpty then "-" else
    "+".intercalate (c.emitted.map fun e => (if e.1 then "A:" else "R:") ++ showList e.2)
  s!"{res} ev={ev} em={em} adv={showList c.adv} lk={showNames (keys c.lmap)} rk={showNames c.rset}"

def isE2E (args : List String) : Bool :=
  match args with
  | "new" :: _ => true | "steps" :: _ => true | "onev" :: _ => true | "beh" :: _ => true | "poll" :: _ => true
  | _ => false

def modelE2E (st : Option PC) (args : List String) : Option PC × String :=
  match args with
  | ["new", l] =>
    match parseNames l with
    | some l => let c := pinit l; (some c, showPC "-" c)
    | none => (st, "bad-op")
  | _ =>
    match st, parsePOp args with
    | some c, some o =>
      let r := pstep c o
      let res := match r.2 with
        | none => "-" | some .pending => "pending" | some .event => "event" | some .fuel => "fuel"
      (some r.1, showPC res r.1)
    | _, _ => (st, "bad-op")

def stripPre (pre tok : String) : Option String :=
  if tok.startsWith (pre ++ "=") then some (tok.drop (pre.length + 1)).toString else none

def parseHEv (tok : String) : Option HEv :=
  match tok.toList with
  | 'L' :: r => (parseEv (String.ofList r)).map (true, ·)
  | 'R' :: r => (parseEv (String.ofList r)).map (false, ·)
  | _ => none

def parseHEvs (tok : String) : Option (List HEv) :=
  if tok == "-" then some [] else (tok.splitOn "+").mapM parseHEv

def parseEmitted (tok : String) : Option (List (Bool × List Name)) :=
  if tok == "-" then some [] else (tok.splitOn "+").mapM fun t =>
    match t.splitOn ":" with
    | ["A", n] => (parseNames n).map (true, ·)
    | ["R", n] => (parseNames n).map (false, ·)
    | _ => none

/-- Spec on the implementation's outputs at `Connection::poll` granularity -/
def monE2E (mon : Mon) (args outs : List String) : Mon × String :=
  match outs with
  | [res, ev, em, adv, lk, rk] =>
    match (stripPre "ev" ev).bind parseHEvs, (stripPre "em" em).bind parseEmitted,
          (stripPre "adv" adv).bind parseNames, (stripPre "lk" lk).bind parseNames, (stripPre "rk" rk).bind parseNames with
    | some evs, some ems, some adv, some lk, some rk =>
      let isNew := match args with | "new" :: _ => true | _ => false
      let m0 : Mon := if isNew then {} else mon
      -- every notification must be real (construction may send an empty initial set)
      let (lf, rf, real) := evs.foldl (fun (acc : List Name × List Name × Bool) e =>
        let (lf, rf, ok) := acc
        if e.1 then (applyEv lf e.2, rf, ok && (isNew || realEvent lf e.2))
        else (lf, applyEv rf e.2, ok && realEvent rf e.2)) (m0.lfold, m0.rfold, true)
      let rep := ems.foldl (fun r e => reportFold r e.1 e.2) m0.reported
      let m1 : Mon := { lfold := lf, rfold := rf, reported := rep }
      let isPoll := match args with | ["poll"] => true | _ => false
      let verdict :=
        if !real then "FAIL:empty_or_noop_notification"
        else if !specRemote rf rep then "FAIL:remote_fold"
        else if !setEq rk rep then "FAIL:remote_set"
        else if !setEq lf (lk.filter valid) then "FAIL:local_fold_vs_connection"
        else if !isPoll then (if res == "-" then "ok" else "FAIL:unparsable")
        else if res == "pending" then
          (if !specLocal lf adv then "FAIL:local_fold_at_pending"
           else if !setEq lk adv then "FAIL:local_keys_at_pending" else "ok")
        else if res == "event" then "ok"
        else "FAIL:unexpected_poll_result"
      (m1, verdict)
    | _, _, _, _, _ => (mon, "FAIL:unparsable")
  | _ => (mon, "FAIL:unparsable")

structure DSt where
  conn : Option Conn := none
  pc : Option PC := none

def machineOld : Machine (Option Conn) Mon where
  init _ := none
  specInit _ := {}
  op st args :=
    match args with
    | [kind, l] =>
      match parseNames l with
      | none => (st, "bad-op")
      | some names =>
        match kind, st with
        | "init", _ =>
          let c := connInit names
          (some c, showEvs (initLocal names).2 ++ " " ++ showNames (keys c.lmap))
        | "local", some c =>
          let r := connStep c (.local_ names)
          (some r.1, showEvs r.2 ++ " " ++ showNames (keys r.1.lmap))
        | "radd", some c =>
          let r := connStep c (.radd names)
          (some r.1, showEvs r.2 ++ " " ++ showNames r.1.rset)
        | "rrem", some c =>
          let r := connStep c (.rrem names)
          (some r.1, showEvs r.2 ++ " " ++ showNames r.1.rset)
        | "radd", none =>
          let r := connStep (connInit []) (.radd names)
          (some r.1, showEvs r.2 ++ " " ++ showNames r.1.rset)
        | "rrem", none =>
          let r := connStep (connInit []) (.rrem names)
          (some r.1, showEvs r.2 ++ " " ++ showNames r.1.rset)
        | _, _ => (st, "bad-op")
    | _ => (st, "bad-op")
  spec mon args outs :=
    match args, outs with
    | [kind, l], [evs, retained] =>
      match parseNames l, parseEvs evs, parseNames retained with
      | some names, some evs, some kept =>
        if kind == "init" || kind == "local" then
          let lf := applyEvs (if kind == "init" then [] else mon.lfold) evs
          ({ mon with lfold := lf }, if specLocal lf names then "ok" else "FAIL:local_fold")
        else if kind == "radd" || kind == "rrem" then
          let rf := applyEvs mon.rfold evs
          let rep := reportFold mon.reported (kind == "radd") names
          ({ mon with rfold := rf, reported := rep },
            if !specRemote rf rep then "FAIL:remote_fold"
            else if !setEq kept rep then "FAIL:remote_set" else "ok")
        else (mon, "FAIL:unparsable")
      | _, _, _ => (mon, "FAIL:unparsable")
    | _, _ => (mon, "FAIL:unparsable")


def machine : Machine DSt Mon where
  init _ := {}
  specInit _ := {}
  op st args :=
    if isE2E args then
      let r := modelE2E st.pc args
      ({ st with pc := r.1 }, r.2)
    else
      let r := machineOld.op st.conn args
      ({ st with conn := r.1 }, r.2)
  spec mon args outs := if isE2E args then monE2E mon args outs else machineOld.spec mon args outs

end Driver.C11

def main : IO Unit := Driver.C11.machine.run
