import Libp2pModel.Model.C57
import Libp2pModel.Common.Drv
namespace Driver.C57
open Drv _root_.C57

/-- model state: the two residual buffers (raw-body codec, `proto::Message` codec) -/
structure St where
  max : Nat
  raw : List Nat
  pb : List Nat

/-- spec state: per codec, everything fed and everything returned so far -/
structure Sp where
  raw : SpecSt
  pbAll : List Nat
  pbCount : Nat

def cfgMax (cfg : List String) : Nat :=
  match cfg.filterMap (fun t => if t.startsWith "max=" then (t.drop 4).toString.toNat? else none) with
  | m :: _ => m
  | [] => 0

def showStatus (s : Status) (resLen : Nat) : String :=
  match s with
  | .need => s!"need:{resLen}"
  | .err .varintOverflow => s!"err:Overflow:{resLen}"
  | .err .varintNotMinimal => s!"err:NotMinimal:{resLen}"
  | .err (.tooLong l) => s!"err:TooLong:{l}:{resLen}"
  | .panic => "panic"

def parseStatus (t : String) : Option (Status × Nat) :=
  match t.splitOn ":" with
  | ["need", n] => n.toNat?.map fun n => (.need, n)
  | ["err", "Overflow", n] => n.toNat?.map fun n => (.err .varintOverflow, n)
  | ["err", "NotMinimal", n] => n.toNat?.map fun n => (.err .varintNotMinimal, n)
  | ["err", "TooLong", l, n] =>
    match l.toNat?, n.toNat? with
    | some l, some n => some (.err (.tooLong l), n)
    | _, _ => none
  | _ => none

def showFrames (fs : List (List Nat)) : List String := fs.map fun f => "f:" ++ hex f

def parseFrame (t : String) : Option (List Nat) :=
  if t.startsWith "f:" then unhex (t.drop 2).toString else none

/-- split an impl line into its frame tokens and the final status token -/
def splitLast : List String → Option (List String × String)
  | [] => none
  | [x] => some ([], x)
  | x :: xs => (splitLast xs).map fun (a, l) => (x :: a, l)

def chunksOf (t : String) : Option (List (List Nat)) :=
  if t = "-" then some [] else (t.splitOn ",").mapM unhex

/-- terminal token of a `FramedRead` run at EOF -/
def showEof (max : Nat) (residual : List Nat) : String :=
  match status max residual with
  | .need => if residual.isEmpty then "end" else "err:UnexpectedEof"
  | .err .varintOverflow => "err:Overflow"
  | .err .varintNotMinimal => "err:NotMinimal"
  | .err (.tooLong l) => s!"err:TooLong:{l}"
  | .panic => "panic"

def showPb (p : List Nat) : Option String := (decMsg p).map fun d => "m:" ++ hex d

def machine : Machine St Sp where
  init cfg := { max := cfgMax cfg, raw := [], pb := [] }
  specInit cfg := { raw := { max := cfgMax cfg, all := [], frames := [] }, pbAll := [], pbCount := 0 }
  op st args :=
    match args with
    | ["enc", b] =>
      match unhex b with
      | some body => (st, hex (encode body))
      | none => (st, "bad-op")
    | ["penc", d] =>
      match unhex d with
      | some data => (st, hex (encode (encMsg data)))
      | none => (st, "bad-op")
    | ["dec", c] =>
      match unhex c with
      | some chunk =>
        let (fs, r) := feed st.max st.raw chunk
        ({ st with raw := r }, unwords (showFrames fs ++ [showStatus (status st.max r) r.length]))
      | none => (st, "bad-op")
    | ["pdec", c] =>
      match unhex c with
      | some chunk =>
        let (fs, r) := feed st.max st.pb chunk
        let st' := { st with pb := r }
        match fs.mapM showPb with
        | some ms => (st', unwords (ms ++ [showStatus (status st.max r) r.length]))
        | none => (st', "-")
      | none => (st, "bad-op")
    | ["framed", cs] =>
      match chunksOf cs with
      | some chunks =>
        let (fs, r) := Framed.feedMany (frameOk st.max) [] chunks
        (st, unwords (showFrames fs ++ [showEof st.max r]))
      | none => (st, "bad-op")
    | _ => (st, "bad-op")
  spec sp args outs :=
    if outs.head? = some "panic" then (sp, "FAIL:panic") else
    match args with
    | ["enc", b] =>
      match unhex b, outs with
      | some body, [o] =>
        match unhex o with
        | some bytes => (sp, if specEnc sp.raw.max body bytes then "ok" else "FAIL:encode_roundtrip")
        | none => (sp, "FAIL:unparsable")
      | _, _ => (sp, "FAIL:unparsable")
    | ["penc", d] =>
      match unhex d, outs with
      | some data, [o] =>
        match unhex o with
        | some bytes =>
          let okFrame := specEnc sp.raw.max (encMsg data) bytes
          -- and the body the real encoder wrote is the message (canonical form)
          let okBody := match frame (bytes.length) bytes with
            | .ok p [] => decMsg p == some data
            | _ => false
          (sp, if okFrame && okBody then "ok" else "FAIL:encode_roundtrip")
        | none => (sp, "FAIL:unparsable")
      | _, _ => (sp, "FAIL:unparsable")
    | ["dec", c] =>
      match unhex c, splitLast outs with
      | some chunk, some (ftoks, stTok) =>
        match ftoks.mapM parseFrame, parseStatus stTok with
        | some fs, some (st, n) =>
          let (s', v) := specDec sp.raw chunk fs st n
          ({ sp with raw := s' }, v)
        | _, _ => (sp, "FAIL:unparsable")
      | _, _ => (sp, "FAIL:unparsable")
    | ["pdec", c] =>
      match unhex c, splitLast outs with
      | some chunk, some (mtoks, stTok) =>
        match parseStatus stTok with
        | some (st, n) =>
          let all := sp.pbAll ++ chunk
          let ref := oneShot sp.raw.max all
          let fresh := ref.1.drop sp.pbCount
          let sp' := { sp with pbAll := all, pbCount := sp.pbCount + mtoks.length }
          if fresh.length ≠ mtoks.length then (sp', "FAIL:frames_differ_from_one_shot")
          else if (fresh.zip mtoks).any (fun (p, t) =>
              match showPb p with
              | some m => m != t
              | none => false) then (sp', "FAIL:message_differs")
          else if ref.2.length ≠ n then (sp', "FAIL:residual_consumed")
          else if status sp.raw.max ref.2 ≠ st then (sp', "FAIL:status")
          else (sp', "ok")
        | none => (sp, "FAIL:unparsable")
      | _, _ => (sp, "FAIL:unparsable")
    | ["framed", cs] =>
      match chunksOf cs, splitLast outs with
      | some chunks, some (ftoks, last) =>
        match ftoks.mapM parseFrame with
        | some fs =>
          let ref := oneShot sp.raw.max chunks.flatten
          if ref.1 ≠ fs then (sp, "FAIL:frames_differ_from_one_shot")
          else if showEof sp.raw.max ref.2 ≠ last then
            (sp, match status sp.raw.max ref.2 with
                 | .err (.tooLong _) => "FAIL:oversize_not_rejected_early"
                 | _ => "FAIL:status")
          else (sp, "ok")
        | none => (sp, "FAIL:unparsable")
      | _, _ => (sp, "FAIL:unparsable")
    | _ => (sp, "FAIL:unparsable")

end Driver.C57

def main : IO Unit := Driver.C57.machine.run
