import Libp2pModel.Model.C56
import Libp2pModel.Common.Drv
namespace Driver.C56
open Drv _root_.C56

def showKind : Kind → String
  | .brokenPipe => "BrokenPipe"
  | .connectionReset => "ConnectionReset"
  | .other => "Other"
  | .invalidData => "InvalidData"
  | .timedOut => "TimedOut"

def parseKind : String → Option Kind
  | "BrokenPipe" => some .brokenPipe
  | "ConnectionReset" => some .connectionReset
  | "Other" => some .other
  | "InvalidData" => some .invalidData
  | "TimedOut" => some .timedOut
  | _ => none

def showWhy : PanicWhy → String
  | .unreachableState => "unreachable"
  | .debugAssertInner => "debug_assert_inner"
  | .debugAssertBuffer => "debug_assert_buffer"
  | .closeTwice => "close_twice"
  | .fuel => "model_fuel"

def showRes : Res → String
  | .pending => "pending"
  | .okData d => "ok:" ++ hex d
  | .okN n => s!"ok:{n}"
  | .okUnit => "ok"
  | .err k => "err:" ++ showKind k
  | .panic w => "panic " ++ showWhy w
  | .env => "env"

/-- long runs of one byte are abbreviated `R:<len>:<byte>` (same rule in the harness) -/
def showData (d : List Nat) : String :=
  match d with
  | b :: _ => if 32 < d.length ∧ d.all (· == b) then s!"R:{d.length}:{hex [b]}" else "D:" ++ hex d
  | [] => "D:" ++ hex d

def showFrame : OutFrame → String
  | .fin => "F"
  | .stopSending => "S"
  | .data d => showData d

def showWire (w : List OutFrame) : String :=
  if w.isEmpty then "w=-" else "w=" ++ ",".intercalate (w.map showFrame)

def showOut (o : Out) : String := showRes o.res ++ " " ++ showWire o.wire

def parseOp : List String → Option Op
  | ["read", n] => n.toNat?.map .read
  | ["write", d] => (unhex d).map .write
  | ["writen", n, b] =>
    match n.toNat?, unhex b with
    | some n, some [b] => some (.write (List.replicate n b))
    | _, _ => none
  | ["flush"] => some .flush
  | ["close"] => some .close
  | ["closeRead"] => some .closeRead
  | ["inject", f, d] =>
    let flag : Option (Option Nat) := if f = "-" then some none else f.toNat?.map some
    let data : Option (Option (List Nat)) := if d = "none" then some none else (unhex d).map some
    match flag, data with
    | some f, some d => some (.inject ⟨f, d⟩)
    | _, _ => none
  | ["eof"] => some .eof
  | ["block", b] => some (.block (b = "1"))
  | ["werr", b] => some (.werr (b = "1"))
  | _ => none

/-- the result token of an impl line; the op decides how `ok:…` is read -/
def parseRes (o : Op) (t : String) : Option Res :=
  if t = "pending" then some .pending
  else if t = "env" then some .env
  else if t = "ok" then some .okUnit
  else if t.startsWith "err:" then (parseKind (t.drop 4).toString).map .err
  else if t.startsWith "ok:" then
    match o with
    | .write _ => (t.drop 3).toString.toNat?.map .okN
    | _ => (unhex (t.drop 3).toString).map .okData
  else none

def machine : Machine St St where
  init _ := C56.init
  specInit _ := C56.init
  op σ args :=
    match parseOp args with
    | some o => let (σ', out) := step σ o; (σ', showOut out)
    | none => (σ, "bad-op")
  spec σ args outs :=
    match parseOp args with
    | none => (σ, "FAIL:unparsable")
    | some o =>
      let σ' := (step σ o).1
      match outs with
      | "panic" :: _ => (σ', "FAIL:panic")
      | t :: _ =>
        match parseRes o t with
        | some r => (σ', specStep σ o r)
        | none => (σ', "FAIL:unparsable")
      | [] => (σ', "FAIL:unparsable")

end Driver.C56

def main : IO Unit := Driver.C56.machine.run
