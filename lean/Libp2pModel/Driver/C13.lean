import Libp2pModel.Model.C13
import Libp2pModel.Model.C13Ident
namespace Driver.C13
open Drv

def showRes : Option Maddr → String
  | none => "none"
  | some r => "some " ++ Maddr.render r

def parseRes : List String → Option (Option Maddr)
  | ["none"] => some none
  | ["some", r] => (Maddr.parse r).map some
  | _ => none

def machine : Machine Unit Unit where
  init _ := ()
  specInit _ := ()
  op _ args :=
    match args with
    | ["translate", o, b] =>
      match Maddr.parse o, Maddr.parse b with
      | some o, some b => ((), showRes (C13.translate o b))
      | _, _ => ((), "bad-op")
    | _ => ((), "bad-op")
  spec _ args outs :=
    match args with
    | ["translate", o, b] =>
      match Maddr.parse o, Maddr.parse b, parseRes outs with
      | some o, some b, some r => ((), if C13.spec o b r then "ok" else "FAIL:translate_spec")
      | _, _, _ => ((), "FAIL:unparsable")
    | _ => ((), "FAIL:unparsable")

end Driver.C13

/-! second part: identify's `NewExternalAddrCandidate` events (cases whose header has `id=1`) -/
namespace Driver.C13Ident
open Drv

def parseKind : String → Option C13.ConnKind
  | "new" => some .outNew
  | "reuse" => some .outReuse
  | "in" => some .inbound
  | _ => none

/-- candidates as a canonical token: rendered addresses sorted as strings, `;`-joined, `~` if none -/
def showCands (l : List Maddr) : String :=
  let toks := (l.map Maddr.render).mergeSort (fun a b => !decide (b < a))
  if toks.isEmpty then "~" else ";".intercalate toks

def machine : Machine Unit Unit where
  init _ := ()
  specInit _ := ()
  op _ args :=
    match args with
    | ["ident", l, o, k] =>
      match Maddr.parseList l, Maddr.parse o, parseKind k with
      | some l, some o, some k => ((), "cands " ++ showCands (C13.candidates l o k))
      | _, _, _ => ((), "bad-op")
    | _ => ((), "bad-op")
  spec _ args outs :=
    match args, outs with
    | ["ident", l, o, _], ["cands", c] =>
      match Maddr.parseList l, Maddr.parse o, Maddr.parseList c with
      | some l, some o, some c =>
        ((), if C13.specIdent l o c then "ok"
             else if c.isEmpty then "FAIL:ident_no_candidate" else "FAIL:ident_candidate_components")
      | _, _, _ => ((), "FAIL:unparsable")
    | _, _ => ((), "FAIL:unparsable")

end Driver.C13Ident

def main : IO Unit :=
  (Drv.Machine.sum (fun cfg => cfg.contains "id=1") Driver.C13.machine Driver.C13Ident.machine).run
