import Libp2pModel.Model.C13
namespace Driver.C13
open Drv

def showRes : Option Maddr → String
  | none => "none"
  | some r => "some " ++ Maddr.render r

def parseRes : List String → Option (Option Maddr)
  | ["none"] => some none
  | ["some", r] => (Maddr.parse r).map some
  | _ => none

def machine : Machine Unit Unit where
  init _ := ()
  specInit _ := ()
  op _ args :=
    match args with
    | ["translate", o, b] =>
      match Maddr.parse o, Maddr.parse b with
      | some o, some b => ((), showRes (C13.translate o b))
      | _, _ => ((), "bad-op")
    | _ => ((), "bad-op")
  spec _ args outs :=
    match args with
    | ["translate", o, b] =>
      match Maddr.parse o, Maddr.parse b, parseRes outs with
      | some o, some b, some r => ((), if C13.spec o b r then "ok" else "FAIL:translate_spec")
      | _, _, _ => ((), "FAIL:unparsable")
    | _ => ((), "FAIL:unparsable")

end Driver.C13

def main : IO Unit := Driver.C13.machine.run
