import Libp2pModel.Model.C17
import Libp2pModel.Common.Drv
/-!
Driver for C17. One case = one real Noise session (two directions `ab`, `ba`).

ops (dir ∈ {ab, ba}):
* `w dir n`        one `poll_write` with the next `n` bytes of the direction's pattern stream
* `f dir`          `poll_flush` until ready; impl: `ok <ciphertext lengths of the new frames>`
* `wire dir hex`   ORACLE (always emitted by the harness right after `f`): the real bytes that
                   reached the socket since the previous `wire` op — ciphertexts are opaque atoms
* `d dir k`        the socket delivers the next `k` wire bytes to the reader
* `x dir pos m`    adversary: xor byte `pos` of the undelivered wire with `m`
* `cut dir a b`    adversary: remove wire bytes [a,b)
* `rep dir pos a b` adversary: insert at `pos` a copy of bytes [a,b) of the ORIGINAL wire
* `e dir`          end of stream
* `r dir n`        one `poll_read` with an `n`-byte buffer
-/
namespace Driver.C17
open Drv
open _root_.C17

/-- byte at stream position `p` of the pattern with constant `c` -/
def pat (c p : Nat) : Nat := (c + 31 * p + 17 * (p / 256)) % 256

def patRange (c start n : Nat) : Bytes := (List.range n).map fun i => pat c (start + i)

def hashBytes (bs : Bytes) : Nat := bs.foldl (fun h b => (h * 257 + b + 1) % 4294967291) 7

/-- data token: hex up to 32 bytes, otherwise `#len:hash` -/
def dataTok (bs : Bytes) : String :=
  if bs.length ≤ 32 then hex bs else "#" ++ toString bs.length ++ ":" ++ toString (hashBytes bs)

/-- placeholder AEAD for the WRITE side of the model: only ciphertext lengths matter there -/
def lenAead : Aead where
  enc _ p := List.replicate (p.length + TAGLEN) 0
  dec _ _ := none

structure Dir where
  w : Writer := {}
  r : Reader := {}
  wpos : Nat := 0
  /-- frames already reported by a flush -/
  reported : Nat := 0
  /-- real wire as reported by the oracle, never modified -/
  orig : Bytes := []
  /-- real wire after adversarial edits -/
  wire : Bytes := []
  /-- real ciphertexts by nonce -/
  cts : List Bytes := []
  /-- wire bytes already handed to the reader -/
  dpos : Nat := 0

structure World where
  c : Nat := 0
  ab : Dir := {}
  ba : Dir := {}

def getDir (s : World) (d : String) : Option Dir :=
  if d = "ab" then some s.ab else if d = "ba" then some s.ba else none

def setDir (s : World) (d : String) (x : Dir) : World :=
  if d = "ab" then { s with ab := x } else { s with ba := x }

def cfgNat (cfg : List String) (key : String) : Nat :=
  match cfg.find? (fun t => t.startsWith (key ++ "=")) with
  | some t => ((t.drop (key.length + 1)).toString.toNat?).getD 0
  | none => 0

def showErr : RErr → String
  | .invalidData => "InvalidData"
  | .unexpectedEof => "UnexpectedEof"

def showRRes : RRes → String
  | .pending => "pending"
  | .ok d => "ok " ++ toString d.length ++ " " ++ dataTok d
  | .err e => "err " ++ showErr e
  | .panic => "panic"

def step (s : World) (args : List String) : World × String :=
  match args with
  | ["w", d, n] =>
    match getDir s d, n.toNat? with
    | some x, some n =>
      let buf := patRange s.c x.wpos n
      let (w', res) := pollWrite lenAead x.w buf
      match res with
      | .ok k => (setDir s d { x with w := w', wpos := x.wpos + k }, "ok " ++ toString k)
      | .err => (setDir s d { x with w := w' }, "err")
      | .panic => (s, "panic")
    | _, _ => (s, "bad-op")
  | ["f", d] =>
    match getDir s d with
    | some x =>
      let (w', res) := pollFlush lenAead x.w
      match res with
      | .ok =>
        let news := (w'.frames.drop x.reported).map fun p => p.length + TAGLEN
        (setDir s d { x with w := w', reported := w'.frames.length }, "ok " ++ showNatList news)
      | .err => (setDir s d { x with w := w' }, "err")
    | none => (s, "bad-op")
  | ["wire", d, h] =>
    match getDir s d, unhex h with
    | some x, some bytes =>
      let (fs, rest) := Framed.drainAll decodeLengthPrefixed bytes
      let expect := ((x.w.frames.take x.reported).drop x.cts.length).map fun p => p.length + TAGLEN
      if rest.isEmpty && fs.map List.length == expect then
        (setDir s d { x with orig := x.orig ++ bytes, wire := x.wire ++ bytes, cts := x.cts ++ fs }, "ok")
      else (s, "bad-wire")
    | _, _ => (s, "bad-op")
  | ["d", d, k] =>
    match getDir s d, k.toNat? with
    | some x, some k =>
      let avail := x.wire.length - x.dpos
      let m := if x.r.eof then 0 else min k avail
      let chunk := (x.wire.drop x.dpos).take m
      (setDir s d { x with r := { x.r with inbuf := x.r.inbuf ++ chunk }, dpos := x.dpos + m },
        "ok " ++ toString m)
    | _, _ => (s, "bad-op")
  | ["x", d, pos, m] =>
    match getDir s d, pos.toNat?, m.toNat? with
    | some x, some pos, some m =>
      if x.dpos ≤ pos && pos < x.wire.length && 0 < m && m < 256 then
        let b := x.wire.getD pos 0
        (setDir s d { x with wire := x.wire.set pos (Nat.xor b m) }, "ok")
      else (s, "skip")
    | _, _, _ => (s, "bad-op")
  | ["cut", d, a, b] =>
    match getDir s d, a.toNat?, b.toNat? with
    | some x, some a, some b =>
      if x.dpos ≤ a && a < b && b ≤ x.wire.length then
        (setDir s d { x with wire := x.wire.take a ++ x.wire.drop b }, "ok")
      else (s, "skip")
    | _, _, _ => (s, "bad-op")
  | ["rep", d, pos, a, b] =>
    match getDir s d, pos.toNat?, a.toNat?, b.toNat? with
    | some x, some pos, some a, some b =>
      if x.dpos ≤ pos && pos ≤ x.wire.length && a < b && b ≤ x.orig.length then
        (setDir s d { x with wire := x.wire.take pos ++ (x.orig.drop a).take (b - a) ++ x.wire.drop pos },
          "ok")
      else (s, "skip")
    | _, _, _, _ => (s, "bad-op")
  | ["e", d] =>
    match getDir s d with
    | some x => (setDir s d { x with r := { x.r with eof := true } }, "ok")
    | none => (s, "bad-op")
  | ["r", d, n] =>
    match getDir s d, n.toNat? with
    | some x, some n =>
      let A := tableAead x.w.frames x.cts
      let (r', res) := pollRead A x.r n
      (setDir s d { x with r := r' }, showRRes res)
    | _, _ => (s, "bad-op")
  | _ => (s, "bad-op")

/-! ## Spec monitor over the implementation's outputs -/

structure SDir where
  acc : Nat := 0          -- bytes accepted by poll_write
  del : Nat := 0          -- bytes returned by poll_read
  lens : List Nat := []   -- ciphertext lengths of all frames reported by flushes
  wdel : Nat := 0         -- wire bytes delivered
  tampered : Bool := false
  eof : Bool := false

structure Mon where
  c : Nat := 0
  ab : SDir := {}
  ba : SDir := {}

def mget (s : Mon) (d : String) : SDir := if d = "ab" then s.ab else s.ba
def mset (s : Mon) (d : String) (x : SDir) : Mon :=
  if d = "ab" then { s with ab := x } else { s with ba := x }

/-- plaintext bytes contained in the frames wholly inside the first `wdel` wire bytes -/
def completePlain : List Nat → Nat → Nat
  | [], _ => 0
  | l :: ls, wdel => if 2 + l ≤ wdel then (l - TAGLEN) + completePlain ls (wdel - (2 + l)) else 0

def spec (s : Mon) (args outs : List String) : Mon × String :=
  if outs.head? = some "panic" then (s, "FAIL:panic") else
  match args with
  | ["w", d, n] =>
    let x := mget s d
    match n.toNat?, outs with
    | some n, ["ok", k] =>
      match k.toNat? with
      | some k =>
        -- `specWrite` on a buffer of length n
        if specWrite (List.replicate n 0) (.ok k) then (mset s d { x with acc := x.acc + k }, "ok")
        else (s, "FAIL:write_result")
      | none => (s, "FAIL:unparsable")
    | some _, ["err"] => (s, "FAIL:write_error")
    | _, _ => (s, "FAIL:unparsable")
  | ["f", d] =>
    let x := mget s d
    match outs with
    | ["ok", l] =>
      match natList l with
      | some news =>
        let lens := x.lens ++ news
        if !(news.all specFrameLen) then (s, "FAIL:frame_len")
        else if (lens.map (· - TAGLEN)).sum != x.acc then (s, "FAIL:accounting")
        else (mset s d { x with lens := lens }, "ok")
      | none => (s, "FAIL:unparsable")
    | ["err"] => (s, "FAIL:flush_error")
    | _ => (s, "FAIL:unparsable")
  | ["wire", _, _] => (s, if outs = ["ok"] then "ok" else "FAIL:unparsable")
  | ["d", d, _] =>
    let x := mget s d
    match outs with
    | ["ok", m] =>
      match m.toNat? with
      | some m => (mset s d { x with wdel := x.wdel + m }, "ok")
      | none => (s, "FAIL:unparsable")
    | _ => (s, "FAIL:unparsable")
  | "x" :: d :: _ | "cut" :: d :: _ | "rep" :: d :: _ =>
    let x := mget s d
    if outs = ["ok"] then (mset s d { x with tampered := true }, "ok")
    else if outs = ["skip"] then (s, "ok") else (s, "FAIL:unparsable")
  | ["e", d] =>
    let x := mget s d
    (mset s d { x with eof := true }, if outs = ["ok"] then "ok" else "FAIL:unparsable")
  | ["r", d, n] =>
    let x := mget s d
    match n.toNat?, outs with
    | some _, ["pending"] =>
      if !x.tampered && !x.eof && x.del < completePlain x.lens x.wdel then (s, "FAIL:stalled")
      else (s, "ok")
    | some _, ["err", _] =>
      if !x.tampered && !x.eof then (s, "FAIL:error_without_tamper") else (s, "ok")
    | some n, ["ok", k, tok] =>
      match k.toNat? with
      | some k =>
        if k > n then (s, "FAIL:read_overflow")
        else if x.del + k > x.acc then (s, "FAIL:beyond_written")
        else
          -- the written stream from the current read position (k+1 bytes suffice)
          let window := patRange s.c x.del (min (x.acc - x.del) (k + 1))
          let good :=
            if k ≤ 32 then
              match unhex tok with
              | some data => data.length == k && specRead window [] (.ok data)
              | none => false
            else tok == dataTok (window.take k)
          if good then
            if k == 0 && n > 0 && !x.eof && !x.tampered then (s, "FAIL:empty_read")
            else (mset s d { x with del := x.del + k }, "ok")
          else (s, "FAIL:altered_plaintext")
      | none => (s, "FAIL:unparsable")
    | _, _ => (s, "FAIL:unparsable")
  | _ => (s, "FAIL:unparsable")

def machine : Machine World Mon where
  init cfg := { c := cfgNat cfg "c" }
  specInit cfg := { c := cfgNat cfg "c" }
  op := step
  spec := spec

end Driver.C17

def main : IO Unit := Driver.C17.machine.run
