import Libp2pModel.Model.C12
namespace Driver.C12
open Drv _root_.C12

/-! line-protocol driver for C12 (see harness/h_sw_c/src/c12.rs for the op vocabulary) -/

def cfgNat (cfg : List String) (key : String) : Option Nat :=
  cfg.findSome? fun t =>
    match t.splitOn "=" with
    | [k, v] => if k = key then v.toNat? else none
    | _ => none

def parseCaps (cfg : List String) : Option Caps :=
  match cfgNat cfg "extcap", cfgNat cfg "addrcap", cfgNat cfg "peers" with
  | some e, some a, some p => some { ext := e, addr := a, peers := if p = 0 then 1 else p }
  | _, _, _ => none

def flag (b : Bool) : String := if b then "1" else "0"

def strLe (a b : String) : Bool := a < b || a == b

def sortedTok (l : List Maddr) : String :=
  if l.isEmpty then "~" else ";".intercalate ((l.map Maddr.render).mergeSort strLe)

def flags3 (f : Bool × Bool × Bool) : String := flag f.1 ++ flag f.2.1 ++ flag f.2.2

def showEv : Ev → String
  | .newListenAddr l a => s!"fNLA@{l}@{Maddr.render a}"
  | .expiredListenAddr l a => s!"fELA@{l}@{Maddr.render a}"
  | .listenerClosed l => s!"fLC@{l}"
  | .listenerError l => s!"fLE@{l}"
  | .extConfirmed a => s!"fEAC@{Maddr.render a}"
  | .extExpired a => s!"fEAE@{Maddr.render a}"
  | .extCandidate a => s!"fNEC@{Maddr.render a}"
  | .newExtAddrOfPeer p a => s!"fNEP@{Drv.hex p}@{Maddr.render a}"
  | _ => "f?"

def showSwEv : SwEv → String
  | .newListenAddr l a => s!"sNLA@{l}@{Maddr.render a}"
  | .expiredListenAddr l a => s!"sELA@{l}@{Maddr.render a}"
  | .listenerClosed l as => s!"sLC@{l}@{Maddr.renderList as}"
  | .listenerError l => s!"sLE@{l}"
  | .newExtCandidate a => s!"sNEC@{Maddr.render a}"
  | .extConfirmed a => s!"sEAC@{Maddr.render a}"
  | .extExpired a => s!"sEAE@{Maddr.render a}"
  | .newExtAddrOfPeer p a => s!"sNEP@{Drv.hex p}@{Maddr.render a}"

/-- a logged event: `FromSwarm` (with the three helper flags the behaviour observed) or `SwarmEvent` -/
inductive Logged where
  | f (e : Ev) (flags : String)
  | s (e : SwEv)

def parseLogged (t : String) : Option Logged :=
  match t.splitOn "@" with
  | ["fNLA", l, a, fl] => do some (.f (.newListenAddr (← l.toNat?) (← Maddr.parse a)) fl)
  | ["fELA", l, a, fl] => do some (.f (.expiredListenAddr (← l.toNat?) (← Maddr.parse a)) fl)
  | ["fLC", l, fl] => do some (.f (.listenerClosed (← l.toNat?)) fl)
  | ["fLE", l, fl] => do some (.f (.listenerError (← l.toNat?)) fl)
  | ["fEAC", a, fl] => do some (.f (.extConfirmed (← Maddr.parse a)) fl)
  | ["fEAE", a, fl] => do some (.f (.extExpired (← Maddr.parse a)) fl)
  | ["fNEC", a, fl] => do some (.f (.extCandidate (← Maddr.parse a)) fl)
  | ["fNEP", p, a, fl] => do some (.f (.newExtAddrOfPeer (← Drv.unhex p) (← Maddr.parse a)) fl)
  | ["sNLA", l, a] => do some (.s (.newListenAddr (← l.toNat?) (← Maddr.parse a)))
  | ["sELA", l, a] => do some (.s (.expiredListenAddr (← l.toNat?) (← Maddr.parse a)))
  | ["sLC", l, as] => do some (.s (.listenerClosed (← l.toNat?) (← Maddr.parseList as)))
  | ["sLE", l] => do some (.s (.listenerError (← l.toNat?)))
  | ["sNEC", a] => do some (.s (.newExtCandidate (← Maddr.parse a)))
  | ["sEAC", a] => do some (.s (.extConfirmed (← Maddr.parse a)))
  | ["sEAE", a] => do some (.s (.extExpired (← Maddr.parse a)))
  | ["sNEP", p, a] => do some (.s (.newExtAddrOfPeer (← Drv.unhex p) (← Maddr.parse a)))
  | _ => none

/-- the helper event a `h …` op synthesizes -/
def extEvent (kind : String) (a : Maddr) : Ev :=
  match kind with
  | "conf" => .extConfirmed a
  | "exp" => .extExpired a
  | "cand" => .extCandidate a
  | "lnew" => .newListenAddr 0 a
  | _ => .other

def lisEvent (kind : String) (a : Maddr) : Ev :=
  match kind with
  | "new" => .newListenAddr 0 a
  | "exp" => .expiredListenAddr 0 a
  | "conf" => .extConfirmed a
  | _ => .other

def optAddr (rest : List String) : Option Maddr :=
  match rest with
  | [] => some []
  | a :: _ => Maddr.parse a

/-- the `PeerAddresses` event of a `h pa …` op (`none` = not an event op) -/
def paEvent (args : List String) : Option Ev :=
  match args with
  | ["add", p, a] => do some (.newExtAddrOfPeer (← Drv.unhex p) (← Maddr.parse a))
  | ["fail", p, l] => do some (.dialFailure (some (← Drv.unhex p)) (.transport (← Maddr.parseList l)))
  | ["failnp", l] => do some (.dialFailure none (.transport (← Maddr.parseList l)))
  | ["failother", p, _] => do some (.dialFailure (some (← Drv.unhex p)) .other)
  | ["other", a] => do some (.extConfirmed (← Maddr.parse a))
  | _ => none

def parseSwOp (args : List String) : Option SwOp :=
  match args with
  | ["new", l, a] => do some (.newAddr (← l.toNat?) (← Maddr.parse a))
  | ["exp", l, a] => do some (.addrExpired (← l.toNat?) (← Maddr.parse a))
  | ["closed", l] => do some (.closed (← l.toNat?))
  | ["closederr", l] => do some (.closed (← l.toNat?))
  | ["lerr", l] => do some (.lerr (← l.toNat?))
  | ["addext", a] => do some (.addExt (← Maddr.parse a))
  | ["rmext", a] => do some (.rmExt (← Maddr.parse a))
  | ["bconf", a] => do some (.bConf (← Maddr.parse a))
  | ["bexp", a] => do some (.bExp (← Maddr.parse a))
  | ["bcand", a] => do some (.bCand (← Maddr.parse a))
  | ["bpeer", p, a] => do some (.bPeer (← Drv.unhex p) (← Maddr.parse a))
  | ["addpeer", p, a] => do some (.addPeer (← Drv.unhex p) (← Maddr.parse a))
  | _ => none

/-! ### model side -/

structure MSt where
  caps : Option Caps := none
  h : Helpers := {}
  sw : Sw := {}
  bh : Helpers := {}

def swView (evs : List String) (sw : Sw) (bh : Helpers) : String :=
  let ev := if evs.isEmpty then "-" else ",".intercalate evs
  s!"ev={ev} lis={sortedTok (listeners sw)} ext={sortedTok sw.confirmed} hl={sortedTok bh.lis} he={Maddr.renderList bh.ext}"

def modelOp (st : MSt) (args : List String) : MSt × String :=
  match st.caps with
  | none => (st, "bad-cfg")
  | some c =>
    match args with
    | "h" :: "ext" :: kind :: rest =>
      match optAddr rest with
      | some a =>
        let r := extStep c.ext st.h.ext (extEvent kind a)
        ({ st with h := { st.h with ext := r.1 } }, flag r.2 ++ " " ++ Maddr.renderList r.1)
      | none => (st, "bad-op")
    | "h" :: "lis" :: kind :: rest =>
      match optAddr rest with
      | some a =>
        let r := lisStep st.h.lis (lisEvent kind a)
        ({ st with h := { st.h with lis := r.1 } }, flag r.2 ++ " " ++ sortedTok r.1)
      | none => (st, "bad-op")
    | ["h", "pa", "addd", p, a] =>
      match Drv.unhex p, Maddr.parse a with
      | some p, some a =>
        let r := paAdd c st.h.pa p a
        ({ st with h := { st.h with pa := r.1 } }, flag r.2)
      | _, _ => (st, "bad-op")
    | ["h", "pa", "rm", p, a] =>
      match Drv.unhex p, Maddr.parse a with
      | some p, some a =>
        let r := paRemove st.h.pa p a
        ({ st with h := { st.h with pa := r.1 } }, flag r.2)
      | _, _ => (st, "bad-op")
    | ["h", "pa", "get", p] =>
      match Drv.unhex p with
      | some p =>
        let r := paGet st.h.pa p
        ({ st with h := { st.h with pa := r.1 } }, Maddr.renderList r.2)
      | none => (st, "bad-op")
    | "h" :: "pa" :: rest =>
      match paEvent rest with
      | some ev =>
        let r := paStep c st.h.pa ev
        ({ st with h := { st.h with pa := r.1 } }, flag r.2)
      | none => (st, "bad-op")
    | ["sw", "pget", p] =>
      match Drv.unhex p with
      | some p =>
        let r := paGet st.bh.pa p
        ({ st with bh := { st.bh with pa := r.1 } }, Maddr.renderList r.2)
      | none => (st, "bad-op")
    | "sw" :: rest =>
      match parseSwOp rest with
      | some op =>
        let r := swStep st.sw op
        let fr := Helpers.feedAll c st.bh r.2.1
        let evs := fr.2.map (fun ef => showEv ef.1 ++ "@" ++ flags3 ef.2) ++ r.2.2.map showSwEv
        ({ st with sw := r.1, bh := fr.1 }, swView evs r.1 fr.1)
      | none => (st, "bad-op")
    | _ => (st, "bad-op")

/-! ### Spec side: the property's executable statement judged on the implementation's outputs -/

structure SSt where
  caps : Option Caps := none
  ext : List Maddr := []
  lis : List Maddr := []
  pa : Spec.PAS := []
  listen : LMap := []
  confirmed : List Maddr := []
  bext : List Maddr := []
  blis : List Maddr := []
  bpa : Spec.PAS := []

def kv (t key : String) : Option String :=
  match t.splitOn "=" with
  | [k, v] => if k = key then some v else none
  | _ => none

def firstFail (l : List (Bool × String)) : String :=
  match l.find? (fun p => !p.1) with
  | some p => "FAIL:" ++ p.2
  | none => "ok"

/-- fold the logged events of one Swarm step through the Spec, collecting failed clauses -/
def specLogged (c : Caps) (st : SSt) (fails : List String) : List Logged → SSt × List String
  | [] => (st, fails)
  | .s e :: rest =>
    let fails := if Spec.closedOk st.listen e then fails else fails ++ ["closed_addresses"]
    specLogged c { st with listen := Spec.listen st.listen e } fails rest
  | .f e fl :: rest =>
    let ne := Spec.ext c.ext st.bext e
    let nl := Spec.lis st.blis e
    let np := Spec.pa c st.bpa e
    let want := flag (!Spec.sameSet st.bext ne) ++ flag (!Spec.sameSet st.blis nl) ++ flag (Spec.paChanged st.bpa np)
    let fails := if fl == want then fails else fails ++ ["beh_changed_flag"]
    specLogged c { st with confirmed := Spec.confirmed st.confirmed e, bext := ne, blis := nl, bpa := np } fails rest

def fromSwarmOf : List Logged → List Ev
  | [] => []
  | .f e _ :: r => e :: fromSwarmOf r
  | .s _ :: r => fromSwarmOf r

def specOp (st : SSt) (args outs : List String) : SSt × String :=
  match st.caps with
  | none => (st, "FAIL:unparsable")
  | some c =>
    match args with
    | "h" :: "ext" :: kind :: rest =>
      match optAddr rest, outs with
      | some a, [f, l] =>
        let new := Spec.ext c.ext st.ext (extEvent kind a)
        ({ st with ext := new },
          firstFail [(l == Maddr.renderList new, "ext_fold"), (f == flag (!Spec.sameSet st.ext new), "ext_changed_flag")])
      | _, _ => (st, "FAIL:unparsable")
    | "h" :: "lis" :: kind :: rest =>
      match optAddr rest, outs with
      | some a, [f, l] =>
        let new := Spec.lis st.lis (lisEvent kind a)
        ({ st with lis := new },
          firstFail [(l == sortedTok new, "lis_fold"), (f == flag (!Spec.sameSet st.lis new), "lis_changed_flag")])
      | _, _ => (st, "FAIL:unparsable")
    | ["h", "pa", "addd", p, a] =>
      match Drv.unhex p, Maddr.parse a, outs with
      | some p, some a, [f] =>
        let new := Spec.paAdd c st.pa p a
        ({ st with pa := new }, firstFail [(f == flag (Spec.paChanged st.pa new), "pa_changed_flag")])
      | _, _, _ => (st, "FAIL:unparsable")
    | ["h", "pa", "rm", p, a] =>
      match Drv.unhex p, Maddr.parse a, outs with
      | some p, some a, [f] =>
        let new := Spec.paRemove st.pa p a
        ({ st with pa := new }, firstFail [(f == flag (Spec.paChanged st.pa new), "pa_changed_flag")])
      | _, _, _ => (st, "FAIL:unparsable")
    | ["h", "pa", "get", p] =>
      match Drv.unhex p, outs with
      | some p, [l] =>
        ({ st with pa := Spec.paUse st.pa p id },
          firstFail [(l == Maddr.renderList (Spec.addrs st.pa p).reverse, "pa_fold")])
      | _, _ => (st, "FAIL:unparsable")
    | "h" :: "pa" :: rest =>
      match paEvent rest, outs with
      | some ev, [f] =>
        let new := Spec.pa c st.pa ev
        ({ st with pa := new }, firstFail [(f == flag (Spec.paChanged st.pa new), "pa_changed_flag")])
      | _, _ => (st, "FAIL:unparsable")
    | ["sw", "pget", p] =>
      match Drv.unhex p, outs with
      | some p, [l] =>
        ({ st with bpa := Spec.paUse st.bpa p id },
          firstFail [(l == Maddr.renderList (Spec.addrs st.bpa p).reverse, "beh_pa_fold")])
      | _, _ => (st, "FAIL:unparsable")
    | "sw" :: rest =>
      match outs with
      | [ev, lis, ext, hl, he] =>
        match kv ev "ev", kv lis "lis", kv ext "ext", kv hl "hl", kv he "he" with
        | some ev, some lis, some ext, some hl, some he =>
          let logged := if ev = "-" then some [] else (ev.splitOn ",").mapM parseLogged
          match logged with
          | none => (st, "FAIL:unparsable")
          | some logged =>
            let closedChk :=
              match rest with
              | ["closed", l] | ["closederr", l] =>
                match l.toNat? with
                | some l => Spec.closedFromSwarmOk st.listen l (fromSwarmOf logged)
                | none => false
              | _ => true
            let r := specLogged c st [] logged
            let st' := r.1
            let verdict :=
              match r.2 with
              | k :: _ => "FAIL:" ++ k
              | [] => firstFail [
                  (closedChk, "closed_fromswarm"),
                  (lis == sortedTok (st'.listen.flatMap (·.2)), "listeners_fold"),
                  (ext == sortedTok st'.confirmed, "external_fold"),
                  (hl == sortedTok st'.blis, "beh_lis_fold"),
                  (he == Maddr.renderList st'.bext, "beh_ext_fold")]
            (st', verdict)
        | _, _, _, _, _ => (st, "FAIL:unparsable")
      | _ => (st, "FAIL:unparsable")
    | _ => (st, "FAIL:unparsable")

def machine : Machine MSt SSt where
  init cfg := { caps := parseCaps cfg }
  specInit cfg := { caps := parseCaps cfg }
  op := modelOp
  spec := specOp

end Driver.C12

def main : IO Unit := Driver.C12.machine.run
