import Libp2pModel.Driver.C28Node
import Libp2pModel.Model.C29
namespace Driver.C29
open Drv
open _root_.C28
open Driver.C28Node

def specLine (b : Nat → Nat → Bool) (args outs : List String) : (Nat → Nat → Bool) × String :=
  match parseTOp args, parseImpl outs with
  | some o, some im =>
    let r := _root_.C29.monStep b o.op (im.peers.map (fun p => (p.id, p.conns))) im.mesh im.notifs
    (r.1, match r.2 with | some k => "FAIL:" ++ k | none => "ok")
  | _, _ => (b, "FAIL:unparsable")

def machineG (fx : Fixes) : Machine State (Nat → Nat → Bool) where
  init cfg := initState cfg
  specInit _ := fun _ _ => false
  op s args := opLine fx s args
  spec b args outs := specLine b args outs

def machine : Machine State (Nat → Nat → Bool) := machineG fixed

end Driver.C29

/-- `--buggy` runs the model of the tree before the repairs (used by hand to confirm that the
pre-repair model mirrors the pre-repair tree) -/
def main (args : List String) : IO Unit :=
  if args.contains "--buggy" then (Driver.C29.machineG ⟨false, false⟩).run
  else if args.contains "--buggy-hb" then (Driver.C29.machineG ⟨true, false⟩).run
  else if args.contains "--buggy-kind" then (Driver.C29.machineG ⟨false, true⟩).run
  else Driver.C29.machine.run
