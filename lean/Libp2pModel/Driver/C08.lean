import Libp2pModel.Model.C08
import Libp2pModel.Model.C09
import Libp2pModel.Model.SwarmC08
namespace Driver.C08
open Drv
open _root_.C08

def sortNat (l : List Nat) : List Nat := l.mergeSort (fun a b => decide (a ≤ b))

def showRes : Option Res → String
  | none => "pending"
  | some (.ok w e) => s!"ok:{w}:{showNatList e}"
  | some (.err e) => s!"err:{showNatList e}"

def showObs (o : Obs) : String :=
  s!"S:{showNatList (sortNat o.started)} F:{showNatList (sortNat o.inFlight)} M:{o.maxIn} R:{showRes o.result}"

def parseRes (tok : String) : Option (Option Res) :=
  match tok.splitOn ":" with
  | ["R", "pending"] => some none
  | ["R", "ok", w, e] => match w.toNat?, natList e with
    | some w, some e => some (some (.ok w e))
    | _, _ => none
  | ["R", "err", e] => (natList e).map fun e => some (.err e)
  | _ => none

def field (pre : String) (tok : String) : Option String :=
  match tok.splitOn ":" with
  | [p, v] => if p == pre then some v else none
  | _ => none

def parseObs : List String → Option Obs
  | [s, f, m, r] =>
    match (field "S" s).bind natList, (field "F" f).bind natList, (field "M" m).bind String.toNat?, parseRes r with
    | some s, some f, some m, some r => some { started := s, inFlight := f, maxIn := m, result := r }
    | _, _, _, _ => none
  | _ => none

def parseCompletes (tok : String) : Option (List (Nat × Bool)) :=
  (tok.splitOn ",").mapM fun part =>
    match part.splitOn ":" with
    | [i, "ok"] => i.toNat?.map (·, true)
    | [i, "err"] => i.toNat?.map (·, false)
    | _ => none

/-- `SmartDial::new` over the given addresses: rank them with the C09 model; dial numbers are input
positions (1-based) -/
def smartCfg (addrs : List Maddr) : List Nat × List (Nat × Nat) :=
  let ranked := _root_.C09.rank addrs
  let idx := fun (a : Maddr) => (addrs.findIdx (· == a)) + 1
  (ranked.map (fun e => idx e.2), ranked.map (fun e => (idx e.2, e.1)))

/-- monitor: n, k, the outcomes decided so far (first decision per dial counts, none after the result,
in smart mode none for a dial that was not started), the clock, the time of the first poll and the
start times reconstructed from the implementation's observations -/
structure Mon where
  n : Nat := 0
  k : Nat := 1
  outs : List (Nat × Bool) := []
  resolved : Bool := false
  smart : Bool := false
  delays : List (Nat × Nat) := []
  now : Nat := 0
  firstPoll : Option Nat := none
  prevStarted : List Nat := []
  startedAt : List (Nat × Nat) := []

def applyOp (s : St) : List String → Option St
  | ["new", "c", n, k] => match n.toNat?, k.toNat? with
    | some n, some k => some (new n k)
    | _, _ => none
  | ["new", "s", l] => (Maddr.parseList l).map fun addrs =>
      let c := smartCfg addrs
      newSmart c.1 c.2
  | ["complete", l] => (parseCompletes l).map fun cs => cs.foldl (fun s c => complete s c.1 c.2) s
  | ["poll"] => some (poll s)
  | ["adv", d] => d.toNat?.map (advance s)
  | _ => none

def machine : Machine St Mon where
  init _ := {}
  specInit _ := {}
  op s args :=
    match applyOp s args with
    | some s' => (s', showObs (obsOf s'))
    | none => (s, "bad-op")
  spec mon args outs :=
    let mon1 : Mon := match args with
      | ["new", "c", n, k] => { n := n.toNat?.getD 0, k := k.toNat?.getD 1 }
      | ["new", "s", l] =>
        match Maddr.parseList l with
        | some addrs => { n := addrs.length, k := max addrs.length 1, smart := true, delays := (smartCfg addrs).2 }
        | none => mon
      | ["complete", l] =>
        if mon.resolved then mon else
        match parseCompletes l with
        | some cs => { mon with outs := cs.foldl (fun o c =>
            if (o.find? (·.1 == c.1)).isSome || c.1 == 0 || c.1 > mon.n
                || (mon.smart && !mon.prevStarted.contains c.1) then o else o ++ [c]) mon.outs }
        | none => mon
      | ["adv", d] => { mon with now := mon.now + d.toNat?.getD 0 }
      | ["poll"] => if mon.firstPoll.isSome then mon else { mon with firstPoll := some mon.now }
      | _ => mon
    match parseObs outs with
    | some o =>
      let fresh := o.started.filter (fun a => !mon1.prevStarted.contains a)
      let sat := mon1.startedAt ++ fresh.map (fun a => (a, mon1.now))
      let delay := fun a => ((mon1.delays.find? (·.1 == a)).map (·.2)).getD 0
      let key := specKey mon1.n mon1.k mon1.outs o
      let verdict :=
        if key != "" then "FAIL:" ++ key
        else if mon1.resolved && !fresh.isEmpty then "FAIL:started_after_finish"
        else if !mon1.prevStarted.all o.started.contains then "FAIL:start_forgotten"
        else if !gateOk delay mon1.firstPoll sat then "FAIL:started_before_delay"
        else "ok"
      ({ mon1 with resolved := o.result.isSome, prevStarted := o.started, startedAt := sat }, verdict)
    | none => (mon1, "FAIL:unparsable")

end Driver.C08

/-- component-level cases (ConcurrentDial / SmartDial) go to `Driver.C08.machine`, Swarm-level cases
(header token `sw=1`, emitted through `h_swarm::core`) to the shared Swarm model with the C08 monitor -/
def main : IO Unit :=
  (Drv.Machine.sum (fun cfg => cfg.contains "sw=1") Driver.C08.machine Swarm.C08.machine).run
