import Libp2pModel.Model.C19
namespace Driver.C19
open Drv
open _root_.C19

def showIntErr : IntErr → String
  | .empty => "Empty" | .invalidDigit => "InvalidDigit" | .posOverflow => "PosOverflow"

def showKeyRes : KeyRes → String
  | .ok k => "ok " ++ hex k
  | .invalidKeyFile => "err:InvalidKeyFile"
  | .invalidKeyType => "err:InvalidKeyType"
  | .invalidKeyEncoding => "err:InvalidKeyEncoding"
  | .invalidKeyLength => "err:InvalidKeyLength"
  | .invalidKeyChar e => "err:InvalidKeyChar:" ++ showIntErr e
  | .panic => "panic"

def parseKeyRes : List String → Option KeyRes
  | ["ok", k] => (unhex k).map .ok
  | ["err:InvalidKeyFile"] => some .invalidKeyFile
  | ["err:InvalidKeyType"] => some .invalidKeyType
  | ["err:InvalidKeyEncoding"] => some .invalidKeyEncoding
  | ["err:InvalidKeyLength"] => some .invalidKeyLength
  | ["err:InvalidKeyChar:Empty"] => some (.invalidKeyChar .empty)
  | ["err:InvalidKeyChar:InvalidDigit"] => some (.invalidKeyChar .invalidDigit)
  | ["err:InvalidKeyChar:PosOverflow"] => some (.invalidKeyChar .posOverflow)
  | "panic" :: _ => some .panic
  | _ => none


def kvs (toks : List String) : List (String × String) :=
  toks.filterMap fun t => match t.splitOn "=" with
    | [k, v] => some (k, v)
    | _ => none

def lookup (kv : List (String × String)) (k : String) : Option String :=
  (kv.find? (·.1 == k)).map (·.2)

/-! ### plaintext glue -/

/-- `<bytes>:<bytes|err>;…` (`~` = empty) as a lookup function -/
def parseTable (s : String) : Option (List (Bytes × Option Bytes)) :=
  if s = "~" then some [] else
  (s.splitOn ";").mapM fun e =>
    match e.splitOn ":" with
    | [k, v] =>
      match unhex k with
      | some k => if v = "err" then some (k, none) else (unhex v).map fun v => (k, some v)
      | none => none
    | _ => none

/-- a missing entry is reported, never guessed -/
def tableFn (t : List (Bytes × Option Bytes)) (missing : Bytes) (b : Bytes) : Option Bytes :=
  match t.find? (·.1 == b) with
  | some (_, v) => v
  | none => some missing

def MISSING : Bytes := [0xDE, 0xAD, 0x00, 0x01]
def MISSING2 : Bytes := [0xDE, 0xAD, 0x00, 0x02]

def parseChunks (s : String) : Option (List Bytes) :=
  if s = "~" then some [] else (s.splitOn ",").mapM unhex

structure HsArgs where
  localId : Bytes
  localKey : Bytes
  chunks : List Bytes
  O : Oracle

def parseHsArgs (toks : List String) : Option HsArgs := do
  let kv := kvs toks
  let l ← lookup kv "local"
  let (lid, lkey) ← match l.splitOn ":" with
    | [a, b] => do some ((← unhex a), (← unhex b))
    | _ => none
  let chunks ← (lookup kv "chunks").bind parseChunks
  let K ← (lookup kv "K").bind parseTable
  let I ← (lookup kv "I").bind parseTable
  some ⟨lid, lkey, chunks, ⟨tableFn K MISSING, tableFn I MISSING2⟩⟩

def showHsRes (sent : Bytes) : HsRes → String
  | .ok p _ => if p == MISSING ∨ p == MISSING2 then "oracle-missing" else "ok " ++ hex p ++ " " ++ hex sent
  | .io => "err:Io " ++ hex sent
  | .invalidPayload => "err:InvalidPayload " ++ hex sent
  | .invalidPublicKey => "err:InvalidPublicKey " ++ hex sent
  | .invalidPeerId => "err:InvalidPeerId " ++ hex sent
  | .mismatch => "err:PeerIdMismatch " ++ hex sent
  | .unsupported => "-"

def parseHsRes : List String → Option HsRes
  | ["ok", p, _] => (unhex p).map fun p => .ok p []
  | ["err:Io", _] => some .io
  | ["err:InvalidPayload", _] => some .invalidPayload
  | ["err:InvalidPublicKey", _] => some .invalidPublicKey
  | ["err:InvalidPeerId", _] => some .invalidPeerId
  | ["err:PeerIdMismatch", _] => some .mismatch
  | _ => none

def plainHs (toks : List String) : Option (PlainSt × String) := do
  let a ← parseHsArgs toks
  let sent := encodeFrame (encodeExchange a.localId a.localKey)
  let (r, rem) := hsRead a.O [] a.chunks
  let st : PlainSt := match r with
    | .ok _ l => ⟨l, rem⟩
    | _ => ⟨[], []⟩
  some (st, showHsRes sent r)

def plainRead (st : PlainSt) (n : Nat) : PlainSt × String :=
  let (st', out) := outRead st n
  (st', hex out)

structure PlainMon where
  pending : Option Bytes

def plainSpecHs (toks : List String) (outs : List String) : Option (PlainMon × String) := do
  if outs.head? == some "panic" then some (⟨none⟩, "FAIL:plaintext_panic") else
  let a ← parseHsArgs toks
  let v ← parseHsRes outs
  let stream := a.chunks.flatten
  let pend := match hsWhole a.O stream, v with
    | .ok _ rest, .ok _ _ => some rest
    | _, _ => none
  some (⟨pend⟩, if specHs a.O stream v then "ok" else
    (match hsWhole a.O stream with
     | .mismatch => "FAIL:mismatch_accepted"
     | _ => "FAIL:handshake_verdict"))

def plainSpecRead (m : PlainMon) (n : Nat) (outs : List String) : PlainMon × String :=
  match m.pending, outs with
  | some p, [o] =>
    match unhex o with
    | some out => (⟨some (p.drop out.length)⟩, if specRead p n out then "ok" else "FAIL:leftover_delivered")
    | none => (m, "FAIL:unparsable")
  | none, _ => (m, "ok")
  | _, _ => (m, "FAIL:unparsable")

/-! ### pnet glue -/

def parseResp (t : String) : Option Resp :=
  if t = "p" then some .pending
  else if t = "e" then some .err
  else if t = "i" then some .intr
  else if t.startsWith "a" then (t.drop 1).toNat?.map .acc
  else none

def parseScript (s : String) : Option (List Resp) :=
  if s = "-" then some [] else (s.splitOn ",").mapM parseResp

def parsePOp : List String → Option POp
  | ["w", d, s] => do some (.write (← unhex d) (← parseScript s))
  | ["f", s] => do some (.flush (← parseScript s))
  | ["c", s] => do some (.flush (← parseScript s))
  | ["r", n, m] => do some (.read (← n.toNat?) (← m.toNat?))
  | _ => none

def showWRes : WRes → String
  | .ok n => "ok:" ++ toString n
  | .pending => "pending"
  | .errWriteZero => "err:WriteZero"
  | .errInner => "err:Inner"

def parseWRes (s : String) : Option WRes :=
  if s = "pending" then some .pending
  else if s = "err:WriteZero" then some .errWriteZero
  else if s = "err:Inner" then some .errInner
  else match s.splitOn ":" with
    | ["ok", n] => n.toNat?.map .ok
    | _ => none

def showPOut : POut → String
  | .w r u wire => showWRes r ++ " " ++ toString u ++ " " ++ hex wire
  | .r none => "pending"
  | .r (some b) => "some " ++ hex b

def parsePOut : List String → Option POut
  | ["pending"] => some (.r none)
  | ["some", b] => (unhex b).map fun b => .r (some b)
  | [r, u, w] => do some (.w (← parseWRes r) (← u.toNat?) (← unhex w))
  | _ => none

def ksFn (ks : Array Nat) (i : Nat) : Nat := ks.getD i 0

def pnetOp (ks : Array Nat) (s : PnetSt) (args : List String) : Option (PnetSt × String) := do
  let op ← parsePOp args
  let (s', out) := pnetStep (ksFn ks) s op
  some (s', showPOut out)

def pnetSpec (ks : Array Nat) (m : PnetMon) (args outs : List String) : PnetMon × String :=
  if outs.head? == some "panic" then (m, "FAIL:pnet_panic") else
  match parsePOp args, parsePOut outs with
  | some op, some out => pnetJudge (ksFn ks) m op out
  | _, _ => (m, "FAIL:unparsable")

/-- model state: nothing for key-file cases, the plaintext connection, or the pnet connection -/
inductive St
  | none
  | plain (s : PlainSt)
  | pnet (s : PnetSt) (ks : Array Nat)

inductive Mon
  | none
  | plain (m : PlainMon)
  | pnet (m : PnetMon) (ks : Array Nat)

def machine : Machine St Mon where
  init cfg :=
    match cfg with
    | _ :: cls :: rest =>
      if cls.startsWith "pnet" then
        match (lookup (kvs rest) "ks").bind unhex with
        | some ks => .pnet PnetSt.init ks.toArray
        | none => .none
      else .none
    | _ => .none
  specInit cfg :=
    match cfg with
    | _ :: cls :: rest =>
      if cls.startsWith "pnet" then
        match (lookup (kvs rest) "ks").bind unhex with
        | some ks => .pnet PnetMon.init ks.toArray
        | none => .none
      else .none
    | _ => .none
  op st args :=
    match args with
    | ["parse", s] =>
      match unhex s with
      | some s => (st, showKeyRes (parse s))
      | none => (st, "bad-op")
    | ["roundtrip", k] =>
      match unhex k with
      | some k => (st, hex (format k) ++ " " ++ showKeyRes (parse (format k)))
      | none => (st, "bad-op")
    | ["hs"] =>
      -- pnet: both endpoints write their 24-byte nonce, flush, and read the peer's
      (st, "ok 24 24")
    | "hs" :: rest =>
      match plainHs rest with
      | some (s, out) => (.plain s, out)
      | none => (st, "bad-op")
    | ["rd", n] =>
      match st, n.toNat? with
      | .plain s, some n => let (s', out) := plainRead s n; (.plain s', out)
      | _, _ => (st, "bad-op")
    | "w" :: _ | "f" :: _ | "c" :: _ | "r" :: _ =>
      match st with
      | .pnet s ks =>
        match pnetOp ks s args with
        | some (s', out) => (.pnet s' ks, out)
        | none => (st, "bad-op")
      | _ => (st, "bad-op")
    | _ => (st, "bad-op")
  spec mon args outs :=
    match args with
    | ["parse", s] =>
      match unhex s, parseKeyRes outs with
      | some s, some r => (mon, if specParse s r then "ok" else "FAIL:keyfile_panic")
      | _, _ => (mon, "FAIL:unparsable")
    | ["roundtrip", k] =>
      match unhex k, outs with
      | some k, t :: r =>
        match unhex t, parseKeyRes r with
        | some t, some r => (mon, if specRoundtrip k t r then "ok" else "FAIL:keyfile_roundtrip")
        | _, _ => (mon, "FAIL:unparsable")
      | _, _ => (mon, "FAIL:unparsable")
    | ["hs"] => (mon, if outs == ["ok", "24", "24"] then "ok" else "FAIL:pnet_handshake")
    | "hs" :: rest =>
      match plainSpecHs rest outs with
      | some (m, v) => (.plain m, v)
      | none => (mon, "FAIL:unparsable")
    | ["rd", n] =>
      match mon, n.toNat? with
      | .plain m, some n => let (m', v) := plainSpecRead m n outs; (.plain m', v)
      | _, _ => (mon, "FAIL:unparsable")
    | "w" :: _ | "f" :: _ | "c" :: _ | "r" :: _ =>
      match mon with
      | .pnet m ks => let (m', v) := pnetSpec ks m args outs; (.pnet m' ks, v)
      | _ => (mon, "FAIL:unparsable")
    | _ => (mon, "FAIL:unparsable")

end Driver.C19

def main : IO Unit := Driver.C19.machine.run
