import Libp2pModel.Model.C03
namespace Driver.C03
open Drv

def kvNat (t key : String) : Option Nat :=
  match t.splitOn "=" with
  | [k, v] => if k = key then v.toNat? else none
  | _ => none

/-- model state: the shared counter (continues across the ops of a case, as in the process) -/
def machine : Machine Nat Unit where
  init _ := 1
  specInit _ := ()
  op c args :=
    match args with
    | ["shape"] => (c, "shape rmw add=1 static=1")
    | ["wraplife"] => (c, "w=64 reused=0")   -- 2^64 + 1 allocations are needed (`C03.wrapping_reuse`)
    | ["wrap", d, n] =>
      match d.toNat?, n.toNat? with
      | some d, some n =>
        if 1 ≤ d ∧ d ≤ 1048576 ∧ n ≤ 64 then
          -- the code's counter is a `usize` (64 bit on the checked target): `stepW 64`
          let s := _root_.C03.runW 64 { ctr := 2 ^ 64 - d } (List.replicate n 0)
          (c, s!"w=64 ids={",".intercalate ((_root_.C03.ids s).map toString)}")
        else (c, "bad-op")
      | _, _ => (c, "bad-op")
    | ["stress", t, k, _] =>
      match t.toNat?, k.toNat? with
      | some t, some k =>
        if t * k ≤ 1000000 then
          -- run the model machine on the round-robin interleaving
          let s := _root_.C03.run .rmw { ctr := c } (_root_.C03.roundRobin t k)
          let r := _root_.C03.summary (_root_.C03.ids s)
          (s.ctr, s!"n={r.1} distinct={r.2.1} span={r.2.2}")
        else
          -- too large to materialise: closed form given by `C03.unique_rmw` (ids = range' c n)
          let n := t * k
          (c + n, s!"n={n} distinct={n} span={n}")
      | _, _ => (c, "bad-op")
    | _ => (c, "bad-op")
  spec _ args outs :=
    match args with
    | ["shape"] => ((), if _root_.C03.specShape outs then "ok" else "FAIL:alloc_shape")
    | ["wraplife"] =>
      ((), if outs.contains "reused=0" then "ok" else "FAIL:id_reused_after_wrap")
    | "wrap" :: _ =>
      match outs with
      | [_, ids] =>
        let l := ((ids.drop 4).toString.splitOn ",").filter (· ≠ "")
        ((), if _root_.C03.specWrap l then "ok" else "FAIL:duplicate_id_at_wrap")
      | _ => ((), "FAIL:unparsable")
    | "stress" :: _ =>
      match outs with
      | [n, d, _] =>
        match kvNat n "n", kvNat d "distinct" with
        | some n, some d => ((), if _root_.C03.specStress n d then "ok" else "FAIL:duplicate_id")
        | _, _ => ((), "FAIL:unparsable")
      | _ => ((), "FAIL:unparsable")
    | _ => ((), "FAIL:unparsable")

end Driver.C03

def main : IO Unit := Driver.C03.machine.run
