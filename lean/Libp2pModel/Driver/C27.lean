import Libp2pModel.Common.Drv
import Libp2pModel.Model.C27
/-!
Line protocol of C27 (one case = one network of real gossipsub nodes):

```
case <idx> <class> nt=<b> n=<n> flood=<0|1> auth=<s|a> meshn=<k> val=<nodes with validate_messages> adj=<l0;l1;…>
op hb <k>                          impl ok                 k heartbeats were run to quiescence
op snap <mesh lists> <explicit lists>   impl ok            forwarding sets used from now on
op pub <mid> <s> <recips> <e|h>    impl sent <recips>      publish on node s; recips = oracle
op recv <mid> <u> <v>              impl first <fwd> | dup  v handled the copy sent by u (exact)
op recvx <mid> <u> <v>             impl first <fwd> | dup  same, no exact prediction (`model -`)
op verdict <mid> <v> <a|r|i>        impl fwd <fwd> | dropped | none   v's application reported its verdict
op verdictx <mid> <v> <a|r|i>       same, no exact prediction
op quiet <mid>                     impl dlv <nodes>        network quiescent; nodes delivered to
op quietx <mid>                    impl dlv <nodes>        same, at-least-once clause not applied
op sendx <mid> <u> <w>             impl ok                 u answered an IWANT of w (Spec only)
op ids <mid>                       impl same | differ:<k>  ids of the delivered copies vs `publish()`'s
op livelock                        impl -                  the network never became quiescent
```
-/
namespace Driver.C27
open Drv _root_.C27

structure Msg where
  mid : Nat
  cfg : Cfg
  st : State
  mon : Mon := {}
  src : List (Node × Node) := []
  clean : Bool := true

structure DS where
  n : Nat := 0
  flood : Bool := false
  anon : Bool := false
  meshN : Nat := 0
  adj : List (List Nat) := []
  mesh : List (List Nat) := []
  exp : List (List Nat) := []
  valid : List Nat := []
  msgs : List Msg := []

def kv (cfg : List String) (k : String) : Option String :=
  cfg.findSome? fun t =>
    if t.startsWith (k ++ "=") then some ((t.drop (k.length + 1)).toString) else none

def lists (s : String) : Option (List (List Nat)) :=
  (s.splitOn ";").mapM natList

def insertSorted (a : Nat) : List Nat → List Nat
  | [] => [a]
  | b :: l => if a ≤ b then a :: b :: l else b :: insertSorted a l

def sortNat (l : List Nat) : List Nat := l.foldr insertSorted []

def init (cfg : List String) : DS :=
  { n := ((kv cfg "n").bind String.toNat?).getD 0
    flood := kv cfg "flood" == some "1"
    -- a random author is a fresh PeerId that is no node of the network: the filter
    -- `Some(p) != message.source` excludes nobody and `get_own_id()` is None, exactly as with no source
    anon := kv cfg "auth" == some "a" || kv cfg "auth" == some "r"
    meshN := ((kv cfg "meshn").bind String.toNat?).getD 0
    valid := ((kv cfg "val").bind natList).getD []
    adj := ((kv cfg "adj").bind lists).getD [] }

def DS.fwdOf (d : DS) (v : Nat) : List Nat :=
  uniq (d.mesh.getD v [] ++ d.exp.getD v [])

def DS.mkCfg (d : DS) (s : Nat) (recips : List Nat) : Cfg :=
  { nodes := List.range d.n
    fwd := d.fwdOf
    pub := s
    recips := recips
    source := if d.anon then none else some s
    validate := fun v => d.valid.contains v }

def subset (a b : List Nat) : Bool := a.all fun x => b.contains x

/-- is `recips` a possible result of `filter_publish_candidates` on node `s`?
All neighbours are subscribed candidates (no scoring). -/
def DS.validRecips (d : DS) (s : Nat) (recips : List Nat) : Bool :=
  let cand := d.adj.getD s []
  let m := (d.mesh.getD s []).filter cand.contains
  let e := (d.exp.getD s []).filter cand.contains
  let em := uniq (e ++ m)
  nodupB recips && subset recips cand &&
  if d.flood then subset cand recips
  else
    subset em recips &&
    recips.length == em.length + min (d.meshN - m.length) ((uniq cand).length - em.length)

def DS.find (d : DS) (mid : Nat) : Option Msg := d.msgs.find? fun m => m.mid == mid

def DS.put (d : DS) (m : Msg) : DS :=
  { d with msgs := m :: d.msgs.filter fun x => x.mid != m.mid }

def showOut : Out → String
  | .first r => "first " ++ showNatList (sortNat r)
  | .dup => "dup"
  | .selfOrigin => "selforigin"
  | .noflight => "noflight"
  | .hold => "first -"
  | .forwarded r => "fwd " ++ showNatList (sortNat r)
  | .dropped => "dropped"
  | .noheld => "none"

def parseVerdict : String → Option Verdict
  | "a" => some .accept
  | "r" => some .reject
  | "i" => some .ignore
  | _ => none

def parseVOut : List String → Option Out
  | ["fwd", r] => (natList r).map Out.forwarded
  | ["dropped"] => some .dropped
  | ["none"] => some .noheld
  | _ => none

def parseOut : List String → Option Out
  | ["first", r] => (natList r).map Out.first
  | ["dup"] => some .dup
  | _ => none

def okSnap (d : DS) (m e : List (List Nat)) : Bool :=
  m.length == d.n && e.length == d.n &&
  (m ++ e).all fun l => l.all fun x => x < d.n

/-- the model side -/
def op (d : DS) (args : List String) : DS × String :=
  match args with
  | ["hb", _] => (d, "ok")
  | ["snap", m, e] =>
    match lists m, lists e with
    | some m, some e => if okSnap d m e then ({ d with mesh := m, exp := e }, "ok") else (d, "bad-snap")
    | _, _ => (d, "bad-op")
  | ["pub", mid, s, recips, _] =>
    match mid.toNat?, s.toNat?, natList recips with
    | some mid, some s, some recips =>
      let cfg := d.mkCfg s recips
      let d' := d.put { mid := mid, cfg := cfg, st := publish cfg }
      if d.validRecips s recips then (d', "sent " ++ showNatList (sortNat recips))
      else (d', "invalid-choice")
    | _, _, _ => (d, "bad-op")
  | ["recv", mid, u, v] =>
    match mid.toNat?, u.toNat?, v.toNat? with
    | some mid, some u, some v =>
      match d.find mid with
      | some m =>
        let (st', o) := step m.cfg m.st (.recv u v)
        (d.put { m with st := st' }, showOut o)
      | none => (d, "unknown-message")
    | _, _, _ => (d, "bad-op")
  | ["verdict", mid, v, a] =>
    match mid.toNat?.bind d.find, v.toNat?, parseVerdict a with
    | some m, some v, some a =>
      let (st', o) := step m.cfg m.st (.verdict v a)
      (d.put { m with st := st' }, showOut o)
    | _, _, _ => (d, "bad-op")
  | ["recvx", _, _, _] => (d, "-")
  | ["verdictx", _, _, _] => (d, "-")
  | ["sendx", _, _, _] => (d, "-")
  | ["quiet", mid] =>
    match mid.toNat?.bind d.find with
    | some m =>
      if m.st.flight.isEmpty && m.st.held.isEmpty then
        (d, "dlv " ++ showNatList (sortNat (m.st.delivered.map Prod.fst)))
      else (d, "inflight " ++ toString (m.st.flight.length + m.st.held.length))
    | none => (d, "unknown-message")
  | ["quietx", _] => (d, "-")
  | ["livelock"] => (d, "quiescent")
  | ["ids", _] => (d, "same")
  | _ => (d, "bad-op")

def verdict : Option String → String
  | none => "ok"
  | some k => "FAIL:" ++ k

/-- the Spec side: a monitor over the IMPLEMENTATION's outputs -/
def spec (d : DS) (args outs : List String) : DS × String :=
  match args with
  | ["hb", _] => (d, if outs == ["ok"] then "ok" else "FAIL:unparsable")
  | ["livelock"] => (d, "FAIL:no_quiescence")
  | ["ids", _] => (d, verdict (specIds (outs == ["same"])))
  | ["snap", m, e] =>
    match lists m, lists e with
    | some m, some e => ({ d with mesh := m, exp := e }, if outs == ["ok"] then "ok" else "FAIL:unparsable")
    | _, _ => (d, "FAIL:unparsable")
  | ["pub", mid, s, _, _] =>
    match mid.toNat?, s.toNat?, outs with
    | some mid, some s, ["sent", r] =>
      match natList r with
      | some recips =>
        let cfg := d.mkCfg s recips
        (d.put { mid := mid, cfg := cfg, st := publish cfg }, verdict (specPub cfg))
      | none => (d, "FAIL:unparsable")
    | _, _, _ => (d, "FAIL:publish_failed")
  | [k, mid, u, v] =>
    if k == "recv" || k == "recvx" then
      match mid.toNat?, u.toNat?, v.toNat?, parseOut outs with
      | some mid, some u, some v, some o =>
        match d.find mid with
        | some m =>
          let src' := match o with | .first _ => (v, u) :: m.src | _ => m.src
          (d.put { m with mon := monAfter m.mon (.recv u v) o, src := src' },
            verdict (specRecv m.cfg m.mon u v o))
        | none => (d, "FAIL:unknown_message")
      | _, _, _, _ => (d, "FAIL:unparsable")
    else if k == "verdict" || k == "verdictx" then
      match mid.toNat?.bind d.find, u.toNat?, parseVerdict v, parseVOut outs with
      | some m, some node, some _, some o =>
        let clean' := match o with | .dropped => false | _ => m.clean
        (d.put { m with clean := clean' }, verdict (specVerdict m.cfg m.mon node o))
      | _, _, _, _ => (d, "FAIL:unparsable")
    else if k == "sendx" then
      match mid.toNat?.bind d.find, u.toNat?, v.toNat? with
      | some m, some u, some w => (d, verdict (specSend m.cfg m.src u w))
      | _, _, _ => (d, "FAIL:unparsable")
    else (d, "FAIL:unparsable")
  | [k, mid] =>
    match mid.toNat?.bind d.find, outs with
    | some m, ["dlv", l] =>
      match natList l with
      | some dlv =>
        if k == "quiet" then (d, verdict (specQuiet m.cfg m.clean dlv))
        else if k == "quietx" then (d, verdict (specQuiet { m.cfg with nodes := [] } m.clean dlv))
        else (d, "FAIL:unparsable")
      | none => (d, "FAIL:unparsable")
    | _, _ => (d, "FAIL:unparsable")
  | _ => (d, "FAIL:unparsable")

def machine : Machine DS DS where
  init := init
  specInit := init
  op := op
  spec := spec

end Driver.C27

def main : IO Unit := Driver.C27.machine.run
