import Libp2pModel.Model.C10
namespace Driver.C10
open Drv
open _root_.C10

def parseSh : String → Option Sh
  | "none" => some .none
  | "asap" => some .asap
  | "later" => some (.later 0)
  | _ => none

def showNew : Option Sh → String
  | none => "unchanged"
  | some .none => "none"
  | some .asap => "asap"
  | some (.later _) => "later"

def model (args : List String) : String :=
  match args with
  | ["compute", ka, cur, t] =>
    match parseSh cur, t.toNat? with
    | some cur, some t => showNew (computeNew (ka == "1") cur t 0)
    | _, _ => "bad-op"
  | ["counter", c, d] =>
    match c.toNat?, d.toNat? with
    | some c, some d => s!"idle={if hasNoActiveStreams (c - min d c) then 1 else 0}"
    | _, _ => "bad-op"
  | _ => "bad-op"

/-- Spec on the implementation's output: the decision table, stated independently of `computeNew`:
keep-alive ⇒ `none`; zero timeout ⇒ `asap`; a ticking timer is left alone; otherwise a timer is armed.
The counter is idle iff every handed-out clone was dropped. -/
def specOf (args : List String) (outs : List String) : String :=
  match args, outs with
  | ["compute", ka, cur, t], [r] =>
    let expect := if ka == "1" then "none" else if t == "0" then "asap" else if cur == "later" then "unchanged" else "later"
    if r == expect then "ok" else "FAIL:shutdown_table"
  | ["counter", c, d], [r] =>
    match c.toNat?, d.toNat? with
    | some c, some d => if r == (if d ≥ c then "idle=1" else "idle=0") then "ok" else "FAIL:counter"
    | _, _ => "FAIL:unparsable"
  | _, _ => "FAIL:unparsable"

/-! ### end-to-end ops -/
def parseTimeout (t : String) : Option Nat := if t == "max" then some (10 ^ 30) else t.toNat?

def parseCOp : List String → Option COp
  | ["ka", b] => some (.ka (b == "1"))
  | ["req"] => some .req
  | ["allow"] => some .allow
  | ["respout"] => some .respOut
  | ["inb"] => some .inb
  | ["respin"] => some .respIn
  | ["drop"] => some .drop
  | ["ignore"] => some .ignore
  | ["dropign"] => some .dropIgn
  | ["adv", d] => d.toNat?.map .adv
  | ["poll"] => some .poll
  | ["closew"] => some .closeW
  | ["closewi"] => some .closeWI
  | ["write"] => some .write
  | _ => none

def showSh : Sh → String
  | .none => "none" | .asap => "asap" | .later _ => "later"

def showCS (res : String) (c : CS) : String :=
  s!"{res} sh={showSh c.sh} ni={c.negInW + c.negInR} no={c.negOutW + c.negOutR} rq={c.req} act={if c.negOutW + c.negOutR + c.negInW + c.negInR + c.held == 0 then 0 else 1} held={c.held}"

def isE2E (args : List String) : Bool :=
  match args with
  | "compute" :: _ => false
  | "counter" :: _ => false
  | _ => true

/-- monitor over the IMPLEMENTATION's outputs: ghost clock, keep-alive answer, handler queue and
`lastBusy` are derived from the ops and from the counters the implementation reported -/
structure Mon where
  timeout : Nat := 0
  now : Nat := 0
  ka : Bool := false
  hq : Nat := 0
  busyObs : Bool := false
  lastBusy : Nat := 0
  gone : Bool := true

def field (pre tok : String) : Option Nat :=
  match tok.splitOn "=" with
  | [p, v] => if p == pre then v.toNat? else none
  | _ => none

def monStep (m : Mon) (args outs : List String) : Mon × String :=
  match args with
  | ["new", t, _] =>
    match parseTimeout t with
    | some t => ({ timeout := t, gone := false }, if outs == ["-", "sh=none", "ni=0", "no=0", "rq=0", "act=0", "held=0"] then "ok" else "FAIL:fresh_connection")
    | none => (m, "FAIL:unparsable")
  | _ =>
    if m.gone then (m, if outs == ["gone"] then "ok" else "FAIL:unparsable") else
    match parseCOp args, outs with
    | some o, [res, _sh, ni, no, rq, act, held] =>
      match field "ni" ni, field "no" no, field "rq" rq, field "act" act, field "held" held with
      | some ni, some no, some rq, some act, some held =>
        let m1 : Mon := match o with
          | .ka b => { m with ka := b }
          | .req => { m with hq := m.hq + 1 }
          | .adv d => { m with now := m.now + d }
          | _ => m
        let isPoll := match o with | .poll => true | _ => false
        let closed := res == "closed"
        let verdict :=
          if 0 < ni + no + held && act == 0 then "FAIL:active_stream_not_counted"
          else if !isPoll then (if res == "-" then "ok" else "FAIL:unparsable")
          else if !(res == "pending" || res == "closed") then "FAIL:unexpected_poll_result"
          else if closed && (m1.busyObs || 0 < m1.hq || m1.ka) then "FAIL:closed_while_kept_alive"
          else if !specClose m1.timeout (m1.busyObs || 0 < m1.hq) m1.ka m1.lastBusy m1.now closed then "FAIL:closed_before_timeout"
          else "ok"
        -- the ghost sees the streams the handler really holds, not the connection's own counter
        let busy' := 0 < ni + no + rq + held
        let hq' := if isPoll then 0 else m1.hq
        let lb := if busy' || 0 < hq' || (isPoll && m1.ka) then m1.now else m1.lastBusy
        let m2 : Mon := { m1 with hq := hq', busyObs := busy', gone := closed, lastBusy := lb }
        (m2, verdict)
      | _, _, _, _, _ => (m, "FAIL:unparsable")
    | _, _ => (m, "FAIL:unparsable")

def modelStep (st : Option CS) (args : List String) : Option CS × String :=
  match args with
  | ["new", t, mi] =>
    match parseTimeout t, mi.toNat? with
    | some t, some mi => let c := cinit t mi; (some c, showCS "-" c)
    | _, _ => (st, "bad-op")
  | _ =>
    match st, parseCOp args with
    | some c, some o =>
      if c.closed then (st, "gone") else
      let r := cstep c o
      let res := match r.2 with
        | none => "-"
        | some .pending => "pending"
        | some .closed => "closed"
      (some r.1, showCS res r.1)
    | none, some _ => (st, "gone")
    | _, none => (st, "bad-op")

def machine : Machine (Option CS) Mon where
  init _ := none
  specInit _ := {}
  op st args := if isE2E args then modelStep st args else (st, model args)
  spec m args outs := if isE2E args then monStep m args outs else (m, specOf args outs)

end Driver.C10

def main : IO Unit := Driver.C10.machine.run
