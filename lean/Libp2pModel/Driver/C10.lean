import Libp2pModel.Model.C10
namespace Driver.C10
open Drv
open _root_.C10

def parseSh : String → Option Sh
  | "none" => some .none
  | "asap" => some .asap
  | "later" => some (.later 0)
  | _ => none

def showNew : Option Sh → String
  | none => "unchanged"
  | some .none => "none"
  | some .asap => "asap"
  | some (.later _) => "later"

def model (args : List String) : String :=
  match args with
  | ["compute", ka, cur, t] =>
    match parseSh cur, t.toNat? with
    | some cur, some t => showNew (computeNew (ka == "1") cur t 0)
    | _, _ => "bad-op"
  | ["counter", c, d] =>
    match c.toNat?, d.toNat? with
    | some c, some d => s!"idle={if hasNoActiveStreams (c - min d c) then 1 else 0}"
    | _, _ => "bad-op"
  | _ => "bad-op"

/-- Spec on the implementation's output: the decision table, stated independently of `computeNew`:
keep-alive ⇒ `none`; zero timeout ⇒ `asap`; a ticking timer is left alone; otherwise a timer is armed.
The counter is idle iff every handed-out clone was dropped. -/
def specOf (args : List String) (outs : List String) : String :=
  match args, outs with
  | ["compute", ka, cur, t], [r] =>
    let expect := if ka == "1" then "none" else if t == "0" then "asap" else if cur == "later" then "unchanged" else "later"
    if r == expect then "ok" else "FAIL:shutdown_table"
  | ["counter", c, d], [r] =>
    match c.toNat?, d.toNat? with
    | some c, some d => if r == (if d ≥ c then "idle=1" else "idle=0") then "ok" else "FAIL:counter"
    | _, _ => "FAIL:unparsable"
  | _, _ => "FAIL:unparsable"

def machine : Machine Unit Unit where
  init _ := ()
  specInit _ := ()
  op _ args := ((), model args)
  spec _ args outs := ((), specOf args outs)

end Driver.C10

def main : IO Unit := Driver.C10.machine.run
