import Libp2pModel.Model.C50
namespace Driver.C50
open _root_.C50

def refusalTok : Refusal → String
  | .peerIdMismatch => "peer_id_mismatch BadRequest"
  | .alreadyOngoing => "dial-back_already_ongoing DialRefused"
  | .tooManyTotal => "too_many_total_dials DialRefused"
  | .tooManyPeer => "too_many_dials_for_peer DialRefused"
  | .noObserved => "refusing_to_dial_peer_with_blocked_observed_address DialRefused"
  | .noDialable => "no_dialable_addresses DialRefused"
  | .panicNotConnected => "panic"

def showPeers (l : List Peer) : String :=
  if l.isEmpty then "-" else ",".intercalate (l.map Drv.hex)

def parseThr (now : Nat) (tok : String) : Option (List (Peer × Nat)) :=
  if tok = "-" then some [] else
  (tok.splitOn ",").mapM fun e =>
    match e.splitOn "@" with
    | [p, a] => match Drv.unhex p, a.toNat? with
      | some p, some a => some (p, now - a)
      | _, _ => none
    | _ => none

def parseConns (sender : Peer) (tok : String) : Option (List (Peer × List (Nat × Option Maddr))) :=
  if tok = "!" then some []
  else if tok = "~" then some [(sender, [])]
  else
    match (tok.splitOn ";").mapM (fun c => if c = "none" then some none else (Maddr.parse c).map some) with
    | none => none
    | some l => some [(sender, (List.range l.length).zip l)]

/-- the clock value used for `resolve` ops (ages are subtracted from it) -/
def bigNow : Nat := 1000000000

structure ResolveIn where
  cfg : Cfg
  st : St
  sender : Peer
  reqPeer : Peer
  addrs : List Maddr

def parseResolve : List String → Option ResolveIn
  | [ma, g, p, per, thr, conns, sender, reqp, addrs] =>
    match ma.toNat?, g.toNat?, p.toNat?, per.toNat?, parseThr bigNow thr, Drv.unhex sender, Drv.unhex reqp,
        Maddr.parseList addrs with
    | some ma, some g, some p, some per, some thr, some sender, some reqp, some addrs =>
      match parseConns sender conns with
      | some cs => some ⟨⟨ma, g, p, per⟩, ⟨bigNow, 0, thr, [], cs⟩, sender, reqp, addrs⟩
      | none => none
    | _, _, _, _, _, _, _, _ => none
  | _ => none

def thrTok (l : List (Peer × Nat)) : String := "thr=" ++ showPeers (l.map (·.1))

/-- the monitor state that corresponds to a server state (for judging a single `resolve`) -/
def monOf (st : St) : Mon :=
  ⟨st.now, st.ongoing.map (fun e => (e.1, e.2.req)), st.throttled, st.connected, 0⟩

/-! ### op histories on the real `Behaviour` -/

def parseCfg (toks : List String) : Cfg :=
  match toks.find? (fun t => t.startsWith "cfg=") with
  | none => ⟨16, 30, 3, 5⟩
  | some t =>
    match ((t.drop 4).toString.splitOn ",").mapM String.toNat? with
    | some [a, b, c, d] => ⟨a, b, c, d⟩
    | _ => ⟨16, 30, 3, 5⟩

def optMaddr (t : String) : Option (Option Maddr) :=
  if t = "none" then some none else (Maddr.parse t).map some

def parseSeqOp : List String → Option Op
  | ["warp", n] => n.toNat?.map .advance
  | ["conn", p, c, obs, dialed] =>
    match Drv.unhex p, c.toNat?, optMaddr obs, optMaddr dialed with
    | some p, some c, some o, some d => some (.connEstablished p c o d)
    | _, _, _, _ => none
  | ["close", p, c, r] =>
    match Drv.unhex p, c.toNat?, r.toNat? with
    | some p, some c, some r => some (.connClosed p c r)
    | _, _, _ => none
  | ["req", p, _, rp, id, addrs] =>
    match Drv.unhex p, Drv.unhex rp, id.toNat?, Maddr.parseList addrs with
    | some p, some rp, some id, some as => some (.request p rp id as)
    | _, _, _, _ => none
  | ["ifail", p, id] =>
    match Drv.unhex p, id.toNat? with
    | some p, some id => some (.inboundFailure p id)
    | _, _ => none
  | ["rsent", p, id] =>
    match Drv.unhex p, id.toNat? with
    | some p, some id => some (.responseSent p id)
    | _, _ => none
  | ["dialfail", p] =>
    if p = "none" then some (.dialFailure none) else (Drv.unhex p).map (fun p => .dialFailure (some p))
  | _ => none

def refusalCode : Option Refusal → String
  | some .peerIdMismatch => "BadRequest"
  | _ => "DialRefused"

/-- the `ToSwarm` actions of one output -/
def evTok : Out → String
  | .nothing => "-"
  | .dial probe peer as =>
    s!"req,{probe},{Drv.hex peer},{Maddr.renderList as}+dial,{Drv.hex peer},{Maddr.renderList as}"
  | .refused probe peer why => s!"err,{probe},{Drv.hex peer},resp-{refusalCode why}"
  | .inboundErr probe peer => s!"err,{probe},{Drv.hex peer},inbound"
  | .response probe peer addr => s!"ok,{probe},{Drv.hex peer},{Maddr.render addr}"
  | .dialFailed probe peer => s!"err,{probe},{Drv.hex peer},resp-DialError"
  | .panic => "panic"

/-- what happens to a response channel during the op: `st` is the state BEFORE the op -/
def respTok (st : St) (op : Op) (out : Out) : String :=
  match op, out with
  | .request _ _ reqId _, .refused _ _ (some e) => s!"{reqId}:Err,{refusalTok e |>.splitOn " " |>.reverse |> ",".intercalate}"
  | .request _ _ reqId _, .refused _ _ none => s!"{reqId}:dropped"
  | _, .response _ peer addr =>
    match lookup st.ongoing peer with
    | some o => s!"{o.req}:Ok,{Maddr.render addr}"
    | none => "?"
  | _, .dialFailed _ peer =>
    match lookup st.ongoing peer with
    | some o => s!"{o.req}:Err,DialError,dial_failed"
    | none => "?"
  | .inboundFailure peer reqId, _ =>
    match lookup st.ongoing peer with
    | some o => if o.req == reqId then s!"{reqId}:dropped" else "-"
    | none => "-"
  | _, _ => "-"

def sortedPeers (l : List Peer) : String :=
  let hs := (l.map Drv.hex).mergeSort (fun a b => decide (a ≤ b))
  if hs.isEmpty then "-" else ",".intercalate hs

def stateTok (st : St) : String :=
  s!"ongoing={sortedPeers (st.ongoing.map (·.1))} thr={showPeers (st.throttled.map (·.1))}"

/-- parse the implementation's `ev=` token back into an `Out` (`none` = not a legal action shape) -/
def parseEv (tok : String) : Option Out :=
  if tok = "-" then some .nothing else
  match (tok.splitOn "+").map (·.splitOn ",") with
  | [["req", pr, p, as], ["dial", p2, as2]] =>
    match pr.toNat?, Drv.unhex p, Maddr.parseList as with
    | some pr, some pp, some l => if p = p2 && as = as2 then some (.dial pr pp l) else none
    | _, _, _ => none
  | [["err", pr, p, kind]] =>
    match pr.toNat?, Drv.unhex p with
    | some pr, some p =>
      if kind = "inbound" then some (.inboundErr pr p)
      else if kind = "resp-DialError" then some (.dialFailed pr p)
      else some (.refused pr p none)
    | _, _ => none
  | [["ok", pr, p, a]] =>
    match pr.toNat?, Drv.unhex p, Maddr.parse a with
    | some pr, some p, some a => some (.response pr p a)
    | _, _, _ => none
  | _ => none

def parsePeers (tok : String) : Option (List Peer) :=
  if tok = "-" then some [] else (tok.splitOn ",").mapM Drv.unhex

def seqOps : List String := ["warp", "conn", "close", "req", "ifail", "rsent", "dialfail"]

/-- judge one observed (op, impl line) pair of a history -/
def seqSpec (cfg : Cfg) (m : Mon) (op : Op) (outs : List String) : Mon × String :=
  match outs with
  | [ev, _, ong, _] =>
    match parseEv ((ev.drop 3).toString), parsePeers ((ong.drop 8).toString) with
    | some out, some keys =>
      match monStep cfg m op out with
      | (m', some k) => (m', "FAIL:" ++ k)
      | (m', none) =>
        -- dial-backs started minus finished is ≤ 1 per peer and = 1 exactly for the keys of ongoing_inbound
        if ongoingOk m' keys then (m', "ok") else (m', "FAIL:ongoing_vs_inflight")
    | _, _ => (m, "FAIL:unparsable")
  | _ => (m, "FAIL:unparsable")

def machine : Drv.Machine (Cfg × St) (Cfg × Mon) where
  init toks := (parseCfg toks, St.init)
  specInit toks := (parseCfg toks, Mon.init)
  op s args :=
    if seqOps.contains (args.headD "") then
      match parseSeqOp args with
      | none => (s, "bad-op")
      | some op =>
        let (st', out) := step s.1 s.2 op
        ((s.1, st'), s!"ev={evTok out} resp={respTok s.2 op out} {stateTok st'}")
    else
    match args with
    | ["filter", p, obs, l] =>
      match Drv.unhex p, Maddr.parse obs, Maddr.parseList l with
      | some p, some obs, some l => (s, Maddr.renderList (filterValidAddrs p l obs))
      | _, _, _ => (s, "bad-op")
    | "resolve" :: rest =>
      match parseResolve rest with
      | none => (s, "bad-op")
      | some i =>
        match resolve i.cfg i.st i.sender i.reqPeer i.addrs with
        | (_, .error .panicNotConnected) => (s, "panic Peer_is_connected.")
        | (thr, .error e) => (s, s!"err {refusalTok e} {thrTok thr}")
        | (thr, .ok as) => (s, s!"ok {Maddr.renderList as} {thrTok thr}")
    | _ => (s, "bad-op")
  spec t args outs :=
    if seqOps.contains (args.headD "") then
      match parseSeqOp args with
      | none => (t, "FAIL:unparsable")
      | some op =>
        let (m', v) := seqSpec t.1 t.2 op outs
        ((t.1, m'), v)
    else
    match args with
    | ["filter", p, obs, _] =>
      match Drv.unhex p, Maddr.parse obs, outs with
      | some p, some obs, [r] =>
        match Maddr.parseList r with
        | some r => (t, specFilterKey p obs r)
        | none => (t, "FAIL:unparsable")
      | _, _, "panic" :: _ => (t, "FAIL:panic")
      | _, _, _ => (t, "FAIL:unparsable")
    | "resolve" :: rest =>
      match parseResolve rest with
      | none => (t, "FAIL:unparsable")
      | some i =>
        match outs with
        | ["ok", l, _] =>
          match Maddr.parseList l with
          | none => (t, "FAIL:unparsable")
          | some as =>
            -- an accepted request is judged exactly like a `dial` output of the state machine
            match (monStep i.cfg (monOf i.st) (.request i.sender i.sender 0 []) (.dial 0 i.sender as)).2 with
            | none => (t, "ok")
            | some k => (t, "FAIL:" ++ k)
        | "err" :: _ => (t, "ok")
        | "panic" :: _ =>
          -- `expect("Peer is connected.")` is guarded by `handle_event`; the hook calls past the guard
          (t, if hasKey i.st.connected i.sender then "FAIL:panic" else "ok")
        | _ => (t, "FAIL:unparsable")
    | _ => (t, "FAIL:unparsable")

end Driver.C50

def main : IO Unit := Driver.C50.machine.run
