import Libp2pModel.Model.C50
namespace Driver.C50
open _root_.C50

def refusalTok : Refusal → String
  | .peerIdMismatch => "peer_id_mismatch BadRequest"
  | .alreadyOngoing => "dial-back_already_ongoing DialRefused"
  | .tooManyTotal => "too_many_total_dials DialRefused"
  | .tooManyPeer => "too_many_dials_for_peer DialRefused"
  | .noObserved => "refusing_to_dial_peer_with_blocked_observed_address DialRefused"
  | .noDialable => "no_dialable_addresses DialRefused"
  | .panicNotConnected => "panic"

def showPeers (l : List Peer) : String :=
  if l.isEmpty then "-" else ",".intercalate (l.map Drv.hex)

def parseThr (now : Nat) (tok : String) : Option (List (Peer × Nat)) :=
  if tok = "-" then some [] else
  (tok.splitOn ",").mapM fun e =>
    match e.splitOn "@" with
    | [p, a] => match Drv.unhex p, a.toNat? with
      | some p, some a => some (p, now - a)
      | _, _ => none
    | _ => none

def parseConns (sender : Peer) (tok : String) : Option (List (Peer × List (Nat × Option Maddr))) :=
  if tok = "!" then some []
  else if tok = "~" then some [(sender, [])]
  else
    match (tok.splitOn ";").mapM (fun c => if c = "none" then some none else (Maddr.parse c).map some) with
    | none => none
    | some l => some [(sender, (List.range l.length).zip l)]

/-- the clock value used for `resolve` ops (ages are subtracted from it) -/
def bigNow : Nat := 1000000000

structure ResolveIn where
  cfg : Cfg
  st : St
  sender : Peer
  reqPeer : Peer
  addrs : List Maddr

def parseResolve : List String → Option ResolveIn
  | [ma, g, p, per, thr, conns, sender, reqp, addrs] =>
    match ma.toNat?, g.toNat?, p.toNat?, per.toNat?, parseThr bigNow thr, Drv.unhex sender, Drv.unhex reqp,
        Maddr.parseList addrs with
    | some ma, some g, some p, some per, some thr, some sender, some reqp, some addrs =>
      match parseConns sender conns with
      | some cs => some ⟨⟨ma, g, p, per⟩, ⟨bigNow, 0, thr, [], cs⟩, sender, reqp, addrs⟩
      | none => none
    | _, _, _, _, _, _, _, _ => none
  | _ => none

def thrTok (l : List (Peer × Nat)) : String := "thr=" ++ showPeers (l.map (·.1))

/-- the monitor state that corresponds to a server state (for judging a single `resolve`) -/
def monOf (st : St) : Mon :=
  ⟨st.now, st.ongoing.map (fun e => (e.1, e.2.probe)), st.throttled, st.connected⟩

def machine : Drv.Machine Unit Unit where
  init _ := ()
  specInit _ := ()
  op _ args :=
    match args with
    | ["filter", p, obs, l] =>
      match Drv.unhex p, Maddr.parse obs, Maddr.parseList l with
      | some p, some obs, some l => ((), Maddr.renderList (filterValidAddrs p l obs))
      | _, _, _ => ((), "bad-op")
    | "resolve" :: rest =>
      match parseResolve rest with
      | none => ((), "bad-op")
      | some i =>
        match resolve i.cfg i.st i.sender i.reqPeer i.addrs with
        | (_, .error .panicNotConnected) => ((), "panic Peer_is_connected.")
        | (thr, .error e) => ((), s!"err {refusalTok e} {thrTok thr}")
        | (thr, .ok as) => ((), s!"ok {Maddr.renderList as} {thrTok thr}")
    | _ => ((), "bad-op")
  spec _ args outs :=
    match args with
    | ["filter", p, obs, _] =>
      match Drv.unhex p, Maddr.parse obs, outs with
      | some p, some obs, [r] =>
        match Maddr.parseList r with
        | some r => ((), specFilterKey p obs r)
        | none => ((), "FAIL:unparsable")
      | _, _, "panic" :: _ => ((), "FAIL:panic")
      | _, _, _ => ((), "FAIL:unparsable")
    | "resolve" :: rest =>
      match parseResolve rest with
      | none => ((), "FAIL:unparsable")
      | some i =>
        match outs with
        | ["ok", l, _] =>
          match Maddr.parseList l with
          | none => ((), "FAIL:unparsable")
          | some as =>
            -- an accepted request is judged exactly like a `dial` output of the state machine
            match (monStep i.cfg (monOf i.st) (.advance 0) (.dial 0 i.sender as)).2 with
            | none => ((), "ok")
            | some k => ((), "FAIL:" ++ k)
        | "err" :: _ => ((), "ok")
        | "panic" :: _ =>
          -- `expect("Peer is connected.")` is guarded by `handle_event`; the hook calls past the guard
          ((), if hasKey i.st.connected i.sender then "FAIL:panic" else "ok")
        | _ => ((), "FAIL:unparsable")
    | _ => ((), "FAIL:unparsable")

end Driver.C50

def main : IO Unit := Driver.C50.machine.run
