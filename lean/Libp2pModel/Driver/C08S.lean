import Libp2pModel.Model.SwarmC08
/-! stand-alone driver of the Swarm-level part of C08 (used for debugging; `drv_C08` routes to the same machine) -/
def main : IO Unit := Swarm.C08.machine.run
