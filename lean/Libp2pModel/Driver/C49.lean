import Libp2pModel.Model.C49
namespace Driver.C49
open _root_.C49 (REv WEv FEv Err End PollRes Mon poll)
open Drv (Machine)

structure MSt where
  cap : Nat
  max : Nat
  st : _root_.C49.St
  finished : Bool

def items (t : String) : List String := if t == "-" then [] else t.splitOn ","

def numAfter (s : String) : Nat := ((s.drop 1).toString.toNat?).getD 0

def parseR (t : String) : List REv :=
  (items t).map fun x => if x == "p" then .pending else if x == "e" then .err else .chunk (numAfter x)
def parseW (t : String) : List WEv :=
  (items t).map fun x => if x == "p" then .pending else if x == "e" then .err else .take (numAfter x)
def parseF (t : String) : List FEv :=
  (items t).map fun x => if x == "p" then .pending else if x == "e" then .err else .ready

/-- the harness's input formula -/
def input (len seed : Nat) : List Nat := (List.range len).map fun i => (seed + 7 * i + i / 251) % 256

structure Hdr where
  cap : Nat
  max : Nat
  s : End
  d : End

def parseHdr (cfg : List String) : Hdr :=
  -- [idx, class, nt, cap, max, lenS, seedS, lenD, seedD, S.rs, S.ws, S.fs, S.cs, D.rs, D.ws, D.fs, D.cs]
  match cfg with
  | [_, _, _, cap, max, ls, ss, ld, sd, srs, sws, sfs, scs, drs, dws, dfs, dcs] =>
    let n (x : String) := x.toNat?.getD 0
    ⟨n cap, n max,
     End.init (input (n ls) (n ss)) (parseR srs) (parseW sws) (parseF sfs) (parseF scs),
     End.init (input (n ld) (n sd)) (parseR drs) (parseW dws) (parseF dfs) (parseF dcs)⟩
  | _ => ⟨0, 0, End.init [] [] [] [] [], End.init [] [] [] [] []⟩

def showErr : Err → String
  | .read => "read" | .write => "write" | .flush => "flush" | .close => "close"
  | .writeZero => "writeZero" | .maxBytes => "maxBytes" | .timedOut => "timedOut"

def showRes : PollRes → String
  | .pending => "pending" | .ok => "ok" | .err e => "err:" ++ showErr e | .diverged => "diverged"

def parseRes : String → Option PollRes
  | "pending" => some .pending
  | "ok" => some .ok
  | "err:read" => some (.err .read) | "err:write" => some (.err .write) | "err:flush" => some (.err .flush)
  | "err:close" => some (.err .close) | "err:writeZero" => some (.err .writeZero)
  | "err:maxBytes" => some (.err .maxBytes) | "err:timedOut" => some (.err .timedOut)
  | _ => none

def machine : Machine MSt Mon where
  init cfg := let h := parseHdr cfg; ⟨h.cap, h.max, _root_.C49.St.init h.s h.d, false⟩
  specInit cfg := let h := parseHdr cfg; ⟨h.cap, h.max, h.s.inp, h.d.inp, [], []⟩
  op m args :=
    match args with
    | ["poll", f] =>
      if m.finished then (m, "-") else
      let (st', r) := poll m.cap m.max (f == "1") m.st
      let newD := st'.d.out.drop m.st.d.out.length
      let newS := st'.s.out.drop m.st.s.out.length
      ({ m with st := st', finished := r != .pending },
       s!"{showRes r} {Drv.hex newD} {Drv.hex newS} {st'.s.closes} {st'.d.closes}")
    | _ => (m, "bad-op")
  spec mon args outs :=
    match args, outs with
    | ["poll", f], [r, nd, ns, cs, cd] =>
      match parseRes r, Drv.unhex nd, Drv.unhex ns, cs.toNat?, cd.toNat? with
      | some r, some nd, some ns, some cs, some cd => mon.step (f == "1") r nd ns cs cd
      | _, _, _, _, _ => (mon, "FAIL:unparsable")
    | _, "panic" :: _ => (mon, "FAIL:panic")
    | _, _ => (mon, "FAIL:unparsable")

end Driver.C49

def main : IO Unit := Driver.C49.machine.run
