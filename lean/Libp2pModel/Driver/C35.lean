import Libp2pModel.Common.Drv
import Libp2pModel.Model.C35
/-!
Line protocol of C35 (harness `h_gs_c/src/c35.rs`):

```
case <idx> <class> nt=<0|1> mesh_n=<n> ttl=<ns> flood=<0|1> cap=<n>
op connect <p> <g|f> | disconnect <p> | explicit <p> | subs <p> <+t,-t,…> | subscribe <t>
   | unsubscribe <t> | score <p> <int> | publish <t> <now> <low> <x|~|p.p> | hb <now> <low> <fanmap>
   | hold <p> | release <p>
impl <ok|nopeers|full:n|*> fan=<fanmap> rcpt=<list|*> q=<n|*> peers=<id kind:topics;…> sub=<list>
```
`fanmap` = `t=p.p;t=~` (`-` = no entry at all), lists are comma separated (`-` = empty). The publish
oracle is the topic's fanout entry after the publish (`x` = none); `rcpt` = the peers whose queue the
harness empties that received the message; `q` (release only) = number of messages found in the queue.
-/
namespace Driver.C35
open Drv
open _root_.C35

def cfgVal (cfg : List String) (key : String) (dflt : Nat) : Nat :=
  match cfg.findSome? (fun tok => match tok.splitOn "=" with
      | [k, v] => if k == key then v.toNat? else none
      | _ => none) with
  | some v => v
  | none => dflt

def initState (cfg : List String) : State :=
  init { meshN := cfgVal cfg "mesh_n" 6, ttl := cfgVal cfg "ttl" 60000000000, flood := cfgVal cfg "flood" 0 == 1,
         cap := cfgVal cfg "cap" 5000 }

def sortNat (l : List Nat) : List Nat := l.mergeSort (fun a b => a ≤ b)

def showList (sep : String) (empty : String) (l : List Nat) : String :=
  if l.isEmpty then empty else sep.intercalate ((sortNat l).map toString)

def parseSepNat (sep : String) (empty : String) (s : String) : Option (List Nat) :=
  if s == empty then some [] else (s.splitOn sep).mapM String.toNat?

def showFan (f : Nat → Option (List Nat)) : String :=
  let es := topicUniverse.filterMap (fun t => (f t).map (fun l => toString t ++ "=" ++ showList "." "~" l))
  if es.isEmpty then "-" else ";".intercalate es

def parseFan (s : String) : Option (List (Nat × List Nat)) :=
  if s == "-" then some []
  else (s.splitOn ";").mapM (fun e => match e.splitOn "=" with
    | [t, l] => match t.toNat?, parseSepNat "." "~" l with
      | some t, some l => some (t, l)
      | _, _ => none
    | _ => none)

def fanOf (l : List (Nat × List Nat)) : Nat → Option (List Nat) :=
  fun t => (l.find? (fun e => e.1 == t)).map (·.2)

def showPeers (ps : List Peer) : String :=
  let ids := sortNat (ps.map (·.id))
  let es := ids.filterMap (fun i => (ps.find? (fun p => p.id == i)).map (fun p =>
    toString p.id ++ (if p.gossip then "g" else "f") ++ ":" ++ showList "." "~" p.topics))
  if es.isEmpty then "-" else ";".intercalate es

def parseSubs (s : String) : Option (List (Bool × Nat)) :=
  if s == "-" then some []
  else (s.splitOn ",").mapM (fun e =>
    match e.toList with
    | '+' :: r => (String.ofList r).toNat?.map (fun t => (true, t))
    | '-' :: r => (String.ofList r).toNat?.map (fun t => (false, t))
    | _ => none)

def stripKey (key : String) (tok : String) : Option String :=
  match tok.splitOn "=" with
  | k :: rest => if k == key then some ("=".intercalate rest) else none
  | _ => none

def parseFanEntry (s : String) : Option (Option (List Nat)) :=
  if s == "x" then some none else (parseSepNat "." "~" s).map some

def parseOp (args : List String) : Option Op :=
  match args with
  | ["connect", p, k] => p.toNat?.map (fun p => .connect p (k == "g"))
  | ["disconnect", p] => p.toNat?.map .disconnect
  | ["explicit", p] => p.toNat?.map .explicit
  | ["subs", p, l] => match p.toNat?, parseSubs l with
    | some p, some l => some (.subs p l)
    | _, _ => none
  | ["subscribe", t] => t.toNat?.map .subscribe
  | ["unsubscribe", t] => t.toNat?.map .unsubscribe
  | ["score", p, _] => p.toNat?.map (fun _ => .subs 0 [])
  | ["publish", t, now, low, fa] =>
    match t.toNat?, now.toNat?, parseSepNat "," "-" low, parseFanEntry fa with
    | some t, some now, some low, some fa => some (.publish t now low fa)
    | _, _, _, _ => none
  | ["hold", p] => p.toNat?.map .hold
  | ["release", p] => p.toNat?.map .release
  | ["hb", now, low, fan] =>
    match now.toNat?, parseSepNat "," "-" low, parseFan fan with
    | some now, some low, some fan => some (.heartbeat now low (fun t => ((fanOf fan) t).getD []))
    | _, _, _ => none
  | _ => none

def render (res rcpt : String) (s : State) (q : String := "*") : String :=
  res ++ " fan=" ++ showFan s.fanout ++ " rcpt=" ++ rcpt ++ " q=" ++ q ++ " peers=" ++ showPeers s.peers
    ++ " sub=" ++ showList "," "-" s.subscribed

/-- model step + predicted impl line -/
def opLine (fixed : Bool) (s : State) (o : Op) : State × String :=
  match o with
  | .publish t now low fa =>
    match publishG fixed s t now low fa with
    | (s', .other) => (s', render "*" "*" s')
    | (s', .sent rc d) =>
      (s', render (resultOf rc d) (showList "," "-" (d.filter (fun p => !s.held.contains p))) s')
    | (s', .badOracle) => (s', "bad-oracle " ++ render "?" "?" s')
  | .release p => let s' := step s (.release p); (s', render "ok" "*" s' (toString (s.qlen p)))
  | .heartbeat now low post =>
    match heartbeat s now low topicUniverse post with
    | some s' => (s', render "ok" "*" s')
    | none => (s, "bad-oracle " ++ render "?" "?" s)
  | o => let s' := step s o; (s', render "ok" "*" s')

structure Mon where
  m : State
  fan : Nat → Option (List Nat)

def specLine (mo : Mon) (o : Op) (outs : List String) : Mon × String :=
  match outs with
  | [_res, fanTok, rcptTok, _q, _peers, _sub] =>
    match (stripKey "fan" fanTok).bind parseFan, stripKey "rcpt" rcptTok with
    | some fanL, some rcptS =>
      let post := fanOf fanL
      let verdictPub : Option String :=
        match o with
        | .publish t _ low _ =>
          if mo.m.cfg.flood || mo.m.subscribed.contains t then none
          else match parseSepNat "," "-" rcptS with
            | some rcpt =>
              specPublish mo.m.cfg.meshN mo.m.cfg.cap (candidates mo.m t low) ((mo.fan t).getD []) ((post t).getD [])
                rcpt mo.m.held
            | none => some "unparsable_rcpt"
        | _ => none
      let verdictKeep : Option String :=
        topicUniverse.findSome? (fun t => specKeep o t ((mo.fan t).getD []) ((post t).getD []))
      let v := match verdictPub with
        | some k => "FAIL:" ++ k
        | none => match verdictKeep with
          | some k => "FAIL:" ++ k
          | none => "ok"
      ({ m := step mo.m o, fan := post }, v)
    | _, _ => (mo, "FAIL:unparsable")
  | _ => (mo, "FAIL:unparsable")

def machineG (fixed : Bool) : Machine State Mon where
  init cfg := initState cfg
  specInit cfg := { m := initState cfg, fan := fun _ => none }
  op s args :=
    match parseOp args with
    | some o => opLine fixed s o
    | none => (s, "bad-op")
  spec mo args outs :=
    match parseOp args with
    | some o => specLine mo o outs
    | none => (mo, "FAIL:unparsable")

def machine : Machine State Mon := machineG true

end Driver.C35

/-- `--buggy` runs the model of the code before the repair (used once, by hand, to confirm that the
pre-repair model mirrors the pre-repair tree) -/
def main (args : List String) : IO Unit :=
  if args.contains "--buggy" then (Driver.C35.machineG false).run else Driver.C35.machine.run
