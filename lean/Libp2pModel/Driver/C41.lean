import Libp2pModel.Common.Drv
import Libp2pModel.Model.C41
namespace Driver.C41
open Drv _root_.C41

/-! token formats
record   `k:valuehex:pub:exp`      (`n` = None)
provider `k:p:exp:addrs`           (addrs `+`-joined, `~` = empty)
lists    `,`-joined, `-` = empty
impl     `<res> <records sorted by key> <providers(k) for k ascending, concatenated> <provided sorted by key>`
-/

def showOpt : Option Nat → String
  | none => "n"
  | some x => toString x

def parseOpt (s : String) : Option (Option Nat) :=
  if s = "n" then some none else s.toNat?.map some

def showRecord (r : Record) : String :=
  ":".intercalate [toString r.key, hex r.value, showOpt r.publisher, showOpt r.expires]

def parseRecord (s : String) : Option Record :=
  match s.splitOn ":" with
  | [k, v, p, e] =>
    match k.toNat?, unhex v, parseOpt p, parseOpt e with
    | some k, some v, some p, some e => some ⟨k, v, p, e⟩
    | _, _, _, _ => none
  | _ => none

def showAddrs (l : List Nat) : String :=
  if l.isEmpty then "~" else "+".intercalate (l.map toString)

def parseAddrs (s : String) : Option (List Nat) :=
  if s = "~" then some [] else (s.splitOn "+").mapM String.toNat?

def showPRec (r : PRec) : String :=
  ":".intercalate [toString r.key, toString r.provider, showOpt r.expires, showAddrs r.addrs]

def parsePRec (s : String) : Option PRec :=
  match s.splitOn ":" with
  | [k, p, e, a] =>
    match k.toNat?, p.toNat?, parseOpt e, parseAddrs a with
    | some k, some p, some e, some a => some ⟨k, p, e, a⟩
    | _, _, _, _ => none
  | _ => none

def showList {α} (f : α → String) (l : List α) : String :=
  if l.isEmpty then "-" else ",".intercalate (l.map f)

def parseList {α} (f : String → Option α) (s : String) : Option (List α) :=
  if s = "-" then some [] else (s.splitOn ",").mapM f

def showRes : Res → String
  | .unit => "unit"
  | .ok => "ok"
  | .err .maxRecords => "err:MaxRecords"
  | .err .maxProvidedKeys => "err:MaxProvidedKeys"
  | .err .valueTooLarge => "err:ValueTooLarge"
  | .got none => "none"
  | .got (some r) => "some=" ++ showRecord r

def parseRes (s : String) : Option Res :=
  if s = "unit" then some .unit
  else if s = "ok" then some .ok
  else if s = "err:MaxRecords" then some (.err .maxRecords)
  else if s = "err:MaxProvidedKeys" then some (.err .maxProvidedKeys)
  else if s = "err:ValueTooLarge" then some (.err .valueTooLarge)
  else if s = "none" then some (.got none)
  else match s.splitOn "=" with
    | ["some", r] => (parseRecord r).map (fun r => .got (some r))
    | _ => none

/-- canonical rendering of an observable state (the harness sorts the same way) -/
def showView (v : View) : String :=
  unwords [showList showRecord (v.records.mergeSort (fun a b => a.key ≤ b.key)),
           showList showPRec (v.provs.mergeSort (fun a b => a.key ≤ b.key)),
           showList showPRec (v.provided.mergeSort (fun a b => a.key ≤ b.key))]

def parseView : List String → Option View
  | [r, p, d] =>
    match parseList parseRecord r, parseList parsePRec p, parseList parsePRec d with
    | some r, some p, some d => some ⟨r, p, d⟩
    | _, _, _ => none
  | _ => none

def parseOp : List String → Option Op
  | ["get", k] => k.toNat?.map .get
  | ["put", r] => (parseRecord r).map .put
  | ["remove", k] => k.toNat?.map .remove
  | ["retain", "maxlen", n] => n.toNat?.map (fun n => .retain (fun _ r => decide (r.value.length ≤ n)))
  | ["retain", "keymod", m, x] =>
    match m.toNat?, x.toNat? with
    | some m, some x => some (.retain (fun k _ => decide (k % m = x)))
    | _, _ => none
  | ["retain", "haspub"] => some (.retain (fun _ r => r.publisher.isSome))
  | ["addp", r] => (parsePRec r).map .addProvider
  | ["rmp", k, p] =>
    match k.toNat?, p.toNat? with
    | some k, some p => some (.removeProvider k p)
    | _, _ => none
  | _ => none

def cfgVal (cfg : List String) (name : String) : Nat :=
  match cfg.filterMap (fun t => match t.splitOn "=" with
      | [n, v] => if n = name then v.toNat? else none
      | _ => none) with
  | v :: _ => v
  | [] => 0

def parseCfg (cfg : List String) : Nat × Config :=
  (cfgVal cfg "loc", ⟨cfgVal cfg "mr", cfgVal cfg "mv", cfgVal cfg "mp", cfgVal cfg "mk"⟩)

structure Mon where
  cfg : Config
  loc : Nat
  v : View

def machine : Machine Store Mon where
  init cfg := let (loc, c) := parseCfg cfg; Store.empty loc c
  specInit cfg := let (loc, c) := parseCfg cfg; ⟨c, loc, View.empty⟩
  op s args :=
    match parseOp args with
    | some op =>
      let (s', out) := step s op
      (s', showRes out ++ " " ++ showView (view s'))
    | none => (s, "bad-op")
  spec m args outs :=
    match parseOp args, outs with
    | some op, res :: vt =>
      match parseRes res, parseView vt with
      | some out, some v' =>
        let (v'', verdict) := specMon m.cfg m.loc m.v op out v'
        ({ m with v := v'' }, verdict)
      | _, _ => (m, "FAIL:unparsable")
    | _, _ => (m, "FAIL:unparsable")

end Driver.C41

def main : IO Unit := Driver.C41.machine.run
