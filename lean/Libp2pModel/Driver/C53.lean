import Libp2pModel.Model.SwarmDrv
import Libp2pModel.Model.C53
/-!
# C53 driver: composed Swarm ∥ allow/block-list model + Spec monitor on the implementation's lines

Spec side (implementation's outputs ONLY): the list is rebuilt from the ops and the API return
values the implementation printed; the shared life-cycle fold `Swarm.Spec.Hist` gives the
connections that existed before a `deny` op; `C53.violations` is evaluated on the step's raw
ordered event log and on the `connected_peers` the implementation reported.
-/
namespace Driver.DC53
open Swarm _root_.C53

def cfgAllow (cfg : List String) : Bool := cfg.contains "mode=allow"

def parseCOp (toks : List String) : Option COp := do
  let order ← IO.oracle "order" toks
  let aborts ← IO.oracle "aborts" toks
  match toks.filter (fun t => !(t.startsWith "order=" || t.startsWith "aborts=" || t.startsWith "ov=")) with
  | ["deny", p] => pure (COp.deny (← p.toNat?) order aborts)
  | ["permit", p] => pure (COp.permit (← p.toNat?))
  | ["raceDeny", k, p, pd, q] => pure (COp.raceDeny (← k.toNat?) (← p.toNat?) (← IO.parseB pd) (← q.toNat?) order aborts)
  | _ => (IO.parseOp (toks.filter (fun t => !t.startsWith "ov="))).map COp.sw

def sortNat (l : List Nat) : List Nat := l.foldl (fun acc x => insertSorted x acc) []

def renderApi (o : Out) (b : ABL) : String :=
  let ret := match o.ret with | some true => "true" | some false => "false" | none => "-"
  s!"ret={ret} woken={if o.woken then 1 else 0} list={Drv.showNatList (sortNat b.peers)}"

structure Mon where
  m : Swarm.Drv.Mon := {}
  allowMode : Bool := false
  peers : List Nat := []
  /-- data of the main line, judged when the ordered log arrives -/
  connected : List Nat := []
  mustClose : List Nat := []
  deriving Inhabited

def Mon.denied (mon : Mon) (p : Nat) : Bool :=
  if mon.allowMode then !mon.peers.contains p else mon.peers.contains p

def histConnsOf (h : Spec.Hist) (p : Nat) : List Nat :=
  h.conns.filterMap fun x => match x.2 with | .est q _ => if q == p then some x.1 else none | _ => none

def verdict (vs : List String) : String :=
  match vs with
  | [] => "ok"
  | v :: _ => "FAIL:" ++ v

def specMain (mon : Mon) (args outs : List String) : Mon × String :=
  match parseCOp args, IO.parseImpl outs with
  | none, _ => (mon, "FAIL:C53:unparsable_op")
  | _, none => (mon, if outs.head? == some "panic" then "FAIL:C53:panic" else "FAIL:C53:unparsable_impl_line")
  | some (COp.sw op), some l =>
    let (m', v) := Swarm.Drv.onMain "C53:" { mon.m with op := some op } op outs
    ({ mon with m := m', connected := l.peers, mustClose := [] }, v)
  | some (COp.deny p _ _), some l =>
    -- the list after the call: `deny` makes `p` denied whatever the return value says
    let peers := if mon.allowMode then setRemove mon.peers p else setInsert mon.peers p
    let changed := outs.contains "ret=true"
    let (m', v) := Swarm.Drv.onMain "C53:" { mon.m with op := none } (.behClose p none [] []) outs
    ({ mon with m := m', peers, connected := l.peers,
                mustClose := if changed then histConnsOf mon.m.h p else [] }, v)
  | some (COp.raceDeny _ _ _ p _ _), some l =>
    let peers := if mon.allowMode then setRemove mon.peers p else setInsert mon.peers p
    let changed := outs.contains "ret=true"
    let (m', v) := Swarm.Drv.onMain "C53:" { mon.m with op := none } (.behClose p none [] []) outs
    ({ mon with m := m', peers, connected := l.peers,
                mustClose := if changed then histConnsOf mon.m.h p else [] }, v)
  | some (COp.permit p), some l =>
    let peers := if mon.allowMode then setInsert mon.peers p else setRemove mon.peers p
    let (m', v) := Swarm.Drv.onMain "C53:" { mon.m with op := none } (.behClose p none [] []) outs
    ({ mon with m := m', peers, connected := l.peers, mustClose := [] }, v)

def specOrder (mon : Mon) (outs : List String) : Mon × String :=
  let raw := match outs with | [t] => IO.parseLog t | _ => []
  let (m', v) := Swarm.Drv.onOrder "C53:" mon.m outs
  let vs := violations mon.denied raw mon.connected mon.mustClose
  ({ mon with m := m', mustClose := [] }, if v == "ok" then verdict vs else v)

def machine : Drv.Machine (CS × List Ev) Mon where
  init cfg := (CS.init (IO.parsePeers cfg) (cfgAllow cfg), [])
  specInit cfg := { m := { peers := IO.parsePeers cfg }, allowMode := cfgAllow cfg }
  op st args :=
    match args with
    | ["order"] => (st, Swarm.Drv.renderRaw st.2)
    | _ =>
      match parseCOp args with
      | none => (st, "bad-op")
      | some op =>
        let (cs', o) := _root_.C53.step st.1 op
        ((cs', o.evs), IO.renderStep cs'.sw o.res o.evs ++ " " ++ renderApi o cs'.b)
  spec mon args outs :=
    match args with
    | ["order"] => specOrder mon outs
    | _ => specMain mon args outs

end Driver.DC53

def main : IO Unit := Driver.DC53.machine.run
