import Libp2pModel.Model.C34
namespace Driver.C34
open Drv
open _root_.C34

def alphabet : List Nat := [0, 1, 2]

def parseSetter (s : String) : Option Setter :=
  match s.splitOn ":" with
  | ["bp"] => some .badProto
  | name :: args =>
    match name, args.mapM String.toNat? with
    | "n", some [v] => some (.n v)
    | "low", some [v] => some (.low v)
    | "high", some [v] => some (.high v)
    | "out", some [v] => some (.out v)
    | "nT", some [t, v] => some (.nT t v)
    | "lowT", some [t, v] => some (.lowT t v)
    | "highT", some [t, v] => some (.highT t v)
    | "outT", some [t, v] => some (.outT t v)
    | "cfgT", some [t, a, b, c, d] => some (.cfgT t ⟨a, b, c, d⟩)
    | "hl", some [v] => some (.histLen v)
    | "hg", some [v] => some (.histGossip v)
    | "mts", some [v] => some (.mts v)
    | "mtsT", some [t, v] => some (.mtsT t v)
    | "ub", some [v] => some (.ub v)
    | _, _ => none
  | [] => none

def parseSetters (s : String) : Option (List Setter) :=
  if s = "-" then some [] else (s.splitOn ";").mapM parseSetter

def showParams (p : Params) : String := showNatList [p.n, p.low, p.high, p.outMin]

def showGetters (g : Getters) : String :=
  unwords ([showParams g.dflt] ++ g.perTopic.map showParams ++
    [showNatList [g.histLen, g.histGossip], toString g.mts, showNatList g.mtsPerTopic])

def parseParams (s : String) : Option Params :=
  match natList s with
  | some [a, b, c, d] => some ⟨a, b, c, d⟩
  | _ => none

/-- `<dflt> <t0> <t1> <t2> <hl>,<hg> <mts> <mts0>,<mts1>,<mts2>` -/
def parseGetters : List String → Option Getters
  | [d, t0, t1, t2, h, m, mt] =>
    match parseParams d, [t0, t1, t2].mapM parseParams, natList h, m.toNat?, natList mt with
    | some d, some ts, some [hl, hg], some m, some mt =>
      if mt.length = 3 then some ⟨d, ts, hl, hg, m, mt⟩ else none
    | _, _, _, _, _ => none
  | _ => none

def parseBool (s : String) : Option Bool :=
  if s = "1" then some true else if s = "0" then some false else none

def parseOrder (s : String) : Option (List Bool) :=
  if s = "-" then some [] else s.toList.mapM fun c => if c = '1' then some true else if c = '0' then some false else none

/-- `t;mIn;mOut;mNeg;cIn;cOut;pool;x2;below;k5In;k5Out;order` -/
def parseBlock (s : String) : Option (Nat × Obs × Orc) :=
  match s.splitOn ";" with
  | [t, mIn, mOut, mNeg, cIn, cOut, pool, x2, below, k5In, k5Out, order] =>
    match [t, mIn, mOut, mNeg, cIn, cOut, pool, x2, k5In, k5Out].mapM String.toNat?, parseBool below, parseOrder order with
    | some [t, mIn, mOut, mNeg, cIn, cOut, pool, x2, k5In, k5Out], some below, some order =>
      some (t, ⟨mIn, mOut, mNeg, cIn, cOut, pool⟩, ⟨x2, order, below, k5In, k5Out⟩)
    | _, _, _ => none
  | _ => none

def showHb : Res (List (Nat × Nat × Nat)) → String
  | .ok [] => "ok -"
  | .ok l => unwords ("ok" :: l.map fun (t, i, o) => s!"{t}:{i}/{o}")
  | .panic m => "panic " ++ m
  | .badOracle w => "bad-oracle " ++ w

def parseErr (s : String) : Option Err :=
  [Err.MaxTransmissionSizeTooSmall, .HistoryLengthTooSmall, .MeshParametersInvalid, .MeshOutboundInvalid,
   .UnsubscribeBackoffIsZero, .InvalidProtocol].find? (·.name = s)

/-- spec state: the class of the config `build` accepted in this case (`none`: nothing accepted) -/
abbrev SpecSt := Option Class

def machine : Machine Builder SpecSt where
  init _ := Builder.init
  specInit _ := none
  op b args :=
    match args with
    | ["build", s, orc] =>
      match parseSetters s with
      | some l =>
        let b' := Builder.init.applyAll l
        match build b' (parseErr orc) with
        | .ok c => (b', "ok " ++ showGetters (c.getters alphabet))
        | .err e => (b', "err " ++ e.name)
        | .badOracle => (b', "bad-oracle")
      | none => (b, "bad-op")
    | "hb" :: retain :: opp :: ogp :: blocks =>
      match retain.toNat?, parseBool opp, ogp.toNat?, blocks.mapM parseBlock with
      | some retain, some opp, some ogp, some blocks => (b, showHb (heartbeat b ⟨retain, opp, ogp⟩ blocks))
      | _, _, _, _ => (b, "bad-op")
    | _ => (b, "bad-op")
  spec st args outs :=
    match args with
    | ["build", s, _] =>
      match outs with
      | ["err", _] => (none, "ok")
      | "ok" :: g =>
        match parseGetters g, parseSetters s with
        | some g, some l =>
          let c := classify (Builder.init.applyAll l) alphabet g
          (some c, c.verdict)
        | _, _ => (none, "FAIL:unparsable")
      | _ => (none, "FAIL:unparsable")
    | "hb" :: _ =>
      match outs with
      | "ok" :: _ => (st, "ok")
      | "panic" :: _ => (st, specHbKey st true)
      | _ => (st, "FAIL:unparsable")
    | _ => (st, "FAIL:unparsable")

end Driver.C34

def main : IO Unit := Driver.C34.machine.run
