import Libp2pModel.Common.Drv
import Libp2pModel.Model.C32
namespace Driver.C32
open Drv

structure Cfg where
  keys : List C32.Key
  limit : Nat

def cfgTok (pre : String) (cfg : List String) (dflt : Nat) : Nat :=
  match cfg.findSome? (fun t => if t.startsWith pre then (t.drop pre.length).toString.toNat? else none) with
  | some n => n
  | none => dflt

def parseCfg (cfg : List String) : Cfg :=
  let nt := cfgTok "T=" cfg 0
  let np := cfgTok "P=" cfg 0
  { keys := (List.range nt).flatMap (fun t => (List.range np).map (fun p => (t, p)))
    limit := cfgTok "lim=" cfg 0 }

def commaList (l : List String) : String := if l.isEmpty then "-" else ",".intercalate l

def render (c : Cfg) (s : Option C32.State) : String :=
  match s with
  | none => "w=- t=-"
  | some s =>
    "w=" ++ commaList (c.keys.map fun k => if C32.isBackoffWithSlack s k then "1" else "0") ++
    " t=" ++ commaList (c.keys.map fun k => match C32.getBackoffTime s k with | some t => toString t | none => "x")

def parseOp : List String → Option (Nat × C32.Op)
  | ["update", now, t, p, d] =>
    match now.toNat?, t.toNat?, p.toNat?, d.toNat? with
    | some now, some t, some p, some d => some (now, .update (t, p) d)
    | _, _, _, _ => none
  | ["hb", now] => now.toNat?.map (·, .heartbeat)
  | ["q", now] => now.toNat?.map (·, .query)
  | _ => none

def parseNew : List String → Option (Nat × Nat × Nat)
  | ["new", _, prune, hb, slack] =>
    match prune.toNat?, hb.toNat?, slack.toNat? with
    | some a, some b, some c => some (a, b, c)
    | _, _, _ => none
  | _ => none

def fieldList (pre : String) (tok : String) : Option (List String) :=
  if tok.startsWith pre then
    let body := (tok.drop pre.length).toString
    some (if body = "-" then [] else body.splitOn ",")
  else none

def lookupD {α} (l : List (C32.Key × α)) (k : C32.Key) (d : α) : α :=
  match l.find? (fun e => e.1 = k) with
  | some e => e.2
  | none => d

def machine : Machine (Cfg × Option C32.State) (Cfg × Option C32.Mon) where
  init cfg := (parseCfg cfg, none)
  specInit cfg := (parseCfg cfg, none)
  op st args :=
    let (c, s) := st
    match parseNew args with
    | some (prune, hb, slack) =>
      match C32.new c.limit prune hb slack with
      | some s' => ((c, some s'), "ok " ++ render c (some s'))
      | none => ((c, none), "panic:divzero " ++ render c none)
    | none =>
      match parseOp args, s with
      | none, _ => (st, "bad-op")
      | some _, none => (st, "nostate " ++ render c none)
      | some (now, .heartbeat), some s =>
        match C32.heartbeat s now with
        | some s' => ((c, some s'), "ok " ++ render c (some s'))
        | none => (st, "panic:durmul " ++ render c (some s))
      | some o, some s =>
        let s' := C32.step s o
        ((c, some s'), "ok " ++ render c (some s'))
  spec st args outs :=
    let (c, m) := st
    match outs with
    | [status, wtok, ttok] =>
      match fieldList "w=" wtok, fieldList "t=" ttok with
      | some ws, some ts =>
        let panicked := status.startsWith "panic"
        match parseNew args with
        | some (prune, hb, slack) =>
          if panicked then ((c, none), if hb = 0 then "ok" else "FAIL:panic")
          else
            let m' := C32.monNew c.limit prune hb slack
            let w := fun k => lookupD (c.keys.zip ws) k "0" = "1"
            let t := fun k => (lookupD (c.keys.zip ts) k "x").toNat?
            if ws.length ≠ c.keys.length ∨ ts.length ≠ c.keys.length then ((c, some m'), "FAIL:unparsable")
            else
              ((c, some m'), match C32.spec m' 0 c.keys w t with | none => "ok" | some e => "FAIL:" ++ e)
        | none =>
          match parseOp args, m with
          | none, _ => (st, "FAIL:unparsable")
          | some _, none => (st, if status = "nostate" then "ok" else "FAIL:unparsable")
          | some o, some m =>
            let expectPanic := match o.2 with | .heartbeat => m.dead | _ => false
            if panicked ≠ expectPanic then (st, "FAIL:panic")
            else
              let m' := C32.monStep m o
              let w := fun k => lookupD (c.keys.zip ws) k "0" = "1"
              let t := fun k => (lookupD (c.keys.zip ts) k "x").toNat?
              if ws.length ≠ c.keys.length ∨ ts.length ≠ c.keys.length then ((c, some m'), "FAIL:unparsable")
              else
                ((c, some m'), match C32.spec m' o.1 c.keys w t with | none => "ok" | some e => "FAIL:" ++ e)
      | _, _ => (st, "FAIL:unparsable")
    | _ => (st, "FAIL:unparsable")

end Driver.C32

def main : IO Unit := Driver.C32.machine.run
