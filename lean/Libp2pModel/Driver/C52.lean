import Libp2pModel.Model.SwarmDrv
import Libp2pModel.Model.C52
/-!
# C52 driver: composed Swarm ∥ connection-limits model + Spec monitor on the implementation's lines

Model side: `C52.step`; the predicted impl line is the Swarm line plus the behaviour's five sets
and the bypass list.  Spec side (implementation's outputs ONLY): the shared life-cycle fold
`Swarm.Spec.Hist` gives the connection table the Swarm reported; the exemption lists are rebuilt
from the ops (was the peer on the bypass list when the dial started / the connection was
established); then `C52.violations` (the property) and `C52.bookkeeping` are evaluated.
-/
namespace Driver.DC52
open Swarm _root_.C52

def parseLimit (s : String) : Option (Option Nat) := if s = "n" then some none else s.toNat?.map some

def parseLimits (s : String) : Option Limits :=
  match (s.splitOn ",").mapM parseLimit with
  | some [a, b, c, d, e, f] => some { maxPI := a, maxPO := b, maxEI := c, maxEO := d, maxPP := e, maxTot := f }
  | _ => none

def cfgLimits (cfg : List String) : Limits :=
  ((cfg.findSome? (IO.kv "lim")).bind parseLimits).getD {}

/-- `ov=1` on a dial: made with `DialOpts::override_role()` -/
def parseCOp (toks : List String) : Option COp :=
  match toks.filter (fun t => !(t.startsWith "order=" || t.startsWith "aborts=" || t.startsWith "ov=")) with
  | ["bypass", p] => p.toNat?.map .bypass
  | ["unbypass", p] => p.toNat?.map .unbypass
  | ["setlimits", l] => (parseLimits l).map .setLimits
  | _ => (IO.parseOp (toks.filter (fun t => !t.startsWith "ov="))).map (fun op => COp.sw op (toks.contains "ov=1"))

def renderSet (l : List Nat) : String := Drv.showNatList (sortNat l)

def sortPP (m : PP) : PP := (m.toArray.qsort (fun a b => a.1 < b.1)).toList

def renderPP (m : PP) : String :=
  if m.isEmpty then "-" else ";".intercalate ((sortPP m).map fun (p, ids) => s!"{p}:{renderSet ids}")

def renderLim (b : Lim) : String :=
  s!"lim={renderSet b.pendIn}/{renderSet b.pendOut}/{renderSet b.estIn}/{renderSet b.estOut}/{renderPP b.perPeer} byp={renderSet b.bypass}"

/-! ### Spec monitor -/

structure Mon where
  m : Swarm.Drv.Mon := {}
  limits : Limits := {}
  bypass : List Nat := []
  exDial : List Nat := []
  exEst : List Nat := []
  taint : Bool := false
  got : Option Sets := none
  /-- how each connection was CREATED: id ↦ `true` = by a dial (`Swarm::dial` / `ToSwarm::Dial`),
  `false` = accepted from a listener; the direction under which it must be counted -/
  created : List (Nat × Bool) := []
  /-- `network_info().connection_counters()` of the main line: pi, po, ei, eo -/
  counters : Option (Nat × Nat × Nat × Nat) := none

def parsePP (s : String) : Option PP :=
  if s = "-" then some [] else
  (s.splitOn ";").mapM fun item =>
    match item.splitOn ":" with
    | [p, ids] => do pure ((← p.toNat?), (← Drv.natList ids))
    | _ => none

def parseSets (toks : List String) : Option Sets := do
  let s ← toks.findSome? (IO.kv "lim")
  match s.splitOn "/" with
  | [a, b, c, d, e] =>
    pure { pendIn := ← Drv.natList a, pendOut := ← Drv.natList b, estIn := ← Drv.natList c,
           estOut := ← Drv.natList d, perPeer := ← parsePP e }
  | _ => none

def dirOf (created : List (Nat × Bool)) (c : Nat) (reported : Bool) : Bool :=
  match created.find? (·.1 == c) with
  | some x => x.2
  | none => reported

/-- the Swarm's connection table as its events showed it, minus the exempt connections; the
direction of an established connection is the way it was created, not what the event says -/
def histTable (h : Spec.Hist) (created : List (Nat × Bool)) (exDial exEst : List Nat) : Table :=
  { pendIn := h.conns.filterMap fun x => match x.2 with | .pendIn => some x.1 | _ => none,
    pendOut := h.conns.filterMap fun x => match x.2 with
      | .pendOut _ => if exDial.contains x.1 then none else some x.1 | _ => none,
    estIn := h.conns.filterMap fun x => match x.2 with
      | .est p o => if exEst.contains x.1 || dirOf created x.1 o then none else some (x.1, p) | _ => none,
    estOut := h.conns.filterMap fun x => match x.2 with
      | .est p o => if exEst.contains x.1 || !dirOf created x.1 o then none else some (x.1, p) | _ => none }

def histEst (h : Spec.Hist) (created : List (Nat × Bool)) : List (Nat × Nat × Bool) :=
  h.conns.filterMap fun x => match x.2 with | .est p o => some (x.1, p, dirOf created x.1 o) | _ => none

/-- the Swarm reports (event endpoint / `connection_counters`) every connection under the direction
it was created with — a role override does not turn a dialed connection into an incoming one -/
def directionClauses (h : Spec.Hist) (created : List (Nat × Bool)) (counters : Option (Nat × Nat × Nat × Nat)) : List String :=
  (if h.conns.all (fun x => match x.2 with | .est _ o => dirOf created x.1 o == o | _ => true) then []
   else ["C52:established_direction_differs_from_creation"]) ++
  (match counters with
   | none => []
   | some (pi, po, ei, eo) =>
     let est := histEst h created
     (if pi = h.count (· == .pendIn) then [] else ["C52:counters_pending_incoming"]) ++
     (if po = h.count (fun s => match s with | .pendOut _ => true | _ => false) then [] else ["C52:counters_pending_outgoing"]) ++
     (if ei = (est.filter (fun x => !x.2.2)).length then [] else ["C52:counters_established_incoming"]) ++
     (if eo = (est.filter (fun x => x.2.2)).length then [] else ["C52:counters_established_outgoing"]))

def histHasConns (h : Spec.Hist) : Bool :=
  h.conns.any fun x => match x.2 with | .pendOut _ | .pendIn | .est .. => true | _ => false

def verdict (vs : List String) : String :=
  match vs with
  | [] => "ok"
  | v :: _ => "FAIL:" ++ v

def specMain (mon : Mon) (args outs : List String) : Mon × String :=
  let got := parseSets outs
  let bad := if got.isNone && outs.head? != some "panic" then ["C52:unparsable_snapshot"] else []
  match parseCOp args with
  | none => (mon, "FAIL:C52:unparsable_op")
  | some (COp.bypass p) => ({ mon with bypass := setInsert mon.bypass p, got }, verdict bad)
  | some (COp.unbypass p) => ({ mon with bypass := setRemove mon.bypass p, got }, verdict bad)
  | some (COp.setLimits l) =>
    ({ mon with limits := l, taint := mon.taint || histHasConns mon.m.h, got }, verdict bad)
  | some (COp.sw op _) =>
    let (m', v) := Swarm.Drv.onMain "C52:" { mon.m with op := some op } op outs
    let st0 : State := State.init mon.m.peers
    let line := IO.parseImpl outs
    -- exemptions: decided by the bypass list at the time of the op
    let exDial := match op, line with
      | .dial _ _ p0 addrs _ _ _ _, some l =>
        (match (dialPeer st0 p0 addrs).getD none, l.id with
         | some p, some id => if mon.bypass.contains p then id :: mon.exDial else mon.exDial
         | _, _ => mon.exDial)
      | _, _ => mon.exDial
    let exEst := match op, line with
      | .resolve _ p _, some l | .resolveIn _ p _, some l =>
        if mon.bypass.contains p then
          (l.log.filterMap fun e => match e with | .sEstablished c .. => some c | _ => none) ++ mon.exEst
        else mon.exEst
      | _, _ => mon.exEst
    let created := match op, line with
      | .dial .., some l => (match l.id with | some id => (id, true) :: mon.created | none => mon.created)
      | _, _ => mon.created
    let counters := line.map fun l => (l.pi, l.po, l.ei, l.eo)
    ({ mon with m := m', exDial, exEst, got, created, counters }, if v == "ok" then verdict bad else v)

def specOrder (mon : Mon) (outs : List String) : Mon × String :=
  let raw := match outs with | [t] => IO.parseLog t | _ => []
  let (m', v) := Swarm.Drv.onOrder "C52:" mon.m outs
  let created := raw.foldl (fun acc e => match e with
    | .sIncoming c => if acc.any (·.1 == c) then acc else (c, false) :: acc
    | .sDialing c _ => if acc.any (·.1 == c) then acc else (c, true) :: acc
    | _ => acc) mon.created
  let t := histTable m'.h created mon.exDial mon.exEst
  let v1 := if mon.taint then [] else violations mon.limits t
  let v2 := match mon.got with
    | some g => bookkeeping g t.pendIn t.pendOut (histEst m'.h created)
    | none => []
  let v3 := directionClauses m'.h created mon.counters
  ({ mon with m := m', got := none, created, counters := none }, if v == "ok" then verdict (v1 ++ v2 ++ v3) else v)

def machine : Drv.Machine (CS × List Ev) Mon where
  init cfg := (CS.init (IO.parsePeers cfg) (cfgLimits cfg), [])
  specInit cfg := { m := { peers := IO.parsePeers cfg }, limits := cfgLimits cfg }
  op st args :=
    match args with
    | ["order"] => (st, Swarm.Drv.renderRaw st.2)
    | _ =>
      match parseCOp args with
      | none => (st, "bad-op")
      | some op =>
        let (cs', r, evs) := C52.step st.1 op
        ((cs', evs), IO.renderStep cs'.sw r evs ++ " " ++ renderLim cs'.g.lim)
  spec mon args outs :=
    match args with
    | ["order"] => specOrder mon outs
    | _ => specMain mon args outs

end Driver.DC52

def main : IO Unit := Driver.DC52.machine.run
