import Libp2pModel.Model.C15
import Libp2pModel.Common.MssTok
namespace Driver.C15
open Drv Mss MssTok

def showObs : C15.DObs → String
  | .res r => showNRes r
  | .lazy c d fin => "ok:" ++ showName c ++ " data:" ++ hex d ++ " fin:" ++
      (match fin with | none => "eof" | some r => showFin r)

/-- `<obs tokens…> out:<hex> consumed:<n>` -/
def parseObsLine : List String → Option (C15.DObs × Bytes × Nat)
  | [r, o, n] => do
    let r ← parseNRes r
    let o ← (stripPrefix "out:" o) >>= unhex
    let n ← (stripPrefix "consumed:" n) >>= String.toNat?
    pure (.res r, o, n)
  | [l, d, f, o, n] => do
    let n ← (stripPrefix "consumed:" n) >>= String.toNat?
    let c ← (stripPrefix "ok:" l) >>= parseName
    let d ← (stripPrefix "data:" d) >>= unhex
    let f ← stripPrefix "fin:" f
    let fin ← (if f = "eof" then some none else (parseNRes f).map some)
    let o ← (stripPrefix "out:" o) >>= unhex
    pure (.lazy c d fin, o, n)
  | _ => none

def modelOp (args : List String) : String :=
  match args with
  | ["rt", m] =>
    match parseMsg m with
    | some m => let e := encodeMsg m; hex e ++ " " ++ showDec (decodeMsg e)
    | none => "bad-op"
  | ["dec", h] =>
    match unhex h with
    | some bs => showDec (decodeMsg bs)
    | none => "bad-op"
  | ["listen", ns, h] =>
    match parseNames ns, unhex h with
    | some ns, some input =>
      let (r, out, n) := C15.listenRun ns input
      showNRes r ++ " out:" ++ hex out ++ " consumed:" ++ toString n
    | _, _ => "bad-op"
  | ["dial", v, ns, h] =>
    match parseNames ns, unhex h with
    | some ns, some input =>
      let (o, out, n) := C15.dialRun (v == "lazy") ns input
      showObs o ++ " out:" ++ hex out ++ " consumed:" ++ toString n
    | _, _ => "bad-op"
  | _ => "bad-op"

def specOp (args outs : List String) : String :=
  match args with
  | ["rt", m] =>
    match parseMsg m, outs with
    | some m, h :: res =>
      match unhex h, parseDec res with
      | some enc, some r => C15.specRt m enc r
      | _, _ => "FAIL:unparsable"
    | _, _ => "FAIL:unparsable"
  | ["dec", _] =>
    match parseDec outs with
    | some r => C15.specDec r
    | none => "FAIL:unparsable"
  | ["listen", ns, h] =>
    match parseNames ns, unhex h, parseObsLine outs with
    | some ns, some input, some (.res r, out, _) => C15.specListenRes ns input r out
    | _, _, _ => "FAIL:unparsable"
  | ["dial", _, ns, h] =>
    match parseNames ns, unhex h, parseObsLine outs with
    | some ns, some input, some (o, out, n) => C15.specDialRes ns input o out n
    | _, _, _ => "FAIL:unparsable"
  | _ => "FAIL:unparsable"

def machine : Machine Unit Unit where
  init _ := ()
  specInit _ := ()
  op _ args := ((), modelOp args)
  spec _ args outs := ((), specOp args outs)

end Driver.C15

def main : IO Unit := Driver.C15.machine.run
