import Libp2pModel.Model.SwarmDrv

def main : IO Unit := (Swarm.Drv.machine "C04:").run
