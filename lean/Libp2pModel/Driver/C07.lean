import Libp2pModel.Common.Drv
import Libp2pModel.Model.C07
import Libp2pModel.Model.C07_Spec
namespace Driver.C07
open Drv
open _root_.C07

def natOrX (s : String) : Option (Option Nat) :=
  if s == "x" then some none else s.toNat?.map some

def kv (key : String) (t : String) : Option String :=
  if t.startsWith (key ++ "=") then some ((t.drop (key.length + 1)).toString) else none

def parseECmd (t : String) : Option (ECmd × Spec.PCmd) :=
  match t.splitOn ":" with
  | ["one", c] => c.toNat?.map fun c => (.one c, .one c)
  | ["any", p, ch] =>
    match p.toNat?, natOrX ch with
    | some p, some ch => some (.any p ch, .any p)
    | _, _ => none
  | ["cone", c] => c.toNat?.map fun c => (.closeOne c, .cone c)
  | ["call", p] => p.toNat?.map fun p => (.closeAll p, .call p)
  | ["gen"] => some (.gen, .gen)
  | _ => none

def parseOp : List String → Option (Op × Spec.POp)
  | ["connect", p] => p.toNat?.map fun p => (.connect p, .connect p)
  | ["dial", p] => p.toNat?.map fun p => (.dial p, .connect p)
  | ["resolve", c, p] =>
    match c.toNat?, p.toNat? with
    | some c, some p => some (.resolve c p, .other)
    | _, _ => none
  | ["incoming"] => some (.incoming, .other)
  | ["close", c] => c.toNat?.map fun c => (.close c, .close c)
  | ["disconnect", p] => p.toNat?.map fun p => (.disconnect p, .disconnect p)
  | ["rclose", c] => c.toNat?.map fun c => (.rclose c, .rclose c)
  | ["poll", pk] =>
    match (kv "pick" pk).bind natOrX with
    | some pick => some (.poll pick, .poll)
    | none => none
  | "emit" :: cmds =>
    (cmds.mapM parseECmd).map fun l => (.emit (l.map (·.1)), .emit (l.map (·.2)))
  | _ => none

def showRet : Ret → String
  | .pending => "pending"
  | .gen => "gen"
  | .closed c => s!"closed:{c}"
  | .est c p => s!"est:{c}:{p}"
  | .fail c => s!"fail:{c}"
  | .incoming c => s!"inc:{c}"

def showPairs (l : List (Nat × Nat)) : String :=
  if l.isEmpty then "-" else ",".intercalate (l.map fun (c, n) => s!"{c}:{n}")

def showOut (op : Op) : Out → String
  | .id c => s!"id={c}"
  | .res b =>
    match op with
    | .disconnect _ => if b then "res=ok" else "res=err"
    | _ => if b then "res=true" else "res=false"
  | .unit => "res=-"
  | .n k => s!"n={k}"
  | .poll ret deliv drops ne em bad =>
    s!"ret={showRet ret} deliv={showPairs deliv} drops={showNatList drops} ne={ne} em={showNatList em}" ++
      (if bad then " bad-oracle" else "")

def parseRet (s : String) : Option Spec.PRet :=
  match s.splitOn ":" with
  | ["pending"] => some .pending
  | ["gen"] => some .gen
  | ["closed", c] => c.toNat?.map .closed
  | ["est", c, p] =>
    match c.toNat?, p.toNat? with
    | some c, some p => some (.est c p)
    | _, _ => none
  | ["fail", c] => c.toNat?.map .fail
  | ["inc", c] => c.toNat?.map .incoming
  | _ => none

def parsePairs (s : String) : Option (List (Nat × Nat)) :=
  if s == "-" then some [] else
  (s.splitOn ",").mapM fun t =>
    match t.splitOn ":" with
    | [c, n] =>
      match c.toNat?, n.toNat? with
      | some c, some n => some (c, n)
      | _, _ => none
    | _ => none

def cfgBuf (cfg : List String) : Nat :=
  ((cfg.filterMap (kv "buf")).head?.bind String.toNat?).getD 1

def machine : Machine State Spec.Mon where
  init cfg := State.init (cfgBuf cfg)
  specInit _ := {}
  op s args :=
    match parseOp args with
    | some (op, _) => let (s', out) := step s op; (s', showOut op out)
    | none => (s, "bad-op")
  spec m args outs :=
    match parseOp args with
    | none => (m, "FAIL:unparsable_op")
    | some (_, pop) =>
      let m := m.op pop
      match pop, outs with
      | .poll, [r, d, x, _ne, e] =>
        match (kv "ret" r).bind parseRet, (kv "deliv" d).bind parsePairs, (kv "drops" x).bind natList,
              (kv "em" e).bind natList with
        | some ret, some deliv, some drops, some em => m.poll ret deliv drops em
        | _, _, _, _ => (m, "FAIL:unparsable_impl")
      | .poll, _ => (m, "FAIL:unparsable_impl")
      | _, ("panic" :: _) => (m, "FAIL:panic")
      | _, _ => (m, "ok")

end Driver.C07

def main : IO Unit := Driver.C07.machine.run
