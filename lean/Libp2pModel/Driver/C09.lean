import Libp2pModel.Model.C09
namespace Driver.C09
open Drv

def showOut (r : List (Nat × Maddr)) : String :=
  showNatList (r.map (·.1)) ++ " " ++ Maddr.renderList (r.map (·.2))

def parseOut : List String → Option (List (Nat × Maddr))
  | [ds, as] =>
    match natList ds, Maddr.parseList as with
    | some d, some a => if d.length == a.length then some (d.zip a) else none
    | _, _ => none
  | _ => none

def machine : Machine Unit Unit where
  init _ := ()
  specInit _ := ()
  op _ args :=
    match args with
    | ["rank", l] =>
      match Maddr.parseList l with
      | some ds => ((), showOut (C09.rank ds))
      | none => ((), "bad-op")
    | _ => ((), "bad-op")
  spec _ args outs :=
    match args with
    | ["rank", l] =>
      match Maddr.parseList l, parseOut outs with
      | some ds, some r =>
        let k := C09.specKey ds r
        ((), if k == "" then "ok" else "FAIL:" ++ k)
      | _, _ => ((), "FAIL:unparsable")
    | _ => ((), "FAIL:unparsable")

end Driver.C09

def main : IO Unit := Driver.C09.machine.run
