import Libp2pModel.Model.C54
import Libp2pModel.Common.Drv
namespace Driver.C54
open Drv _root_.C54

/-! token formats
cfg:  `pc=<n> rc=<n> rm=<0|1>`
ops:  `add p a` `rm p a` `ext p a` `conn p remote <failed list> <dialer 0|1>`
      `dfail <peer|-> W <obtained> <addr>` / `dfail <peer|-> T <list>` / `dfail <peer|-> O <kind>`
      `other <kind>` `ic p d` `tc p` `gcm p` `gc p` `addrs p` `poll`
impl: `<ret> <dump>`; ret = `b0|b1|u|d-|d<n>|l~|l<list>|epending|eA:p:a:perm|eR:p:a`
      dump = `~` or `;`-joined `p:<addr list>:<custom|->`
-/

def parseCfg (ts : List String) : Cfg :=
  let get (k : String) (d : Nat) : Nat :=
    match ts.filterMap (fun t => if t.startsWith k then (t.drop k.length).toNat? else none) with
    | n :: _ => n
    | [] => d
  ⟨get "pc=" 1, get "rc=" 1, get "rm=" 1 == 1⟩

def parseOp : List String → Option Op
  | ["add", p, a] => do pure (.add (← p.toNat?) (← a.toNat?))
  | ["rm", p, a] => do pure (.remove (← p.toNat?) (← a.toNat?))
  | ["ext", p, a] => do pure (.newExt (← p.toNat?) (← a.toNat?))
  | ["conn", p, r, f, d] => do pure (.connEst (← p.toNat?) (← r.toNat?) (← natList f) (d == "1"))
  | ["dfail", p, "W", o, a] => do
    let peer ← if p == "-" then some none else p.toNat?.map some
    pure (.dialFail peer (.wrongPeer (← o.toNat?) (← a.toNat?)))
  | ["dfail", p, "T", l] => do
    let peer ← if p == "-" then some none else p.toNat?.map some
    pure (.dialFail peer (.transport (← natList l)))
  | ["dfail", p, "O", _] => do
    let peer ← if p == "-" then some none else p.toNat?.map some
    pure (.dialFail peer .other)
  | ["other", _] => some .otherSwarm
  | ["ic", p, d] => do pure (.insertCustom (← p.toNat?) (← d.toNat?))
  | ["tc", p] => do pure (.takeCustom (← p.toNat?))
  | ["gcm", p] => do pure (.getCustomMut (← p.toNat?))
  | ["gc", p] => do pure (.getCustom (← p.toNat?))
  | ["addrs", p] => do pure (.addrsOf (← p.toNat?))
  | ["poll"] => some .poll
  | _ => none

def showEvent : Event → String
  | .added p a perm => s!"A:{p}:{a}:{if perm then 1 else 0}"
  | .removed p a => s!"R:{p}:{a}"

def showOut : Out → String
  | .bool b => if b then "b1" else "b0"
  | .unit => "u"
  | .data none => "d-"
  | .data (some d) => s!"d{d}"
  | .addrs none => "l~"
  | .addrs (some l) => "l" ++ showNatList l
  | .event none => "epending"
  | .event (some e) => "e" ++ showEvent e

def showDump (d : Dump) : String :=
  if d.isEmpty then "~" else
  ";".intercalate (d.map fun e =>
    s!"{e.1}:{showNatList e.2.1}:{match e.2.2 with | none => "-" | some c => toString c}")

def parseEvent (s : String) : Option Event :=
  match s.splitOn ":" with
  | ["A", p, a, f] => do pure (.added (← p.toNat?) (← a.toNat?) (f == "1"))
  | ["R", p, a] => do pure (.removed (← p.toNat?) (← a.toNat?))
  | _ => none

def parseOut (s : String) : Option Out :=
  if s == "b0" then some (.bool false)
  else if s == "b1" then some (.bool true)
  else if s == "u" then some .unit
  else if s == "d-" then some (.data none)
  else if s == "l~" then some (.addrs none)
  else if s == "epending" then some (.event none)
  else if s.startsWith "d" then (s.drop 1).toNat?.map fun n => .data (some n)
  else if s.startsWith "l" then (natList (s.drop 1).toString).map fun l => .addrs (some l)
  else if s.startsWith "e" then (parseEvent (s.drop 1).toString).map fun e => .event (some e)
  else none

def parseDump (s : String) : Option Dump :=
  if s == "~" then some [] else
  (s.splitOn ";").mapM fun e =>
    match e.splitOn ":" with
    | [p, l, c] => do
      let c ← if c == "-" then some none else c.toNat?.map some
      pure (← p.toNat?, ← natList l, c)
    | _ => none

def machine : Machine State Mon where
  init cfg := C54.init (parseCfg cfg)
  specInit cfg := Mon.init (parseCfg cfg)
  op s args :=
    match parseOp args with
    | some op =>
      let r := C54.step s op
      (r.1, showOut r.2 ++ " " ++ showDump (dump r.1))
    | none => (s, "bad-op")
  spec t args outs :=
    match parseOp args, outs with
    | some op, [r, d] =>
      match parseOut r, parseDump d with
      | some r, some d => C54.spec t op r d
      | _, _ => (t, "FAIL:unparsable")
    | _, _ => (t, "FAIL:unparsable")

end Driver.C54

def main : IO Unit := Driver.C54.machine.run
