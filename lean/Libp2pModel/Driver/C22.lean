import Libp2pModel.Model.C22
namespace Driver.C22
open Drv _root_.C22

/-- the scripted inner transport: `ok` / `unsup` (returns `MultiaddrNotSupported(addr)` with the
address it received) / `other` -/
def innerOf (s : String) : Option (Maddr → Opts → Res) :=
  match s with
  | "ok" => some fun _ _ => .ok
  | "unsup" => some fun a _ => .notSupported a
  | "other" => some fun _ _ => .other
  | _ => none

def parseOpts (r p : String) : Option Opts :=
  match r, p with
  | "d", "n" => some ⟨false, false⟩
  | "d", "r" => some ⟨false, true⟩
  | "l", "n" => some ⟨true, false⟩
  | "l", "r" => some ⟨true, true⟩
  | _, _ => none

def showOpts (o : Opts) : String :=
  (if o.listener then "l" else "d") ++ "," ++ (if o.reuse then "r" else "n")

def showRes : Res → String
  | .notSupported a => "notsupported=" ++ Maddr.render a
  | .ok => "ok"
  | .other => "other"

def showCalls (l : List (Maddr × Opts)) : String :=
  if l.isEmpty then "~" else ";".intercalate (l.map fun (a, o) => Maddr.render a ++ "," ++ showOpts o)

def parseRes (s : String) : Option Res :=
  if s = "ok" then some .ok
  else if s = "other" then some .other
  else match s.splitOn "=" with
    | ["notsupported", a] => (Maddr.parse a).map .notSupported
    | _ => none

def parseCall (s : String) : Option (Maddr × Opts) :=
  match s.splitOn "," with
  | [a, r, p] => match Maddr.parse a, parseOpts r p with
    | some a, some o => some (a, o)
    | _, _ => none
  | _ => none

def parseCalls (s : String) : Option (List (Maddr × Opts)) :=
  if s = "~" then some [] else (s.splitOn ";").mapM parseCall

def showIntervals (l : List (Nat × Nat)) : String :=
  if l.isEmpty then "-" else ",".intercalate (l.map fun (x, y) => s!"{x}-{y}")

def parseInterval (s : String) : Option (Nat × Nat) :=
  match s.splitOn "-" with
  | [x, y] => match x.toNat?, y.toNat? with
    | some x, some y => some (x, y)
    | _, _ => none
  | _ => none

def parseIntervals (s : String) : Option (List (Nat × Nat)) :=
  if s = "-" then some [] else (s.splitOn ",").mapM parseInterval

def showSweep (l : List (Nat × Nat)) : String :=
  unwords [s!"runs:{l.length}", showIntervals l, "anom=0"]

def outcomeTag (o : Outcome) : String := if o.calls.isEmpty then "refused" else "passed"

def machine : Machine Unit Unit where
  init _ := ()
  specInit _ := ()
  op _ args :=
    match args with
    | ["dial", a, r, p, i] =>
      match Maddr.parse a, parseOpts r p, innerOf i with
      | some a, some o, some inner =>
        let out := dial inner a o
        ((), unwords [classOf a ++ ":" ++ outcomeTag out, showRes out.res, showCalls out.calls])
      | _, _, _ => ((), "bad-op")
    | ["sweep4", lo, hi] =>
      match lo.toNat?, hi.toNat? with
      | some lo, some hi => ((), showSweep (sweep4 lo hi))
      | _, _ => ((), "bad-op")
    | ["sweep6", lo, hi] =>
      match lo.toNat?, hi.toNat? with
      | some lo, some hi => ((), showSweep (sweep6 lo hi))
      | _, _ => ((), "bad-op")
    | _ => ((), "bad-op")
  spec _ args outs :=
    match args, outs with
    | ["dial", a, r, p, i], [_cls, res, calls] =>
      match Maddr.parse a, parseOpts r p, innerOf i, parseRes res, parseCalls calls with
      | some a, some o, some inner, some res, some calls =>
        ((), if _root_.C22.spec inner a o ⟨res, calls⟩ then "ok"
             else match _root_.C22.demand a with
               | some true => "FAIL:nonglobal_not_refused"
               | some false => "FAIL:global_not_passed_unchanged"
               | none => "FAIL:neither_refused_nor_passed")
      | _, _, _, _, _ => ((), "FAIL:unparsable")
    | ["sweep4", lo, hi], [_n, ivs, anom] =>
      match lo.toNat?, hi.toNat?, parseIntervals ivs with
      | some lo, some hi, some obs =>
        ((), if anom != "anom=0" then "FAIL:passed_address_or_options_changed"
             else if specSweep 32 lo hi obs then "ok" else "FAIL:sweep4_registry_mismatch")
      | _, _, _ => ((), "FAIL:unparsable")
    | ["sweep6", lo, hi], [_n, ivs, anom] =>
      match lo.toNat?, hi.toNat?, parseIntervals ivs with
      | some lo, some hi, some obs =>
        ((), if anom != "anom=0" then "FAIL:passed_address_or_options_changed"
             else if specSweep 128 lo hi obs then "ok" else "FAIL:sweep6_registry_mismatch")
      | _, _, _ => ((), "FAIL:unparsable")
    | _, _ => ((), "FAIL:unparsable")

end Driver.C22

def main : IO Unit := Driver.C22.machine.run
