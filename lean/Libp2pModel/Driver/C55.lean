import Libp2pModel.Model.C55
namespace Driver.C55
open Drv _root_.C55

def showTxt : Except TxtErr Bytes → String
  | .ok r => "ok " ++ hex r
  | .error .tooLong => "err TxtRecordTooLong"
  | .error .nonAscii => "err NonAsciiMultiaddr"

def showDecode : DecodeRes → String
  | .ok b => "ok " ++ hex b
  | .err => "err"
  | .panic => "panic"

def showParse : ParseRes → String
  | .outOfShape => "-"
  | .panic => "panic"
  | .resp peers =>
    "resp" ++ String.join (peers.map fun p => s!"&{hex p.id},{p.ttl},{Maddr.renderList p.addrs}")

def parseOptMaddr (s : String) : Option (Option Maddr) :=
  if s = "x" then some none else (Maddr.parse s).map some

/-- oracle table `k=v,k=v` (`-` = empty) -/
def parseTable (s : String) : Option (List (Bytes × Option Maddr)) :=
  if s = "-" then some [] else
  (s.splitOn ",").mapM fun e =>
    match e.splitOn "=" with
    | [k, v] => match unhex k, parseOptMaddr v with
      | some k, some v => some (k, v)
      | _, _ => none
    | _ => none

def mkOracle (table : List (Bytes × Option Maddr)) (t : Bytes) : Option Maddr :=
  match table.lookup t with
  | some r => r
  | none => none

/-- model prediction of the parse of one packet, refusing to predict when the oracle table lacks a text -/
def predictParse (table : List (Bytes × Option Maddr)) (buf : Bytes) : String :=
  if (candidateTexts buf).all (fun t => (table.lookup t).isSome) then
    showParse (parsePacket (mkOracle table) buf)
  else "oracle-missing"

structure Entry where
  addr : Maddr
  text : Bytes
  parsed : Option Maddr

def parseEntry (s : String) : Option Entry :=
  match s.splitOn "|" with
  | [a, t, p, _] => match Maddr.parse a, unhex t, parseOptMaddr p with
    | some a, some t, some p => some ⟨a, t, p⟩
    | _, _, _ => none
  | _ => none

structure BuildOp where
  id : Nat
  secs : Nat
  nanos : Nat
  peer : Bytes
  b58 : Bytes
  name : Bytes
  entries : List Entry

def parseBuildOp : List String → Option BuildOp
  | "build" :: id :: secs :: nanos :: peer :: b58 :: name :: es =>
    match id.toNat?, secs.toNat?, nanos.toNat?, unhex peer, unhex b58, unhex name, es.mapM parseEntry with
    | some id, some secs, some nanos, some peer, some b58, some name, some es =>
      some ⟨id, secs, nanos, peer, b58, name, es⟩
    | _, _, _, _, _, _, _ => none
  | _ => none

def BuildOp.table (o : BuildOp) : List (Bytes × Option Maddr) :=
  o.entries.map fun e => (e.text ++ P2P ++ o.b58, e.parsed)

/-- `generate_peer_name`: 32..63 alphanumeric characters -/
def validName (nm : Bytes) : Bool := nm.all isAlnum && decide (32 ≤ nm.length) && decide (nm.length ≤ 63)

/-- the text round trip of the multiaddr crate (hypothesis of `C55.roundtrip`) holds for every fitting address -/
def BuildOp.hypOk (o : BuildOp) : Bool :=
  (o.entries.take 65535).all fun e =>
    !(fits (txtValue e.text o.b58)) || e.parsed == some (e.addr ++ [Proto.p2p o.peer])

/-- parsed-token of the implementation → `ParseRes` (`outOfShape` stands for err/ignored/query/sd) -/
def parseImplParsed (s : String) : Option ParseRes :=
  if s.startsWith "panic" then some .panic
  else match s.splitOn "&" with
    | "resp" :: ps =>
      (ps.mapM fun (p : String) =>
        match p.splitOn "," with
        | [id, ttl, addrs] => match unhex id, ttl.toNat?, Maddr.parseList addrs with
          | some id, some ttl, some addrs => some (⟨id, ttl, addrs⟩ : Peer)
          | _, _, _ => none
        | _ => none).map .resp
    | _ => if s = "err" ∨ s = "ignored" ∨ s.startsWith "query:" ∨ s.startsWith "sd:" then some .outOfShape else none

def pairs : List String → Option (List (String × String))
  | [] => some []
  | a :: b :: r => (pairs r).map ((a, b) :: ·)
  | _ => none

def specBuild (o : BuildOp) (outs : List String) : String :=
  match outs with
  | "pk" :: rest =>
    match pairs rest with
    | none => "FAIL:unparsable"
    | some ps =>
      match ps.mapM (fun p => unhex p.1), ps.mapM (fun p => parseImplParsed p.2) with
      | some pkts, some decoded =>
        if decoded.any (· == .panic) then "FAIL:parse_panic"
        else if !specSize pkts then "FAIL:size"
        else if !specWf pkts then "FAIL:txt_malformed"
        else if !o.hypOk then "ok"
        else
          let expected := expectedAddrs o.b58 (o.entries.map fun e => (e.addr, e.text))
          if !specDecoded o.peer expected decoded then "FAIL:roundtrip" else "ok"
      | _, _ => "FAIL:unparsable"
  | "panic" :: _ => "FAIL:build_panic"
  | _ => "FAIL:unparsable"

def machine : Machine Unit Unit where
  init _ := ()
  specInit _ := ()
  op _ args :=
    ((), match args with
    | ["consts"] =>
      s!"consts {MAX_TXT_VALUE_LENGTH} {MAX_TXT_RECORD_SIZE} {MAX_PACKET_SIZE} {MAX_RECORDS_PER_PACKET}"
    | ["secs", s, n] =>
      match s.toNat?, n.toNat? with
      | some s, some n => s!"secs {durationToSecs s n}"
      | _, _ => "bad-op"
    | ["txt", name, ttl, value] =>
      match unhex name, ttl.toNat?, unhex value with
      | some name, some ttl, some value => showTxt (appendTxtRecord name ttl value)
      | _, _, _ => "bad-op"
    | ["decode", b] =>
      match unhex b with
      | some b => showDecode (decodeCharacterString b)
      | none => "bad-op"
    | ["parse", b, t] =>
      match unhex b, parseTable t with
      | some b, some t => predictParse t b
      | _, _ => "bad-op"
    | "build" :: _ =>
      match parseBuildOp args with
      | none => "bad-op"
      | some o =>
        if !validName o.name then "bad-oracle"
        else match buildQueryResponse o.id o.b58 (o.entries.map (·.text)) o.secs o.nanos o.name with
          | none => "panic"
          | some pkts => "pk" ++ String.join (pkts.map fun p => s!" {hex p} {predictParse o.table p}")
    | _ => "bad-op")
  spec _ args outs :=
    ((), match args with
    | ["consts"] =>
      match outs with
      | ["consts", v, _, _, k] =>
        match v.toNat?, k.toNat? with
        -- header (≤ 104 bytes) + k records of at most 65 + 10 + 1 + v bytes
        | some v, some k => if 104 + k * (76 + v) ≤ 9000 then "ok" else "FAIL:size_consts"
        | _, _ => "FAIL:unparsable"
      | _ => "FAIL:unparsable"
    | ["secs", _, _] =>
      match outs with
      | ["secs", v] =>
        match v.toNat? with
        | some v => if v < 4294967296 then "ok" else "FAIL:secs"
        | none => "FAIL:unparsable"
      | _ => "FAIL:panic"
    | ["txt", name, _, _] =>
      match outs with
      | ["ok", r] =>
        match unhex name, unhex r with
        | some name, some r =>
          if wellFormedRdata (r.drop (name.length + 10)) && decide (name.length + 10 < r.length) then "ok"
          else "FAIL:txt_malformed"
        | _, _ => "FAIL:unparsable"
      | ["err", _] => "ok"
      | _ => "FAIL:panic"
    | ["decode", _] =>
      match outs with
      | "panic" :: _ => "FAIL:parse_panic"
      | _ => "ok"
    | ["parse", _, _] =>
      match outs with
      | [r] => if r.startsWith "panic" then "FAIL:parse_panic" else "ok"
      | _ => "FAIL:unparsable"
    | "build" :: _ =>
      match parseBuildOp args with
      | none => "FAIL:unparsable"
      | some o => specBuild o outs
    | _ => "FAIL:unparsable")

end Driver.C55

def main : IO Unit := Driver.C55.machine.run
