import Libp2pModel.Common.Drv
import Libp2pModel.Model.C28Node
/-!
Line protocol shared by C28 and C29 (harness `h_gs_c/src/gsops.rs`):

```
case <idx> <class> nt=<0|1> mesh_n= mesh_low= mesh_high= out_min= prune_bo= unsub_bo= scoring= opp_ticks=
     opp_peers= opp_thr= hb= slack=
op <now> <p:score,…|-> connect <p> <c> <o|i> | kind <p> <g|f> | disconnect <p> <c> | explicit <p> | score <p> <x>
   | subs <p> <+t,-t> | graft <p> <t,t> | prune <p> <t:secs,t:-> | subscribe <t> <final mesh list>
   | unsubscribe <t> | publish <t> <x|~|p.p> | hb <meshmap> <fanmap>
impl <ok|bad-oracle> mesh=<map> fan=<map> n=<p@c:JL;…> rpc=<p:G0.P1b60;…> peers=<p g|f o|i:c.c:t.t;…> ex=<list>
     bo=<t.p,…> bn=<t.p,…>
```
-/
namespace Driver.C28Node
open Drv
open _root_.C28

def cfgVal (cfg : List String) (key : String) (dflt : Nat) : Nat :=
  match cfg.findSome? (fun tok => match tok.splitOn "=" with
      | [k, v] => if k == key then v.toNat? else none
      | _ => none) with
  | some v => v
  | none => dflt

def initState (cfg : List String) : State :=
  init { meshN := cfgVal cfg "mesh_n" 6, meshLow := cfgVal cfg "mesh_low" 5, meshHigh := cfgVal cfg "mesh_high" 12,
         outMin := cfgVal cfg "out_min" 2, pruneBackoff := cfgVal cfg "prune_bo" 60, unsubBackoff := cfgVal cfg "unsub_bo" 10,
         scoring := cfgVal cfg "scoring" 0 == 1, oppTicks := cfgVal cfg "opp_ticks" 60, oppPeers := cfgVal cfg "opp_peers" 2,
         oppThr2 := 2 * (cfgVal cfg "opp_thr" 5 : Nat) }
    (cfgVal cfg "hb" 1000000000) (cfgVal cfg "slack" 1)

def sortN (l : List Nat) : List Nat := l.mergeSort (fun a b => a ≤ b)

def showList (sep empty : String) (l : List Nat) : String :=
  if l.isEmpty then empty else sep.intercalate ((sortN l).map toString)

def parseSepNat (sep empty : String) (s : String) : Option (List Nat) :=
  if s == empty then some [] else (s.splitOn sep).mapM String.toNat?

def showMap (f : Nat → Option (List Nat)) : String :=
  let es := topicUniverse.filterMap (fun t => (f t).map (fun l => toString t ++ "=" ++ showList "." "~" l))
  if es.isEmpty then "-" else ";".intercalate es

def parseMap (s : String) : Option (List (Nat × List Nat)) :=
  if s == "-" then some []
  else (s.splitOn ";").mapM (fun e => match e.splitOn "=" with
    | [t, l] => match t.toNat?, parseSepNat "." "~" l with
      | some t, some l => some (t, l)
      | _, _ => none
    | _ => none)

def mapOf (l : List (Nat × List Nat)) : Nat → Option (List Nat) :=
  fun t => (l.find? (fun e => e.1 == t)).map (·.2)

def parseInt (s : String) : Option Int :=
  match s.toList with
  | '-' :: r => (String.ofList r).toNat?.map (fun n => - (n : Int))
  | _ => s.toNat?.map (fun n => (n : Int))

def parseScores (s : String) : Option (Nat → Int) :=
  if s == "-" then some (fun _ => 0)
  else ((s.splitOn ",").mapM (fun (e : String) => match e.splitOn ":" with
      | [p, x] => match p.toNat?, parseInt x with
        | some p, some x => some ((p, x) : Nat × Int)
        | _, _ => none
      | _ => none)).map (fun (l : List (Nat × Int)) => fun p => ((l.find? (fun (e : Nat × Int) => e.1 == p)).map (fun (e : Nat × Int) => e.2)).getD 0)

def parseSubs (s : String) : Option (List (Bool × Nat)) :=
  if s == "-" then some []
  else (s.splitOn ",").mapM (fun e =>
    match e.toList with
    | '+' :: r => (String.ofList r).toNat?.map (fun t => (true, t))
    | '-' :: r => (String.ofList r).toNat?.map (fun t => (false, t))
    | _ => none)

def parsePrunes (s : String) : Option (List (Nat × Option Nat)) :=
  if s == "-" then some []
  else (s.splitOn ",").mapM (fun e => match e.splitOn ":" with
    | [t, b] => match t.toNat? with
      | some t => if b == "-" then some (t, none) else b.toNat?.map (fun b => (t, some b))
      | none => none
    | _ => none)

def parseFanEntry (s : String) : Option (Option (List Nat)) :=
  if s == "x" then some none else (parseSepNat "." "~" s).map some

def parseOp (args : List String) : Option Op :=
  match args with
  | ["connect", p, c, d] => match p.toNat?, c.toNat? with
    | some p, some c => some (.connect p c (d == "o"))
    | _, _ => none
  | ["kind", p, k] => p.toNat?.map (fun p => .kind p (k == "g"))
  | ["disconnect", p, c] => match p.toNat?, c.toNat? with
    | some p, some c => some (.disconnect p c)
    | _, _ => none
  | ["explicit", p] => p.toNat?.map .explicit
  | ["score", _, _] => some .nop
  | ["subs", p, l] => match p.toNat?, parseSubs l with
    | some p, some l => some (.subs p l)
    | _, _ => none
  | ["graft", p, l] => match p.toNat?, parseSepNat "," "-" l with
    | some p, some l => some (.graft p l)
    | _, _ => none
  | ["prune", p, l] => match p.toNat?, parsePrunes l with
    | some p, some l => some (.prune p l)
    | _, _ => none
  | ["subscribe", t, fin] => match t.toNat?, parseSepNat "," "-" fin with
    | some t, some fin => some (.subscribe t fin)
    | _, _ => none
  | ["unsubscribe", t] => t.toNat?.map .unsubscribe
  | ["publish", t, f] => match t.toNat?, parseFanEntry f with
    | some t, some f => some (.publish t f)
    | _, _ => none
  | ["hb", m, f] => match parseMap m, parseMap f with
    | some m, some f => some (.heartbeat (fun t => ((mapOf m) t).getD []) (mapOf f))
    | _, _ => none
  | _ => none

def parseTOp (args : List String) : Option TOp :=
  match args with
  | now :: sc :: rest => match now.toNat?, parseScores sc, parseOp rest with
    | some now, some sc, some op => some { now := now, sc := sc, op := op }
    | _, _, _ => none
  | _ => none

/-! ### rendering -/

def groupNotifs (ns : List Notif) : List (Nat × Nat × String) :=
  ns.foldl (fun acc n =>
    let l := if n.2.2 then "J" else "L"
    match acc.find? (fun e => e.1 == n.1 && e.2.1 == n.2.1) with
    | some _ => acc.map (fun e => if e.1 == n.1 && e.2.1 == n.2.1 then (e.1, e.2.1, e.2.2 ++ l) else e)
    | none => acc ++ [(n.1, n.2.1, l)]) []

def showNotifs (ns : List Notif) : String :=
  let g := (groupNotifs ns).mergeSort (fun a b => a.1 < b.1 || (a.1 == b.1 && a.2.1 ≤ b.2.1))
  if g.isEmpty then "-" else ";".intercalate (g.map (fun e => toString e.1 ++ "@" ++ toString e.2.1 ++ ":" ++ e.2.2))

def rpcKey (r : Rpc) : Nat := r.2.1 * 1000000 + (match r.2.2 with | none => 0 | some b => b + 1)

def showRpc (r : Rpc) : String :=
  match r.2.2 with
  | none => "G" ++ toString r.2.1
  | some b => "P" ++ toString r.2.1 ++ "b" ++ toString b

def showRpcs (rs : List Rpc) : String :=
  let ps := sortN ((rs.map (·.1)).eraseDups)
  let es := ps.map (fun p =>
    let mine := (rs.filter (fun r => r.1 == p)).mergeSort (fun a b => rpcKey a ≤ rpcKey b)
    toString p ++ ":" ++ ".".intercalate (mine.map showRpc))
  if es.isEmpty then "-" else ";".intercalate es

def showPeers (s : State) : String :=
  let es := peerUniverse.filterMap (fun p => (s.peers p).map (fun pd =>
    toString p ++ (if pd.gossip then "g" else "f") ++ (if pd.outbound then "o" else "i") ++ ":"
      ++ (if pd.conns.isEmpty then "~" else ".".intercalate (pd.conns.map toString)) ++ ":" ++ showList "." "~" pd.topics))
  if es.isEmpty then "-" else ";".intercalate es

def showPairs (f : Nat → Nat → Bool) : String :=
  let es := topicUniverse.flatMap (fun t => (peerUniverse.filter (fun p => f t p)).map (fun p => toString t ++ "." ++ toString p))
  if es.isEmpty then "-" else ",".intercalate es

def render (s : State) (now : Nat) (o : Out) : String :=
  (if o.bad then "bad-oracle" else "ok") ++ " mesh=" ++ showMap s.mesh ++ " fan=" ++ showMap s.fanout
    ++ " n=" ++ showNotifs o.notifs ++ " rpc=" ++ showRpcs o.rpcs ++ " peers=" ++ showPeers s
    ++ " ex=" ++ showList "," "-" s.explicit
    ++ " bo=" ++ showPairs (fun t p => backedOffSlack s t p) ++ " bn=" ++ showPairs (fun t p => backedOffNow s t p now)

def opLine (fx : Fixes) (s : State) (args : List String) : State × String :=
  match parseTOp args with
  | some o => let r := stepG fx s o; (r.1, render r.1 o.now r.2)
  | none => (s, "bad-op")

/-! ### parsing the implementation's line (for the Spec monitors) -/

def stripKey (key : String) (tok : String) : Option String :=
  match tok.splitOn "=" with
  | k :: rest => if k == key then some ("=".intercalate rest) else none
  | _ => none

def parseNotifs (s : String) : Option (List Notif) :=
  if s == "-" then some []
  else ((s.splitOn ";").mapM (fun (e : String) => match e.splitOn ":" with
    | [pc, letters] => match pc.splitOn "@" with
      | [p, c] => match p.toNat?, c.toNat? with
        | some p, some c => some (letters.toList.map (fun ch => ((p, c, ch == 'J') : Notif)))
        | _, _ => none
      | _ => none
    | _ => none)).map List.flatten

structure ImplPeer where
  id : Nat
  gossip : Bool
  outbound : Bool
  conns : List Nat
  topics : List Nat

def parsePeers (s : String) : Option (List ImplPeer) :=
  if s == "-" then some []
  else (s.splitOn ";").mapM (fun e => match e.splitOn ":" with
    | [hd, cs, ts] =>
      let chars := hd.toList
      let digits := chars.takeWhile Char.isDigit
      let flags := chars.dropWhile Char.isDigit
      match (String.ofList digits).toNat?, parseSepNat "." "~" cs, parseSepNat "." "~" ts with
      | some p, some cs, some ts =>
        some { id := p, gossip := flags.head? == some 'g', outbound := flags.getLast? == some 'o', conns := cs, topics := ts }
      | _, _, _ => none
    | _ => none)

def parseRpcs (s : String) : Option (List Rpc) :=
  if s == "-" then some []
  else ((s.splitOn ";").mapM (fun (e : String) => match e.splitOn ":" with
    | [p, l] => match p.toNat? with
      | some p => (l.splitOn ".").mapM (fun (r : String) => match r.toList with
        | 'G' :: t => (String.ofList t).toNat?.map (fun t => ((p, t, none) : Rpc))
        | 'P' :: rest => match (String.ofList rest).splitOn "b" with
          | [t, b] => match t.toNat?, b.toNat? with
            | some t, some b => some ((p, t, some b) : Rpc)
            | _, _ => none
          | _ => none
        | _ => none)
      | none => none
    | _ => none)).map List.flatten

structure Impl where
  bad : Bool
  mesh : Nat → Option (List Nat)
  fan : Nat → Option (List Nat)
  notifs : List Notif
  rpcs : List Rpc
  peers : List ImplPeer
  explicit : List Nat

def parseImpl (outs : List String) : Option Impl :=
  match outs with
  | [res, m, f, n, r, ps, ex, _bo, _bn] =>
    match (stripKey "mesh" m).bind parseMap, (stripKey "fan" f).bind parseMap, (stripKey "n" n).bind parseNotifs,
      (stripKey "rpc" r).bind parseRpcs, (stripKey "peers" ps).bind parsePeers, (stripKey "ex" ex).bind (parseSepNat "," "-") with
    | some m, some f, some n, some r, some ps, some ex =>
      some { bad := res != "ok", mesh := mapOf m, fan := mapOf f, notifs := n, rpcs := r, peers := ps, explicit := ex }
    | _, _, _, _, _, _ => none
  | _ => none

end Driver.C28Node
