import Libp2pModel.Model.C18
namespace Driver.C18
open Drv
open _root_.C18

def kvs (toks : List String) : List (String × String) :=
  toks.filterMap fun t => match t.splitOn "=" with
    | [k, v] => some (k, v)
    | _ => none

def lookup (kv : List (String × String)) (k : String) : Option String :=
  (kv.find? (·.1 == k)).map (·.2)

def parseSpki : String → Option SpkiAlg
  | "rsa" => some .rsa
  | "other" => some .other
  | "ec:missing" => some (.ec .missing)
  | "ec:notoid" => some (.ec .notOid)
  | "ec:p256" => some (.ec .p256)
  | "ec:p384" => some (.ec .p384)
  | "ec:p521" => some (.ec .p521)
  | "ec:other" => some (.ec .other)
  | _ => none

def parseSig : String → Option SigAlg
  | "sha256Rsa" => some .sha256Rsa
  | "sha384Rsa" => some .sha384Rsa
  | "sha512Rsa" => some .sha512Rsa
  | "pss:sha256" => some (.rsaPss .sha256)
  | "pss:sha384" => some (.rsaPss .sha384)
  | "pss:sha512" => some (.rsaPss .sha512)
  | "pss:other" => some (.rsaPss .other)
  | "ecdsaSha256" => some .ecdsaSha256
  | "ecdsaSha384" => some .ecdsaSha384
  | "ecdsaSha512" => some .ecdsaSha512
  | "ed25519" => some .ed25519
  | "ed448" => some .ed448
  | "other" => some .other
  | _ => none

def schemeIdx : Scheme → Nat
  | .rsaPkcs1Sha256 => 0 | .rsaPkcs1Sha384 => 1 | .rsaPkcs1Sha512 => 2
  | .rsaPssSha256 => 3 | .rsaPssSha384 => 4 | .rsaPssSha512 => 5
  | .ecdsaP256Sha256 => 6 | .ecdsaP384Sha384 => 7 | .ecdsaP521Sha512 => 8
  | .ed25519 => 9 | .ed448 => 10

def parseExt (t : String) : Option Ext :=
  match t.splitOn ":" with
  | flags :: rest =>
    match flags.toList with
    | [p, c] =>
      let isP2p := p == 'p'
      let crit := c == 'c'
      match rest with
      | ["a"] => some ⟨isP2p, crit, .asn1Bad⟩
      | ["k"] => some ⟨isP2p, crit, .keyBad⟩
      | ["g", pid, ok] => (unhex pid).map fun pid => ⟨isP2p, crit, .good pid (ok == "1")⟩
      | _ => none
    | _ => none
  | _ => none

def parseExts (s : String) : Option (List Ext) :=
  if s = "~" then some [] else (s.splitOn ";").mapM parseExt

def parseFacts (toks : List String) : Option (CertFacts × Option Bytes) := do
  let kv := kvs toks
  let orig ← lookup kv "orig"
  let orig ← if orig = "-" then some none else (unhex orig).map some
  let parseOk := (← lookup kv "parse") == "1"
  let valid := (← lookup kv "valid") == "1"
  let spki ← (lookup kv "spki").bind parseSpki
  let sig ← (lookup kv "sig").bind parseSig
  let rv := (← lookup kv "rv").toList
  let exts ← (lookup kv "exts").bind parseExts
  some (⟨parseOk, exts, valid, spki, sig, fun s => rv.getD (schemeIdx s) '0' == '1'⟩, orig)

def showErr : Err → String
  | .badDer => "BadDer"
  | .extensionValueInvalid => "ExtensionValueInvalid"
  | .unknownIssuer => "UnknownIssuer"
  | .unsupportedCriticalExtension => "UnsupportedCriticalExtension"
  | .invalidCertValidity => "InvalidCertValidity"
  | .unsupportedSignatureAlgorithm => "UnsupportedSignatureAlgorithmContext"
  | .signatureAlgorithmMismatch => "SignatureAlgorithmMismatch"

def showVerdict : Except Err Bytes → String
  | .ok pid => "ok " ++ hex pid
  | .error e => "err:" ++ showErr e

def parseVerdict : List String → Option (Except Err Bytes)
  | ["ok", pid] => (unhex pid).map .ok
  | ["err:BadDer"] => some (.error .badDer)
  | ["err:ExtensionValueInvalid"] => some (.error .extensionValueInvalid)
  | ["err:UnknownIssuer"] => some (.error .unknownIssuer)
  | ["err:UnsupportedCriticalExtension"] => some (.error .unsupportedCriticalExtension)
  | ["err:InvalidCertValidity"] => some (.error .invalidCertValidity)
  | ["err:UnsupportedSignatureAlgorithmContext"] => some (.error .unsupportedSignatureAlgorithm)
  | ["err:SignatureAlgorithmMismatch"] => some (.error .signatureAlgorithmMismatch)
  | _ => none

def machine : Machine Unit Unit where
  init _ := ()
  specInit _ := ()
  op _ args :=
    match args with
    | "cert" :: rest =>
      match parseFacts rest with
      | some (c, _) => ((), showVerdict (accept c))
      | none => ((), "bad-op")
    | _ => ((), "bad-op")
  spec _ args outs :=
    match args with
    | "cert" :: rest =>
      match parseFacts rest, parseVerdict outs with
      | some (c, orig), some v =>
        ((), if spec c orig v then "ok"
             else if spec c none v then "FAIL:peer_id_changed" else "FAIL:accepted_unacceptable")
      | _, _ => ((), "FAIL:unparsable")
    | _ => ((), "FAIL:unparsable")

end Driver.C18

def main : IO Unit := Driver.C18.machine.run
