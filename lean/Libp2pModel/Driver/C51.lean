import Libp2pModel.Common.Drv
import Libp2pModel.Model.C51
namespace Driver.C51
open Drv
open _root_.C51

def kv (key : String) (toks : List String) : Option Nat :=
  toks.findSome? fun t =>
    match t.splitOn "=" with
    | [k, v] => if k = key then v.toNat? else none
    | _ => none

def parseCfg (toks : List String) : Cfg :=
  { minTtl := (kv "min" toks).getD 7200, maxTtl := (kv "max" toks).getD 259200,
    perPeer := (kv "pp" toks).getD 32, total := (kv "tot" toks).getD 10000,
    cookieCap := (kv "cc" toks).getD 10000 }

def optNat (s : String) : Option (Option Nat) :=
  if s = "-" then some none else s.toNat?.map some

def optNs (s : String) : Option (Option Nat) :=
  if s = "*" then some none else s.toNat?.map some

def parseCookie (s : String) : Option (Option Cookie) :=
  if s = "-" then some none else
  match s.splitOn ":" with
  | [k, n] =>
    match k.toNat?, optNs n with
    | some k, some n => some (some (k, n))
    | _, _ => none
  | _ => none

def parseOp : List String → Option Op
  | ["reg", p, n, t] =>
    match p.toNat?, n.toNat?, optNat t with
    | some p, some n, some t => some (.reg p n t)
    | _, _, _ => none
  | ["unreg", p, n] =>
    match p.toNat?, n.toNat? with
    | some p, some n => some (.unreg p n)
    | _, _ => none
  | ["disc", q, ck, lim, chosen] =>
    match optNs q, parseCookie ck, optNat lim, natList chosen with
    | some q, some ck, some lim, some chosen => some (.disc q ck lim chosen)
    | _, _, _, _ => none
  | ["adv", d] => d.toNat?.map .adv
  | _ => none

def showNs : Option Nat → String
  | none => "*"
  | some n => toString n

def showEntry (e : Nat × Reg) : String :=
  s!"{e.1}:{e.2.peer}:{e.2.ns}:{e.2.ttl}"

def showEntries (l : List (Nat × Reg)) : String :=
  if l.isEmpty then "-" else ",".intercalate (l.map showEntry)

def parseEntry (s : String) : Option (Nat × Reg) :=
  match (s.splitOn ":").mapM String.toNat? with
  | some [i, p, n, t] => some (i, ⟨p, n, t⟩)
  | _ => none

def parseEntries (s : String) : Option (List (Nat × Reg)) :=
  if s = "-" then some [] else (s.splitOn ",").mapM parseEntry

def showSz (s : St) : String :=
  s!"sz={s.byPeer.length}/{s.regs.length}/{s.cookies.length}"

def showErr : Err → String
  | .invalidTtl => "InvalidTtl"
  | .unavailable => "Unavailable"

def showOut (s : St) : Out → String
  | .regOk t => s!"ok {t} {showSz s}"
  | .regErr e => s!"err {showErr e} {showSz s}"
  | .unregOk => s!"ok {showSz s}"
  | .discOk es cns => s!"ok {showEntries es} {showNs cns} {showSz s}"
  | .discMismatch => s!"err mismatch {showSz s}"
  | .discBadOracle => "bad-oracle"
  | .discPanic => "panic bad_internal_data_structure"
  | .expired es => s!"exp {showEntries es} {showSz s}"
  | .bad => "bad-op"

/-- the implementation's line, read back as an `Out` (the `sz=` token is not part of the Spec) -/
def parseOut (o : Op) (toks : List String) : Option Out :=
  match o, toks with
  | .reg .., ["ok", t, _] => t.toNat?.map .regOk
  | .reg .., ["err", "InvalidTtl", _] => some (.regErr .invalidTtl)
  | .reg .., ["err", _, _] => some (.regErr .unavailable)
  | .unreg .., ["ok", _] => some .unregOk
  | .disc .., ["ok", es, cns, _] =>
    match parseEntries es, optNs cns with
    | some es, some cns => some (.discOk es cns)
    | _, _ => none
  | .disc .., ["err", "mismatch", _] => some .discMismatch
  | .adv _, ["exp", es, _] => (parseEntries es).map .expired
  | _, _ => none

def machine : Machine (Cfg × St) (Cfg × Ref) where
  init cfg := (parseCfg cfg, St.init)
  specInit cfg := (parseCfg cfg, Ref.init)
  op st args :=
    match parseOp args with
    | some o =>
      let (s', out) := step st.1 st.2 o
      ((st.1, s'), showOut s' out)
    | none => (st, "bad-op")
  spec st args outs :=
    match parseOp args with
    | some o =>
      match parseOut o outs with
      | some out =>
        let (r', v) := specStep st.1 st.2 o out
        ((st.1, r'), v)
      | none =>
        match outs with
        | "panic" :: _ => (st, "FAIL:panic")
        | _ => (st, "FAIL:unparsable")
    | none => (st, "FAIL:unparsable")

end Driver.C51

def main : IO Unit := Driver.C51.machine.run
