import Libp2pModel.Model.C14
import Libp2pModel.Common.MssTok
namespace Driver.C14
open Drv Mss MssTok

/-! op:   `run <v1|lazy> <ds> <ls> <A hex> <B hex> <schedule seed>`
    impl: `d:<nres|none> l:<nres|none> dl:<hex> ld:<hex> drecv:<hex> dfin:<eof|nres|none> lrecv:<hex> lfin:<…>` -/

def showOpt (r : Option NRes) : String :=
  match r with
  | none => "none"
  | some r => showNRes r

def showFinO (f : Option C14.Fin) : String :=
  match f with
  | none => "none"
  | some .eof => "eof"
  | some (.err r) => showFin r

def showObs (o : C14.Obs) : String :=
  "d:" ++ showOpt o.dres ++ " l:" ++ showOpt o.lres ++ " dl:" ++ hex o.dl ++ " ld:" ++ hex o.ld ++
  " drecv:" ++ hex o.drecv ++ " dfin:" ++ showFinO o.dfin ++
  " lrecv:" ++ hex o.lrecv ++ " lfin:" ++ showFinO o.lfin

def parseOpt (s : String) : Option (Option NRes) :=
  if s = "none" then some none else (parseNRes s).map some

def parseFinO (s : String) : Option (Option C14.Fin) :=
  if s = "none" then some none
  else if s = "eof" then some (some .eof)
  else (parseNRes s).map (fun r => some (.err r))

def parseObs : List String → Option C14.Obs
  | [d, l, dl, ld, dr, df, lr, lf] => do
    let d ← (stripPrefix "d:" d) >>= parseOpt
    let l ← (stripPrefix "l:" l) >>= parseOpt
    let dl ← (stripPrefix "dl:" dl) >>= unhex
    let ld ← (stripPrefix "ld:" ld) >>= unhex
    let dr ← (stripPrefix "drecv:" dr) >>= unhex
    let df ← (stripPrefix "dfin:" df) >>= parseFinO
    let lr ← (stripPrefix "lrecv:" lr) >>= unhex
    let lf ← (stripPrefix "lfin:" lf) >>= parseFinO
    pure { dres := d, lres := l, dl := dl, ld := ld, drecv := dr, dfin := df, lrecv := lr, lfin := lf }
  | _ => none

def parseRun : List String → Option (Bool × List Bytes × List Bytes × Bytes × Bytes)
  | ["run", v, ds, ls, a, b, _] => do
    let ds ← parseNames ds
    let ls ← parseNames ls
    let a ← unhex a
    let b ← unhex b
    pure (v == "lazy", ds, ls, a, b)
  | _ => none

def machine : Machine Unit Unit where
  init _ := ()
  specInit _ := ()
  op _ args :=
    match parseRun args with
    | some (lazy, ds, ls, a, b) => ((), showObs (C14.simulate lazy ds ls a b))
    | none => ((), "bad-op")
  spec _ args outs :=
    match parseRun args, parseObs outs with
    | some (lazy, ds, ls, a, b), some o => ((), C14.spec lazy ds ls a b o)
    | _, _ => ((), "FAIL:unparsable")

end Driver.C14

def main : IO Unit := Driver.C14.machine.run
