import Libp2pModel.Common.Drv
import Libp2pModel.Model.C58
/-!
# C58 — line-protocol driver
-/
namespace Driver.C58
open Drv
open _root_.C58

def fieldName (i : Nat) : String := String.singleton (Char.ofNat (97 + i))
def variantName (i : Nat) : String := String.singleton (Char.ofNat (65 + i))

def fieldIdx (s : String) : Option Nat :=
  match s.toList with
  | [ch] => if 97 ≤ ch.toNat ∧ ch.toNat < 123 then some (ch.toNat - 97) else none
  | _ => none

def variantIdx (s : String) : Option Nat :=
  match s.toList with
  | [ch] => if 65 ≤ ch.toNat ∧ ch.toNat < 91 then some (ch.toNat - 65) else none
  | _ => none

/-! nested events: `<path>:<v>` -/

def nestOfPath : List Char → Nat → Option Nest
  | [], v => some (.leaf v)
  | 'L' :: r, v => (nestOfPath r v).map .left
  | 'R' :: r, v => (nestOfPath r v).map .right
  | _, _ => none

def pathOfNest : Nest → Option (String × Nat)
  | .leaf v => some ("", v)
  | .left e => (pathOfNest e).map fun (p, v) => ("L" ++ p, v)
  | .right e => (pathOfNest e).map fun (p, v) => ("R" ++ p, v)

def parseNest (sep : String) (s : String) : Option Nest :=
  match s.splitOn sep with
  | [p, v] => v.toNat?.bind fun v => nestOfPath p.toList v
  | _ => none

def showNest (sep : String) (e : Nest) : String :=
  match pathOfNest e with
  | some (p, v) => p ++ sep ++ toString v
  | none => "?"

/-! log entries -/

def pointName : Point → String
  | .pendIn => "pendingIn" | .pendOut => "pendingOut" | .estIn => "estIn" | .estOut => "estOut"

def okName : Point → String
  | .pendIn | .pendOut => "ok"
  | _ => "handler"

def showEntry : Entry → String
  | .swarm f ev => "b," ++ fieldName f ++ "," ++ ev
  | .decide pt f c d => "b," ++ fieldName f ++ "," ++ pointName pt ++ "," ++ toString c ++ "," ++ (if d then "deny" else okName pt)
  | .fromHandler f c p e =>
    "b," ++ fieldName f ++ ",fromHandler," ++ toString c ++ "," ++ p ++ "," ++
      (match e with | .leaf v => toString v | e => showNest ":" e)
  | .hrecv f c v => "h," ++ fieldName f ++ ",recv," ++ toString c ++ "," ++ toString v
  | .unreachable => "unreachable"

def parsePoint : String → Option Point
  | "pendingIn" => some .pendIn | "pendingOut" => some .pendOut
  | "estIn" => some .estIn | "estOut" => some .estOut | _ => none

def parseEntry (s : String) : Option Entry :=
  match s.splitOn "," with
  | "h" :: nm :: "recv" :: c :: v :: [] =>
    match fieldIdx nm, c.toNat?, v.toNat? with
    | some f, some c, some v => some (.hrecv f c v)
    | _, _, _ => none
  | "b" :: nm :: rest =>
    match fieldIdx nm with
    | none => none
    | some f =>
      match rest with
      | ["fromHandler", c, p, v] =>
        match c.toNat?, v.toNat? with
        | some c, some v => some (.fromHandler f c p (.leaf v))
        | _, _ => none
      | [k, c, r] =>
        match parsePoint k with
        | some pt =>
          match c.toNat? with
          | some c =>
            if r = "deny" then some (.decide pt f c true)
            else if r = okName pt then some (.decide pt f c false) else none
          | none => none
        | none => some (.swarm f (",".intercalate rest))
      | [] => none
      | rest => some (.swarm f (",".intercalate rest))
  | _ => none

def showLog (l : List Entry) : String :=
  if l.isEmpty then "-" else "|".intercalate (l.map showEntry)

def parseLog (s : String) : Option (List Entry) :=
  if s = "-" then some [] else (s.splitOn "|").mapM parseEntry

/-! commands -/

def showOutCmd : OutCmd → String
  | .gen (.variant i v) => "gen@" ++ variantName i ++ "@" ++ toString v
  | .gen (.user v) => "user@" ++ toString v
  | .notify p t e =>
    match pathOfNest e with
    | some (path, v) => "notify@" ++ p ++ "@" ++ t ++ "@" ++ path ++ "@" ++ toString v
    | none => "notify@?"
  | .other t => "other@" ++ t

def parseOutCmd (s : String) : Option OutCmd :=
  match s.splitOn "@" with
  | ["gen", vn, v] =>
    match variantIdx vn, v.toNat? with
    | some i, some v => some (.gen (.variant i v))
    | _, _ => none
  | ["user", v] => v.toNat?.map fun v => .gen (.user v)
  | ["notify", p, t, path, v] =>
    match v.toNat? with
    | some v => (nestOfPath path.toList v).map fun e => .notify p t e
    | none => none
  | ["other", t] => some (.other t)
  | _ => none

/-- field-local command of a `push` move -/
def parseCmd (s : String) : Option Cmd :=
  match s.splitOn "@" with
  | ["gen", v] => v.toNat?.map .gen
  | ["notify", p, t, v] => v.toNat?.map fun v => .notify p t v
  | ["o", tag, _] => some (.other tag)
  | _ => none

def parseItem (s : String) : Option (Nat × Cmd) :=
  match s.splitOn "=" with
  | [f, c] =>
    match f.toNat?, parseCmd c with
    | some f, some c => some (f, c)
    | _, _ => none
  | _ => none

def parseBits (s : String) : Option (List Bool) :=
  s.toList.mapM fun ch => if ch = '1' then some true else if ch = '0' then some false else none

def parseAddrList (s : String) : List String :=
  if s = "~" then [] else s.splitOn ";"

def showAddrList (l : List String) : String :=
  if l.isEmpty then "~" else ";".intercalate l

def parseOp : List String → Op
  | "mv" :: "push" :: items =>
    match items.mapM parseItem with
    | some l => .mvPush l
    | none => .bad
  | "mv" :: _ => .mvOther
  | ["swarm", ev] => .swarm ev
  | ["pendOut", c, bits, addrs] =>
    match c.toNat?, parseBits bits with
    | some c, some d => .decide .pendOut c d ((addrs.splitOn "#").map parseAddrList)
    | _, _ => .bad
  | [k, c, bits] =>
    let pt : Option Point := match k with
      | "pendIn" => some .pendIn | "estIn" => some .estIn | "estOut" => some .estOut | _ => none
    match pt, c.toNat?, parseBits bits with
    | some pt, some c, some d => .decide pt c d []
    | _, _, _ =>
      if k = "hrecv" then
        match c.toNat?, parseNest ":" bits with
        | some c, some e => .hrecv c e
        | _, _ => .bad
      else .bad
  | ["fromHandler", c, p, e] =>
    match c.toNat?, parseNest ":" e with
    | some c, some e => .fromHandler c p e
    | _, _ => .bad
  | ["poll"] => .poll
  | ["hemit", c] =>
    match c.toNat? with
    | some c => .hemit c
    | none => .bad
  | _ => .bad

def showOut (op : Op) : Out → String
  | .ok => "ok"
  | .log l => showLog l
  | .decided l d =>
    let pt := match op with | .decide pt _ _ _ => pt | _ => .pendIn
    showLog l ++ " ret=" ++ (if d then "deny" else okName pt)
  | .addrs l r =>
    showLog l ++ " ret=" ++ (match r with | none => "deny" | some a => "ok=" ++ showAddrList a)
  | .cmd none => "pending"
  | .cmd (some c) => showOutCmd c
  | .hev none => "pending"
  | .hev (some e) => showNest ":" e
  | .bad => "bad-op"

def stripRet (s : String) : Option String :=
  if s.startsWith "ret=" then some (s.drop 4).toString else none

/-- the implementation's output line, read back in the shape the op calls for -/
def parseOut (op : Op) (toks : List String) : Out :=
  match op, toks with
  | .mvPush _, ["ok"] => .ok
  | .mvOther, ["ok"] => .ok
  | .swarm _, [l] => match parseLog l with | some l => .log l | none => .bad
  | .fromHandler _ _ _, [l] => match parseLog l with | some l => .log l | none => .bad
  | .hrecv _ _, [l] => match parseLog l with | some l => .log l | none => .bad
  | .decide .pendOut _ _ _, [l, r] =>
    match parseLog l, stripRet r with
    | some l, some "deny" => .addrs l none
    | some l, some r =>
      if r.startsWith "ok=" then .addrs l (some (parseAddrList (r.drop 3).toString)) else .bad
    | _, _ => .bad
  | .decide pt _ _ _, [l, r] =>
    match parseLog l, stripRet r with
    | some l, some r =>
      if r = "deny" then .decided l true else if r = okName pt then .decided l false else .bad
    | _, _ => .bad
  | .poll, [c] => if c = "pending" then .cmd none else match parseOutCmd c with | some c => .cmd (some c) | none => .bad
  | .hemit _, [e] => if e = "pending" then .hev none else match parseNest ":" e with | some e => .hev (some e) | none => .bad
  | _, _ => .bad

def cfgNat (key : String) (cfg : List String) (dflt : Nat) : Nat :=
  match cfg.find? (·.startsWith key) with
  | some t => ((t.drop key.length).toString.toNat?).getD dflt
  | none => dflt

def machine : Machine St Flat where
  init cfg := St.init (cfgNat "n=" cfg 0) (cfg.contains "out=user")
  specInit cfg := Flat.init (cfgNat "n=" cfg 0) (cfg.contains "out=user")
  op s args :=
    let op := parseOp args
    let r := step s op
    match op with
    | .mvPush _ | .mvOther => (r.1, "-")
    | _ => (r.1, showOut op r.2)
  spec t args outs :=
    let op := parseOp args
    let r := _root_.C58.spec t op (parseOut op outs)
    (r.1, if r.2 then "ok" else "FAIL:" ++ op.key)

end Driver.C58

def main : IO Unit := Driver.C58.machine.run
