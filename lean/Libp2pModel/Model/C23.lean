import Libp2pModel.Common.Multiaddr
import Libp2pModel.Gen.Consts
/-!
# C23 — DNS dialing (`transports/dns/src/lib.rs`: `Transport::do_dial`, `resolve`)

The `async` block of `do_dial` is a `while let Some(addr) = unresolved.pop()` loop.  One
iteration of its body is `step` (a transcription, branch for branch); `loop` iterates `step`
and is accepted by well-founded recursion on the lexicographic measure
`(MAX_DNS_LOOKUPS − dns_lookups, unresolved.len())` (`step_decreases`).

The resolver and the inner transport are *oracles indexed by the call number*, so stateful,
cyclic, adversarial behaviours are all covered by quantifying over them:
`Resolver := Nat → Query → Answer`, `Inner := Nat → Maddr → Verdict`.

Everything the outside world sees of a dial is its `Result` and the ordered trace of `Event`s
(resolver calls and `inner.dial` calls).

`emptyPanics : Bool` selects the pre-fix variant of `resolve` (the `.expect("If there are no
results, …")` on a successful but empty A/AAAA answer) — kept for the counterexample theorem.
The repaired code (`emptyPanics = false`) turns the empty answer into a resolution error.
-/
namespace C23

/-- first `<character-string>` of a TXT record as `parse_dnsaddr_txt` sees it: either it is
`dnsaddr=` followed by the text of a valid multiaddr (`good a`), or anything else (`bad`:
invalid UTF-8, missing prefix, unparsable address). -/
inductive Chunk where
  | good (a : Maddr)
  | bad
  deriving DecidableEq, Repr, Inhabited

/-- one answer record (`Record::data`) -/
inductive Rec where
  | a (ip : Nat)
  | aaaa (ip : Nat)
  | txt (chunks : List Chunk)
  | other                       -- CNAME, … (filtered out by every branch of `resolve`)
  deriving DecidableEq, Repr, Inhabited

/-- `Result<Lookup, ResolveError>` -/
inductive Answer where
  | err
  | recs (l : List Rec)
  deriving DecidableEq, Repr, Inhabited

inductive QKind where
  | ip | a | aaaa | txt
  deriving DecidableEq, Repr, Inhabited

/-- one call of the `Resolver` trait: which method, which name -/
structure Query where
  kind : QKind
  name : List Nat
  deriving DecidableEq, Repr, Inhabited

/-- the resolver: `R k q` is the answer to the `k`-th call (0-based), which asked `q` -/
abbrev Resolver := Nat → Query → Answer

/-- what `inner.dial(addr)` does: `ok` = accepted and the dial future succeeds, `fail` = accepted
and the future fails, `refused` = `Err(MultiaddrNotSupported)`, `other` = `Err(Other(_))` -/
inductive Verdict where
  | ok | fail | refused | other
  deriving DecidableEq, Repr, Inhabited

/-- the inner transport: `I k a` is what the `k`-th `dial` call (0-based), for `a`, does -/
abbrev Inner := Nat → Maddr → Verdict

/-- entries of `dial_errors` -/
inductive DErr where
  | transport
  | resolve
  | notSupported (a : Maddr)
  | tooMany
  deriving DecidableEq, Repr, Inhabited

/-- outcome of the dial future (`ok k` = the output of the `k`-th inner dial) -/
inductive Result where
  | ok (k : Nat)
  | dial (errs : List DErr)
  | noRecords
  | panic
  deriving DecidableEq, Repr, Inhabited

inductive Event where
  | lookup (q : Query)
  | dial (a : Maddr) (v : Verdict)
  deriving DecidableEq, Repr, Inhabited

/-! ## `resolve` -/

inductive Resolved where
  | one (p : Proto)
  | many (ps : List Proto)
  | addrs (as : List Maddr)
  deriving DecidableEq, Repr, Inhabited

inductive RRes where
  | ok (r : Resolved)
  | err
  | panic
  deriving DecidableEq, Repr, Inhabited

/-- `"_dnsaddr."` -/
def DNSADDR_PREFIX : List Nat := [95, 100, 110, 115, 97, 100, 100, 114, 46]

/-- which resolver method `resolve` calls for a component (`none`: the catch-all arm) -/
def queryOf : Proto → Option Query
  | .dns n => some ⟨.ip, n⟩
  | .dns4 n => some ⟨.a, n⟩
  | .dns6 n => some ⟨.aaaa, n⟩
  | .dnsaddr n => some ⟨.txt, DNSADDR_PREFIX ++ n⟩
  | _ => none

/-- `let one = ips.next().expect(…); if let Some(two) = ips.next() { Many } else { One }`.
With the repair the empty case is `Err(ResolveError)`. -/
def oneOrMany (emptyPanics : Bool) : List Proto → RRes
  | [] => if emptyPanics then .panic else .err
  | [one] => .ok (.one one)
  | one :: two :: rest => .ok (.many (one :: two :: rest))

/-- `LookupIp::iter`: A and AAAA records -/
def ipOfRec : Rec → Option Proto
  | .a ip => some (.ip4 ip)
  | .aaaa ip => some (.ip6 ip)
  | _ => none

def ip4OfRec : Rec → Option Proto
  | .a ip => some (.ip4 ip)
  | _ => none

def ip6OfRec : Rec → Option Proto
  | .aaaa ip => some (.ip6 ip)
  | _ => none

/-- the TXT branch: `txt.txt_data.first()` then `parse_dnsaddr_txt`; invalid entries skipped -/
def addrOfRec : Rec → Option Maddr
  | .txt (.good a :: _) => some a
  | _ => none

/-- the closure applied to the resolver's answer, per query kind -/
def resolveAns (emptyPanics : Bool) (k : QKind) : Answer → RRes
  | .err => .err
  | .recs l =>
    match k with
    | .ip => oneOrMany emptyPanics (l.filterMap ipOfRec)
    | .a => oneOrMany emptyPanics (l.filterMap ip4OfRec)
    | .aaaa => oneOrMany emptyPanics (l.filterMap ip6OfRec)
    | .txt => .ok (.addrs (l.filterMap addrOfRec))

/-! ## helpers of the loop body -/

/-- `addr.iter().enumerate().find(is DNS)`: the components before the first DNS component
(`take i`), that component, and the components after it (`skip (i+1)`). -/
def splitDns : Maddr → Option (Maddr × Proto × Maddr)
  | [] => none
  | p :: rest =>
    if p.isDns then some ([], p, rest)
    else match splitDns rest with
      | none => none
      | some (pre, q, suf) => some (p :: pre, q, suf)

/-- `ends_with_components(addr, suffix)` (the repaired suffix test of the `Resolved::Addrs` arm):
`n >= m && addr.iter().skip(n - m).eq(suffix.iter())` on the protocol components.  Before the
repair the code called `Multiaddr::ends_with`, which compares the binary encodings
(`Props/C23.lean`: `bytewise_suffix_buggy_counterexample`). -/
def endsWith (a suf : Maddr) : Bool :=
  if a.length < suf.length then false else a.drop (a.length - suf.length) == suf

/-- the `for a in addrs` loop of the `Resolved::Addrs` arm with its counter `n`; returns the
addresses pushed, in push order -/
def txtPushes (pre suf : Maddr) : List Maddr → Nat → List Maddr
  | [], _ => []
  | a :: as, n =>
    if endsWith a suf then
      if n < Gen.MAX_TXT_RECORDS then (pre ++ a) :: txtPushes pre suf as (n + 1)
      else txtPushes pre suf as n
    else txtPushes pre suf as n

/-- pushing `xs` one after the other onto a stack whose top is the list head -/
def pushAll (xs stack : List Maddr) : List Maddr := xs.reverse ++ stack

/-- the tail of `do_dial` after the loop -/
def finish (errs : List DErr) : Result :=
  if errs.isEmpty then .noRecords else .dial errs

/-! ## one iteration of `while let Some(addr) = unresolved.pop()` -/

/-- the local variables of the `async` block (`dials` is a ghost counter: the number of
`inner.dial` calls made so far, the index given to the `Inner` oracle) -/
structure Cfg where
  unresolved : List Maddr      -- the stack; head = top
  lookups : Nat                -- dns_lookups
  attempts : Nat               -- dial_attempts
  dials : Nat
  errs : List DErr             -- dial_errors
  deriving DecidableEq, Repr, Inhabited

inductive Step where
  | done (r : Result) (ev : List Event)
  | cont (c : Cfg) (ev : List Event)
  deriving DecidableEq, Repr, Inhabited

/-- after a dial that did not succeed: `dial_errors.push(err)`, then the two `break` tests -/
def afterFailedDial (c : Cfg) (rest : List Maddr) (attempts : Nat) (err : DErr)
    (ev : List Event) : Step :=
  let errs := c.errs ++ [err]
  if rest.isEmpty then .done (finish errs) ev
  else if attempts = Gen.MAX_DIAL_ATTEMPTS then .done (finish errs) ev
  else .cont { c with unresolved := rest, attempts := attempts, dials := c.dials + 1, errs := errs } ev

/-- the `else` arm: "We have a fully resolved address, so try to dial it." -/
def dialStep (c : Cfg) (addr : Maddr) (rest : List Maddr) (v : Verdict) : Step :=
  let ev := [Event.dial addr v]
  match v with
  | .ok => .done (.ok c.dials) ev                                        -- `return Ok(out)`
  | .fail => afterFailedDial c rest (c.attempts + 1) .transport ev       -- `dial_attempts += 1`
  | .refused => afterFailedDial c rest c.attempts (.notSupported addr) ev
  | .other => afterFailedDial c rest c.attempts .transport ev

/-- the `match resolve(&name, &resolver).await` (after `dns_lookups += 1`) -/
def resolvedStep (c1 : Cfg) (errs0 : List DErr) (pre suf : Maddr) (rest : List Maddr)
    (ev : List Event) : RRes → Step
  | .panic => .done .panic ev
  | .err => .cont { c1 with unresolved := rest, errs := errs0 ++ [.resolve] } ev
  | .ok (.one ip) => .cont { c1 with unresolved := (pre ++ ip :: suf) :: rest } ev
  | .ok (.many ips) =>
    .cont { c1 with unresolved := pushAll (ips.map fun ip => pre ++ ip :: suf) rest } ev
  | .ok (.addrs as) =>
    .cont { c1 with unresolved := pushAll (txtPushes pre suf as 0) rest } ev

def step (emptyPanics : Bool) (R : Resolver) (I : Inner) (c : Cfg) : Step :=
  match c.unresolved with
  | [] => .done (finish c.errs) []
  | addr :: rest =>
    match splitDns addr with
    | some (pre, p, suf) =>
      if c.lookups = Gen.MAX_DNS_LOOKUPS then
        -- "Too many DNS lookups, dropping unresolved address"; `continue`
        .cont { c with unresolved := rest, errs := c.errs ++ [.tooMany] } []
      else
        let c1 := { c with lookups := c.lookups + 1 }
        match queryOf p with
        | none =>
          -- catch-all arm of `resolve` (unreachable: `p` is a DNS component): `One(p)`
          resolvedStep c1 c.errs pre suf rest [] (.ok (.one p))
        | some q =>
          resolvedStep c1 c.errs pre suf rest [Event.lookup q]
            (resolveAns emptyPanics q.kind (R c.lookups q))
    | none => dialStep c addr rest (I c.dials addr)

theorem afterFailedDial_cont {c : Cfg} {rest att err ev c' ev'}
    (h : afterFailedDial c rest att err ev = .cont c' ev') :
    c' = { c with unresolved := rest, attempts := att, dials := c.dials + 1, errs := c.errs ++ [err] }
      ∧ ev' = ev ∧ att ≠ Gen.MAX_DIAL_ATTEMPTS ∧ rest ≠ [] := by
  unfold afterFailedDial at h
  split at h
  · cases h
  · split at h
    · cases h
    · cases h; simp_all

theorem dialStep_cont {c : Cfg} {addr rest v c' ev'} (h : dialStep c addr rest v = .cont c' ev') :
    c'.unresolved = rest ∧ c'.lookups = c.lookups ∧ c'.dials = c.dials + 1 ∧
      ev' = [Event.dial addr v] ∧ v ≠ .ok ∧
      c'.attempts = (if v = .fail then c.attempts + 1 else c.attempts) ∧
      c'.attempts ≠ Gen.MAX_DIAL_ATTEMPTS := by
  unfold dialStep at h
  cases v <;> simp only at h
  · cases h
  all_goals
    obtain ⟨rfl, rfl, h1, _⟩ := afterFailedDial_cont h
    simp [h1]

theorem resolvedStep_cont {c1 : Cfg} {errs0 pre suf rest ev r c' ev'}
    (h : resolvedStep c1 errs0 pre suf rest ev r = .cont c' ev') :
    c'.lookups = c1.lookups ∧ c'.attempts = c1.attempts ∧ c'.dials = c1.dials ∧ ev' = ev := by
  unfold resolvedStep at h
  split at h <;> cases h <;> simp

/-- `step` keeps `dns_lookups ≤ MAX_DNS_LOOKUPS` and decreases
`(MAX_DNS_LOOKUPS − dns_lookups, unresolved.len())` lexicographically. -/
theorem step_decreases (b : Bool) (R : Resolver) (I : Inner) (c c' : Cfg) (ev : List Event)
    (h : c.lookups ≤ Gen.MAX_DNS_LOOKUPS) (hs : step b R I c = .cont c' ev) :
    c'.lookups ≤ Gen.MAX_DNS_LOOKUPS ∧
    (Gen.MAX_DNS_LOOKUPS - c'.lookups < Gen.MAX_DNS_LOOKUPS - c.lookups ∨
      (Gen.MAX_DNS_LOOKUPS - c'.lookups = Gen.MAX_DNS_LOOKUPS - c.lookups ∧
        c'.unresolved.length < c.unresolved.length)) := by
  unfold step at hs
  split at hs
  · cases hs
  · rename_i addr rest hu
    split at hs
    · split at hs
      · cases hs; simp [hu]; omega
      · rename_i hne
        split at hs <;>
        · have := (resolvedStep_cont hs).1
          simp only at this
          omega
    · have := dialStep_cont hs
      simp [hu, this.1, this.2.1, h]

/-- The whole loop: result and ordered event trace.  Accepted by well-founded recursion. -/
def loop (b : Bool) (R : Resolver) (I : Inner) (c : Cfg) (h : c.lookups ≤ Gen.MAX_DNS_LOOKUPS) :
    Result × List Event :=
  match hs : step b R I c with
  | .done r ev => (r, ev)
  | .cont c' ev =>
    let out := loop b R I c' (step_decreases b R I c c' ev h hs).1
    (out.1, ev ++ out.2)
termination_by (Gen.MAX_DNS_LOOKUPS - c.lookups, c.unresolved.length)
decreasing_by
  have := (step_decreases b R I c c' ev h hs).2
  rcases this with h1 | ⟨h1, h2⟩
  · exact Prod.Lex.left _ _ h1
  · rw [h1]; exact Prod.Lex.right _ h2

/-- initial local variables of `do_dial(addr)` -/
def init (addr : Maddr) : Cfg := ⟨[addr], 0, 0, 0, []⟩

/-- `Transport::do_dial(addr)` driven to completion -/
def doDial (b : Bool) (R : Resolver) (I : Inner) (addr : Maddr) : Result × List Event :=
  loop b R I (init addr) (Nat.zero_le _)

/-! ## executable statement of the property, over (original address, result, trace) -/

def Event.isLookup : Event → Bool
  | .lookup _ => true
  | _ => false

/-- accepted by the inner transport (it produced a dial future): what `dial_attempts` counts -/
def Event.isAccepted : Event → Bool
  | .dial _ .ok | .dial _ .fail => true
  | _ => false

def Event.isDial : Event → Bool
  | .dial _ _ => true
  | _ => false

def Event.addrOk (P : Maddr → Bool) : Event → Bool
  | .dial a _ => P a
  | _ => true

def dnsFree (a : Maddr) : Bool := a.all fun p => !p.isDns

/-- the longest DNS-free suffix of an address (everything after its last DNS component) -/
def dnsFreeTail : Maddr → Maddr
  | [] => []
  | p :: rest => if dnsFree (p :: rest) then p :: rest else dnsFreeTail rest

def isTxtLookup : Event → Bool
  | .lookup q => q.kind == .txt
  | _ => false

/-- `none` = the property holds on this observation; `some key` = the violated clause. -/
def spec (orig : Maddr) (res : Result) (tr : List Event) : Option String :=
  if res = .panic then some "no_panic"
  else if Gen.MAX_DNS_LOOKUPS < (tr.filter Event.isLookup).length then some "lookups_le"
  else if Gen.MAX_DIAL_ATTEMPTS < (tr.filter Event.isAccepted).length then some "attempts_le"
  else if !tr.all (Event.addrOk dnsFree) then some "no_dns_leak"
  else if !tr.all (Event.addrOk fun a => endsWith a (dnsFreeTail orig)) then some "suffix"
  else if (tr.filter Event.isLookup).length = 1 ∧ tr.any isTxtLookup ∧
      Gen.MAX_TXT_RECORDS < (tr.filter Event.isDial).length then some "txt_cap"
  else none

end C23
