import Libp2pModel.Model.C28Node
/-!
# C28 — gossipsub mesh membership respects the eligibility rules

The model is `C28Node`. This file holds the executable Spec evaluated on the IMPLEMENTATION's
outputs after every op: the mesh invariant on the printed meshes / peer table / explicit set, the
eligibility of every peer that was added to a mesh by the op (score sign from the op, backoff from
the backoff model in lockstep), and the two GRAFT refusals.
-/
namespace C28.Spec
open C28

/-- a connected peer as printed by the implementation -/
structure IPeer where
  id : Nat
  gossip : Bool
  topics : List Nat

def memberOk (peers : List IPeer) (explicit : List Nat) (t p : Nat) : Bool :=
  peers.any (fun e => e.id == p && e.gossip && e.topics.contains t) && !explicit.contains p

/-- Inv28 on one observed state -/
def invOk (peers : List IPeer) (explicit : List Nat) (mesh : Nat → Option (List Nat)) : Bool :=
  topicUniverse.all (fun t => ((mesh t).getD []).all (fun p => memberOk peers explicit t p))

/-- backoff status that forbids adding `p` to `mesh t` in op `o`, read off the model state `m`
(before the op; for a heartbeat after `backoffs.heartbeat()`) -/
def blocked (m : State) (o : TOp) (t p : Nat) : Bool :=
  match o.op with
  | .graft _ _ => backedOffNow m t p o.now
  | .heartbeat _ _ => C32.isBackoffWithSlack ((C32.heartbeat m.backoff o.now).getD m.backoff) (t, p)
  | _ => backedOffSlack m t p

/-- every peer the op added to a mesh was eligible at that moment -/
def addsOk (m : State) (o : TOp) (pre post : Nat → Option (List Nat)) : Option String :=
  topicUniverse.findSome? (fun t =>
    ((post t).getD []).findSome? (fun p =>
      if ((pre t).getD []).contains p then none
      else if decide (o.sc p < 0) then some "added_negative_score"
      else if blocked m o t p then some "added_backed_off"
      else none))

/-- a GRAFT for a full mesh, or inside the backoff window, is refused and answered with PRUNE -/
def graftOk (m : State) (o : TOp) (pre post : Nat → Option (List Nat)) (rpcs : List Rpc) : Option String :=
  match o.op with
  | .graft p ts =>
    ts.findSome? (fun t =>
      match pre t with
      | none => none
      | some mt =>
        if mt.contains p then none
        else
          let refused := !((post t).getD []).contains p && rpcs.any (fun r => r.1 == p && r.2.1 == t && r.2.2.isSome)
          let known := (m.peers p).isSome && !m.explicit.contains p && ((m.peers p).map (·.gossip)).getD false
          if known && decide (mt.length ≥ m.cfg.meshHigh) && !refused then some "graft_into_full_mesh_not_refused"
          else if known && backedOffNow m t p o.now && !refused then some "graft_in_backoff_not_refused"
          else none)
  | _ => none

def check (m : State) (o : TOp) (pre post : Nat → Option (List Nat)) (peers : List IPeer) (explicit : List Nat)
    (rpcs : List Rpc) : Option String :=
  if !invOk peers explicit post then some "mesh_member_ineligible"
  else match addsOk m o pre post with
    | some k => some k
    | none => graftOk m o pre post rpcs

end C28.Spec
