import Libp2pModel.Common.Machine
/-!
# C39 — `ClosestPeersIter` (`protocols/kad/src/query/peers/closest.rs`)

Peers are named by the rank of their XOR distance to the target (the harness sorts the peer
universe by `KBucketKey::distance` and sends ranks), so `BTreeMap<Distance, Peer>` becomes a list
of `(rank, state)` strictly ascending in the rank; `entry(distance)` is `find`/`ins`.
`Instant`s are naturals (milliseconds from a base chosen by the harness), `now` is an explicit
argument of `next`.  `num_waiting -= 1` on zero (a `usize` underflow panic) is an explicit
`panic` output.
-/
namespace C39

inductive PState
  | notContacted
  | waiting (timeout : Nat)
  | unresponsive
  | failed
  | succeeded
deriving DecidableEq, Repr

inductive IState
  | iterating (noProgress : Nat)
  | stalled
  | finished
deriving DecidableEq, Repr

structure Cfg where
  parallelism : Nat
  numResults : Nat
  peerTimeout : Nat
deriving DecidableEq, Repr

/-- `PeersIterState`, plus the other return values of the API -/
inductive Out
  | waiting (p : Option Nat)
  | atCapacity
  | finished
  | bool (b : Bool)
  | unit
  | panic
deriving DecidableEq, Repr

structure Iter where
  cfg : Cfg
  state : IState
  closest : List (Nat × PState)
  numWaiting : Nat
deriving DecidableEq, Repr

/-! ## the BTreeMap -/

def find : List (Nat × PState) → Nat → Option PState
  | [], _ => none
  | (q, st) :: t, p => if q = p then some st else find t p

def setSt : List (Nat × PState) → Nat → PState → List (Nat × PState)
  | [], _, _ => []
  | (q, st) :: t, p, s' => if q = p then (q, s') :: t else (q, st) :: setSt t p s'

/-- `entry(distance)`: `Vacant` → insert as `NotContacted`, `Occupied` → unchanged -/
def ins : List (Nat × PState) → Nat → List (Nat × PState)
  | [], p => [(p, .notContacted)]
  | (q, st) :: t, p =>
    if p < q then (p, .notContacted) :: (q, st) :: t
    else if p = q then (q, st) :: t
    else (q, st) :: ins t p

/-- `with_config`: the first `K_VALUE` known peers, all `NotContacted` -/
def init (cfg : Cfg) (kValue : Nat) (known : List Nat) : Iter :=
  { cfg := cfg, state := .iterating 0, closest := (known.take kValue).foldl ins [], numWaiting := 0 }

/-! ## `next` -/

/-- `at_capacity` -/
def atCapacity (s : Iter) : Bool :=
  match s.state with
  | .stalled => decide (s.numWaiting ≥ max s.cfg.numResults s.cfg.parallelism)
  | .iterating _ => decide (s.numWaiting ≥ s.cfg.parallelism)
  | .finished => true

inductive LoopRes
  | done            -- the `for` loop ran to its end
  | finish          -- `self.state = Finished; return Finished` inside the loop
  | ret (o : Out)   -- `return o` inside the loop
  | panic
deriving DecidableEq, Repr

/-- the `for peer in self.closest_peers.values_mut()` loop of `next`; threads `num_waiting` and
`result_counter` -/
def nextLoop (cfg : Cfg) (now : Nat) (atCap : Bool) :
    List (Nat × PState) → Nat → Option Nat → List (Nat × PState) × Nat × LoopRes
  | [], nw, _ => ([], nw, .done)
  | (p, st) :: t, nw, cnt =>
    match st with
    | .waiting timeout =>
      if now ≥ timeout then
        if nw = 0 then ((p, st) :: t, nw, .panic)
        else
          let r := nextLoop cfg now atCap t (nw - 1) cnt
          ((p, .unresponsive) :: r.1, r.2.1, r.2.2)
      else if atCap then ((p, st) :: t, nw, .ret .atCapacity)
      else
        let r := nextLoop cfg now atCap t nw none
        ((p, st) :: r.1, r.2.1, r.2.2)
    | .succeeded =>
      match cnt with
      | some c =>
        if c + 1 ≥ cfg.numResults then ((p, st) :: t, nw, .finish)
        else
          let r := nextLoop cfg now atCap t nw (some (c + 1))
          ((p, st) :: r.1, r.2.1, r.2.2)
      | none =>
        let r := nextLoop cfg now atCap t nw none
        ((p, st) :: r.1, r.2.1, r.2.2)
    | .notContacted =>
      if !atCap then
        ((p, .waiting (now + cfg.peerTimeout)) :: t, nw + 1, .ret (.waiting (some p)))
      else ((p, st) :: t, nw, .ret .atCapacity)
    | .unresponsive =>
      let r := nextLoop cfg now atCap t nw cnt
      ((p, st) :: r.1, r.2.1, r.2.2)
    | .failed =>
      let r := nextLoop cfg now atCap t nw cnt
      ((p, st) :: r.1, r.2.1, r.2.2)

/-- `ClosestPeersIter::next` -/
def next (s : Iter) (now : Nat) : Iter × Out :=
  if s.state = .finished then (s, .finished)
  else
    let r := nextLoop s.cfg now (atCapacity s) s.closest s.numWaiting (some 0)
    let s' := { s with closest := r.1, numWaiting := r.2.1 }
    match r.2.2 with
    | .ret o => (s', o)
    | .finish => ({ s' with state := .finished }, .finished)
    | .panic => (s', .panic)
    | .done =>
      if r.2.1 > 0 then (s', .waiting none)
      else ({ s' with state := .finished }, .finished)

/-! ## `on_success` / `on_failure` -/

/-- distance of the `num_results`-th closest peer, or of the last one -/
def curRange (cl : List (Nat × PState)) (nr : Nat) (p : Nat) : Nat :=
  match cl[nr - 1]? with
  | some e => e.1
  | none =>
    match cl.getLast? with
    | some e => e.1
    | none => p

/-- one iteration of `for peer in closer_peers` -/
def addCloser (cr : Nat) (acc : List (Nat × PState) × Bool) (q : Nat) : List (Nat × PState) × Bool :=
  match find acc.1 q with
  | some _ => acc
  | none => (ins acc.1 q, decide (q < cr) || acc.2)

def nextState (cfg : Cfg) (st : IState) (progress : Bool) : IState :=
  match st with
  | .iterating np =>
    let np' := if progress then 0 else np + 1
    if np' ≥ cfg.parallelism then .stalled else .iterating np'
  | .stalled => if progress then .iterating 0 else .stalled
  | .finished => .finished

/-- the part of `on_success` after the peer has been marked `Succeeded` -/
def succeed (s : Iter) (p : Nat) (closer : List Nat) (nw : Nat) : Iter × Out :=
  let cl := setSt s.closest p .succeeded
  let cr := curRange cl s.cfg.numResults p
  let progress0 := decide (cl.length < s.cfg.numResults)
  let r := closer.foldl (addCloser cr) (cl, progress0)
  ({ s with closest := r.1, numWaiting := nw, state := nextState s.cfg s.state r.2 }, .bool true)

/-- `ClosestPeersIter::on_success` -/
def onSuccess (s : Iter) (p : Nat) (closer : List Nat) : Iter × Out :=
  if s.state = .finished then (s, .bool false)
  else
    match find s.closest p with
    | none => (s, .bool false)
    | some (.waiting _) =>
      if s.numWaiting = 0 then (s, .panic) else succeed s p closer (s.numWaiting - 1)
    | some .unresponsive => succeed s p closer s.numWaiting
    | some _ => (s, .bool false)

/-- `ClosestPeersIter::on_failure` -/
def onFailure (s : Iter) (p : Nat) : Iter × Out :=
  if s.state = .finished then (s, .bool false)
  else
    match find s.closest p with
    | none => (s, .bool false)
    | some (.waiting _) =>
      if s.numWaiting = 0 then (s, .panic)
      else ({ s with closest := setSt s.closest p .failed, numWaiting := s.numWaiting - 1 }, .bool true)
    | some .unresponsive => ({ s with closest := setSt s.closest p .failed }, .bool true)
    | some _ => (s, .bool false)

/-- `ClosestPeersIter::finish` -/
def finish (s : Iter) : Iter := { s with state := .finished }

/-! ## observers -/

def isWaiting : PState → Bool
  | .waiting _ => true
  | _ => false

/-- `waiting()` -/
def waitingList (s : Iter) : List Nat := (s.closest.filter (fun e => isWaiting e.2)).map (·.1)

/-- `into_result()` -/
def result (s : Iter) : List Nat :=
  ((s.closest.filter (fun e => e.2 = .succeeded)).map (·.1)).take s.cfg.numResults

def isFinished (s : Iter) : Bool := s.state = .finished

inductive Op
  | next (now : Nat)
  | success (p : Nat) (closer : List Nat)
  | failure (p : Nat)
  | finish
deriving DecidableEq, Repr

def step (s : Iter) : Op → Iter × Out
  | .next now => next s now
  | .success p closer => onSuccess s p closer
  | .failure p => onFailure s p
  | .finish => (finish s, .unit)

/-- what the harness reads off the real iterator after every call -/
structure Obs where
  nw : Nat
  waiting : List Nat
  fin : Bool
  result : List Nat
deriving DecidableEq, Repr

def observe (s : Iter) : Obs := ⟨s.numWaiting, waitingList s, isFinished s, result s⟩

/-! ## the executable statement: a trace monitor over (operation, return value, observation) -/

structure Mon where
  cfg : Cfg
  /-- size of the peer universe: every peer is `< n` -/
  n : Nat
  /-- peers the iterator has learned of (known at start, or reported by an accepted response) -/
  learned : List Nat
  /-- peers returned by `next` as `Waiting(Some p)` -/
  issued : List Nat
  /-- peers whose `on_success` was accepted (returned `true`) -/
  accepted : List Nat
  fin : Bool
  /-- the peers the lookup has learned of, sorted by distance (states are not tracked here: every
  entry is `NotContacted`); rebuilt from the observable history only -/
  shadow : List (Nat × PState)
  /-- "stalled or not", derived from the observable history by the documented rule: `parallelism`
  consecutive accepted responses without progress ⇒ stalled; a response with progress ⇒ iterating -/
  st : IState
  /-- `num_waiting()` observed after the previous call = in-flight requests before this call -/
  nw : Nat
deriving Repr

def monInit (cfg : Cfg) (kValue n : Nat) (known : List Nat) : Mon :=
  ⟨cfg, n, known.take kValue, [], [], false, (known.take kValue).foldl ins [], .iterating 0, 0⟩

/-- the in-flight limit that applies in the derived state -/
def capOf (cfg : Cfg) (st : IState) : Nat :=
  match st with
  | .stalled => max cfg.numResults cfg.parallelism
  | _ => cfg.parallelism

/-- update of the derived progress state by an accepted response (the documented rule of
`on_success`: progress = fewer than `num_results` peers known, or a new peer closer than the
`num_results`-th closest known one) -/
def shadowStep (m : Mon) (op : Op) (out : Out) : Mon :=
  match op, out with
  | .success p closer, .bool true =>
    let r := closer.foldl (addCloser (curRange m.shadow m.cfg.numResults p))
      (m.shadow, decide (m.shadow.length < m.cfg.numResults))
    { m with shadow := r.1, st := nextState m.cfg m.st r.2 }
  | _, _ => m

def sortedAsc : List Nat → Bool
  | [] => true
  | [_] => true
  | a :: b :: t => decide (a < b) && sortedAsc (b :: t)

/-- the "finished-closed" clause: when the iterator finishes on its own, no learned peer closer
than the farthest returned peer (any learned peer at all, if fewer than `num_results` are
returned) is uncontacted or still waiting -/
def closedOk (m : Mon) (o : Obs) : Bool :=
  m.learned.all (fun q =>
    let relevant :=
      if o.result.length < m.cfg.numResults then true
      else match o.result.getLast? with
        | some f => decide (q < f)
        | none => true
    !relevant || (m.issued.contains q && !o.waiting.contains q))

/-- clauses checked after every call -/
def monCommon (m : Mon) (o : Obs) : Option String :=
  if o.nw ≠ o.waiting.length then some "num_waiting"
  else if o.nw > max m.cfg.numResults m.cfg.parallelism then some "inflight_bound"
  else if !(o.waiting.all (fun p => m.issued.contains p)) then some "waiting_not_issued"
  else if !(sortedAsc o.result && decide (o.result.length ≤ m.cfg.numResults)
            && o.result.all (fun p => m.accepted.contains p)) then some "result"
  else if o.fin ≠ m.fin then some "finished_flag"
  else none

/-- the per-operation clauses -/
def monCore (m : Mon) (op : Op) (out : Out) (o : Obs) : Mon × Option String :=
    match op, out with
    | .next _, .waiting (some p) =>
      if m.fin then (m, some "finished_absorbing")
      else if m.issued.contains p then (m, some "peer_twice")
      else if !m.learned.contains p then (m, some "unknown_peer")
      else if !o.waiting.contains p then (m, some "issued_not_waiting")
      else if !(decide (m.nw < capOf m.cfg m.st)) then (m, some "inflight_bound_when_progressing")
      else ({ m with issued := p :: m.issued }, none)
    | .next _, .waiting none =>
      if m.fin then (m, some "finished_absorbing")
      else if o.nw = 0 then (m, some "waiting_none_idle")
      else (m, none)
    | .next _, .atCapacity =>
      if m.fin then (m, some "finished_absorbing") else (m, none)
    | .next _, .finished =>
      if !m.fin && !closedOk m o then (m, some "finished_not_closed")
      else ({ m with fin := true }, none)
    | .success p closer, .bool true =>
      if m.fin then (m, some "finished_absorbing")
      else if !m.issued.contains p then (m, some "unsolicited")
      else ({ m with accepted := p :: m.accepted, learned := m.learned ++ closer }, none)
    | .success _ _, .bool false => (m, none)
    | .failure p, .bool true =>
      if m.fin then (m, some "finished_absorbing")
      else if !m.issued.contains p then (m, some "unsolicited")
      else (m, none)
    | .failure _, .bool false => (m, none)
    | .finish, .unit => ({ m with fin := true }, none)
    | _, _ => (m, some "bad_output")

def monStep (m : Mon) (op : Op) (out : Out) (o : Obs) : Mon × Option String :=
  let r := monCore m op out o
  ({ shadowStep r.1 op out with nw := o.nw },
    match r.2 with
    | some k => some k
    | none => monCommon r.1 o)

end C39
