/-!
# C58 — model of the `#[derive(NetworkBehaviour)]` expansion, parametric in the field list

Transcribed from `/repo/swarm-derive/src/lib.rs` (`build_struct`) and
`/repo/swarm/src/handler/select.rs` (`ConnectionHandlerSelect`).  The macro is a program generator:
for a struct with fields `f₀ … fₙ₋₁` it emits one `impl NetworkBehaviour`; here the emitted code is
a function of the field list `fs : List Probe` (any length).  Fields are the harness' `Probe`s
(`/verif/harness/h_swarm/src/sim.rs`): a script answering the four decision points, a queue of
commands returned from `poll`, and a shared call log (`Entry`, one entry per call that reaches a
field or a handler component).
-/
namespace C58

/-! ## `Either` nesting of handler events -/

/-- a value of the nested `Either<Either<…>, …>` event type; `leaf v` = a probe's `u32` -/
inductive Nest where
  | leaf (v : Nat)
  | left (e : Nest)
  | right (e : Nest)
  deriving DecidableEq, Repr, Inhabited

/-- a `match` arm pattern `Either::Left(Either::Left(… ev))` -/
inductive Pat where
  | var
  | left (p : Pat)
  | right (p : Pat)
  deriving DecidableEq, Repr

/-- Rust pattern matching; `some ev` = the arm is taken with `ev` bound -/
def Pat.matches : Pat → Nest → Option Nest
  | .var, e => some e
  | .left p, .left e => p.matches e
  | .right p, .right e => p.matches e
  | _, _ => none

/-- `for _ in 0..k { elem = quote!{ Either::Left(#elem) } }` -/
def Pat.lefts : Nat → Pat → Pat
  | 0, p => p
  | k + 1, p => .left (Pat.lefts k p)

def Nest.lefts : Nat → Nest → Nest
  | 0, e => e
  | k + 1, e => .left (Nest.lefts k e)

/-- `on_node_event_stmts`: the arm for field `i` of `len`:
`elem = if enum_n != 0 { Right(ev) } else { ev }`, then `len - 1 - enum_n` times `Left(elem)`. -/
def pattern (len i : Nat) : Pat :=
  Pat.lefts (len - 1 - i) (if i ≠ 0 then .right .var else .var)

/-- `poll_stmts`: `map_in(|event| #wrapped_event)` for field `i` of `len` (same construction). -/
def wrap (len i : Nat) (ev : Nest) : Nest :=
  Nest.lefts (len - 1 - i) (if i ≠ 0 then .right ev else ev)

/-- `match event { #(#on_node_event_stmts),* }`: arms in field order, first matching arm wins. -/
def dispatch (len : Nat) (e : Nest) : Option (Nat × Nest) :=
  (List.range len).findSome? fun i => ((pattern len i).matches e).map fun ev => (i, ev)

/-! ## Probe fields and the call log -/

structure Script where
  denyPendIn : Bool := false
  denyPendOut : Bool := false
  denyEstIn : Bool := false
  denyEstOut : Bool := false
  addrs : List String := []
  deriving Repr, DecidableEq

/-- a command a probe returns from `poll` (`ToSwarm<u32, u32>`); everything that carries neither
an out-event nor a handler event is `other` (untouched by `map_out` / `map_in`) -/
inductive Cmd where
  | gen (v : Nat)
  | notify (peer target : String) (v : Nat)
  | other (tag : String)
  deriving Repr, DecidableEq

structure Probe where
  script : Script := {}
  queue : List Cmd := []
  deriving Repr, DecidableEq

inductive Point where
  | pendIn | pendOut | estIn | estOut
  deriving Repr, DecidableEq

def Point.deny : Point → Script → Bool
  | .pendIn, s => s.denyPendIn
  | .pendOut, s => s.denyPendOut
  | .estIn, s => s.denyEstIn
  | .estOut, s => s.denyEstOut

/-- one call that reached field `f` (or handler component `f`) -/
inductive Entry where
  | swarm (f : Nat) (ev : String)
  | decide (pt : Point) (f c : Nat) (deny : Bool)
  | fromHandler (f c : Nat) (peer : String) (ev : Nest)
  | hrecv (f c v : Nat)
  | unreachable
  deriving Repr, DecidableEq

/-! ## The generated `impl NetworkBehaviour` -/

/-- `on_swarm_event`: `#(self.#i.on_swarm_event(event);)*` -/
def onSwarmFrom (ev : String) : Nat → List Probe → List Entry
  | _, [] => []
  | i, _ :: fs => .swarm i ev :: onSwarmFrom ev (i + 1) fs

def onSwarmEvent (fs : List Probe) (ev : String) : List Entry := onSwarmFrom ev 0 fs

/-- The shape shared by the four `handle_*` functions: the fields are asked in order, every call
is followed by `?` (early return of that field's `ConnectionDenied`), the successful answers are
folded into an accumulator.  Result: the calls made, and `none` = denied. -/
def chain {α : Type} (pt : Point) (c : Nat) (step : α → Nat → Probe → α) :
    Nat → α → List Probe → List Entry × Option α
  | _, acc, [] => ([], some acc)
  | i, acc, f :: fs =>
    if pt.deny f.script then ([.decide pt i c true], none)
    else
      let r := chain pt c step (i + 1) (step acc i f) fs
      (.decide pt i c false :: r.1, r.2)

/-- `handle_pending_inbound_connection`: `#(f_i.handle_pending_inbound_connection(..)?;)* Ok(())` -/
def pendIn (fs : List Probe) (c : Nat) : List Entry × Option Unit :=
  chain .pendIn c (fun _ _ _ => ()) 0 () fs

/-- `handle_pending_outbound_connection`: `let mut combined_addresses = vec![];
#(combined_addresses.extend(f_i.handle_pending_outbound_connection(..)?);)* Ok(combined_addresses)` -/
def pendOut (fs : List Probe) (c : Nat) : List Entry × Option (List String) :=
  chain .pendOut c (fun acc _ f => acc ++ f.script.addrs) 0 [] fs

/-- the derived `ConnectionHandler`: a left-nested tree of `ConnectionHandlerSelect`s whose leaves
are the fields' `ProbeHandler`s (`out` = events waiting to be returned from `poll`) -/
inductive HTree where
  | leaf (f c : Nat) (out : List Nat)
  | sel (l r : HTree)
  deriving Repr, DecidableEq, Inhabited

/-- `out_handler = match out_handler { Some(h) => select(h, builder), None => builder }` -/
def selStep (c : Nat) (acc : Option HTree) (i : Nat) (_f : Probe) : Option HTree :=
  match acc with
  | none => some (.leaf i c [])
  | some h => some (.sel h (.leaf i c []))

/-- `handle_established_{in,out}bound_connection`: `Ok(select(select(f_0(..)?, f_1(..)?), f_2(..)?))`;
arguments are evaluated left to right, so the fields are asked in order.  `some none` is the
`()` handler of a struct without fields. -/
def est (pt : Point) (fs : List Probe) (c : Nat) : List Entry × Option (Option HTree) :=
  chain pt c (selStep c) 0 none fs

/-- `on_connection_handler_event`: the arm found by `dispatch` forwards `ev` to its field.  The
fields are probes (`THandlerOutEvent = u32`), anything else is a type error in Rust. -/
def onHandlerEvent (len c : Nat) (peer : String) (e : Nest) : List Entry :=
  match dispatch len e with
  | some (i, .leaf v) => [.fromHandler i c peer (.leaf v)]
  | _ => [.unreachable]

/-- the derived struct's `ToSwarm`: a variant per field (generated enum), or `e.into()` of the
user-supplied type -/
inductive OutEv where
  | variant (i v : Nat)
  | user (v : Nat)
  deriving Repr, DecidableEq

inductive OutCmd where
  | gen (e : OutEv)
  | notify (peer target : String) (e : Nest)
  | other (tag : String)
  deriving Repr, DecidableEq

/-- `e.map_out(#map_out_event).map_in(#map_in_event)` for field `i` of `len` -/
def mapCmd (user : Bool) (len i : Nat) : Cmd → OutCmd
  | .gen v => .gen (if user then .user v else .variant i v)
  | .notify p t v => .notify p t (wrap len i (.leaf v))
  | .other t => .other t

/-- `poll`: `#(match f_i.poll(cx) { Ready(e) => return Ready(e.map_out(..).map_in(..)), Pending => {} })*
Pending` -/
def pollFrom (user : Bool) (len : Nat) : Nat → List Probe → Option (OutCmd × List Probe)
  | _, [] => none
  | i, f :: fs =>
    match f.queue with
    | c :: q => some (mapCmd user len i c, { f with queue := q } :: fs)
    | [] =>
      match pollFrom user len (i + 1) fs with
      | some (o, fs') => some (o, f :: fs')
      | none => none

def poll (user : Bool) (fs : List Probe) : Option (OutCmd × List Probe) :=
  pollFrom user fs.length 0 fs

/-! ## `ConnectionHandlerSelect` (select.rs) over probe handlers -/

/-- `on_behaviour_event`: `Left(e) => proto1.on_behaviour_event(e)`, `Right(e) => proto2…`; a
`ProbeHandler` logs the event and queues it as its echo.  `none` = ill-typed event. -/
def HTree.recv : HTree → Nest → Option (HTree × Entry)
  | .leaf f c out, .leaf v => some (.leaf f c (out ++ [v]), .hrecv f c v)
  | .sel l r, .left e =>
    match l.recv e with
    | some (l', en) => some (.sel l' r, en)
    | none => none
  | .sel l r, .right e =>
    match r.recv e with
    | some (r', en) => some (.sel l r', en)
    | none => none
  | _, _ => none

/-- `poll`: `proto1` first (`NotifyBehaviour(e)` ↦ `NotifyBehaviour(Either::Left(e))`), then
`proto2` (`Either::Right`), else `Pending` -/
def HTree.poll : HTree → Option (HTree × Nest)
  | .leaf _ _ [] => none
  | .leaf f c (v :: out) => some (.leaf f c out, .leaf v)
  | .sel l r =>
    match l.poll with
    | some (l', e) => some (.sel l' r, .left e)
    | none =>
      match r.poll with
      | some (r', e) => some (.sel l r', .right e)
      | none => none

/-! ## The machine driven by the harness' line protocol -/

structure St where
  user : Bool := false
  fields : List Probe := []
  conns : List (Nat × HTree) := []
  deriving Repr

inductive Op where
  /-- harness move: commands appended to the fields' queues -/
  | mvPush (items : List (Nat × Cmd))
  /-- any other harness move (no effect on the derived code's own state) -/
  | mvOther
  | swarm (ev : String)
  | decide (pt : Point) (c : Nat) (deny : List Bool) (addrs : List (List String))
  | fromHandler (c : Nat) (peer : String) (e : Nest)
  | poll
  | hrecv (c : Nat) (e : Nest)
  | hemit (c : Nat)
  | bad
  deriving Repr

inductive Out where
  | ok
  | log (l : List Entry)
  | decided (l : List Entry) (denied : Bool)
  | addrs (l : List Entry) (r : Option (List String))
  | cmd (c : Option OutCmd)
  | hev (e : Option Nest)
  | bad
  deriving Repr, DecidableEq

def Script.setDeny (pt : Point) (s : Script) (b : Bool) : Script :=
  match pt with
  | .pendIn => { s with denyPendIn := b }
  | .pendOut => { s with denyPendOut := b }
  | .estIn => { s with denyEstIn := b }
  | .estOut => { s with denyEstOut := b }

/-- the harness scripted the fields' answers (`mv script`); the call op repeats them -/
def applyScript (pt : Point) : List Probe → List Bool → List (List String) → List Probe
  | [], _, _ => []
  | f :: fs, b :: bs, a :: as =>
    { f with script := { (f.script.setDeny pt b) with addrs := a } } :: applyScript pt fs bs as
  | f :: fs, b :: bs, [] => { f with script := f.script.setDeny pt b } :: applyScript pt fs bs []
  | f :: fs, [], _ => f :: fs

def pushCmd : List Probe → Nat → Cmd → List Probe
  | [], _, _ => []
  | f :: fs, 0, c => { f with queue := f.queue ++ [c] } :: fs
  | f :: fs, i + 1, c => f :: pushCmd fs i c

def lookup {α : Type} (c : Nat) : List (Nat × α) → Option α
  | [] => none
  | (k, v) :: r => if k = c then some v else lookup c r

def setConn {α : Type} (c : Nat) (v : α) : List (Nat × α) → List (Nat × α)
  | [] => [(c, v)]
  | (k, w) :: r => if k = c then (c, v) :: r else (k, w) :: setConn c v r

def step (s : St) : Op → St × Out
  | .mvPush items => ({ s with fields := items.foldl (fun fs it => pushCmd fs it.1 it.2) s.fields }, .ok)
  | .mvOther => (s, .ok)
  | .swarm ev => (s, .log (onSwarmEvent s.fields ev))
  | .decide pt c d a =>
    let fs := applyScript pt s.fields d a
    let s := { s with fields := fs }
    match pt with
    | .pendIn => let r := pendIn fs c; (s, .decided r.1 r.2.isNone)
    | .pendOut => let r := pendOut fs c; (s, .addrs r.1 r.2)
    | pt =>
      let r := est pt fs c
      match r.2 with
      | some (some h) => ({ s with conns := setConn c h s.conns }, .decided r.1 false)
      | some none => (s, .decided r.1 false)
      | none => (s, .decided r.1 true)
  | .fromHandler c p e => (s, .log (onHandlerEvent s.fields.length c p e))
  | .poll =>
    match poll s.user s.fields with
    | some (o, fs) => ({ s with fields := fs }, .cmd (some o))
    | none => (s, .cmd none)
  | .hrecv c e =>
    match lookup c s.conns with
    | none => (s, .bad)
    | some h =>
      match h.recv e with
      | some (h', en) => ({ s with conns := setConn c h' s.conns }, .log [en])
      | none => (s, .log [.unreachable])
  | .hemit c =>
    match lookup c s.conns with
    | none => (s, .bad)
    | some h =>
      match h.poll with
      | some (h', e) => ({ s with conns := setConn c h' s.conns }, .hev (some e))
      | none => (s, .hev none)
  | .bad => (s, .bad)

def St.init (n : Nat) (user : Bool) : St :=
  { user := user, fields := List.replicate n {}, conns := [] }

/-! ## The executable Spec: the property in closed form, per field index

State of the monitor: the number of fields, the commands queued per field (from the harness'
`push` moves) and, per connection, the events each handler component has received and not yet
echoed.  No `Either`s, no patterns, no select trees: component `i` of `n` is addressed by the
index arithmetic of `decode`. -/

structure Flat where
  n : Nat := 0
  user : Bool := false
  queues : List (List Cmd) := []
  conns : List (Nat × List (List Nat)) := []
  deriving Repr

/-- number of leading `Left`s and what is below them -/
def Nest.spine : Nest → Nat × Nest
  | .left e => let r := e.spine; (r.1 + 1, r.2)
  | e => (0, e)

/-- which of `n` components does a nested event belong to, and its `u32` payload:
`Left^(n-1)(v)` ↦ 0, `Left^k(Right(v))` ↦ `n-1-k` -/
def decode (n : Nat) (e : Nest) : Option (Nat × Nat) :=
  match e.spine with
  | (k, .leaf v) => if k + 1 = n then some (0, v) else none
  | (k, .right (.leaf v)) => if k + 1 < n then some (n - 1 - k, v) else none
  | _ => none

def firstDeny (d : List Bool) : Option Nat := d.findIdx? (· = true)

/-- the calls a decision point must make: every field before the first denier is asked (and says
ok), the first denier is asked, nobody after it -/
def expectLog (pt : Point) (c n : Nat) (d : List Bool) : List Entry :=
  match firstDeny d with
  | some k => (List.range k).map (fun i => .decide pt i c false) ++ [.decide pt k c true]
  | none => (List.range n).map fun i => .decide pt i c false

/-- the first non-empty queue: its index, its head, and the queues with that head removed -/
def firstPop {α : Type} : List (List α) → Option (Nat × α × List (List α))
  | [] => none
  | (v :: q) :: qs => some (0, v, q :: qs)
  | [] :: qs =>
    match firstPop qs with
    | some (i, v, qs') => some (i + 1, v, [] :: qs')
    | none => none

def pushAt {α : Type} : List (List α) → Nat → α → List (List α)
  | [], _, _ => []
  | q :: qs, 0, v => (q ++ [v]) :: qs
  | q :: qs, i + 1, v => q :: pushAt qs i v

/-- the new monitor state and the one output the property allows (`none` = the op itself is
malformed / ill-typed, which the harness never produces) -/
def expect (t : Flat) : Op → Flat × Option Out
  | .mvPush items => ({ t with queues := items.foldl (fun qs it => pushAt qs it.1 it.2) t.queues }, some .ok)
  | .mvOther => (t, some .ok)
  | .swarm ev => (t, some (.log ((List.range t.n).map fun i => .swarm i ev)))
  | .decide pt c d a =>
    if d.length ≠ t.n then (t, none) else
    let denied := (firstDeny d).isSome
    let l := expectLog pt c t.n d
    match pt with
    | .pendIn => (t, some (.decided l denied))
    | .pendOut => (t, some (.addrs l (if denied then none else some ((a.take t.n).flatten))))
    | _ =>
      (if denied ∨ t.n = 0 then t else { t with conns := setConn c (List.replicate t.n []) t.conns },
       some (.decided l denied))
  | .fromHandler c p e =>
    match decode t.n e with
    | some (i, v) => (t, some (.log [.fromHandler i c p (.leaf v)]))
    | none => (t, none)
  | .poll =>
    match firstPop t.queues with
    | none => (t, some (.cmd none))
    | some (i, cmd, qs) => ({ t with queues := qs }, some (.cmd (some (mapCmd t.user t.n i cmd))))
  | .hrecv c e =>
    match lookup c t.conns, decode t.n e with
    | some qs, some (i, v) => ({ t with conns := setConn c (pushAt qs i v) t.conns }, some (.log [.hrecv i c v]))
    | _, _ => (t, none)
  | .hemit c =>
    match lookup c t.conns with
    | none => (t, none)
    | some qs =>
      match firstPop qs with
      | none => (t, some (.hev none))
      | some (i, v, qs') => ({ t with conns := setConn c qs' t.conns }, some (.hev (some (wrap t.n i (.leaf v)))))
  | .bad => (t, none)

/-- the Spec as a trace monitor over the IMPLEMENTATION's outputs -/
def spec (t : Flat) (op : Op) (out : Out) : Flat × Bool :=
  let r := expect t op
  (r.1, r.2 = some out)

def Flat.init (n : Nat) (user : Bool) : Flat :=
  { n := n, user := user, queues := List.replicate n [], conns := [] }

/-- failure key of the Spec per op kind -/
def Op.key : Op → String
  | .mvPush _ | .mvOther => "move"
  | .swarm _ => "swarm_event_all"
  | .decide .pendOut _ _ _ => "addresses_concat"
  | .decide _ _ _ _ => "deny_iff"
  | .fromHandler _ _ _ => "handler_event_routed"
  | .poll => "poll_mapping"
  | .hrecv _ _ => "notify_reaches_component"
  | .hemit _ => "select_wraps_component"
  | .bad => "unparsable"

end C58
