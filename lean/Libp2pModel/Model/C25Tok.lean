import Libp2pModel.Model.C25
import Libp2pModel.Common.Drv
/-!
Token syntax shared by the mplex drivers (C25, C26, C24): byte strings (`-` | `+`-joined parts, a part
being lowercase hex or `rXXxN` = N copies of byte XX; the canonical printer emits `rXXxN` for runs of
≥ 32 equal bytes), frames `O:num:r`, `D:num:r:<bytes>`, `C:num:r`, `R:num:r` (comma-joined), decode
statuses.  All list traversals are tail recursive (1 MiB payloads).
-/
namespace C25.Tok
open Drv C25

def hexGo : List Char → List Nat → Option (List Nat)
  | [], acc => some acc.reverse
  | [_], _ => none
  | a :: b :: rest, acc =>
    match hexDigit a, hexDigit b with
    | some x, some y => hexGo rest ((16 * x + y) :: acc)
    | _, _ => none

def parsePart (s : String) : Option (List Nat) :=
  match s.toList with
  | 'r' :: a :: b :: 'x' :: n =>
    match hexDigit a, hexDigit b, (String.ofList n).toNat? with
    | some x, some y, some k => some (List.replicate k (16 * x + y))
    | _, _, _ => none
  | cs => hexGo cs []

def parseBytes (s : String) : Option (List Nat) :=
  if s = "-" then some [] else
  (s.splitOn "+").foldl (fun acc p =>
    match acc, parsePart p with
    | some a, some b => some (a ++ b)
    | _, _ => none) (some [])

/-- leading run of `b`: (count, rest) -/
def runOf (b : Nat) : List Nat → Nat → Nat × List Nat
  | [], k => (k, [])
  | c :: cs, k => if c = b then runOf b cs (k + 1) else (k, c :: cs)

def hex2 (b : Nat) : List Char := [hexChar ((b / 16) % 16), hexChar (b % 16)]

def flushHex (cur : List Nat) (parts : List String) : List String :=
  if cur.isEmpty then parts else String.ofList (cur.reverse.flatMap hex2) :: parts

partial def rleGo (bs : List Nat) (cur : List Nat) (parts : List String) : List String :=
  match bs with
  | [] => (flushHex cur parts).reverse
  | b :: _ =>
    let (k, rest) := runOf b bs 0
    if k ≥ 32 then
      rleGo rest [] (("r" ++ String.ofList (hex2 b) ++ "x" ++ toString k) :: flushHex cur parts)
    else
      rleGo rest (List.replicate k b ++ cur) parts

def showBytes (bs : List Nat) : String :=
  if bs.isEmpty then "-" else "+".intercalate (rleGo bs [] [])

def roleTok : Role → String
  | .dialer => "d"
  | .listener => "l"

def parseRole : String → Option Role
  | "d" => some .dialer
  | "l" => some .listener
  | _ => none

def showFrame : Frame → String
  | .opn i => s!"O:{i.num}:{roleTok i.role}"
  | .data i d => s!"D:{i.num}:{roleTok i.role}:{showBytes d}"
  | .close i => s!"C:{i.num}:{roleTok i.role}"
  | .reset i => s!"R:{i.num}:{roleTok i.role}"

def mkF (k : String) (num : Nat) (r : Role) (d : List Nat) : Option Frame :=
  match k with
  | "O" => some (.opn ⟨num, r⟩)
  | "D" => some (.data ⟨num, r⟩ d)
  | "C" => some (.close ⟨num, r⟩)
  | "R" => some (.reset ⟨num, r⟩)
  | _ => none

def parseFrame (s : String) : Option Frame :=
  match s.splitOn ":" with
  | [k, n, r] =>
    match n.toNat?, parseRole r with
    | some n, some r => if k = "D" then none else mkF k n r []
    | _, _ => none
  | ["D", n, r, d] =>
    match n.toNat?, parseRole r, parseBytes d with
    | some n, some r, some d => some (.data ⟨n, r⟩ d)
    | _, _, _ => none
  | _ => none

def showFrames (fs : List Frame) : String :=
  if fs.isEmpty then "-" else ",".intercalate (fs.map showFrame)

def parseFrames (s : String) : Option (List Frame) :=
  if s = "-" then some [] else (s.splitOn ",").mapM parseFrame

def showStatus : Status → String
  | .need => "need"
  | .err (.varint .overflow) => "err:Other:overflow"
  | .err (.varint .notMinimal) => "err:Other:notminimal"
  | .err (.lenTooBig n) => s!"err:InvalidData:len:{n}"
  | .err (.badType h) => s!"err:InvalidData:type:{h}"
  | .err .poisoned => "err:InvalidData:poisoned"
  | .err .panic => "panic"

def parseStatus (s : String) : Option Status :=
  match s.splitOn ":" with
  | ["need"] => some .need
  | ["err", "Other", "overflow"] => some (.err (.varint .overflow))
  | ["err", "Other", "notminimal"] => some (.err (.varint .notMinimal))
  | ["err", "InvalidData", "len", n] => n.toNat?.map fun n => .err (.lenTooBig n)
  | ["err", "InvalidData", "type", h] => h.toNat?.map fun h => .err (.badType h)
  | ["err", "InvalidData", "poisoned"] => some (.err .poisoned)
  | _ => none

def parseEnc (args : List String) : Option Frame :=
  match args with
  | [k, n, r, d] =>
    match n.toNat?, parseRole r, parseBytes d with
    | some n, some r, some d => mkF k n r d
    | _, _, _ => none
  | _ => none

end C25.Tok
