import Libp2pModel.Model.C14_NetLazy
/-!
# C14 — the byte-level network WITH the write path

`C14_Net`/`C14_NetLazy` send atomically.  The real futures do not: a message handed to the `Sink`
goes into a write buffer (`start_send`), is written to the stream in as many pieces as the stream
accepts (`poll_write_buffer`), and the future reads its next message only after the flush has
completed (`SendX → Flush → Recv` in `listener_select.rs`, `SendProtocol → FlushProtocol →
AwaitProtocol` in `dialer_select.rs`; `Negotiated::poll` flushes before it reads).  Here every side
has a write buffer; one poll of a side

1. writes at most `k` bytes of its write buffer to the wire (`k` = what the stream accepts now);
2. if the buffer is not empty yet, stops (`Pending` in the flush);
3. otherwise reads ONE frame if `n` readable bytes contain one (or sees EOF), reacts, and puts its
   answer — and, at the lazy exit, the application data — into the write buffer.

A real poll that handles several frames is several of these polls in a row.
`Proofs/C14NetW.lean`: every run of this system is a run of the atomic-send system.
-/
namespace C14
open Mss

structure WCfg where
  b : BCfg
  /-- write buffers: accepted by the `Sink`, not yet written to the wire -/
  dW : Bytes
  lW : Bytes
  deriving DecidableEq, Repr

inductive WMove where
  | pollD (k n : Nat)
  | pollL (k n : Nat)
  deriving DecidableEq, Repr

/-- the reading part of one poll: `(new state, unconsumed inbound bytes, messages to send)` -/
def readOne {σ : Type} (step : σ → RdEv → σ × List Msg) (s : σ) (inb : Bytes) (closed : Bool)
    (n : Nat) : σ × Bytes × List Msg :=
  match frameDec (inb.take n) with
  | some (f, rest) =>
    let (s', out) := step s (frameEvent f)
    (s', rest ++ inb.drop n, out)
  | none =>
    if closed && decide (inb.length < n) then
      let (s', out) := step s (eofEvent inb)
      (s', [], out)
    else (s, inb, [])

def winit : WCfg := { b := binit, dW := [], lW := [] }

def wStepL (P : Params) (k n : Nat) (c : WCfg) : WCfg :=
  -- 1. flush
  let c1 : WCfg := { c with lW := c.lW.drop k,
                            b := { c.b with ld := ⟨c.b.ld.bytes ++ c.lW.take k, c.b.ld.closed⟩ } }
  if !(c.lW.drop k).isEmpty || lIsDone c.b.l then c1
  else
    let (l', inb, out) := readOne (lStep P.ls) c.b.l c.b.dl.bytes c.b.dl.closed n
    { c1 with lW := wireOfAll out,
              b := { c1.b with l := l', dl := ⟨inb, c.b.dl.closed⟩,
                               ld := ⟨c1.b.ld.bytes, c.b.ld.closed || lFailed l'⟩ } }

def wStepD (P : Params) (A : Bytes) (k n : Nat) (c : WCfg) : WCfg :=
  if !c.b.started then
    let (d', out) := dStart P.lazy P.ds
    { c with dW := wireOfAll out ++ (if isExpecting d' then A else []),
             b := { c.b with started := true, d := d',
                             dl := ⟨c.b.dl.bytes, c.b.dl.closed || dFailed d'⟩ } }
  else
    let c1 : WCfg := { c with dW := c.dW.drop k,
                              b := { c.b with dl := ⟨c.b.dl.bytes ++ c.dW.take k, c.b.dl.closed⟩ } }
    if !(c.dW.drop k).isEmpty || dIsDone c.b.d then c1
    else
      let (d', inb, out) := readOne (dStep P.lazy) c.b.d c.b.ld.bytes c.b.ld.closed n
      { c1 with dW := wireOfAll out ++ (if isExpecting d' && !isExpecting c.b.d then A else []),
                b := { c1.b with d := d', ld := ⟨inb, c.b.ld.closed⟩,
                                 dl := ⟨c1.b.dl.bytes, c.b.dl.closed || dFailed d'⟩ } }

def wstep (P : Params) (A : Bytes) (c : WCfg) : WMove → WCfg
  | .pollD k n => wStepD P A k n c
  | .pollL k n => wStepL P k n c

def wexec (P : Params) (A : Bytes) (sched : List WMove) : WCfg := sched.foldl (wstep P A) winit

/-- forget the write buffers: what is in a buffer is as good as sent -/
def wabs (c : WCfg) : BCfg :=
  { c.b with dl := ⟨c.b.dl.bytes ++ c.dW, c.b.dl.closed⟩, ld := ⟨c.b.ld.bytes ++ c.lW, c.b.ld.closed⟩ }

end C14
