import Libp2pModel.Common.Multiaddr
/-!
# C13 — observed-address translation (`swarm/src/translation.rs::_address_translation`)

`original.replace(0, f)` where `f` keeps going only if the first component of `original` is
ip4/ip6/dns/dns4/dns6 and the first component of `observed` is one of those too.
-/
namespace C13

def isHost : Proto → Bool
  | .ip4 _ | .ip6 _ | .dns _ | .dns4 _ | .dns6 _ => true
  | _ => false

/-- the model of `_address_translation` -/
def translate (orig obs : Maddr) : Option Maddr :=
  match orig with
  | [] => none
  | h :: t =>
    if isHost h then
      match obs with
      | [] => none
      | h' :: _ => if isHost h' then some (h' :: t) else none
    else none

/-- Executable statement of the property, evaluated on model AND implementation outputs:
the result is the original with only its first component replaced by the observed first
component, provided both are IP or DNS components; otherwise nothing. -/
def spec (orig obs : Maddr) (res : Option Maddr) : Bool :=
  let applicable := (orig.head?.map isHost).getD false && (obs.head?.map isHost).getD false
  match res with
  | none => !applicable
  | some r => applicable && r.head? == obs.head? && r.tail == orig.tail && r.length == orig.length

end C13
