import Libp2pModel.Common.Multiaddr
/-!
# C48 — relay rate limiters (`protocols/relay/src/behaviour/rate_limiter.rs`)

`GenericRateLimiter<Id>`: `buckets : HashMap<Id,u32>`, `refill_schedule : VecDeque<(Instant,Id)>`.
Instants and durations are natural numbers of nanoseconds (`Duration` has ns resolution;
`Instant::duration_since` saturates at zero = `Nat` subtraction).  Ids are natural numbers
(peer ids renamed to small integers; `IpAddr::V4(a) ↦ 2a`, `IpAddr::V6(a) ↦ 2a+1`).

The model mirrors the code after the repair `findings/C48-micros-truncation.fix.diff`
(token count computed from `as_nanos`); `newTokensMicros` is the pre-fix computation.
-/
namespace C48

def u32max : Nat := 4294967295

/-- `x.try_into().ok().unwrap_or(u32::MAX)` / `checked_add(..).unwrap_or(u32::MAX)` -/
def sat32 (n : Nat) : Nat := if n ≤ u32max then n else u32max

structure Cfg where
  /-- `NonZeroU32` -/
  limit : Nat
  /-- nanoseconds; `GenericRateLimiter::new` asserts it is not zero -/
  interval : Nat
  deriving Repr

abbrev Id := Nat

/-! ## `HashMap<Id,u32>` as an association list (only `get`, `insert`, `remove` are used) -/

def lookup : List (Id × Nat) → Id → Option Nat
  | [], _ => none
  | (k, v) :: rest, id => if k = id then some v else lookup rest id

def erase : List (Id × Nat) → Id → List (Id × Nat)
  | [], _ => []
  | (k, v) :: rest, id => if k = id then erase rest id else (k, v) :: erase rest id

def insert (m : List (Id × Nat)) (id : Id) (v : Nat) : List (Id × Nat) := (id, v) :: erase m id

structure St where
  /-- `refill_schedule`, front = head -/
  schedule : List (Nat × Id)
  buckets : List (Id × Nat)
  deriving Repr

def St.empty : St := ⟨[], []⟩

/-- `duration_since.as_nanos().checked_div(interval.as_nanos()).and_then(try_into).unwrap_or(u32::MAX)`
(repaired code; `interval ≠ 0`, so `checked_div` is `Some`) -/
def newTokens (interval dur : Nat) : Nat :=
  if interval = 0 then u32max else sat32 (dur / interval)

/-- the pre-fix computation: `as_micros()` on both sides -/
def newTokensMicros (interval dur : Nat) : Nat :=
  if interval / 1000 = 0 then u32max else sat32 ((dur / 1000) / (interval / 1000))

/-- The `loop` of `refill(now)`.  First list: what is left of the queue as it was on entry
(front first); second list: the entries pushed back by this call — all `(now, _)`, so once the
old entries are exhausted the front is not ready (`now - now = 0 < interval`) and the loop
returns; `none` = the `expect("Entry can only be removed via refill.")` panic.
`tk` is the new-token computation (`newTokens`, or `newTokensMicros` for the pre-fix code). -/
def refillLoop (c : Cfg) (tk : Nat → Nat → Nat) (now : Nat) :
    List (Nat × Id) → List (Nat × Id) → List (Id × Nat) → Option St
  | [], app, bk => some ⟨app, bk⟩
  | (last, id) :: rest, app, bk =>
    if c.interval ≤ now - last then
      match lookup bk id with
      | none => none
      | some balance =>
        let newBalance := sat32 (balance + tk c.interval (now - last))
        if newBalance < c.limit then
          refillLoop c tk now rest (app ++ [(now, id)]) (insert bk id newBalance)
        else
          refillLoop c tk now rest app (erase bk id)
    else some ⟨(last, id) :: rest ++ app, bk⟩

def refillG (c : Cfg) (tk : Nat → Nat → Nat) (st : St) (now : Nat) : Option St :=
  refillLoop c tk now st.schedule [] st.buckets

inductive Out where
  | accept (b : Bool)
  | panic
  deriving DecidableEq, Repr

/-- `GenericRateLimiter::try_next(id, now)` -/
def tryNextG (c : Cfg) (tk : Nat → Nat → Nat) (st : St) (id : Id) (now : Nat) : St × Out :=
  match refillG c tk st now with
  | none => (st, .panic)
  | some st1 =>
    match lookup st1.buckets id with
    | some balance =>
      -- `balance.checked_sub(1)`
      if 1 ≤ balance then (⟨st1.schedule, insert st1.buckets id (balance - 1)⟩, .accept true)
      else (st1, .accept false)
    | none =>
      (⟨st1.schedule ++ [(now, id)], insert st1.buckets id (c.limit - 1)⟩, .accept true)

def tryNext (c : Cfg) := tryNextG c newTokens
def tryNextMicros (c : Cfg) := tryNextG c newTokensMicros

/-! ## The two precast limiters -/

/-- `multiaddr_to_ip`: first `Ip4`/`Ip6` component, as a limiter key -/
def ipKey : Maddr → Option Id
  | [] => none
  | .ip4 a :: _ => some (2 * a)
  | .ip6 a :: _ => some (2 * a + 1)
  | _ :: rest => ipKey rest

/-- `new_per_peer`: `|peer, _addr, now| limiter.try_next(peer, now)` -/
def perPeer (c : Cfg) (st : St) (peer : Id) (_addr : Maddr) (now : Nat) : St × Out :=
  tryNext c st peer now

/-- `new_per_ip`: `|_peer, addr, now| multiaddr_to_ip(addr).map(|a| limiter.try_next(a, now)).unwrap_or(true)` -/
def perIp (c : Cfg) (st : St) (_peer : Id) (addr : Maddr) (now : Nat) : St × Out :=
  match ipKey addr with
  | some a => tryNext c st a now
  | none => (st, .accept true)

/-! ## Executable Spec: the ideal token bucket as a trace monitor

Per key: `(credit, t)` — credit in token·nanoseconds (one request costs `interval`), capped at
`limit·interval`, as of the key's last request at time `t`.  A key never seen has a full bucket.
Judging one request `(key, now) ↦ accepted`:
* `idle_accept`  — if the key was idle for `limit·interval` (or never seen) it must be accepted;
* `window_bound` — an accepted request must be payable by the ideal bucket (this is equivalent to
  "at most `limit + ⌊elapsed/interval⌋` accepted in every window", see `Props.C48`). -/

structure Mon where
  /-- key ↦ (credit, time of last request) ; two association lists sharing `lookup/insert` -/
  credit : List (Id × Nat)
  last : List (Id × Nat)
  /-- time of the latest request of any key (timestamps must be non-decreasing) -/
  tg : Nat
  /-- the hypothesis "non-decreasing timestamps" was broken: the property says nothing -/
  void : Bool
  deriving Repr

def Mon.empty : Mon := ⟨[], [], 0, false⟩

def creditAt (c : Cfg) (m : Mon) (id : Id) (now : Nat) : Nat :=
  match lookup m.credit id, lookup m.last id with
  | some cr, some t => min (c.limit * c.interval) (cr + (now - t))
  | _, _ => c.limit * c.interval

def idleAt (c : Cfg) (m : Mon) (id : Id) (now : Nat) : Bool :=
  match lookup m.last id with
  | some t => decide (c.limit * c.interval ≤ now - t)
  | none => true

/-- one judged request; verdict `"ok"` or `"FAIL:<clause>"` -/
def monStep (c : Cfg) (m : Mon) (id : Id) (now : Nat) (accepted : Bool) : Mon × String :=
  if m.void then (m, "ok")
  else if now < m.tg then ({ m with void := true }, "ok")
  else
    let cr := creditAt c m id now
    let verdict :=
      if idleAt c m id now && !accepted then "FAIL:idle_accept"
      else if accepted && decide (cr < c.interval) then "FAIL:window_bound"
      else "ok"
    let cr' := if accepted then cr - c.interval else cr
    (⟨insert m.credit id cr', insert m.last id now, now, false⟩, verdict)

/-- Spec for one call of a precast limiter.  `key = none` (address without IP under the per-IP
limiter) must be accepted. -/
def specStep (c : Cfg) (m : Mon) (key : Option Id) (now : Nat) (out : Out) : Mon × String :=
  match out with
  | .panic => (m, "FAIL:panic")
  | .accept b =>
    match key with
    | none => (m, if b then "ok" else "FAIL:no_ip_accept")
    | some id => monStep c m id now b

end C48
