import Libp2pModel.Model.SwarmSpec
import Libp2pModel.Model.SwarmLife
/-!
# Shared driver for the Swarm-core properties: model step + Spec monitors on the implementation's lines.
`machine pfx` reports only the violated clauses whose key starts with `pfx` (e.g. "C02:").
-/
namespace Swarm.Drv
open Swarm Swarm.Spec

structure Mon where
  peers : List (List Nat) := []
  h : Hist := {}
  op : Option Op := none
  line : Option IO.ImplLine := none
  /-- the proved life-cycle monitor (`Swarm.Life`), run on the implementation's ordered log;
  `none` once it has rejected -/
  life : Option Life.LM := some { st := fun _ => .fresh, q := none }

def verdict (pfx : String) (vs : List String) : String :=
  match vs.filter (·.startsWith pfx) with
  | [] => "ok"
  | v :: _ => "FAIL:" ++ v

def onMain (pfx : String) (m : Mon) (op : Op) (toks : List String) : Mon × String :=
  match IO.parseImpl toks with
  | none => (m, if toks.head? == some "panic" then "FAIL:" ++ pfx ++ "panic" else "FAIL:" ++ pfx ++ "unparsable_impl_line")
  | some l =>
    let poBefore := m.h.count (fun s => match s with | .pendOut _ => true | _ => false)
    let st0 : State := { (State.init m.peers) with listened := m.h.listened }
    let (h, vs) : Hist × List String :=
      match op with
      | .dial viaBeh c peer0 addrs ext beh _ _ =>
        let peer := (dialPeer st0 peer0 addrs).getD none
        let pb := match peer with | some p => m.peers.getD p [] | none => []
        let v := checkDial m.h c peer pb viaBeh (addrs ++ (if ext then beh else [])) l poBefore
        let h := { m.h with curDial := l.id }
        let h := if l.res == "ok" then h.set (l.id.getD 0) (.pendOut peer) else h
        (h, v)
      | .resolve k p _ => ({ m.h with curDial := none }, checkResolve m.h true k p l)
      | .resolveIn k p _ => ({ m.h with curDial := none }, checkResolve m.h false k p l)
      | _ => ({ m.h with curDial := none }, [])
    let vs := vs ++ checkDenied m.h l.log
    ({ m with h, line := some l }, verdict pfx vs)

def onOrder (pfx : String) (m : Mon) (toks : List String) : Mon × String :=
  let raw := match toks with
    | [t] => IO.parseLog t
    | _ => []
  let (h, v1) := m.h.feedAll raw
  -- a synchronously rejected dial: `Err(..)` from `Swarm::dial`, or a behaviour-requested dial
  -- that produced no `Dialing` event
  let sync : Option Nat := match m.line with
    | some l =>
      if l.res.startsWith "err:" then l.id
      else if l.res == "queued" && !(raw.any fun e => match e with | .sDialing c _ => some c == l.id | _ => false) then l.id
      else none
    | none => none
  let (h, v2) := h.endStep sync
  let v3 := match m.line with
    | some l => h.checkObs l
    | none => []
  let life' := m.life.bind (fun lm => (Life.feedAll lm raw).bind Life.endStep)
  let vLife := match m.life, life' with
    | some _, none => ["C01:lifecycle_monitor_rejects"]
    | _, _ => []
  let vUnknown := if raw.any (fun e => match e with | .other _ => true | _ => false) then [pfx ++ "unparsable_event"] else []
  ({ m with h, line := none, op := none, life := life' }, verdict pfx (v1 ++ v2 ++ v3 ++ vLife ++ vUnknown))

/-- the raw (ordered) log line: the model's events in the order the model produces them, except that
`mux,closed` entries (emitted by detached close tasks whenever they get polled) are moved to the end -/
def renderRaw (evs : List Ev) : String :=
  let isMux (e : Ev) : Bool := match e with | .muxClosed .. => true | _ => false
  let l := ((evs.filter (!isMux ·)).map IO.renderEv) ++ IO.sortStrings ((evs.filter isMux).map IO.renderEv)
  if l.isEmpty then "-" else "|".intercalate l

def machine (pfx : String) : _root_.Drv.Machine (State × List Ev) Mon where
  init cfg := (State.init (IO.parsePeers cfg), [])
  specInit cfg := { peers := IO.parsePeers cfg }
  op st args :=
    match args with
    | ["order"] => (st, renderRaw st.2)
    | "race" :: k :: p :: d :: dp :: _ =>
      match k.toNat?, p.toNat?, IO.parseB d, dp.toNat?, IO.oracle "order" args, IO.oracle "aborts" args with
      | some k, some p, some d, some dp, some order, some aborts =>
        match race st.1 k p d dp order aborts with
        | some (s', evs) => ((s', evs), IO.renderStep s' (.okErr (st.1.isConnected dp)) evs)
        | none => (st, "bad-op")
      | _, _, _, _, _, _ => (st, "bad-op")
    | "closeHold" :: c :: _ =>
      match c.toNat? with
      | some c => let (s', r, evs) := xstep st.1 (.closeHold c); ((s', evs), IO.renderStep s' r evs)
      | none => (st, "bad-op")
    | "release" :: c :: _ =>
      match c.toNat? with
      | some c => let (s', r, evs) := xstep st.1 (.release c); ((s', evs), IO.renderStep s' r evs)
      | none => (st, "bad-op")
    | _ =>
      match IO.parseOp args with
      | none => (st, "bad-op")
      | some op =>
        let (s', r, evs) := step st.1 op
        ((s', evs), IO.renderStep s' r evs)
  spec m args outs :=
    match args with
    | ["order"] => onOrder pfx m outs
    | "race" :: k :: p :: d :: _ =>
      -- judged like the resolution it contains (C05 clauses) plus the history monitors on the order line
      match k.toNat?, p.toNat?, IO.parseB d with
      | some k, some p, some d => onMain pfx { m with op := some (.resolve k p d) } (.resolve k p d) outs
      | _, _, _ => (m, "FAIL:" ++ pfx ++ "unparsable_op")
    | "closeHold" :: _ => onMain pfx { m with op := none } (.newAddr []) outs
    | "release" :: _ => onMain pfx { m with op := none } (.newAddr []) outs
    | _ =>
      match IO.parseOp args with
      | none => (m, "FAIL:" ++ pfx ++ "unparsable_op")
      | some op => onMain pfx { m with op := some op } op outs

end Swarm.Drv
