/-!
# C32 — gossipsub `BackoffStorage` (`protocols/gossipsub/src/backoff.rs`)

Transcription of `BackoffStorage::{new, update_backoff, heartbeat, is_backoff_with_slack,
get_backoff_time}` as it is in the tree.

Modelling decisions (all visible in the correspondence run):
* instants are `Nat` nanoseconds since the start of the case; `limit` is the greatest
  representable `Instant` (`Instant::checked_add` fails beyond it: `tv_sec : i64`);
* durations are `Nat` nanoseconds; `Duration * u32` panics when the product does not fit
  (`durLimit` = 2^64 s);
* the nested `HashMap<TopicHash, HashMap<PeerId, _>>` is one finite map on pairs
  (`Key = topic × peer`); empty inner maps are not observable through the API;
* a `HashSet` slot of the ring is a list with set-insert / remove-all;
* `usize` arithmetic of the slot index is `Nat` (the generator keeps `d / hb` below 2^63).
-/
namespace C32

abbrev Key := Nat × Nat

structure State where
  /-- `backoffs`: pair ↦ (backoff instant, heartbeat index) -/
  backoffs : Key → Option (Nat × Nat)
  /-- `backoffs_by_heartbeat` -/
  ring : List (List Key)
  /-- `heartbeat_index` -/
  hi : Nat
  /-- `heartbeat_interval` (ns) -/
  hb : Nat
  /-- `backoff_slack` -/
  slack : Nat
  /-- greatest representable instant -/
  limit : Nat

/-- `Duration` holds fewer than 2^64 seconds -/
def durLimit : Nat := 2 ^ 64 * 10 ^ 9

/-- `u128::div_ceil` (for `b > 0`) -/
def divCeil (a b : Nat) : Nat := if a % b = 0 then a / b else a / b + 1

/-- `BackoffStorage::heartbeats` -/
def heartbeats (d hb : Nat) : Nat := divCeil d hb

/-- `Instant::checked_add` -/
def checkedAdd (limit i d : Nat) : Option Nat := if i + d ≤ limit then some (i + d) else none

/-- `BackoffStorage::new`; `none` = panic (division by zero in `heartbeats`) -/
def new (limit prune hb slack : Nat) : Option State :=
  if hb = 0 then none
  else some
    { backoffs := fun _ => none
      ring := List.replicate (heartbeats prune hb + slack + 1) []
      hi := 0, hb := hb, slack := slack, limit := limit }

/-- `HashSet::insert` -/
def setInsert (l : List Key) (k : Key) : List Key := if k ∈ l then l else l ++ [k]

/-- `HashSet::remove` -/
def setRemove (l : List Key) (k : Key) : List Key := l.filter (fun x => x ≠ k)

def setMap (b : Key → Option (Nat × Nat)) (k : Key) (v : Option (Nat × Nat)) : Key → Option (Nat × Nat) :=
  fun k' => if k' = k then v else b k'

/-- the closure `insert_into_backoffs_by_heartbeat` -/
def insertIntoRing (hi hb slack : Nat) (k : Key) (d : Nat) (ring : List (List Key)) :
    List (List Key) × Nat :=
  let index := (hi + heartbeats d hb + slack) % ring.length
  (ring.set index (setInsert (ring.getD index []) k), index)

/-- `update_backoff` at time `now` -/
def update (s : State) (now : Nat) (k : Key) (d : Nat) : State :=
  match checkedAdd s.limit now d with
  | none => s   -- "ignoring oversized prune backoff"
  | some instant =>
    match s.backoffs k with
    | some (backoff, index) =>
      if backoff < instant then
        let ring1 := s.ring.set index (setRemove (s.ring.getD index []) k)
        let r := insertIntoRing s.hi s.hb s.slack k d ring1
        { s with ring := r.1, backoffs := setMap s.backoffs k (some (instant, r.2)) }
      else s
    | none =>
      let r := insertIntoRing s.hi s.hb s.slack k d s.ring
      { s with ring := r.1, backoffs := setMap s.backoffs k (some (instant, r.2)) }

/-- the `keep` decision of the `retain` closure in `heartbeat`. `ovf` is the value taken
when `backoff_time + slack` is not representable: `true` in the tree as repaired
(`.unwrap_or(true)`), `false` before the repair. -/
def keepOf (ovf : Bool) (limit slackDur now : Nat) (e : Option (Nat × Nat)) : Bool :=
  match e with
  | some (bt, _) =>
    match checkedAdd limit bt slackDur with
    | some b => decide (b > now)
    | none => ovf
  | none => false

/-- `s.retain(|pair| …)`: sequential over the slot, removing the dropped pairs from `backoffs` -/
def retain (ovf : Bool) (limit slackDur now : Nat) :
    List Key → (Key → Option (Nat × Nat)) → List Key × (Key → Option (Nat × Nat))
  | [], b => ([], b)
  | k :: ks, b =>
    if keepOf ovf limit slackDur now (b k) then
      let r := retain ovf limit slackDur now ks b
      (k :: r.1, r.2)
    else
      retain ovf limit slackDur now ks (setMap b k none)

/-- `heartbeat` at time `now`; `none` = panic (`heartbeat_interval * backoff_slack` overflows) -/
def heartbeatG (ovf : Bool) (s : State) (now : Nat) : Option State :=
  if durLimit ≤ s.hb * s.slack then none
  else
    let r := retain ovf s.limit (s.hb * s.slack) now (s.ring.getD s.hi []) s.backoffs
    some { s with ring := s.ring.set s.hi r.1, backoffs := r.2, hi := (s.hi + 1) % s.ring.length }

/-- the code as repaired -/
def heartbeat := heartbeatG true
/-- the code before the repair (see `findings/C32-slack-overflow.md`) -/
def heartbeatBuggy := heartbeatG false

def isBackoffWithSlack (s : State) (k : Key) : Bool := (s.backoffs k).isSome

def getBackoffTime (s : State) (k : Key) : Option Nat := (s.backoffs k).map (·.1)

/-- the test `handle_graft` applies before penalising (behaviour.rs):
`get_backoff_time(..).is_some_and(|t| t > now)` -/
def penalisesGraft (s : State) (k : Key) (now : Nat) : Bool :=
  match getBackoffTime s k with
  | some t => decide (t > now)
  | none => false

/-! ## op machine -/

inductive Op where
  | update (k : Key) (d : Nat)
  | heartbeat
  | query
deriving Repr

/-- one timed op; a panicking heartbeat leaves the storage as it was -/
def step (s : State) (o : Nat × Op) : State :=
  match o.2 with
  | .update k d => update s o.1 k d
  | .heartbeat => (heartbeat s o.1).getD s
  | .query => s

def exec (s : State) (ops : List (Nat × Op)) : State := ops.foldl step s

/-! ## executable Spec: a trace monitor over the outputs of the implementation -/

structure Mon where
  /-- greatest accepted expiry `τ + d` so far -/
  exp : Key → Nat
  /-- some update of the pair was accepted -/
  has : Key → Bool
  /-- heartbeats that took place at a time `≥ exp + slack·hb` since the last accepted update -/
  cnt : Key → Nat
  /-- ring size `⌈prune/hb⌉ + slack + 1` -/
  len : Nat
  slackDur : Nat
  limit : Nat
  /-- `heartbeat_interval * backoff_slack` overflows: heartbeats panic -/
  dead : Bool

def monNew (limit prune hb slack : Nat) : Mon :=
  { exp := fun _ => 0, has := fun _ => false, cnt := fun _ => 0,
    len := heartbeats prune hb + slack + 1, slackDur := hb * slack, limit := limit,
    dead := decide (durLimit ≤ hb * slack) }

def setNat (f : Key → Nat) (k : Key) (v : Nat) : Key → Nat := fun k' => if k' = k then v else f k'
def setBool (f : Key → Bool) (k : Key) (v : Bool) : Key → Bool := fun k' => if k' = k then v else f k'

def monStep (m : Mon) (o : Nat × Op) : Mon :=
  match o.2 with
  | .update k d =>
    if o.1 + d ≤ m.limit then
      { m with exp := setNat m.exp k (max (m.exp k) (o.1 + d)), has := setBool m.has k true,
               cnt := setNat m.cnt k 0 }
    else m
  | .heartbeat =>
    if m.dead then m
    else { m with cnt := fun k => if m.has k && decide (m.exp k + m.slackDur ≤ o.1) then m.cnt k + 1 else m.cnt k }
  | .query => m

/-- The property for one pair, evaluated on what the implementation reports at time `now`:
`w` = `is_backoff_with_slack`, `t` = `get_backoff_time`. Returns the failed clause. -/
def checkKey (m : Mon) (now : Nat) (k : Key) (w : Bool) (t : Option Nat) : Option String :=
  if w ≠ t.isSome then some "inconsistent"
  else if !m.has k && w then some "spurious"
  -- never shortened: while the accepted duration has not elapsed the pair is backed off, until ≥ τ+d
  else if m.has k && decide (now < m.exp k) && !(w && (match t with | some bt => decide (m.exp k ≤ bt) | none => false)) then
    some "shortened"
  else if w && (match t with | some bt => decide (bt ≠ m.exp k) | none => false) then some "wrong_time"
  -- eventually forgotten: a full ring revolution after expiry + slack
  else if decide (m.len ≤ m.cnt k) && w then some "not_forgotten"
  else none

def spec (m : Mon) (now : Nat) (keys : List Key) (w : Key → Bool) (t : Key → Option Nat) : Option String :=
  keys.findSome? (fun k => checkKey m now k (w k) (t k))

end C32
