import Libp2pModel.Model.C26
/-!
# C26/C24 — the executable Spec: a trace monitor over the IMPLEMENTATION's outputs

It sees only what an outside observer sees: the configuration, the bytes the remote wrote, the
operations, their results and the frames written back.  Clauses:

* `substreams_exceeded` — handles handed out and not yet dropped never exceed `max_substreams`;
* `foreign_or_reordered_bytes` — the bytes read from a substream are a prefix of the bytes the
  remote sent on that substream (since the `Open` that created it), so never another substream's
  bytes, never reordered, duplicated or with a hole;
* `block_data_lost` — with `MaxBufferBehaviour::Block`, when a read reports end-of-stream every byte
  the remote sent on the substream before its `Close`/`Reset` has been delivered;
* `reset_eof_early` — with `ResetStream`, end-of-stream is a prefix as well (covered by the
  second clause) and the substream then stays at end-of-stream;
* `panic` — no operation panics.
-/
namespace C26
open C25 (Sid Role Frame)

/-- what the remote sent on one substream id, one *generation* (from one `Open` to the next) -/
structure RStream where
  id : Sid
  all : List Nat := []           -- payload bytes of all Data frames the remote wrote on this id
  fins : List Nat := []          -- `all.length` at each Close/Reset the remote wrote (newest first)
  /-- opened by the local side: the remote may have sent bytes on this id before the local `Open`
  existed; those are discarded if they were taken from the connection before it, so what is read
  is a prefix of *a suffix* of `sent` -/
  localOpened : Bool := false
  deriving Repr, Inhabited

/-- a live handle on the local side -/
structure RHandle where
  id : Sid
  got : List Nat := []           -- bytes read so far
  eof : Bool := false            -- a read reported end of stream
  deriving Repr, Inhabited

structure SpecSt where
  cfg : Cfg
  dec : C25.St × List Nat := (.begin, [])
  live : List RHandle := []
  /-- newest generation first -/
  streams : List RStream := []
  failed : Bool := false         -- an operation reported a connection error / the connection was closed
  deriving Repr, Inhabited

inductive SpecEv
  | wire (bytes : List Nat)
  | op (o : Op)
  | other
  deriving Repr, Inhabited

/-- update the newest generation of `id` (create one if there is none) -/
def updNewest (l : List RStream) (id : Sid) (g : RStream → RStream) : List RStream :=
  match l with
  | [] => [g { id := id }]
  | r :: rest => if r.id == id then g r :: rest else r :: updNewest rest id g

/-- account for one frame written by the remote -/
def noteFrame (l : List RStream) (f : Frame) : List RStream :=
  match f with
  | .opn rid => { id := rid.mirror } :: l
  | .data rid d => updNewest l rid.mirror (fun r => { r with all := r.all ++ d })
  | .close rid | .reset rid => updNewest l rid.mirror (fun r => { r with fins := r.all.length :: r.fins })

/-- bytes sent before the remote's first Close/Reset (everything, if there is none yet) -/
def RStream.sent (r : RStream) : List Nat :=
  match r.fins.getLast? with
  | some p => r.all.take p
  | none => r.all

def RStream.fin (r : RStream) : Bool := !r.fins.isEmpty

def isPrefix : List Nat → List Nat → Bool
  | [], _ => true
  | _ :: _, [] => false
  | a :: as, b :: bs => a == b && isPrefix as bs

/-- `got` is a prefix of some suffix of `sent` -/
def prefixOfSuffix (got : List Nat) : List Nat → Bool
  | [] => got.isEmpty
  | b :: bs => isPrefix got (b :: bs) || prefixOfSuffix got bs

/-- `got` is a suffix of `sent` -/
def isSuffix (got sent : List Nat) : Bool := got.length ≤ sent.length && sent.drop (sent.length - got.length) == got

def getH (l : List RHandle) (id : Sid) : RHandle := (l.find? (fun h => h.id == id)).getD { id := id }
/-- replace the newest handle with this id -/
def putH (l : List RHandle) (h : RHandle) : List RHandle :=
  match l with
  | [] => [h]
  | x :: rest => if x.id == h.id then h :: rest else x :: putH rest h
/-- remove the newest handle with this id -/
def dropH (l : List RHandle) (id : Sid) : List RHandle :=
  match l with
  | [] => []
  | x :: rest => if x.id == id then rest else x :: dropH rest id

def specStep (t : SpecSt) (ev : SpecEv) (res : Out) (_out : List Frame) : SpecSt × String :=
  if res = .panic then (t, "panic") else
  match ev with
  | .wire bytes =>
    let r := C25.drain t.dec.1 (t.dec.2 ++ bytes)
    ({ t with dec := (r.2.1, r.2.2.1), streams := r.1.foldl noteFrame t.streams }, "ok")
  | .other => (t, "ok")
  | .op o =>
    let t := match res with
      | .err _ => { t with failed := true }
      | _ => t
    match o, res with
    | .inbound, .sid id =>
      let t := { t with live := { id := id } :: t.live }
      (t, if t.live.length ≤ t.cfg.maxSubs then "ok" else "substreams_exceeded")
    | .outbound, .sid id =>
      let t := { t with live := { id := id } :: t.live,
                        streams := updNewest t.streams id (fun r => { r with localOpened := true }) }
      (t, if t.live.length ≤ t.cfg.maxSubs then "ok" else "substreams_exceeded")
    | .drop id, _ => ({ t with live := dropH t.live id }, "ok")
    | .closeConn, .unit => ({ t with failed := true }, "ok")
    | .read id _, .data d =>
      let h := getH t.live id
      let gens := t.streams.filter (fun r => r.id == id)
      if d.isEmpty then
        let t' := { t with live := putH t.live { h with eof := true } }
        if t.cfg.block && !t.failed && !(gens.any fun g => g.fin && (if g.localOpened then g.fins.any (fun p => isSuffix h.got (g.all.take p)) else g.sent == h.got)) then (t', "block_data_lost")
        else (t', "ok")
      else
        let got := h.got ++ d
        let t' := { t with live := putH t.live { h with got := got } }
        if h.eof then (t', "data_after_eof")
        else if gens.any (fun g => if g.localOpened then prefixOfSuffix got g.all else isPrefix got g.sent) then (t', "ok") else (t', "foreign_or_reordered_bytes")
    | _, _ => (t, "ok")

end C26
