import Libp2pModel.Model.Swarm
/-!
# Line-protocol rendering / parsing for the Swarm model (driver side; not used in theorems)
-/
namespace Swarm.IO
open Swarm

def b01 (b : Bool) : String := if b then "1" else "0"
def opt (p : Option Nat) : String := match p with | none => "none" | some n => toString n

def renderTErrs (l : List (Maddr × Bool)) : String :=
  ";".intercalate (l.map fun (a, ns) => Maddr.render a ++ "=" ++ (if ns then "NotSupported" else "Other"))

def renderDialErr : DialErr → String
  | .localPeerId => "LocalPeerId"
  | .noAddresses => "NoAddresses"
  | .condFalse => "DialPeerConditionFalse"
  | .aborted => "Aborted"
  | .wrongPeerId o => s!"WrongPeerId={o}"
  | .denied => "Denied"
  | .transport l => s!"Transport[{renderTErrs l}]"

def renderListenErr : ListenErr → String
  | .aborted => "Aborted" | .wrongPeerId => "WrongPeerId" | .localPeerId => "LocalPeerId"
  | .denied => "Denied" | .transport => "Transport"

def dir (out : Bool) : String := if out then "out" else "in"

def renderEv : Ev → String
  | .bPendingIn c d => s!"b,a,pendingIn,{c},{if d then "deny" else "ok"}"
  | .bPendingOut c d => s!"b,a,pendingOut,{c},{if d then "deny" else "ok"}"
  | .bEstIn c d => s!"b,a,estIn,{c},{if d then "deny" else "handler"}"
  | .bEstOut c d => s!"b,a,estOut,{c},{if d then "deny" else "handler"}"
  | .bEstablished c p o other failed => s!"b,a,Established,{c},{p},{dir o},other={other},failed={Maddr.renderList failed}"
  | .bClosed c p r e => s!"b,a,Closed,{c},{p},remaining={r},{if e then "err" else "clean"}"
  | .bDialFailure c p e => s!"b,a,DialFailure,{c},{opt p},{renderDialErr e}"
  | .bListenFailure c p e => s!"b,a,ListenFailure,{c},{opt p},{renderListenErr e}"
  | .bNewListenAddr a => s!"b,a,NewListenAddr,0,{Maddr.render a}"
  | .bExpiredListenAddr a => s!"b,a,ExpiredListenAddr,0,{Maddr.render a}"
  | .sEstablished c p o n failed => s!"s,Established,{c},{p},{dir o},num={n},failed={Maddr.renderList failed}"
  | .sClosed c p n cause => s!"s,Closed,{c},{p},num={n},{match cause with | 0 => "clean" | 1 => "err:IO" | _ => "err:KeepAliveTimeout"}"
  | .sIncoming c => s!"s,Incoming,{c}"
  | .sIncomingError c p e => s!"s,IncomingError,{c},{opt p},{renderListenErr e}"
  | .sOutgoingError c p e => s!"s,OutgoingError,{c},{opt p},{renderDialErr e}"
  | .sDialing c p => s!"s,Dialing,{c},{opt p}"
  | .sNewListenAddr a => s!"s,NewListenAddr,0,{Maddr.render a}"
  | .sExpiredListenAddr a => s!"s,ExpiredListenAddr,0,{Maddr.render a}"
  | .tdial a => s!"tdial,{Maddr.render a}"
  | .muxClosed d k => s!"mux,closed,{if d then "d" else "i"}{k}"
  | .other s => s

def renderRes : Res → String
  | .none => "res=-"
  | .ok id => s!"res=ok id={id}"
  | .err e id => s!"res=err:{renderDialErr e} id={id}"
  | .queued id => s!"res=queued id={id}"
  | .bool b => s!"res={b}"
  | .okErr b => s!"res={if b then "ok" else "err"}"
  | .badOp => "bad-op"

def sortStrings (l : List String) : List String := (l.toArray.qsort (· < ·)).toList

def renderObs (s : State) : String :=
  s!"pi={s.cPI} po={s.cPO} ei={s.cEI} eo={s.cEO} np={s.connectedPeers.length} peers={Drv.showNatList s.connectedPeers}"

/-- the canonical (sorted) impl line the harness prints for an op -/
def renderStep (s' : State) (r : Res) (evs : List Ev) : String :=
  match r with
  | .badOp => "bad-op"
  | _ =>
    let l := sortStrings (evs.map renderEv)
    s!"{renderRes r} log={if l.isEmpty then "-" else "|".intercalate l} {renderObs s'}"

/-! ### parsing ops -/

def parseCond : String → Option Cond
  | "always" => some .always | "disc" => some .disconnected
  | "notdialing" => some .notDialing | "dnd" => some .disconnectedAndNotDialing | _ => none

def parseOptNat (s : String) : Option (Option Nat) :=
  if s = "none" then some none else s.toNat?.map some

def parseB (s : String) : Option Bool := if s = "1" then some true else if s = "0" then some false else none

def oracle (key : String) (toks : List String) : Option (List Nat) :=
  match toks.findSome? (fun t => if t.startsWith (key ++ "=") then some (t.drop (key.length + 1)).toString else none) with
  | some v => Drv.natList v
  | none => some []

def parseOp (toks : List String) : Option Op := do
  let order ← oracle "order" toks
  let aborts ← oracle "aborts" toks
  match toks.filter (fun t => !(t.startsWith "order=" || t.startsWith "aborts=")) with
  | ["dial", via, c, p, addrs, ext, beh, deny, refuse] =>
    let c ← parseCond c
    let p ← parseOptNat p
    let addrs ← Maddr.parseList addrs
    let ext ← parseB ext
    let beh ← Maddr.parseList beh
    let deny ← parseB deny
    let refuse ← Maddr.parseList refuse
    pure (.dial (via == "beh") c p addrs ext beh deny refuse)
  | ["resolve", k, p, d] => pure (.resolve (← k.toNat?) (← p.toNat?) (← parseB d))
  | ["fail", k] => pure (.fail (← k.toNat?))
  | ["incoming", d] => pure (.incoming (← parseB d))
  | ["resolveIn", k, p, d] => pure (.resolveIn (← k.toNat?) (← p.toNat?) (← parseB d))
  | ["failIn", k] => pure (.failIn (← k.toNat?))
  | ["close", c] => pure (.close (← c.toNat?))
  | ["disconnect", p] => pure (.disconnect (← p.toNat?) order aborts)
  | ["remoteClose", c] => pure (.remoteClose (← c.toNat?))
  | ["newaddr", a] => pure (.newAddr (← Maddr.parse a))
  | ["expire", a] => pure (.expire (← Maddr.parse a))
  | ["behClose", p, one] =>
    let one ← if one = "all" then some none else one.toNat?.map some
    pure (.behClose (← p.toNat?) one order aborts)
  | _ => none

/-! ### parsing the implementation's log back into events (for the Spec monitors) -/

def parseTErrs (s : String) : Option (List (Maddr × Bool)) :=
  if s = "" then some [] else
  (s.splitOn ";").mapM fun item =>
    match item.splitOn "=" with
    | [a, "NotSupported"] => (Maddr.parse a).map (·, true)
    | [a, "Other"] => (Maddr.parse a).map (·, false)
    | _ => none

def parseDialErr (s : String) : Option DialErr :=
  if s = "LocalPeerId" then some .localPeerId
  else if s = "NoAddresses" then some .noAddresses
  else if s = "DialPeerConditionFalse" then some .condFalse
  else if s = "Aborted" then some .aborted
  else if s = "Denied" then some .denied
  else if s.startsWith "WrongPeerId=" then (s.drop 12).toString.toNat?.map .wrongPeerId
  else if s.startsWith "Transport[" && s.endsWith "]" then
    (parseTErrs ((s.drop 10).toString.dropEnd 1).toString).map .transport
  else none

def parseListenErr : String → Option ListenErr
  | "Aborted" => some .aborted | "WrongPeerId" => some .wrongPeerId | "LocalPeerId" => some .localPeerId
  | "Denied" => some .denied | "Transport" => some .transport | _ => none

def parseDir : String → Option Bool
  | "out" => some true | "in" => some false | _ => none

def kv (key s : String) : Option String :=
  if s.startsWith (key ++ "=") then some (s.drop (key.length + 1)).toString else none

def parseCause : String → Option Nat
  | "clean" => some 0 | "err:IO" => some 1 | "err:KeepAliveTimeout" => some 2 | _ => none

def parseMux (s : String) : Option (Bool × Nat) :=
  if s.startsWith "d" then (s.drop 1).toString.toNat?.map (true, ·)
  else if s.startsWith "i" then (s.drop 1).toString.toNat?.map (false, ·)
  else none

def parseEv (s : String) : Ev :=
  let r : Option Ev :=
    match s.splitOn "," with
    | ["b", "a", "pendingIn", c, d] => do pure (.bPendingIn (← c.toNat?) (d == "deny"))
    | ["b", "a", "pendingOut", c, d] => do pure (.bPendingOut (← c.toNat?) (d == "deny"))
    | ["b", "a", "estIn", c, d] => do pure (.bEstIn (← c.toNat?) (d == "deny"))
    | ["b", "a", "estOut", c, d] => do pure (.bEstOut (← c.toNat?) (d == "deny"))
    | ["b", "a", "Established", c, p, d, o, f] => do
      pure (.bEstablished (← c.toNat?) (← p.toNat?) (← parseDir d) (← (← kv "other" o).toNat?) (← Maddr.parseList (← kv "failed" f)))
    | ["b", "a", "Closed", c, p, r, e] => do
      pure (.bClosed (← c.toNat?) (← p.toNat?) (← (← kv "remaining" r).toNat?) (e == "err"))
    | ["b", "a", "DialFailure", c, p, e] => do pure (.bDialFailure (← c.toNat?) (← parseOptNat p) (← parseDialErr e))
    | ["b", "a", "ListenFailure", c, p, e] => do pure (.bListenFailure (← c.toNat?) (← parseOptNat p) (← parseListenErr e))
    | ["b", "a", "NewListenAddr", _, a] => do pure (.bNewListenAddr (← Maddr.parse a))
    | ["b", "a", "ExpiredListenAddr", _, a] => do pure (.bExpiredListenAddr (← Maddr.parse a))
    | ["s", "Established", c, p, d, n, f] => do
      pure (.sEstablished (← c.toNat?) (← p.toNat?) (← parseDir d) (← (← kv "num" n).toNat?) (← Maddr.parseList (← kv "failed" f)))
    | ["s", "Closed", c, p, n, cause] => do
      pure (.sClosed (← c.toNat?) (← p.toNat?) (← (← kv "num" n).toNat?) (← parseCause cause))
    | ["s", "Incoming", c] => do pure (.sIncoming (← c.toNat?))
    | ["s", "IncomingError", c, p, e] => do pure (.sIncomingError (← c.toNat?) (← parseOptNat p) (← parseListenErr e))
    | ["s", "OutgoingError", c, p, e] => do pure (.sOutgoingError (← c.toNat?) (← parseOptNat p) (← parseDialErr e))
    | ["s", "Dialing", c, p] => do pure (.sDialing (← c.toNat?) (← parseOptNat p))
    | ["s", "NewListenAddr", _, a] => do pure (.sNewListenAddr (← Maddr.parse a))
    | ["s", "ExpiredListenAddr", _, a] => do pure (.sExpiredListenAddr (← Maddr.parse a))
    | ["tdial", a] => do pure (.tdial (← Maddr.parse a))
    | ["mux", "closed", l] => do let (d, k) ← parseMux l; pure (.muxClosed d k)
    | _ => none
  r.getD (.other s)

def parseLog (tok : String) : List Ev :=
  if tok = "-" then [] else (tok.splitOn "|").map parseEv

/-- fields of the canonical impl line: `res=… [id=…] log=… pi=… po=… ei=… eo=… np=… peers=…` -/
structure ImplLine where
  res : String
  id : Option Nat
  log : List Ev
  pi : Nat
  po : Nat
  ei : Nat
  eo : Nat
  np : Nat
  peers : List Nat

def parseImpl (toks : List String) : Option ImplLine := do
  let find (k : String) : Option String := toks.findSome? (kv k)
  let res ← find "res"
  let id := (find "id").bind String.toNat?
  let log := parseLog (← find "log")
  pure { res, id, log,
         pi := ← (← find "pi").toNat?, po := ← (← find "po").toNat?,
         ei := ← (← find "ei").toNat?, eo := ← (← find "eo").toNat?,
         np := ← (← find "np").toNat?, peers := ← Drv.natList (← find "peers") }

/-- the `case` line carries `peers=<hex>;<hex>;…` -/
def parsePeers (cfg : List String) : List (List Nat) :=
  match cfg.findSome? (kv "peers") with
  | none => []
  | some s => (s.splitOn ";").filterMap Drv.unhex

end Swarm.IO
