import Libp2pModel.Common.Drv
import Libp2pModel.Common.Machine
/-!
# C11 — protocol-change notifications (`swarm/src/handler.rs::ProtocolsChange`, `connection.rs`)

Transcription of `from_initial_protocols`, `from_full_sets`, `add`, `remove` and of the way
`Connection::{new,poll}` drives them.  A protocol name is its UTF-8 bytes; a name is a valid
`StreamProtocol` iff it starts with `/` (`StreamProtocol::try_from_owned`).
`HashMap<AsStrHashEq<T>, bool>` is an association list with unique keys, `HashSet` a duplicate-free
list; iteration order is not observable (the harness and the driver sort every name list).
-/
namespace C11

abbrev Name := List Nat

/-- `StreamProtocol::try_from_owned(..).ok().is_some()` -/
def valid (n : Name) : Bool := n.head? == some 47

inductive Ev where
  | added (l : List Name)
  | removed (l : List Name)
  deriving DecidableEq, Repr

abbrev LMap := List (Name × Bool)

def keys (m : LMap) : List Name := m.map (·.1)

def hasKey (m : LMap) (p : Name) : Bool := m.any (·.1 == p)

/-- `gather_supported_protocols`: collect `(name, true)` into a map (duplicates collapse) -/
def gather : List Name → LMap
  | [] => []
  | p :: r => let m := gather r; if hasKey m p then m else (p, true) :: m

/-- `Connection::new`: the map and, if it is not empty, `from_initial_protocols` = Added(valid keys) -/
def initLocal (l : List Name) : LMap × List Ev :=
  let m := gather l
  (m, if m.isEmpty then [] else [.added ((keys m).filter valid)])

/-- loop state of `from_full_sets` -/
structure VS where
  m : LMap
  buf : List Name := []
  cnt : Nat := 0

/-- one iteration of `for new_protocol in new_protocols`: `entry().and_modify(..).or_insert_with_key(..)` -/
def visit (st : VS) (p : Name) : VS :=
  if hasKey st.m p then
    { st with m := st.m.map (fun e => if e.1 = p then (e.1, true) else e), cnt := st.cnt + 1 }
  else
    { m := st.m ++ [(p, true)], buf := if valid p then st.buf ++ [p] else st.buf, cnt := st.cnt + 1 }

/-- the part of `from_full_sets` after the early exit: `retain` + split of the buffer -/
def finish (st : VS) : LMap × List Ev :=
  let removed := ((st.m.filter (fun e => !e.2)).map (·.1)).filter valid
  (st.m.filter (·.2),
    (if st.buf.isEmpty then [] else [.added st.buf]) ++ (if removed.isEmpty then [] else [.removed removed]))

def visitAll (m : LMap) (new : List Name) : VS :=
  new.foldl visit { m := m.map (fun e => (e.1, false)) }

/-- `from_full_sets`, repaired: early exit iff every existing protocol was visited and nothing is new -/
def fromFullSets (m : LMap) (new : List Name) : LMap × List Ev :=
  let st := visitAll m new
  if st.m.all (·.2) && st.buf.isEmpty then (st.m, []) else finish st

/-- `from_full_sets` at the pinned commit: the early exit compares the *number of items* of
`new_protocols` (duplicates included) with the size of the map -/
def fromFullSetsBuggy (m : LMap) (new : List Name) : LMap × List Ev :=
  let st := visitAll m new
  if st.cnt == st.m.length && st.buf.isEmpty then (st.m, []) else finish st

/-! ## remote side -/
/-- `ProtocolsChange::add` followed by `remote_supported_protocols.extend(buffer.drain(..))`;
`toAdd` is the content of the reported `HashSet` -/
def remoteAdd (set : List Name) (toAdd : List Name) : List Name × List Ev :=
  let buf := toAdd.eraseDups.filter (fun p => !set.contains p)
  if buf.isEmpty then (set, []) else (set ++ buf, [.added buf])

/-- `ProtocolsChange::remove` (`existing.take(&i)`) -/
def remoteRemove (set : List Name) (toRemove : List Name) : List Name × List Ev :=
  let buf := toRemove.eraseDups.filter (fun p => set.contains p)
  if buf.isEmpty then (set, []) else (set.filter (fun p => !buf.contains p), [.removed buf])

/-! ## the handler's view: folding the events -/
def applyEv (s : List Name) : Ev → List Name
  | .added l => s ++ l
  | .removed l => s.filter (fun p => !l.contains p)

def applyEvs (s : List Name) (evs : List Ev) : List Name := evs.foldl applyEv s

/-- set equality of name lists -/
def setEq (a b : List Name) : Bool := a.all b.contains && b.all a.contains

/-- Spec, local: after the events of one step the folded set is exactly the valid advertised names -/
def specLocal (folded : List Name) (advertised : List Name) : Bool :=
  setEq folded (advertised.filter valid)

/-- Spec, remote: what the remote is reported to support so far (added minus removed) -/
def reportFold (cur : List Name) (isAdd : Bool) (names : List Name) : List Name :=
  if isAdd then cur ++ names else cur.filter (fun p => !names.contains p)

def specRemote (folded : List Name) (reported : List Name) : Bool := setEq folded reported

/-! ## the whole connection as a machine -/
inductive Op where
  | local_ (l : List Name)
  | radd (l : List Name)
  | rrem (l : List Name)

structure Conn where
  lmap : LMap
  rset : List Name
  /-- handler-side folds of the events received so far -/
  lfold : List Name
  rfold : List Name
  /-- ghost: the currently advertised list and the fold of the remote reports -/
  adv : List Name
  reported : List Name

def connInit (l : List Name) : Conn :=
  let r := initLocal l
  { lmap := r.1, rset := [], lfold := applyEvs [] r.2, rfold := [], adv := l, reported := [] }

def connStep (c : Conn) : Op → Conn × List Ev
  | .local_ l =>
    let r := fromFullSets c.lmap l
    ({ c with lmap := r.1, lfold := applyEvs c.lfold r.2, adv := l }, r.2)
  | .radd l =>
    let r := remoteAdd c.rset l
    ({ c with rset := r.1, rfold := applyEvs c.rfold r.2, reported := reportFold c.reported true l }, r.2)
  | .rrem l =>
    let r := remoteRemove c.rset l
    ({ c with rset := r.1, rfold := applyEvs c.rfold r.2, reported := reportFold c.reported false l }, r.2)

end C11
