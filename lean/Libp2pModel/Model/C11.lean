import Libp2pModel.Common.Drv
import Libp2pModel.Common.Machine
/-!
# C11 — protocol-change notifications (`swarm/src/handler.rs::ProtocolsChange`, `connection.rs`)

Transcription of `from_initial_protocols`, `from_full_sets`, `add`, `remove` and of the way
`Connection::{new,poll}` drives them.  A protocol name is its UTF-8 bytes; a name is a valid
`StreamProtocol` iff it starts with `/` (`StreamProtocol::try_from_owned`).
`HashMap<AsStrHashEq<T>, bool>` is an association list with unique keys, `HashSet` a duplicate-free
list; iteration order is not observable (the harness and the driver sort every name list).
-/
namespace C11

abbrev Name := List Nat

/-- `StreamProtocol::try_from_owned(..).ok().is_some()` -/
def valid (n : Name) : Bool := n.head? == some 47

inductive Ev where
  | added (l : List Name)
  | removed (l : List Name)
  deriving DecidableEq, Repr

abbrev LMap := List (Name × Bool)

def keys (m : LMap) : List Name := m.map (·.1)

def hasKey (m : LMap) (p : Name) : Bool := m.any (·.1 == p)

/-- `gather_supported_protocols`: collect `(name, true)` into a map (duplicates collapse) -/
def gather : List Name → LMap
  | [] => []
  | p :: r => let m := gather r; if hasKey m p then m else (p, true) :: m

/-- `Connection::new`: the map and, if it is not empty, `from_initial_protocols` = Added(valid keys) -/
def initLocal (l : List Name) : LMap × List Ev :=
  let m := gather l
  (m, if m.isEmpty then [] else [.added ((keys m).filter valid)])

/-- loop state of `from_full_sets` -/
structure VS where
  m : LMap
  buf : List Name := []
  cnt : Nat := 0

/-- one iteration of `for new_protocol in new_protocols`: `entry().and_modify(..).or_insert_with_key(..)` -/
def visit (st : VS) (p : Name) : VS :=
  if hasKey st.m p then
    { st with m := st.m.map (fun e => if e.1 = p then (e.1, true) else e), cnt := st.cnt + 1 }
  else
    { m := st.m ++ [(p, true)], buf := if valid p then st.buf ++ [p] else st.buf, cnt := st.cnt + 1 }

/-- the part of `from_full_sets` after the early exit: `retain` + split of the buffer -/
def finish (st : VS) : LMap × List Ev :=
  let removed := ((st.m.filter (fun e => !e.2)).map (·.1)).filter valid
  (st.m.filter (·.2),
    (if st.buf.isEmpty then [] else [.added st.buf]) ++ (if removed.isEmpty then [] else [.removed removed]))

def visitAll (m : LMap) (new : List Name) : VS :=
  new.foldl visit { m := m.map (fun e => (e.1, false)) }

/-- `from_full_sets`, repaired: early exit iff every existing protocol was visited and nothing is new -/
def fromFullSets (m : LMap) (new : List Name) : LMap × List Ev :=
  let st := visitAll m new
  if st.m.all (·.2) && st.buf.isEmpty then (st.m, []) else finish st

/-- `from_full_sets` at the pinned commit: the early exit compares the *number of items* of
`new_protocols` (duplicates included) with the size of the map -/
def fromFullSetsBuggy (m : LMap) (new : List Name) : LMap × List Ev :=
  let st := visitAll m new
  if st.cnt == st.m.length && st.buf.isEmpty then (st.m, []) else finish st

/-! ## remote side -/
/-- `ProtocolsChange::add` followed by `remote_supported_protocols.extend(buffer.drain(..))`;
`toAdd` is the content of the reported `HashSet` -/
def remoteAdd (set : List Name) (toAdd : List Name) : List Name × List Ev :=
  let buf := toAdd.eraseDups.filter (fun p => !set.contains p)
  if buf.isEmpty then (set, []) else (set ++ buf, [.added buf])

/-- `ProtocolsChange::remove` (`existing.take(&i)`) -/
def remoteRemove (set : List Name) (toRemove : List Name) : List Name × List Ev :=
  let buf := toRemove.eraseDups.filter (fun p => set.contains p)
  if buf.isEmpty then (set, []) else (set.filter (fun p => !buf.contains p), [.removed buf])

/-! ## the handler's view: folding the events -/
def applyEv (s : List Name) : Ev → List Name
  | .added l => s ++ l
  | .removed l => s.filter (fun p => !l.contains p)

def applyEvs (s : List Name) (evs : List Ev) : List Name := evs.foldl applyEv s

/-- set equality of name lists -/
def setEq (a b : List Name) : Bool := a.all b.contains && b.all a.contains

/-- Spec, local: after the events of one step the folded set is exactly the valid advertised names -/
def specLocal (folded : List Name) (advertised : List Name) : Bool :=
  setEq folded (advertised.filter valid)

/-- Spec, remote: what the remote is reported to support so far (added minus removed) -/
def reportFold (cur : List Name) (isAdd : Bool) (names : List Name) : List Name :=
  if isAdd then cur ++ names else cur.filter (fun p => !names.contains p)

def specRemote (folded : List Name) (reported : List Name) : Bool := setEq folded reported

/-! ## the whole connection as a machine -/
inductive Op where
  | local_ (l : List Name)
  | radd (l : List Name)
  | rrem (l : List Name)

structure Conn where
  lmap : LMap
  rset : List Name
  /-- handler-side folds of the events received so far -/
  lfold : List Name
  rfold : List Name
  /-- ghost: the currently advertised list and the fold of the remote reports -/
  adv : List Name
  reported : List Name

def connInit (l : List Name) : Conn :=
  let r := initLocal l
  { lmap := r.1, rset := [], lfold := applyEvs [] r.2, rfold := [], adv := l, reported := [] }

def connStep (c : Conn) : Op → Conn × List Ev
  | .local_ l =>
    let r := fromFullSets c.lmap l
    ({ c with lmap := r.1, lfold := applyEvs c.lfold r.2, adv := l }, r.2)
  | .radd l =>
    let r := remoteAdd c.rset l
    ({ c with rset := r.1, rfold := applyEvs c.rfold r.2, reported := reportFold c.reported true l }, r.2)
  | .rrem l =>
    let r := remoteRemove c.rset l
    ({ c with rset := r.1, rfold := applyEvs c.rfold r.2, reported := reportFold c.reported false l }, r.2)


/-! ## `Connection::poll` granularity (end-to-end correspondence with the real `Connection`)

The probe handler's behaviour is scripted: `steps` are consumed one per `ConnectionHandler::poll`
call, `onEv` one per Local/RemoteProtocolsChange event received (a handler may change what it
advertises inside `poll`, inside `on_connection_event`, or in `on_behaviour_event`). -/

inductive Step where
  /-- (change the advertised set, then) return `Pending` -/
  | pend (set : Option (List Name))
  /-- (change the advertised set, then) return `NotifyBehaviour` -/
  | event (set : Option (List Name))
  /-- `ReportRemoteProtocols(Added)` -/
  | radd (l : List Name)
  /-- `ReportRemoteProtocols(Removed)` -/
  | rrem (l : List Name)

/-- an event received by the handler: local (`true`) or remote protocols change -/
abbrev HEv := Bool × Ev

structure PC where
  lmap : LMap := []
  rset : List Name := []
  /-- what `listen_protocol()` advertises now -/
  adv : List Name := []
  steps : List Step := []
  onEv : List (Option (List Name)) := []
  lfold : List Name := []
  rfold : List Name := []
  reported : List Name := []
  /-- events received / remote reports emitted during the current op -/
  log : List HEv := []
  emitted : List (Bool × List Name) := []

def setAdv (c : PC) : Option (List Name) → PC
  | none => c
  | some l => { c with adv := l }

/-- the handler receives one event: it folds it, and its `on_connection_event` script may change the
advertised set -/
def deliver (isLocal : Bool) (c : PC) (e : Ev) : PC :=
  let c1 : PC := if isLocal then { c with lfold := applyEv c.lfold e, log := c.log ++ [(true, e)] }
                 else { c with rfold := applyEv c.rfold e, log := c.log ++ [(false, e)] }
  match c1.onEv with
  | [] => c1
  | s :: r => setAdv { c1 with onEv := r } s

def deliverAll (isLocal : Bool) (c : PC) (evs : List Ev) : PC := evs.foldl (deliver isLocal) c

inductive PRes where
  | pending | event | fuel
  deriving DecidableEq, Repr

/-- the bottom of the loop: diff the advertised set against `local_supported_protocols`; `true` = the
handler was notified and the loop `continue`s -/
def bottomStep (c : PC) : PC × Bool :=
  let x := fromFullSets c.lmap c.adv
  if x.2.isEmpty then ({ c with lmap := x.1 }, false)
  else (deliverAll true { c with lmap := x.1 } x.2, true)

/-- the `loop` of `Connection::poll`, as far as protocols are concerned -/
def ploop : Nat → PC → PC × PRes
  | 0, c => (c, .fuel)
  | fuel + 1, c =>
    match c.steps with
    | .event s :: r => (setAdv { c with steps := r } s, .event)
    | .radd l :: r =>
      let x := remoteAdd c.rset l
      ploop fuel (deliverAll false { c with steps := r, rset := x.1, reported := reportFold c.reported true l,
                                            emitted := c.emitted ++ [(true, l)] } x.2)
    | .rrem l :: r =>
      let x := remoteRemove c.rset l
      ploop fuel (deliverAll false { c with steps := r, rset := x.1, reported := reportFold c.reported false l,
                                            emitted := c.emitted ++ [(false, l)] } x.2)
    | .pend s :: r =>
      let b := bottomStep (setAdv { c with steps := r } s)
      if b.2 then ploop fuel b.1 else (b.1, .pending)
    | [] =>
      let b := bottomStep c
      if b.2 then ploop fuel b.1 else (b.1, .pending)

inductive POp where
  | steps (l : List Step)
  | onEv (l : List (Option (List Name)))
  | beh (l : List Name)
  | poll

/-- `Connection::new` -/
def pinit (l : List Name) : PC :=
  let r := initLocal l
  { lmap := r.1, adv := l, lfold := applyEvs [] r.2, log := r.2.map (true, ·) }

def pstep (c0 : PC) (o : POp) : PC × Option PRes :=
  let c := { c0 with log := [], emitted := [] }
  match o with
  | .steps l => ({ c with steps := c.steps ++ l }, none)
  | .onEv l => ({ c with onEv := c.onEv ++ l }, none)
  | .beh l => ({ c with adv := l }, none)
  | .poll => let r := ploop (c.steps.length + c.onEv.length + 3) c; (r.1, some r.2)

/-- an event is a real notification: non-empty, and not a no-op on the handler's current view -/
def realEvent (fold : List Name) : Ev → Bool
  | .added l => !l.isEmpty && l.all (fun p => !fold.contains p)
  | .removed l => !l.isEmpty && l.all (fun p => fold.contains p)

end C11
