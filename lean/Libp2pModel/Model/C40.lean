import Libp2pModel.Common.Drv
/-!
# C40 — model of `protocols/kad/src/kbucket/key.rs` (`KeyBytes::distance`, `for_distance`,
`Distance::ilog2`) and `BucketIndex::{new, range}` of `protocols/kad/src/kbucket.rs`

A `KeyBytes` is 32 bytes (`List Nat`, each `< 256`), read as a big-endian 256-bit integer by
`U256::from_big_endian`; a `Distance` is a `U256`, modelled as a `Nat` (`< 2^256`).
`U256 ^ U256` is `Nat.xor`; `U256::leading_zeros` is `256 - bitlength`.
-/
namespace C40

/-- `U256::from_big_endian(slice)` -/
def fromBE : List Nat → Nat
  | [] => 0
  | b :: bs => b * 256 ^ bs.length + fromBE bs

/-- `U256::to_big_endian()` for `k` bytes (`k = 32`) -/
def toBE : Nat → Nat → List Nat
  | 0, _ => []
  | k+1, n => (n / 256 ^ k % 256) :: toBE k n

/-- well-formed `KeyBytes`: exactly 32 bytes -/
def ValidKey (k : List Nat) : Prop := k.length = 32 ∧ ∀ b ∈ k, b < 256

def validKey (k : List Nat) : Bool := k.length == 32 && k.all (· < 256)

/-- `KeyBytes::distance`: `Distance(a ^ b)` -/
def distance (a b : List Nat) : Nat := fromBE a ^^^ fromBE b

/-- `KeyBytes::for_distance`: `KeyBytes(to_big_endian(from_big_endian(self) ^ d))` -/
def forDistance (a : List Nat) (d : Nat) : List Nat := toBE 32 (fromBE a ^^^ d)

/-- number of significant bits of a `U256` -/
def bits (d : Nat) : Nat := if d = 0 then 0 else d.log2 + 1

/-- `U256::leading_zeros` -/
def leadingZeros (d : Nat) : Nat := 256 - bits d

/-- `u32::checked_sub` -/
def checkedSub (a b : Nat) : Option Nat := if b ≤ a then some (a - b) else none

/-- `Distance::ilog2`: `(256 - self.0.leading_zeros()).checked_sub(1)` -/
def ilog2 (d : Nat) : Option Nat := checkedSub (256 - leadingZeros d) 1

/-- `BucketIndex::new`: `d.ilog2().map(|i| BucketIndex(i as usize))` -/
def bucketIndex (d : Nat) : Option Nat := (ilog2 d).map fun i => i

/-- `BucketIndex::range` (the `pow` cannot overflow: the `u8::MAX` arm avoids `2^256`) -/
def range (i : Nat) : Nat × Nat :=
  let min := 2 ^ i
  if i = 255 then (min, 2 ^ 256 - 1) else (min, 2 ^ (i + 1) - 1)

/-- `KBucketRef::contains`: `BucketIndex::new(d).is_some_and(|i| i == self.index)` -/
def contains (i d : Nat) : Bool :=
  match bucketIndex d with
  | some j => j == i
  | none => false

/-- derived `Ord` on `Distance(U256)` -/
def cmpTok (x y : Nat) : String := if x < y then "lt" else if x = y then "eq" else "gt"

/-- the harness's triangle test, as in the crate's own quickcheck:
`ab.overflowing_add(bc)`; overflow counts as satisfied -/
def triLe (ab bc ac : Nat) : Bool :=
  let s := ab + bc
  if s ≥ 2 ^ 256 then true else ac ≤ s

/-! ## Executable Spec (the property's clauses as decidable predicates over impl outputs) -/

/-- position of the highest set bit of `d` is `i` -/
def isHighestBit (d i : Nat) : Bool := 2 ^ i ≤ d && d < 2 ^ (i + 1)

def specZeroIff (a b : List Nat) (dab : Nat) : Bool := (dab == 0) == (a == b)
def specSymm (dab dba : Nat) : Bool := dab == dba
def specIlog2 (d : Nat) (il : Option Nat) : Bool :=
  match il with
  | none => d == 0
  | some i => isHighestBit d i
def specBucketIndex (d : Nat) (il bi : Option Nat) (cont : Bool) : Bool :=
  bi == il && (match bi with | some i => i < 256 && cont | none => !cont)

/-- `dist a b` : impl reports `d(a,b)`, `d(b,a)`, `ilog2`, `BucketIndex::new`,
`contains(index, d)` where index = the reported one (or 0 if none) -/
def specDist (a b : List Nat) (dab dba : Nat) (il bi : Option Nat) (cont : Bool) : Bool :=
  specZeroIff a b dab && specSymm dab dba && specIlog2 dab il && specBucketIndex dab il bi cont

/-- triangle inequality on the three reported distances (and the impl's own `<=` verdict) -/
def specTri (ab bc ac : Nat) (le : Bool) : Bool := ac ≤ ab + bc && le

/-- unidirectionality: `d(a,b) = d(a,c) → b = c` -/
def specUni (b c : List Nat) (dab dac : Nat) : Bool := !(dab == dac) || b == c

/-- `for_distance a d = k`: the reported `d(a,k)` must be `d`, and `k` is a well-formed key -/
def specForDist (d : Nat) (k : List Nat) (dak : Nat) : Bool := validKey k && dak == d

/-- `for_distance a (distance a b)` must be `b` -/
def specInv (b k : List Nat) : Bool := k == b

/-- `range i = (min, max)` is exactly the set of distances with highest set bit `i` -/
def specRange (i mn mx : Nat) : Bool := mn == 2 ^ i && mx + 1 == 2 ^ (i + 1)

/-- ordering of distances = ordering of the integers -/
def specCmp (x y : Nat) (r : String) : Bool := r == cmpTok x y

end C40
