import Libp2pModel.Common.Varint
import Libp2pModel.Common.Framed
/-!
# C57 — `prost_codec::Codec` (misc/prost-codec/src/lib.rs): length-prefixed protobuf framing

Transcription of `Codec::encode` / `Codec::decode` on a 64-bit target, bytes as `List Nat`
(each < 256).  The protobuf body coder is a parameter (`prost` is an external crate): the model
works on the *payload bytes* of each frame; the harness uses a message type whose body is its raw
payload (so every payload is a valid body) and the crate's own `proto::Message`.

Every Rust operation that can panic is an explicit `panic` output:
`k << (i*7)` (debug shift overflow), `src.len() - remaining.len()` (usize underflow),
`src.advance(n)` (n > len), `src.split_to(n)` (n > len).
-/
namespace C57

/-- `usize::MAX + 1` on the 64-bit target the harness is built for -/
def U64 : Nat := 2 ^ 64

/-- result of `unsigned_varint::decode::u64` (= `decode::usize` on 64-bit) -/
inductive Uvi where
  | ok (n : Nat) (rest : List Nat)
  | insufficient
  | overflow
  | notMinimal
  | panic
deriving Repr, DecidableEq

/-- the `decode!($buf, 9, u64)` loop of unsigned-varint 0.8, at byte index `i` with accumulator `n` -/
def uviGo (i n : Nat) : List Nat → Uvi
  | [] => .insufficient
  | b :: rest =>
    if 64 ≤ i * 7 then .panic else          -- `k << (i * 7)` with overflow checks on
    let n' := n ||| (((b % 128) <<< (i * 7)) % U64)
    if b < 128 then                          -- is_last(b)
      if b = 0 ∧ 0 < i then .notMinimal else .ok n' rest
    else if i = 9 then .overflow
    else uviGo (i + 1) n' rest

def uvi (buf : List Nat) : Uvi := uviGo 0 0 buf

/-- error kinds of `Codec::decode` before the body is looked at (all `io::ErrorKind::InvalidData`) -/
inductive Err where
  | varintOverflow
  | varintNotMinimal
  | tooLong (len : Nat)
deriving Repr, DecidableEq

/-- outcome of the framing part of `Codec::decode` on the buffer `src` -/
inductive Res where
  | need                                     -- `Ok(None)`, `src` untouched
  | err (e : Err)                            -- `Err(..)`, `src` untouched
  | ok (payload : List Nat) (rest : List Nat) -- `message_bytes`, and what is left in `src`
  | panic
deriving Repr, DecidableEq

/-- `Codec::decode` up to and including `src.split_to(message_length)` -/
def frame (max : Nat) (src : List Nat) : Res :=
  match uvi src with
  | .insufficient => .need
  | .overflow => .err .varintOverflow
  | .notMinimal => .err .varintNotMinimal
  | .panic => .panic
  | .ok len remaining =>
    if len > max then .err (.tooLong len) else
    if src.length < remaining.length then .panic else      -- `src.len() - remaining.len()`
    let vl := src.length - remaining.length
    -- `message_length.checked_add(varint_length).is_none_or(|t| src.len() < t)`
    if U64 ≤ len + vl ∨ src.length < len + vl then .need else
    if src.length < vl then .panic else                     -- `src.advance(varint_length)`
    let src1 := src.drop vl
    if src1.length < len then .panic else                   -- `src.split_to(message_length)`
    .ok (src1.take len) (src1.drop len)

/-- `Codec::encode` for a message whose protobuf body is `body` -/
def encode (body : List Nat) : List Nat := Varint.encode body.length ++ body

/-- the frames-only view used with `Common.Framed` -/
def frameOk (max : Nat) : Framed.Dec (List Nat) := fun src =>
  match frame max src with
  | .ok p r => some (p, r)
  | _ => none

/-- what the decoder says about a residual buffer that holds no complete frame -/
inductive Status where
  | need
  | err (e : Err)
  | panic
deriving Repr, DecidableEq

def status (max : Nat) (residual : List Nat) : Status :=
  match frame max residual with
  | .need => .need
  | .err e => .err e
  | .ok _ _ => .need     -- not reached on a drained residual (`status_drained`)
  | .panic => .panic

/-- one `feed` of the harness loop: append the chunk, call `decode` until it stops yielding -/
def feed (max : Nat) (st chunk : List Nat) : List (List Nat) × List Nat :=
  Framed.feed (frameOk max) st chunk

/-- reference: decode the whole byte stream in one go -/
def oneShot (max : Nat) (all : List Nat) : List (List Nat) × List Nat :=
  Framed.drainAll (frameOk max) all

/-! ## the crate's own test message `proto::Message { bytes data = 1; }` (canonical bodies only) -/

def encMsg (data : List Nat) : List Nat :=
  if data = [] then [] else 0x0a :: (Varint.encode data.length ++ data)

/-- canonical-form parser: `none` = not a canonical body (the model then makes no prediction) -/
def decMsg : List Nat → Option (List Nat)
  | [] => some []
  | b :: rest =>
    if b = 0x0a then
      match uvi rest with
      | .ok n r => if r.length = n then some r else none
      | _ => none
    else none

/-! ## executable Spec (judges the IMPLEMENTATION's outputs) -/

structure SpecSt where
  max : Nat
  all : List Nat                -- every byte fed so far
  frames : List (List Nat)      -- every payload the implementation has returned so far
deriving Repr

/-- after feeding `chunk`, the implementation returned `out` and reported `st` with `resLen`
bytes left in its buffer: all of it must equal the one-shot decoding of all bytes fed so far
(split independence + early rejection + consumes nothing on `None`/`Err`). -/
def specDec (s : SpecSt) (chunk : List Nat) (out : List (List Nat)) (st : Status) (resLen : Nat) :
    SpecSt × String :=
  let all := s.all ++ chunk
  let fs := s.frames ++ out
  let ref := oneShot s.max all
  let s' := { s with all := all, frames := fs }
  if st = .panic then (s', "FAIL:panic")
  else if ref.1 ≠ fs then (s', "FAIL:frames_differ_from_one_shot")
  else if ref.2.length ≠ resLen then (s', "FAIL:residual_consumed")
  else if status s.max ref.2 ≠ st then
    (s', match status s.max ref.2 with
         | .err (.tooLong _) => "FAIL:oversize_not_rejected_early"
         | _ => "FAIL:status")
  else (s', "ok")

/-- the bytes the implementation's encoder produced for `body` must decode (one-shot, with any
trailing bytes) to exactly `body` when it is within the limit, and be rejected otherwise. -/
def specEnc (max : Nat) (body : List Nat) (bytes : List Nat) : Bool :=
  if body.length ≤ max then frame max bytes == .ok body [] && frame max (bytes ++ [0x55]) == .ok body [0x55]
  else frame max bytes == .err (.tooLong body.length)

end C57
