import Libp2pModel.Common.Machine
/-!
# C41 — `MemoryStore` (`protocols/kad/src/record/store/memory.rs`) as a bounded map

The model transcribes the five mutators (`put`, `remove`, `retain`, `add_provider`,
`remove_provider`) and the observers (`get`, `records`, `providers`, `provided`).

* `HashMap<Key, V>` → association list with unique keys (`aget`/`aset`/`adel`); `HashMap::len`
  → list length (exact because keys are unique — part of the proved invariant).
* `HashSet<ProviderRecord>` whose `Eq`/`Hash` look only at `(key, provider)` → list with
  `hsInsert` (no-op when an equal element is present, as `HashSet::insert`) / `hsRemove`.
* keys, peers, addresses are small naturals (the harness maps them to real `Key`s / `PeerId`s /
  `Multiaddr`s); `expires` is an offset in seconds from a base `Instant` chosen by the harness.
-/
namespace C41

structure Record where
  key : Nat
  value : List Nat
  publisher : Option Nat
  expires : Option Nat
deriving DecidableEq, Repr, Inhabited

/-- `ProviderRecord` -/
structure PRec where
  key : Nat
  provider : Nat
  expires : Option Nat
  addrs : List Nat
deriving DecidableEq, Repr, Inhabited

inductive Err
  | maxRecords | maxProvidedKeys | valueTooLarge
deriving DecidableEq, Repr

structure Config where
  maxRecords : Nat
  maxValueBytes : Nat
  maxProvidersPerKey : Nat
  maxProvidedKeys : Nat
deriving DecidableEq, Repr

/-! ## association lists (HashMap) -/

def aget {β : Type} : List (Nat × β) → Nat → Option β
  | [], _ => none
  | (k', v) :: t, k => if k' = k then some v else aget t k

/-- `entry(k)`: replace in place when occupied, otherwise insert -/
def aset {β : Type} : List (Nat × β) → Nat → β → List (Nat × β)
  | [], k, v => [(k, v)]
  | (k', v') :: t, k, v => if k' = k then (k, v) :: t else (k', v') :: aset t k v

def adel {β : Type} (l : List (Nat × β)) (k : Nat) : List (Nat × β) :=
  l.filter (fun e => e.1 ≠ k)

/-! ## HashSet<ProviderRecord> with `Eq` on (key, provider) -/

def peq (a b : PRec) : Bool := a.key == b.key && a.provider == b.provider

def hsRemove (s : List PRec) (p : PRec) : List PRec := s.filter (fun x => !peq x p)

def hsInsert (s : List PRec) (p : PRec) : List PRec := if s.any (fun x => peq x p) then s else p :: s

/-! ## the store -/

structure Store where
  loc : Nat
  cfg : Config
  records : List (Nat × Record)
  providers : List (Nat × List PRec)
  provided : List PRec

def Store.empty (loc : Nat) (cfg : Config) : Store := ⟨loc, cfg, [], [], []⟩

inductive Res
  | unit
  | ok
  | err (e : Err)
  | got (r : Option Record)
deriving DecidableEq, Repr

/-- `RecordStore::get` -/
def get (s : Store) (k : Nat) : Option Record := aget s.records k

/-- `RecordStore::put` -/
def put (s : Store) (r : Record) : Store × Res :=
  if r.value.length ≥ s.cfg.maxValueBytes then (s, .err .valueTooLarge)
  else
    let numRecords := s.records.length
    match aget s.records r.key with
    | some _ => ({ s with records := aset s.records r.key r }, .ok)
    | none =>
      if numRecords ≥ s.cfg.maxRecords then (s, .err .maxRecords)
      else ({ s with records := aset s.records r.key r }, .ok)

/-- `RecordStore::remove` -/
def remove (s : Store) (k : Nat) : Store := { s with records := adel s.records k }

/-- `MemoryStore::retain` (with a predicate that does not mutate the record) -/
def retain (s : Store) (f : Nat → Record → Bool) : Store :=
  { s with records := s.records.filter (fun e => f e.1 e.2) }

/-- the `for p in providers.iter_mut()` loop: first record of the same provider is overwritten;
returns the overwritten record and the new list -/
def updFirst : List PRec → PRec → Option (PRec × List PRec)
  | [], _ => none
  | p :: t, r =>
    if p.provider = r.provider then some (p, r :: t)
    else match updFirst t r with
      | some (o, t') => some (o, p :: t')
      | none => none

/-- `position(..)` + `remove(i)` -/
def rmFirst : List PRec → Nat → Option (PRec × List PRec)
  | [], _ => none
  | x :: t, p =>
    if x.provider = p then some (x, t)
    else match rmFirst t p with
      | some (o, t') => some (o, x :: t')
      | none => none

/-- `add_provider` after the entry has been obtained (`l` = the entry's current list, `[]` for a
fresh entry) -/
def addProviderTo (s : Store) (r : PRec) (l : List PRec) : Store × Res :=
  match updFirst l r with
  | some (old, l') =>
    let provided := if s.loc = r.provider then hsInsert (hsRemove s.provided old) r else s.provided
    ({ s with providers := aset s.providers r.key l', provided := provided }, .ok)
  | none =>
    if l.length = s.cfg.maxProvidersPerKey then
      ({ s with providers := aset s.providers r.key l }, .ok)
    else
      let provided := if s.loc = r.provider then hsInsert s.provided r else s.provided
      ({ s with providers := aset s.providers r.key (l ++ [r]), provided := provided }, .ok)

/-- `RecordStore::add_provider` -/
def addProvider (s : Store) (r : PRec) : Store × Res :=
  let numKeys := s.providers.length
  match aget s.providers r.key with
  | some l => addProviderTo s r l
  | none =>
    if s.cfg.maxProvidedKeys = numKeys then (s, .err .maxProvidedKeys)
    else addProviderTo s r []

/-- `RecordStore::remove_provider` -/
def removeProvider (s : Store) (k p : Nat) : Store :=
  match aget s.providers k with
  | none => s
  | some l =>
    match rmFirst l p with
    | some (old, l') =>
      let provided := if old.provider = s.loc then hsRemove s.provided old else s.provided
      if l'.isEmpty then { s with providers := adel s.providers k, provided := provided }
      else { s with providers := aset s.providers k l', provided := provided }
    | none =>
      if l.isEmpty then { s with providers := adel s.providers k }
      else { s with providers := aset s.providers k l }

/-- `RecordStore::providers` -/
def providersOf (s : Store) (k : Nat) : List PRec := (aget s.providers k).getD []

inductive Op
  | get (k : Nat)
  | put (r : Record)
  | remove (k : Nat)
  | retain (f : Nat → Record → Bool)
  | addProvider (r : PRec)
  | removeProvider (k p : Nat)

def step (s : Store) : Op → Store × Res
  | .get k => (s, .got (get s k))
  | .put r => put s r
  | .remove k => (remove s k, .unit)
  | .retain f => (retain s f, .unit)
  | .addProvider r => addProvider s r
  | .removeProvider k p => (removeProvider s k p, .unit)

/-! ## observable state (what `records()`, `providers(k)` for every key, `provided()` return) -/

structure View where
  records : List Record
  provs : List PRec
  provided : List PRec
deriving DecidableEq, Repr

def view (s : Store) : View :=
  ⟨s.records.map (·.2), s.providers.flatMap (·.2), s.provided⟩

def View.empty : View := ⟨[], [], []⟩

def View.get (v : View) (k : Nat) : Option Record := v.records.find? (fun r => r.key == k)

def View.provsOf (v : View) (k : Nat) : List PRec := v.provs.filter (fun r => r.key == k)

/-! ## the executable statement: invariant of every observable state + transition relation of a
bounded map.  `records`/`provided` are read as sets (lookups / membership only), `providers(k)` as
a list (positions matter: "re-adding updates in place"). -/

/-- in-place update of the record of `r.provider` (positions and length kept) -/
def replaceProv (l : List PRec) (r : PRec) : List PRec :=
  l.map (fun x => if x.provider = r.provider then r else x)

/-- what `providers(k)` must be after a successful `add_provider r` when it was `l` before:
the provider's record is updated in place; a full list ignores a newcomer; otherwise append -/
def expectAdd (c : Config) (l : List PRec) (r : PRec) : List PRec :=
  if l.any (fun x => x.provider = r.provider) then replaceProv l r
  else if l.length ≥ c.maxProvidersPerKey then l
  else l ++ [r]

def viewOk (c : Config) (loc : Nat) (v : View) : Bool :=
  decide (v.records.map (·.key)).Nodup
  && decide (v.records.length ≤ c.maxRecords)
  && v.records.all (fun r => decide (r.value.length < c.maxValueBytes))
  && (v.provs.map (·.key)).all (fun k =>
        decide ((v.provsOf k).length ≤ c.maxProvidersPerKey)
        && decide ((v.provsOf k).map (·.provider)).Nodup)
  && v.provided.all (fun r => decide (r.provider = loc) && v.provs.contains r)
  && v.provs.all (fun r => decide (r.provider ≠ loc) || v.provided.contains r)
  && decide (v.provided.map (·.key)).Nodup

/-- the `provided()` clauses of `viewOk` alone: `provided()` = exactly the records of `providers(·)`
whose provider is the local node, compared field by field (key, provider, expires, addresses) -/
def providedOk (loc : Nat) (v : View) : Bool :=
  v.provided.all (fun r => decide (r.provider = loc) && v.provs.contains r)
  && v.provs.all (fun r => decide (r.provider ≠ loc) || v.provided.contains r)
  && decide (v.provided.map (·.key)).Nodup

def specKeys (v v' : View) (extra : Nat) : List Nat :=
  extra :: (v.records.map (·.key) ++ v'.records.map (·.key) ++ v.provs.map (·.key) ++ v'.provs.map (·.key))

/-- transition relation; returns the key of the violated clause -/
def specStep (c : Config) (loc : Nat) (v : View) (op : Op) (out : Res) (v' : View) : Option String :=
  if !viewOk c loc v' then
    some (if !providedOk loc v' then "provided_exact" else "state_invariant") else
  match op with
  | .get k =>
    if out == .got (v.get k) && v' == v then none else some "get_latest_put"
  | .put r =>
    if r.value.length ≥ c.maxValueBytes then
      if out == .err .valueTooLarge && v' == v then none else some "put_value_too_large"
    else if (v.get r.key).isNone && v.records.length ≥ c.maxRecords then
      if out == .err .maxRecords && v' == v then none else some "put_max_records"
    else
      if out == .ok
        && (specKeys v v' r.key).all (fun k => v'.get k == if k = r.key then some r else v.get k)
        && v'.provs == v.provs && v'.provided == v.provided then none else some "put_replaces"
  | .remove k =>
    if out == .unit
      && (specKeys v v' k).all (fun k' => v'.get k' == if k' = k then none else v.get k')
      && v'.provs == v.provs && v'.provided == v.provided then none else some "remove_deletes"
  | .retain f =>
    if out == .unit
      && (specKeys v v' 0).all (fun k => v'.get k == (v.get k).filter (f k))
      && v'.provs == v.provs && v'.provided == v.provided then none else some "retain_filters"
  | .addProvider r =>
    let l := v.provsOf r.key
    if out == .err .maxProvidedKeys then
      if l.isEmpty && v' == v then none else some "add_provider_refused"
    else
      if out == .ok && v'.records == v.records
        && (specKeys v v' r.key).all (fun k => k = r.key || v'.provsOf k == v.provsOf k)
        && v'.provsOf r.key == expectAdd c l r then none else some "add_provider"
  | .removeProvider k p =>
    if out == .unit && v'.records == v.records
      && (specKeys v v' k).all (fun k' =>
            v'.provsOf k' == if k' = k then (v.provsOf k).filter (fun x => x.provider ≠ p) else v.provsOf k')
      then none else some "remove_provider"

/-- trace monitor: state = the previous observable state (initially empty) -/
def specMon (c : Config) (loc : Nat) (v : View) (op : Op) (out : Res) (v' : View) : View × String :=
  match specStep c loc v op out v' with
  | none => (v', "ok")
  | some key => (v', "FAIL:" ++ key)

end C41
