/-!
# C33 — gossipsub `TimeCache` / `DuplicateCache` (`time_cache.rs`) and `MessageCache` (`mcache.rs`)

Transcriptions of the code as it is. Message ids, topics and peers are `Nat`; instants are `Nat`
nanoseconds since the start of the case, `limit` is the greatest representable `Instant`.
Hash maps are total functions into `Option` (finite support is not needed by any statement);
`VecDeque`/`Vec` are lists in the same order; a `HashSet<PeerId>` is a sorted duplicate-free list
(the harness prints peer sets sorted).
-/
namespace C33

def setOpt {α : Type} (f : Nat → Option α) (k : Nat) (v : Option α) : Nat → Option α :=
  fun k' => if k' = k then v else f k'

/-! ## TimeCache -/

structure TC where
  /-- `map`: key ↦ (value, expires) -/
  map : Nat → Option (Nat × Nat)
  /-- `list`: (key, expires), oldest first -/
  list : List (Nat × Nat)
  ttl : Nat
  limit : Nat

def tcNew (limit ttl : Nat) : TC := { map := fun _ => none, list := [], ttl := ttl, limit := limit }

/-- `remove_expired_keys(now)` -/
def removeExpired (now : Nat) :
    List (Nat × Nat) → (Nat → Option (Nat × Nat)) → List (Nat × Nat) × (Nat → Option (Nat × Nat))
  | [], m => ([], m)
  | (k, e) :: rest, m =>
    if e > now then ((k, e) :: rest, m)   -- push_front; break
    else
      let m' := match m k with
        | some (_, e') => if e' ≤ now then setOpt m k none else m
        | none => m
      removeExpired now rest m'

def purge (c : TC) (now : Nat) : TC :=
  let r := removeExpired now c.list c.map
  { c with list := r.1, map := r.2 }

/-- `now.checked_add(self.ttl).unwrap_or_else(|| now)` -/
def expiration (c : TC) (now : Nat) : Nat := if now + c.ttl ≤ c.limit then now + c.ttl else now

/-- `DuplicateCache::insert` (= `entry(key)`, then `insert(())` when vacant) -/
def dupInsert (c : TC) (now key : Nat) : TC × Bool :=
  let c1 := purge c now
  match c1.map key with
  | some _ => (c1, false)
  | none =>
    ({ c1 with list := c1.list ++ [(key, expiration c now)],
               map := setOpt c1.map key (some (0, expiration c now)) }, true)

/-- `DuplicateCache::contains` / `TimeCache::contains_key` (no purge) -/
def contains (c : TC) (key : Nat) : Bool := (c.map key).isSome

/-- `*cache.entry(key).or_default() += delta` on a `TimeCache<_, u64>`, returning the new value -/
def addEntry (c : TC) (now key delta : Nat) : TC × Nat :=
  let c1 := purge c now
  match c1.map key with
  | some (v, e) => ({ c1 with map := setOpt c1.map key (some (v + delta, e)) }, v + delta)
  | none =>
    ({ c1 with list := c1.list ++ [(key, expiration c now)],
               map := setOpt c1.map key (some (delta, expiration c now)) }, delta)

/-! ## MessageCache -/

structure Msg where
  topic : Nat
  validated : Bool
  /-- `HashSet<PeerId>` of originating peers, kept sorted -/
  peers : List Nat
deriving Repr, DecidableEq

structure MC where
  msgs : Nat → Option Msg
  /-- `iwant_counts` (absent = 0) -/
  iwant : Nat → Nat → Nat
  /-- `history`: slots of `CacheEntry { mid, topic }` -/
  history : List (List (Nat × Nat))
  gossip : Nat

def mcNew (gossip historyCapacity : Nat) : MC :=
  { msgs := fun _ => none, iwant := fun _ _ => 0, history := List.replicate historyCapacity [], gossip := gossip }

def clearCounts (f : Nat → Nat → Nat) (id : Nat) : Nat → Nat → Nat :=
  fun i p => if i = id then 0 else f i p

def sortedInsert (p : Nat) : List Nat → List Nat
  | [] => [p]
  | q :: qs => if p < q then p :: q :: qs else if p = q then q :: qs else q :: sortedInsert p qs

/-- `put` -/
def put (c : MC) (id topic : Nat) : MC × Bool :=
  match c.history with
  | [] => (c, true)
  | h0 :: hs =>
    match c.msgs id with
    | some _ => (c, false)
    | none =>
      ({ c with msgs := setOpt c.msgs id (some { topic := topic, validated := false, peers := [] }),
                history := (h0 ++ [(id, topic)]) :: hs }, true)

/-- `observe_duplicate` -/
def observeDuplicate (c : MC) (id peer : Nat) : MC :=
  match c.msgs id with
  | some m =>
    if m.validated then c
    else { c with msgs := setOpt c.msgs id (some { m with peers := sortedInsert peer m.peers }) }
  | none => c

/-- `get_with_iwant_counts`: `(topic, validated, count)` of the returned message -/
def getWithIwant (c : MC) (id peer : Nat) : MC × Option (Nat × Bool × Nat) :=
  match c.msgs id with
  | some m =>
    if !m.validated then (c, none)
    else
      let n := c.iwant id peer + 1
      ({ c with iwant := fun i p => if i = id ∧ p = peer then n else c.iwant i p }, some (m.topic, m.validated, n))
  | none => (c, none)

/-- `validate`: `(topic, validated, originating peers)` -/
def validate (c : MC) (id : Nat) : MC × Option (Nat × Bool × List Nat) :=
  match c.msgs id with
  | some m =>
    ({ c with msgs := setOpt c.msgs id (some { m with validated := true, peers := [] }) },
      some (m.topic, true, m.peers))
  | none => (c, none)

/-- `get_gossip_message_ids`; `none` = panic (`history[..gossip]` out of range) -/
def getGossipIds (c : MC) (topic : Nat) : Option (List Nat) :=
  if c.history.length < c.gossip then none
  else some ((c.history.take c.gossip).flatMap fun entries =>
    entries.filterMap fun e =>
      if e.2 = topic then
        match c.msgs e.1 with
        | some m => if m.validated then some e.1 else none
        | none => none
      else none)

/-- the `for entry in history.pop()` loop of `shift` -/
def dropEntries : List (Nat × Nat) → (Nat → Option Msg) × (Nat → Nat → Nat) → (Nat → Option Msg) × (Nat → Nat → Nat)
  | [], st => st
  | e :: es, st => dropEntries es (setOpt st.1 e.1 none, clearCounts st.2 e.1)

/-- `shift` -/
def shift (c : MC) : MC :=
  match c.history.getLast? with
  | none => c
  | some last =>
    let st := dropEntries last (c.msgs, c.iwant)
    { c with msgs := st.1, iwant := st.2, history := [] :: c.history.dropLast }

/-- `remove`: `(topic, validated, originating peers)` of the removed message -/
def remove (c : MC) (id : Nat) : MC × Option (Nat × Bool × List Nat) :=
  ({ c with iwant := clearCounts c.iwant id, msgs := setOpt c.msgs id none },
    (c.msgs id).map fun m => (m.topic, m.validated, m.peers))

/-! ## ops and outputs -/

inductive MOp where
  | put (id topic : Nat)
  | observe (id peer : Nat)
  | iwant (id peer : Nat)
  | validate (id : Nat)
  | gossip (topic : Nat)
  | shift
  | remove (id : Nat)
deriving Repr

inductive MOut where
  | unit
  | bool (b : Bool)
  | iwant (r : Option (Nat × Bool × Nat))
  | msg (r : Option (Nat × Bool × List Nat))
  | ids (r : Option (List Nat))
deriving Repr

def mstep (c : MC) : MOp → MC × MOut
  | .put id t => let r := put c id t; (r.1, .bool r.2)
  | .observe id p => (observeDuplicate c id p, .unit)
  | .iwant id p => let r := getWithIwant c id p; (r.1, .iwant r.2)
  | .validate id => let r := validate c id; (r.1, .msg r.2)
  | .gossip t => (c, .ids (getGossipIds c t))
  | .shift => (shift c, .unit)
  | .remove id => let r := remove c id; (r.1, .msg r.2)

/-! ## executable Spec, part 1: the duplicate / time cache window monitor -/

/-- what the property says about one key: seen from its first insertion until `ttl` has passed,
not refreshed by re-insertion. `until k = some e`: the key counts as seen while `now < e`. -/
structure DMon where
  until_ : Nat → Option Nat
  /-- value kept by the `TimeCache<_, u64>` entry during the window -/
  val : Nat → Nat
  ttl : Nat
  limit : Nat
  /-- an insertion happened at a time where `now + ttl` is not a representable `Instant` (the code
  logs "invalid time cache ttl"): outside the property's assumption, no verdicts from then on -/
  void : Bool

def dmonNew (limit ttl : Nat) : DMon :=
  { until_ := fun _ => none, val := fun _ => 0, ttl := ttl, limit := limit, void := false }

def seen (m : DMon) (now key : Nat) : Bool :=
  match m.until_ key with
  | some e => decide (now < e)
  | none => false

/-- an `insert`/`entry` of `key` at `now`: inside the window nothing is refreshed -/
def dmonTouch (m : DMon) (now key : Nat) : DMon :=
  if seen m now key then m
  else { m with until_ := setOpt m.until_ key (some (now + m.ttl)), val := fun k => if k = key then 0 else m.val k,
                void := m.void || decide (m.limit < now + m.ttl) }

def dmonAdd (m : DMon) (key delta : Nat) : DMon :=
  { m with val := fun k => if k = key then m.val k + delta else m.val k }

/-- verdict on `insert key` at `now` returning `r` (monitor state BEFORE the op) -/
def checkInsert (m : DMon) (now key : Nat) (r : Bool) : Option String :=
  if m.void then none
  else if r = !(seen m now key) then none else some "dup_window"

/-- verdict on `contains key` at `now` returning `r`: true inside the window, false for a key
never inserted; after the window the entry may linger until the next insert purges it. -/
def checkContains (m : DMon) (now key : Nat) (r : Bool) : Option String :=
  if m.void then none
  else if seen m now key && !r then some "dup_contains_window"
  else if (m.until_ key).isNone && r then some "dup_contains_spurious"
  else none

/-- verdict on `*entry(key).or_default() += delta` returning `v` (monitor state BEFORE the op) -/
def checkAdd (m : DMon) (now key delta v : Nat) : Option String :=
  if m.void then none
  else if v = (if seen m now key then m.val key + delta else delta) then none else some "tc_window"

/-- ops on a time cache (`DuplicateCache` uses `ins`/`has`, the `TimeCache<_, u64>` of the hook
uses `add`/`has`) -/
inductive TOp where
  | ins (key : Nat)
  | has (key : Nat)
  | add (key delta : Nat)
deriving Repr

inductive TOut where
  | bool (b : Bool)
  | val (v : Nat)
deriving Repr, DecidableEq

/-- one op at time `o.1` -/
def tstep (c : TC) (o : Nat × TOp) : TC × TOut :=
  match o.2 with
  | .ins k => let r := dupInsert c o.1 k; (r.1, .bool r.2)
  | .has k => (c, .bool (contains c k))
  | .add k d => let r := addEntry c o.1 k d; (r.1, .val r.2)

def dstep (m : DMon) (o : Nat × TOp) : DMon :=
  match o.2 with
  | .ins k => dmonTouch m o.1 k
  | .has _ => m
  | .add k d => dmonAdd (dmonTouch m o.1 k) k d

/-- verdict on the output of `o`, monitor state BEFORE the op -/
def dcheck (m : DMon) (o : Nat × TOp) (out : TOut) : Option String :=
  match o.2, out with
  | .ins k, .bool r => checkInsert m o.1 k r
  | .has k, .bool r => checkContains m o.1 k r
  | .add k d, .val v => checkAdd m o.1 k d v
  | _, _ => some "unparsable"

/-! ## executable Spec, part 2: the message-cache window monitor -/

structure Rec where
  /-- `shift`s since the put that stored the message -/
  age : Nat
  validated : Bool
  /-- successful `get_with_iwant_counts` per peer since that put -/
  reqs : Nat → Nat

structure MMon where
  recs : Nat → Option Rec
  gossip : Nat
  len : Nat

def mmonNew (gossip len : Nat) : MMon := { recs := fun _ => none, gossip := gossip, len := len }

/-- monitor transition, driven by the op and the OUTPUT observed for it -/
def mmonStep (m : MMon) (op : MOp) (out : MOut) : MMon :=
  match op, out with
  | .put id _, .bool true =>
    if m.len = 0 then m
    else { m with recs := setOpt m.recs id (some { age := 0, validated := false, reqs := fun _ => 0 }) }
  | .iwant id p, .iwant (some _) =>
    match m.recs id with
    | some r => { m with recs := setOpt m.recs id (some { r with reqs := fun q => if q = p then r.reqs p + 1 else r.reqs q }) }
    | none => m
  | .validate id, .msg (some _) =>
    match m.recs id with
    | some r => { m with recs := setOpt m.recs id (some { r with validated := true }) }
    | none => m
  | .validate id, .msg none => { m with recs := setOpt m.recs id none }
  | .remove id, _ => { m with recs := setOpt m.recs id none }
  | .shift, _ =>
    { m with recs := fun id => match m.recs id with
        | some r => if r.age + 1 < m.len then some { r with age := r.age + 1 } else none
        | none => none }
  | _, _ => m

/-- verdict on the output of `op`, monitor state BEFORE the op -/
def mcheck (m : MMon) (op : MOp) (out : MOut) : Option String :=
  match op, out with
  | .gossip _, .ids (some ids) =>
    -- only validated messages from the last `gossip` heartbeats
    if ids.all (fun id => match m.recs id with
        | some r => r.validated && decide (r.age < m.gossip)
        | none => false) then none else some "gossip_window"
  | .iwant id p, .iwant (some (_, v, n)) =>
    match m.recs id with
    | some r =>
      if !(r.validated && v) then some "iwant_unvalidated"
      else if n ≠ r.reqs p + 1 then some "iwant_count"
      else none
    | none => some "iwant_window"   -- not stored within the last `history_length` heartbeats
  | .put id _, .bool false =>
    -- a put is refused only for a message still inside the history window
    match m.recs id with
    | some _ => none
    | none => some "put_dup"
  | .validate id, .msg (some _) => if (m.recs id).isSome then none else some "validate_window"
  | .remove id, .msg (some _) => if (m.recs id).isSome then none else some "remove_window"
  | _, _ => none

end C33
