import Libp2pModel.Model.C25
/-!
# The mplex endpoint (`muxers/mplex/src/io.rs::Multiplexed`, `lib.rs::Substream`) — model for C26 and C24

One endpoint as a state machine over frames.  Transcribed method by method from `io.rs`:
`poll_flush, poll_close, poll_next_stream, poll_open_stream, drop_stream, poll_write_stream,
poll_read_stream, poll_flush_stream, poll_close_stream, poll_send_frame, poll_read_frame, on_open,
on_reset, on_close, send_pending_frames, on_error, guard_open, check_max_pending_frames, buffer`,
and `Substream::{poll_read, poll_write, poll_flush, poll_close, drop}` from `lib.rs`.

Environment (what the harness plays): `inq` = items the `Framed` stream will yield next (frames
decoded from the bytes the remote has written — by C25's split independence the chunking of those
bytes is irrelevant —, a codec error, or end of file); the `Framed` sink = `sinkBuf` (encoded, not yet
written) + `wire` (written to the connection), with the write side of the connection either
accepting everything or blocked (`wblock`); `poll_ready` only writes when `sinkBytes ≥ HWM`.
Wakers are not modelled (the harness polls by hand); `IntMap`/`IntSet` are association lists with
unique keys (no output depends on their iteration order); the two `VecDeque`s are lists in *pop*
order (head = `back()`, `push_front` = append).  Rust panics reachable in principle are explicit
(`EK.panic`): the `debug_assert!` in `buffer`, `max_substreams - 1`, stream-id overflow.
Ghost fields (`rx`, `dl`, `acc`, `sent`) record per-substream history for the theorems only.
-/
namespace C26
open C25 (Sid Role Frame)

/-- io::ErrorKind of the errors that can surface (plus the explicit panic marker) -/
inductive EK | invalidData | other | unexpectedEof | brokenPipe | writeZero | panic
  deriving DecidableEq, Repr, Inhabited

structure Cfg where
  maxSubs : Nat
  maxBuf : Nat
  block : Bool          -- `MaxBufferBehaviour::Block` (else `ResetStream`)
  split : Nat
  deriving Repr, Inhabited

inductive SS | opn | sendClosed | recvClosed | closed | reset
  deriving DecidableEq, Repr, Inhabited

/-- `recv_buf_open` is `Some` -/
def SS.recvOpen : SS → Bool
  | .opn | .sendClosed => true
  | _ => false

structure Sub where
  id : Sid
  st : SS
  buf : List (List Nat)
  /-- ghost: payloads of the Data frames taken from the connection for this substream while it was
  open for reading -/
  rx : List (List Nat) := []
  /-- ghost: payloads handed to the reader -/
  dl : List (List Nat) := []
  /-- ghost: accepted writes (what `poll_write` reported as written) -/
  acc : List (List Nat) := []
  /-- ghost: Data payloads / Close put into the sink for this substream -/
  sent : List (Option (List Nat)) := []
  deriving Repr, Inhabited

inductive ConnSt | opn | closed | err (k : EK)
  deriving DecidableEq, Repr, Inhabited

inductive InItem | frame (f : Frame) | bad (k : EK) | eof
  deriving Repr, Inhabited

def HWM : Nat := 131072
def EXTRA_PENDING_FRAMES : Nat := 1000
def U64 : Nat := 18446744073709551616

structure State where
  cfg : Cfg
  status : ConnSt := .opn
  subs : List Sub := []
  /-- `open_buffer`, in pop order -/
  openQ : List Sid := []
  /-- `pending_flush_open` -/
  pfo : List Sid := []
  blocking : Option Sid := none
  /-- `pending_frames`, in send (pop_back) order -/
  pendQ : List Frame := []
  nextId : Nat := 0
  inq : List InItem := []
  sinkBuf : List Frame := []
  sinkBytes : Nat := 0
  wire : List Frame := []
  wblock : Bool := false
  deriving Repr, Inhabited

inductive P (α : Type) | pending | ready (a : α)
  deriving Repr

abbrev R (α : Type) := P (Except EK α)

/-! ### map helpers -/

def getSub (subs : List Sub) (id : Sid) : Option Sub := subs.find? (fun s => s.id == id)
def removeSub (subs : List Sub) (id : Sid) : List Sub := subs.filter (fun s => !(s.id == id))
def insertSub (subs : List Sub) (s : Sub) : List Sub := s :: removeSub subs s.id
def State.get (s : State) (id : Sid) : Option Sub := getSub s.subs id
def State.put (s : State) (x : Sub) : State := { s with subs := insertSub s.subs x }
def State.del (s : State) (id : Sid) : State := { s with subs := removeSub s.subs id }

/-- encoded size of a frame in the sink buffer -/
def frameLen (f : Frame) : Nat :=
  Varint.len (C25.header f) + Varint.len f.payload.length + f.payload.length

/-! ### `on_error`, `guard_open`, `check_max_pending_frames` -/

def onError (s : State) (k : EK) : State :=
  { s with status := .err k, pendQ := [], subs := [], openQ := [] }

def guardOpen (s : State) : Option EK :=
  match s.status with
  | .opn => none
  | .closed => some .other
  | .err k => some k

def checkMaxPending (s : State) : State × Except EK Unit :=
  if s.pendQ.length ≥ s.cfg.maxSubs + EXTRA_PENDING_FRAMES then (onError s .other, .error .other)
  else (s, .ok ())

/-! ### the sink -/

/-- `FramedWrite2::poll_ready` -/
def sinkReady (s : State) : State × Bool :=
  if s.sinkBytes ≥ HWM then
    if s.wblock then (s, false)
    else ({ s with wire := s.wire ++ s.sinkBuf, sinkBuf := [], sinkBytes := 0 }, true)
  else (s, true)

/-- `poll_send_frame` -/
def sendFrame (s : State) (f : Frame) : State × R Unit :=
  match sinkReady s with
  | (s, false) => (s, .pending)
  | (s, true) =>
    if f.payload.length > C25.MAX_FRAME_SIZE then (onError s .invalidData, .ready (.error .invalidData))
    else ({ s with sinkBuf := s.sinkBuf ++ [f], sinkBytes := s.sinkBytes + frameLen f }, .ready (.ok ()))

/-- `send_pending_frames` (the `while let Some(frame) = pending_frames.pop_back()` loop) -/
def sendPendingGo (s : State) : List Frame → State × R Unit
  | [] => ({ s with pendQ := [] }, .ready (.ok ()))
  | f :: rest =>
    match sendFrame { s with pendQ := rest } f with
    | (s', .pending) => ({ s' with pendQ := f :: rest }, .pending)
    | (s', .ready (.error k)) => (s', .ready (.error k))
    | (s', .ready (.ok ())) => sendPendingGo s' rest

def sendPending (s : State) : State × R Unit := sendPendingGo s s.pendQ

/-- `poll_flush` -/
def pollFlush (s : State) : State × R Unit :=
  match s.status with
  | .closed => (s, .ready (.ok ()))
  | .err k => (s, .ready (.error k))
  | .opn =>
    match sendPending s with
    | (s, .pending) => (s, .pending)
    | (s, .ready (.error k)) => (s, .ready (.error k))
    | (s, .ready (.ok ())) =>
      if !s.sinkBuf.isEmpty && s.wblock then (s, .pending)
      else ({ s with wire := s.wire ++ s.sinkBuf, sinkBuf := [], sinkBytes := 0, pfo := [] }, .ready (.ok ()))

/-- `poll_close` (of the whole connection) -/
def pollClose (s : State) : State × R Unit :=
  match s.status with
  | .closed => (s, .ready (.ok ()))
  | .err k => (s, .ready (.error k))
  | .opn =>
    if !s.sinkBuf.isEmpty && s.wblock then (s, .pending)
    else ({ s with wire := s.wire ++ s.sinkBuf, sinkBuf := [], sinkBytes := 0,
                   pendQ := [], openQ := [], subs := [], status := .closed }, .ready (.ok ()))

/-! ### reading frames -/

/-- `poll_read_frame`, step 2: "Perform any pending flush before reading" -/
def readFlush (s : State) (sid : Option Sid) : State × Option (R Frame) :=
  match sid with
  | some id =>
    if s.pfo.contains id then
      match pollFlush s with
      | (s, .pending) => (s, some .pending)
      | (s, .ready (.error k)) => (s, some (.ready (.error k)))
      | (s, .ready (.ok ())) => ({ s with pfo := [] }, none)
    else (s, none)
  | none => (s, none)

/-- `poll_read_frame`, steps 3–4: the blocked-stream check and `io.poll_next_unpin` -/
def readTail (s : State) : State × R Frame :=
  if s.blocking.isSome then (s, .pending)
  else
    match s.inq with
    | [] => (s, .pending)
    | .frame f :: rest => ({ s with inq := rest }, .ready (.ok f))
    | .bad k :: rest => (onError { s with inq := rest } k, .ready (.error k))
    | .eof :: rest => (onError { s with inq := rest } .unexpectedEof, .ready (.error .unexpectedEof))

/-- `poll_read_frame` -/
def readFrame (s : State) (sid : Option Sid) : State × R Frame :=
  match sendPending s with
  | (s, .ready (.error k)) => (s, .ready (.error k))
  | (s, _) =>
    match readFlush s sid with
    | (s, some r) => (s, r)
    | (s, none) => readTail s

/-- `on_open` -/
def onOpen (s : State) (rid : Sid) : State × Except EK (Option Sid) :=
  let id := rid.mirror
  if (s.get id).isSome then (onError s .other, .error .other)
  else if s.subs.length ≥ s.cfg.maxSubs then
    match checkMaxPending s with
    | (s, .error k) => (s, .error k)
    | (s, .ok ()) => ({ s with pendQ := s.pendQ ++ [.reset id] }, .ok none)
  else (s.put { id := id, st := .opn, buf := [] }, .ok (some id))

/-- `on_reset` (after the fix `findings/C26-reset-removes-substream.fix.diff`: the entry removed at
the top of the function is re-inserted in the two "ignoring" arms, as `on_close` does) -/
def onReset (s : State) (id : Sid) : State :=
  match s.get id with
  | none => s
  | some x =>
    match x.st with
    | .closed => s.put x
    | .reset => s.put x
    | _ => s.put { x with st := .reset }

/-- `on_reset` as it was before the fix: `substreams.remove(&id)` and, for `Closed`/`Reset`, no
re-insert — the entry (and its buffered frames) vanished while the `Substream` handle lived on. -/
def onResetBuggy (s : State) (id : Sid) : State :=
  match s.get id with
  | none => s
  | some x =>
    match x.st with
    | .closed => s.del id
    | .reset => s.del id
    | _ => s.put { x with st := .reset }

/-- `on_close` -/
def onClose (s : State) (id : Sid) : State :=
  match s.get id with
  | none => s
  | some x =>
    match x.st with
    | .recvClosed | .closed | .reset => s
    | .sendClosed => s.put { x with st := .closed }
    | .opn => s.put { x with st := .recvClosed }

/-- `buffer` -/
def buffer (s : State) (id : Sid) (data : List Nat) : State × Except EK Unit :=
  match s.get id with
  | none => (s, .ok ())
  | some x =>
    if !x.st.recvOpen then (s, .ok ())
    else if x.buf.length > s.cfg.maxBuf then (s, .error .panic)          -- debug_assert!
    else
      let x := { x with buf := x.buf ++ [data], rx := x.rx ++ [data] }
      let s := s.put x
      if x.buf.length > s.cfg.maxBuf then
        if s.cfg.block then ({ s with blocking := some id }, .ok ())
        else
          match checkMaxPending s with
          | (s, .error k) => (s, .error k)
          | (s, .ok ()) => ({ (s.put { x with st := .reset }) with pendQ := s.pendQ ++ [.reset id] }, .ok ())
      else (s, .ok ())

/-! ### the public methods of `Multiplexed` -/

/-- the `loop` of `poll_next_stream`; `k` = `num_buffered` -/
def nextStreamLoop : Nat → State → Nat → State × R Sid
  | 0, s, _ => (s, .pending)
  | fuel + 1, s, k =>
    if k = s.cfg.maxBuf then (s, .pending)
    else
      match readFrame s none with
      | (s, .pending) => (s, .pending)
      | (s, .ready (.error e)) => (s, .ready (.error e))
      | (s, .ready (.ok f)) =>
        match f with
        | .opn rid =>
          (match onOpen s rid with
           | (s, .error e) => (s, .ready (.error e))
           | (s, .ok (some id)) => (s, .ready (.ok id))
           | (s, .ok none) => nextStreamLoop fuel s k)
        | .data rid d =>
          (match buffer s rid.mirror d with
           | (s, .error e) => (s, .ready (.error e))
           | (s, .ok ()) => nextStreamLoop fuel s (k + 1))
        | .close rid => nextStreamLoop fuel (onClose s rid.mirror) k
        | .reset rid => nextStreamLoop fuel (onReset s rid.mirror) k

/-- `poll_next_stream` -/
def pollNextStream (s : State) : State × R Sid :=
  match guardOpen s with
  | some e => (s, .ready (.error e))
  | none =>
    match s.openQ with
    | id :: rest => ({ s with openQ := rest }, .ready (.ok id))
    | [] => nextStreamLoop (s.inq.length + 1) s 0

/-- `poll_open_stream` -/
def pollOpenStream (s : State) : State × R Sid :=
  match guardOpen s with
  | some e => (s, .ready (.error e))
  | none =>
    if s.subs.length ≥ s.cfg.maxSubs then (s, .pending)
    else
      match sinkReady s with
      | (s, false) => (s, .pending)
      | (s, true) =>
        if s.nextId + 1 ≥ U64 then (s, .ready (.error .panic))      -- `checked_add(1).expect(..)`
        else
          let id : Sid := ⟨s.nextId, .dialer⟩
          let f : Frame := .opn id
          let s := { s with nextId := s.nextId + 1, sinkBuf := s.sinkBuf ++ [f], sinkBytes := s.sinkBytes + frameLen f }
          let s := s.put { id := id, st := .opn, buf := [] }
          ({ s with pfo := if s.pfo.contains id then s.pfo else id :: s.pfo }, .ready (.ok id))

/-- `drop_stream` (the last component is `true` when a Rust panic would occur) -/
def dropStream (s : State) (id : Sid) : State × Bool :=
  match s.status with
  | .closed | .err _ => (s, false)
  | .opn =>
    match s.get id with
    | none => (s, false)
    | some x =>
      let s := s.del id
      if s.cfg.maxSubs = 0 then (s, true)               -- `max_substreams - 1` underflows
      else
        match x.st with
        | .closed | .sendClosed | .reset => (s, false)
        | .recvClosed =>
          (match checkMaxPending s with
           | (s, .error _) => (s, false)
           | (s, .ok ()) => ({ s with pendQ := s.pendQ ++ [.close id] }, false))
        | .opn =>
          (match checkMaxPending s with
           | (s, .error _) => (s, false)
           | (s, .ok ()) => ({ s with pendQ := s.pendQ ++ [.reset id] }, false))

/-- `poll_write_stream`, the arm "Substream is writeable. Continue." (`x` = the table entry) -/
def writeOpen (s : State) (x : Sub) (id : Sid) (data : List Nat) : State × R Nat :=
  let n := min data.length s.cfg.split
  match sendFrame s (.data id (data.take n)) with
  | (s1, .pending) => (s1, .pending)
  | (s1, .ready (.error e)) => (s1, .ready (.error e))
  | (s1, .ready (.ok ())) =>
    -- ghost bookkeeping only: the accepted prefix and the Data frame put into the sink
    (s1.put { x with acc := x.acc ++ [data.take n], sent := x.sent ++ [some (data.take n)] }, .ready (.ok n))

/-- `poll_write_stream` -/
def pollWriteStream (s : State) (id : Sid) (data : List Nat) : State × R Nat :=
  match guardOpen s with
  | some e => (s, .ready (.error e))
  | none =>
    match s.get id with
    | none => (s, .ready (.error .brokenPipe))
    | some x =>
      match x.st with
      | .reset => (s, .ready (.error .brokenPipe))
      | .sendClosed | .closed => (s, .ready (.error .writeZero))
      | .opn | .recvClosed => writeOpen s x id data

/-- `can_read` -/
def canRead (s : State) (id : Sid) : Bool :=
  match s.get id with
  | some x => x.st.recvOpen
  | none => false

/-- the `loop` of `poll_read_stream` -/
def readStreamLoop : Nat → State → Sid → Nat → State × R (Option (List Nat))
  | 0, s, _, _ => (s, .pending)
  | fuel + 1, s, id, k =>
    if k = s.cfg.maxBuf then (s, .pending)
    else
      if !canRead s id then (s, .ready (.ok none))
      else
        match readFrame s (some id) with
        | (s, .pending) => (s, .pending)
        | (s, .ready (.error e)) => (s, .ready (.error e))
        | (s, .ready (.ok f)) =>
          match f with
          | .data rid d =>
            if rid.mirror = id then
              let s := match s.get id with
                | some x => s.put { x with rx := x.rx ++ [d], dl := x.dl ++ [d] }
                | none => s
              (s, .ready (.ok (some d)))
            else
              (match buffer s rid.mirror d with
               | (s, .error e) => (s, .ready (.error e))
               | (s, .ok ()) => readStreamLoop fuel s id (k + 1))
          | .opn rid =>
            (match onOpen s rid with
             | (s, .error e) => (s, .ready (.error e))
             | (s, .ok (some nid)) => readStreamLoop fuel { s with openQ := s.openQ ++ [nid] } id k
             | (s, .ok none) => readStreamLoop fuel s id k)
          | .close rid =>
            let s := onClose s rid.mirror
            if id = rid.mirror then (s, .ready (.ok none)) else readStreamLoop fuel s id k
          | .reset rid =>
            let s := onReset s rid.mirror
            if id = rid.mirror then (s, .ready (.ok none)) else readStreamLoop fuel s id k

/-- `poll_read_stream`, "Try to read from the buffer first" -/
def readFromBuf (s : State) (id : Sid) : Option (State × List Nat) :=
  match s.get id with
  | some x =>
    (match x.buf with
     | d :: rest =>
       let s := if s.blocking = some id then { s with blocking := none } else s
       some (s.put { x with buf := rest, dl := x.dl ++ [d] }, d)
     | [] => none)
  | none => none

/-- `poll_read_stream` -/
def pollReadStream (s : State) (id : Sid) : State × R (Option (List Nat)) :=
  match guardOpen s with
  | some e => (s, .ready (.error e))
  | none =>
    match readFromBuf s id with
    | some (s, d) => (s, .ready (.ok (some d)))
    | none => readStreamLoop (s.inq.length + 1) s id 0

/-- `poll_flush_stream` -/
def pollFlushStream (s : State) : State × R Unit :=
  match guardOpen s with
  | some e => (s, .ready (.error e))
  | none => pollFlush s

/-- `poll_close_stream`, the arms `Open`/`RecvClosed`: the entry has been removed, the `Close` frame
is sent, the entry is re-inserted (`x` = the removed entry) -/
def closeOpen (s : State) (x : Sub) (id : Sid) : State × R Unit :=
  match sendFrame (s.del id) (.close id) with
  | (s1, .ready (.error e)) => (s1, .ready (.error e))
  | (s1, .pending) => (s1.put x, .pending)
  | (s1, .ready (.ok ())) =>
    (s1.put { x with sent := x.sent ++ [none], st := if x.st = .opn then .sendClosed else .closed }, .ready (.ok ()))

/-- `poll_close_stream` -/
def pollCloseStream (s : State) (id : Sid) : State × R Unit :=
  match guardOpen s with
  | some e => (s, .ready (.error e))
  | none =>
    match s.get id with
    | none => (s, .ready (.ok ()))
    | some x =>
      match x.st with
      | .sendClosed | .closed | .reset => (s, .ready (.ok ()))
      | .opn | .recvClosed => closeOpen s x id

/-! ### `Substream` (lib.rs): a handle = stream id + `current_data` -/

structure Handle where
  id : Sid
  cur : List Nat := []
  deriving Repr, Inhabited

/-- `<Substream as AsyncRead>::poll_read` with a destination buffer of `n ≥ 1` bytes; the result is
the bytes copied (`[]` = `Ok(0)` = end of stream).  Fuel: every iteration takes a frame. -/
def substreamRead : Nat → State → Handle → Nat → State × Handle × R (List Nat)
  | 0, s, h, _ => (s, h, .pending)
  | fuel + 1, s, h, n =>
    if !h.cur.isEmpty then
      (s, { h with cur := h.cur.drop (min h.cur.length n) }, .ready (.ok (h.cur.take (min h.cur.length n))))
    else
      match pollReadStream s h.id with
      | (s, .pending) => (s, h, .pending)
      | (s, .ready (.error e)) => (s, h, .ready (.error e))
      | (s, .ready (.ok none)) => (s, h, .ready (.ok []))
      | (s, .ready (.ok (some d))) => substreamRead fuel s { h with cur := d } n

/-- `<Substream as AsyncWrite>::poll_close`: `poll_close_stream` then `poll_flush_stream` -/
def substreamClose (s : State) (id : Sid) : State × R Unit :=
  match pollCloseStream s id with
  | (s, .pending) => (s, .pending)
  | (s, .ready (.error e)) => (s, .ready (.error e))
  | (s, .ready (.ok ())) => pollFlushStream s

/-! ### operations of the driver -/

inductive Op
  | wire (items : List InItem)       -- environment: the remote's next frames / error / eof become readable
  | wblock (b : Bool)                -- environment: the connection stops / resumes accepting writes
  | inbound
  | outbound
  | read (id : Sid) (n : Nat)
  | write (id : Sid) (d : List Nat)
  | flush (id : Sid)
  | close (id : Sid)
  | drop (id : Sid)
  | closeConn
  deriving Repr, Inhabited

inductive Out
  | unit
  | pending
  | err (k : EK)
  | sid (id : Sid)
  | data (d : List Nat)          -- `[]` = EOF
  | wrote (n : Nat)
  | panic
  deriving Repr, Inhabited, DecidableEq

def outOfR {α} (f : α → Out) : R α → Out
  | .pending => .pending
  | .ready (.error .panic) => .panic
  | .ready (.error k) => .err k
  | .ready (.ok a) => f a

structure MState where
  s : State
  handles : List Handle := []
  deriving Repr, Inhabited

def MState.handle (m : MState) (id : Sid) : Handle :=
  (m.handles.find? (fun h => h.id == id)).getD { id := id }

def MState.setHandle (m : MState) (h : Handle) : MState :=
  { m with handles := h :: m.handles.filter (fun x => !(x.id == h.id)) }

def MState.dropHandle (m : MState) (id : Sid) : MState :=
  { m with handles := m.handles.filter (fun x => !(x.id == id)) }

/-- one driver operation; the second component is the API result, frames newly written to the
connection are read off `s.wire` by the driver -/
def step (m : MState) (op : Op) : MState × Out :=
  match op with
  | .wire items => ({ m with s := { m.s with inq := m.s.inq ++ items } }, .unit)
  | .wblock b => ({ m with s := { m.s with wblock := b } }, .unit)
  | .inbound =>
    let (s, r) := pollNextStream m.s
    let m := { m with s := s }
    (match r with
     | .ready (.ok id) => (m.setHandle { id := id }, .sid id)
     | r => (m, outOfR .sid r))
  | .outbound =>
    let (s, r) := pollOpenStream m.s
    let m := { m with s := s }
    (match r with
     | .ready (.ok id) => (m.setHandle { id := id }, .sid id)
     | r => (m, outOfR .sid r))
  | .read id n =>
    let h := m.handle id
    let (s, h, r) := substreamRead (m.s.inq.length + m.s.subs.length + 2 + (m.s.subs.map (fun x => x.buf.length)).sum) m.s h n
    (({ m with s := s }).setHandle h, outOfR .data r)
  | .write id d =>
    let (s, r) := pollWriteStream m.s id d
    ({ m with s := s }, outOfR .wrote r)
  | .flush _ =>
    let (s, r) := pollFlushStream m.s
    ({ m with s := s }, outOfR (fun _ => .unit) r)
  | .close id =>
    let (s, r) := substreamClose m.s id
    ({ m with s := s }, outOfR (fun _ => .unit) r)
  | .drop id =>
    let (s, p) := dropStream m.s id
    (({ m with s := s }).dropHandle id, if p then .panic else .unit)
  | .closeConn =>
    let (s, r) := pollClose m.s
    ({ m with s := s }, outOfR (fun _ => .unit) r)

end C26
