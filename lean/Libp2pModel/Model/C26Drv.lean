import Libp2pModel.Model.C26
import Libp2pModel.Model.C26Spec
import Libp2pModel.Model.C25Tok
/-!
Line protocol of the one-endpoint mplex sessions (C26, and the `mux=mplex1` cases of C24): one
`Multiplex` over an in-memory connection per case; the harness plays the remote.
```
case <idx> <class> nt=.. ms=<max_substreams> mb=<max_buffer_len> beh=<block|reset> split=<n>
op wire <bytes>        raw bytes the remote writes (decoded with the C25 model into frames/errors)
op eof | wblock <0|1> | inbound | outbound | read <sid> <n> | write <sid> <bytes> | flush <sid>
   | close <sid> | drop <sid> | closeconn
impl <ok|pending|err:Kind|sid:<n>:<r>|data:<bytes>|eof|wrote:<n>|panic> out=<frames written to the connection>
```
-/
namespace C26.Drv1
open Drv _root_.C26
open _root_.C25 (Sid Role Frame)

def parseSid (s : String) : Option Sid :=
  match s.splitOn ":" with
  | [n, r] =>
    match n.toNat?, _root_.C25.Tok.parseRole r with
    | some n, some r => some ⟨n, r⟩
    | _, _ => none
  | _ => none

def showSid (i : Sid) : String := s!"{i.num}:{_root_.C25.Tok.roleTok i.role}"

def ekTok : EK → String
  | .invalidData => "InvalidData"
  | .other => "Other"
  | .unexpectedEof => "UnexpectedEof"
  | .brokenPipe => "BrokenPipe"
  | .writeZero => "WriteZero"
  | .panic => "panic"

def showOut : Out → String
  | .unit => "ok"
  | .pending => "pending"
  | .err k => "err:" ++ ekTok k
  | .sid i => "sid:" ++ showSid i
  | .data [] => "eof"
  | .data d => "data:" ++ _root_.C25.Tok.showBytes d
  | .wrote n => s!"wrote:{n}"
  | .panic => "panic"

def parseOut (s : String) : Option Out :=
  match s.splitOn ":" with
  | ["ok"] => some .unit
  | ["pending"] => some .pending
  | ["eof"] => some (.data [])
  | ["panic"] => some .panic
  | ["err", "InvalidData"] => some (.err .invalidData)
  | ["err", "Other"] => some (.err .other)
  | ["err", "UnexpectedEof"] => some (.err .unexpectedEof)
  | ["err", "BrokenPipe"] => some (.err .brokenPipe)
  | ["err", "WriteZero"] => some (.err .writeZero)
  | ["sid", n, r] => (parseSid (n ++ ":" ++ r)).map .sid
  | ["data", b] => (_root_.C25.Tok.parseBytes b).map .data
  | ["wrote", n] => n.toNat?.map .wrote
  | _ => none

def cfgOf (toks : List String) : Cfg :=
  let get (k : String) : Option String :=
    toks.findSome? fun t => match t.splitOn "=" with
      | [a, b] => if a = k then some b else none
      | _ => none
  { maxSubs := ((get "ms").bind String.toNat?).getD 128
    maxBuf := ((get "mb").bind String.toNat?).getD 32
    block := (get "beh") != some "reset"
    split := ((get "split").bind String.toNat?).getD 8192 }

/-- model state + the remote→local byte decoder (C25) -/
structure DSt where
  m : MState
  dec : _root_.C25.St × List Nat := (.begin, [])
  deriving Inhabited

def itemsOf (fs : List Frame) (e : Option _root_.C25.DErr) : List InItem :=
  fs.map .frame ++ (match e with
    | none => []
    | some (.varint _) => [.bad .other]
    | some _ => [.bad .invalidData])

def parseOp (args : List String) : Option Op :=
  match args with
  | ["wblock", b] => some (.wblock (b = "1"))
  | ["inbound"] => some .inbound
  | ["outbound"] => some .outbound
  | ["read", i, n] => match parseSid i, n.toNat? with
    | some i, some n => some (.read i n)
    | _, _ => none
  | ["write", i, b] => match parseSid i, _root_.C25.Tok.parseBytes b with
    | some i, some b => some (.write i b)
    | _, _ => none
  | ["flush", i] => (parseSid i).map .flush
  | ["close", i] => (parseSid i).map .close
  | ["drop", i] => (parseSid i).map .drop
  | ["closeconn"] => some .closeConn
  | _ => none

def finish (d : DSt) (m : MState) (o : Out) : DSt × String :=
  let w := m.s.wire
  ({ d with m := { m with s := { m.s with wire := [] } } },
   showOut o ++ " out=" ++ _root_.C25.Tok.showFrames w)

def machine : Machine DSt SpecSt where
  init toks := { m := { s := { cfg := cfgOf toks } } }
  specInit toks := { cfg := cfgOf toks }
  op d args :=
    match args with
    | ["wire", b] =>
      match _root_.C25.Tok.parseBytes b with
      | some bytes =>
        let r := _root_.C25.drain d.dec.1 (d.dec.2 ++ bytes)
        let (m, o) := step d.m (.wire (itemsOf r.1 r.2.2.2))
        finish { d with dec := (r.2.1, r.2.2.1) } m o
      | none => (d, "bad-op")
    | ["eof"] =>
      let (m, o) := step d.m (.wire [.eof])
      finish d m o
    | _ =>
      match parseOp args with
      | some op => let (m, o) := step d.m op; finish d m o
      | none => (d, "bad-op")
  spec t args outs :=
    match outs with
    | [res, w] =>
      match parseOut res, (w.splitOn "=") with
      | some o, ["out", fs] =>
        match _root_.C25.Tok.parseFrames fs with
        | some fs =>
          let ev : Option SpecEv :=
            match args with
            | ["wire", b] => (_root_.C25.Tok.parseBytes b).map .wire
            | ["eof"] => some .other
            | _ => (parseOp args).map .op
          match ev with
          | some ev =>
            let r := specStep t ev o fs
            (r.1, if r.2 = "ok" then "ok" else "FAIL:" ++ r.2)
          | none => (t, "FAIL:unparsable")
        | none => (t, "FAIL:unparsable")
      | _, _ => (t, "FAIL:unparsable")
    | _ => (t, "FAIL:unparsable")

end C26.Drv1

