import Libp2pModel.Common.Drv
import Libp2pModel.Common.Machine
/-!
# C08 — `ConcurrentDial` / `SmartDial` (`swarm/src/connection/pool/concurrent_dial.rs`)

Dials are numbered `1..n` in input order.  `FuturesUnordered` is modelled by its content
(`inflight`) and its FIFO ready-to-run queue (`queue`: a future is enqueued when pushed and when
its waker fires).  The environment decides outcomes (`complete i ok|err`, any time, also before the
dial was started, also never).  One `poll` runs `ConcurrentDial::poll` until it returns.
`SmartDial` is the same machine with every dial pushed at `new` in rank order (window `n`), each
wrapped in `async { if !delay.is_zero() { Delay::new(delay).await }; dial.fut.await }`: the wrapper's
first poll arms a `Delay` (deadline = that poll's time + the ranked delay); the timer wakes the wrapper
once the clock (`adv`) has reached the deadline; only then is the dial future polled (= started).
`ConcurrentDial` is the instance with all delays 0.
-/
namespace C08

inductive Res where
  | ok (winner : Nat) (errors : List Nat)
  | err (errors : List Nat)
  deriving DecidableEq, Repr

structure St where
  /-- concurrency factor (`NonZeroU8`) -/
  k : Nat := 1
  n : Nat := 0
  /-- `pending_dials` iterator: not yet pushed -/
  pending : List Nat := []
  /-- content of the `FuturesUnordered` -/
  inflight : List Nat := []
  /-- ready-to-run queue of the `FuturesUnordered` -/
  queue : List Nat := []
  /-- outcomes decided by the environment -/
  outcomes : List (Nat × Bool) := []
  /-- dials whose future was polled at least once, in first-poll order -/
  started : List Nat := []
  errors : List Nat := []
  winner : Option Nat := none
  result : Option Res := none
  /-- maximum number of started-and-unfinished dials seen so far -/
  maxIn : Nat := 0
  /-- `SmartDial` (completions of dials that were not started are not possible) -/
  smart : Bool := false
  /-- monotonic clock (ms) -/
  now : Nat := 0
  /-- ranked delay per dial (absent = 0) -/
  delays : List (Nat × Nat) := []
  /-- wrappers never polled so far -/
  fresh : List Nat := []
  /-- wrappers waiting on their `Delay`: (dial, deadline) -/
  armed : List (Nat × Nat) := []
  /-- wrappers whose `Delay` has fired but which were not polled since -/
  released : List Nat := []
  /-- ghost: (wrapper, time of its first poll), (dial, time it was started), time of the first `poll` -/
  polledAt : List (Nat × Nat) := []
  startedAt : List (Nat × Nat) := []
  firstPoll : Option Nat := none

def outcomeOf (s : St) (i : Nat) : Option Bool := (s.outcomes.find? (·.1 == i)).map (·.2)

/-- dials numbered 1..n -/
def allDials (n : Nat) : List Nat := List.range' 1 n

/-- `ConcurrentDial::new`: push the first `k` dials -/
def new (n k : Nat) : St :=
  { k := k, n := n, pending := (allDials n).drop k, inflight := (allDials n).take k,
    queue := (allDials n).take k, fresh := allDials n }

/-- `SmartDial::new`: every dial is pushed, in rank order, behind its delay -/
def newSmart (order : List Nat) (delays : List (Nat × Nat)) : St :=
  { k := max order.length 1, n := order.length, inflight := order, queue := order, fresh := order,
    smart := true, delays := delays }

def delayOf (s : St) (i : Nat) : Nat := ((s.delays.find? (·.1 == i)).map (·.2)).getD 0

/-- started and not finished -/
def live (s : St) : List Nat := s.inflight.filter (fun i => s.started.contains i)

/-- environment: the transport dial `i` finishes (its waker, if registered, enqueues the task) -/
def complete (s : St) (i : Nat) (ok : Bool) : St :=
  if s.result.isSome || (outcomeOf s i).isSome || i == 0 || i > s.n
      || (s.smart && !s.started.contains i) then s else
  let s1 := { s with outcomes := s.outcomes ++ [(i, ok)] }
  if s.started.contains i && s.inflight.contains i && !s.queue.contains i then
    { s1 with queue := s.queue ++ [i] }
  else s1

/-- the wrapper around dial `t` is polled: either the dial future is reached (`pass`: only the gate
bookkeeping changes, the ready queue is still `t :: q`) or the wrapper stays `Pending` behind its
`Delay` (`wait`: dequeued) -/
inductive GateRes where
  | pass (s : St)
  | wait (s : St)

def gate (s : St) (t : Nat) (q : List Nat) : GateRes :=
  if s.fresh.contains t then
    if delayOf s t == 0 then
      .pass { s with fresh := s.fresh.erase t, polledAt := s.polledAt ++ [(t, s.now)],
                     startedAt := if s.started.contains t then s.startedAt else s.startedAt ++ [(t, s.now)] }
    else
      .wait { s with queue := q, fresh := s.fresh.erase t, polledAt := s.polledAt ++ [(t, s.now)],
                     armed := s.armed ++ [(t, s.now + delayOf s t)] }
  else if s.released.contains t then
    .pass { s with released := s.released.erase t,
                   startedAt := if s.started.contains t then s.startedAt else s.startedAt ++ [(t, s.now)] }
  else if s.started.contains t then .pass s
  else .wait { s with queue := q }

/-- dequeue task `t` from the ready queue and poll its dial future (first poll = the dial is started) -/
def deq (s : St) (t : Nat) (q : List Nat) : St :=
  let s1 := { s with queue := q, started := if s.started.contains t then s.started else s.started ++ [t] }
  { s1 with maxIn := max s1.maxIn (live s1).length }

/-- `Some((addr, Ok(output)))` -/
def succeed (s : St) (t : Nat) : St :=
  { s with inflight := s.inflight.erase t, winner := some t, result := some (.ok t s.errors) }

/-- `Some((addr, Err(e)))`: `self.errors.push((addr, e))` -/
def fail (s : St) (t : Nat) : St :=
  { s with inflight := s.inflight.erase t, errors := s.errors ++ [t] }

/-- `if let Some(dial) = self.pending_dials.next() { self.dials.push(dial.fut) }` -/
def startNext (s : St) : St :=
  match s.pending with
  | [] => s
  | j :: r => { s with pending := r, inflight := s.inflight ++ [j], queue := s.queue ++ [j] }

/-- the body of `loop { match ready!(self.dials.poll_next_unpin(cx)) … }` -/
def pollLoop : Nat → St → St
  | 0, s => s
  | fuel + 1, s =>
    if s.result.isSome then s else
    if s.inflight.isEmpty then { s with result := some (.err s.errors) } else   -- `None`
    match s.queue with
    | [] => s                                                                    -- `Pending`
    | t :: q =>
      match gate s t q with
      | .wait s' => pollLoop fuel s'
      | .pass s' =>
        match outcomeOf s' t with
        | none => pollLoop fuel (deq s' t q)
        | some true => succeed (deq s' t q) t
        | some false => pollLoop fuel (startNext (fail (deq s' t q) t))

def poll (s : St) : St :=
  let s0 := if s.firstPoll.isSome then s else { s with firstPoll := some s.now }
  pollLoop (s0.queue.length + s0.pending.length + 2) s0

/-- one timer whose deadline has passed wakes its wrapper -/
def release (s : St) (a : Nat) : St :=
  let s1 := { s with released := s.released ++ [a] }
  if s.inflight.contains a && !s.queue.contains a then { s1 with queue := s.queue ++ [a] } else s1

/-- the clock advances; futures-timer fires every `Delay` whose deadline has been reached -/
def advance (s : St) (d : Nat) : St :=
  if s.result.isSome then { s with now := s.now + d } else
  let due := s.armed.filter (fun e => e.2 ≤ s.now + d)
  (due.map (·.1)).foldl release
    { s with now := s.now + d, armed := s.armed.filter (fun e => !(e.2 ≤ s.now + d)) }

inductive Op where
  | complete (i : Nat) (ok : Bool)
  | poll
  | adv (d : Nat)

def step (s : St) : Op → St × Unit
  | .complete i ok => (complete s i ok, ())
  | .poll => (poll s, ())
  | .adv d => (advance s d, ())

/-- gate clause of the Spec: every start recorded at time `t` respects the dial's delay counted from
the first poll -/
def gateOk (delay : Nat → Nat) (firstPoll : Option Nat) (startedAt : List (Nat × Nat)) : Bool :=
  startedAt.all fun e => match firstPoll with
    | some t0 => decide (t0 + delay e.1 ≤ e.2)
    | none => false

/-! ## the property as an executable statement over one observation of the implementation -/
/-- observation printed by the harness -/
structure Obs where
  started : List Nat
  inFlight : List Nat
  maxIn : Nat
  result : Option Res

def nodupB : List Nat → Bool
  | [] => true
  | a :: r => !r.contains a && nodupB r

/-- `k`-window, each address attempted at most once (the observation lists distinct dials of the
input), success iff an attempted address succeeded, on failure every attempted address exactly once
in the errors.  `outs` = the outcomes the environment has decided so far. -/
def specKey (n k : Nat) (outs : List (Nat × Bool)) (o : Obs) : String :=
  let outcome := fun i => (outs.find? (·.1 == i)).map (·.2)
  if o.maxIn > k || o.inFlight.length > k then "more_than_k_in_flight"
  else if !nodupB o.started || !o.started.all (fun i => 1 ≤ i && i ≤ n) then "attempted_twice"
  else match o.result with
    | none => ""
    | some (.ok w errs) =>
      if !(o.started.contains w && outcome w == some true) then "success_without_successful_attempt"
      else if !(nodupB errs && errs.all (fun i => o.started.contains i && outcome i == some false)) then "bad_error_list"
      else ""
    | some (.err errs) =>
      if o.started.any (fun i => outcome i == some true && !errs.contains i) then "failure_despite_success"
      else if !(nodupB errs && errs.all o.started.contains && o.started.all errs.contains
                && errs.all (fun i => outcome i == some false)) then "errors_not_each_attempt_once"
      else ""

def obsOf (s : St) : Obs :=
  { started := s.started, inFlight := live s, maxIn := s.maxIn, result := s.result }

end C08
