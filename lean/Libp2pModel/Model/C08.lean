import Libp2pModel.Common.Drv
import Libp2pModel.Common.Machine
/-!
# C08 — `ConcurrentDial` / `SmartDial` (`swarm/src/connection/pool/concurrent_dial.rs`)

Dials are numbered `1..n` in input order.  `FuturesUnordered` is modelled by its content
(`inflight`) and its FIFO ready-to-run queue (`queue`: a future is enqueued when pushed and when
its waker fires).  The environment decides outcomes (`complete i ok|err`, any time, also before the
dial was started, also never).  One `poll` runs `ConcurrentDial::poll` until it returns.
`SmartDial` is the same machine with every dial pushed at `new` (each wrapped in its `Delay`); the
model is entered after all delays elapsed, i.e. with concurrency window `n`.
-/
namespace C08

inductive Res where
  | ok (winner : Nat) (errors : List Nat)
  | err (errors : List Nat)
  deriving DecidableEq, Repr

structure St where
  /-- concurrency factor (`NonZeroU8`) -/
  k : Nat := 1
  n : Nat := 0
  /-- `pending_dials` iterator: not yet pushed -/
  pending : List Nat := []
  /-- content of the `FuturesUnordered` -/
  inflight : List Nat := []
  /-- ready-to-run queue of the `FuturesUnordered` -/
  queue : List Nat := []
  /-- outcomes decided by the environment -/
  outcomes : List (Nat × Bool) := []
  /-- dials whose future was polled at least once, in first-poll order -/
  started : List Nat := []
  errors : List Nat := []
  winner : Option Nat := none
  result : Option Res := none
  /-- maximum number of started-and-unfinished dials seen so far -/
  maxIn : Nat := 0

def outcomeOf (s : St) (i : Nat) : Option Bool := (s.outcomes.find? (·.1 == i)).map (·.2)

/-- dials numbered 1..n -/
def allDials (n : Nat) : List Nat := List.range' 1 n

/-- `ConcurrentDial::new`: push the first `k` dials -/
def new (n k : Nat) : St :=
  { k := k, n := n, pending := (allDials n).drop k, inflight := (allDials n).take k,
    queue := (allDials n).take k }

/-- started and not finished -/
def live (s : St) : List Nat := s.inflight.filter (fun i => s.started.contains i)

/-- environment: the transport dial `i` finishes (its waker, if registered, enqueues the task) -/
def complete (s : St) (i : Nat) (ok : Bool) : St :=
  if s.result.isSome || (outcomeOf s i).isSome || i == 0 || i > s.n then s else
  let s1 := { s with outcomes := s.outcomes ++ [(i, ok)] }
  if s.started.contains i && s.inflight.contains i && !s.queue.contains i then
    { s1 with queue := s.queue ++ [i] }
  else s1

/-- dequeue task `t` from the ready queue and poll its future (first poll = the dial is started) -/
def deq (s : St) (t : Nat) (q : List Nat) : St :=
  let s1 := { s with queue := q, started := if s.started.contains t then s.started else s.started ++ [t] }
  { s1 with maxIn := max s1.maxIn (live s1).length }

/-- `Some((addr, Ok(output)))` -/
def succeed (s : St) (t : Nat) : St :=
  { s with inflight := s.inflight.erase t, winner := some t, result := some (.ok t s.errors) }

/-- `Some((addr, Err(e)))`: `self.errors.push((addr, e))` -/
def fail (s : St) (t : Nat) : St :=
  { s with inflight := s.inflight.erase t, errors := s.errors ++ [t] }

/-- `if let Some(dial) = self.pending_dials.next() { self.dials.push(dial.fut) }` -/
def startNext (s : St) : St :=
  match s.pending with
  | [] => s
  | j :: r => { s with pending := r, inflight := s.inflight ++ [j], queue := s.queue ++ [j] }

/-- the body of `loop { match ready!(self.dials.poll_next_unpin(cx)) … }` -/
def pollLoop : Nat → St → St
  | 0, s => s
  | fuel + 1, s =>
    if s.result.isSome then s else
    if s.inflight.isEmpty then { s with result := some (.err s.errors) } else   -- `None`
    match s.queue with
    | [] => s                                                                    -- `Pending`
    | t :: q =>
      match outcomeOf s t with
      | none => pollLoop fuel (deq s t q)
      | some true => succeed (deq s t q) t
      | some false => pollLoop fuel (startNext (fail (deq s t q) t))

def poll (s : St) : St := pollLoop (s.queue.length + s.pending.length + 2) s

inductive Op where
  | complete (i : Nat) (ok : Bool)
  | poll

def step (s : St) : Op → St × Unit
  | .complete i ok => (complete s i ok, ())
  | .poll => (poll s, ())

/-! ## the property as an executable statement over one observation of the implementation -/
/-- observation printed by the harness -/
structure Obs where
  started : List Nat
  inFlight : List Nat
  maxIn : Nat
  result : Option Res

def nodupB : List Nat → Bool
  | [] => true
  | a :: r => !r.contains a && nodupB r

/-- `k`-window, each address attempted at most once (the observation lists distinct dials of the
input), success iff an attempted address succeeded, on failure every attempted address exactly once
in the errors.  `outs` = the outcomes the environment has decided so far. -/
def specKey (n k : Nat) (outs : List (Nat × Bool)) (o : Obs) : String :=
  let outcome := fun i => (outs.find? (·.1 == i)).map (·.2)
  if o.maxIn > k || o.inFlight.length > k then "more_than_k_in_flight"
  else if !nodupB o.started || !o.started.all (fun i => 1 ≤ i && i ≤ n) then "attempted_twice"
  else match o.result with
    | none => ""
    | some (.ok w errs) =>
      if !(o.started.contains w && outcome w == some true) then "success_without_successful_attempt"
      else if !(nodupB errs && errs.all (fun i => o.started.contains i && outcome i == some false)) then "bad_error_list"
      else ""
    | some (.err errs) =>
      if o.started.any (fun i => outcome i == some true && !errs.contains i) then "failure_despite_success"
      else if !(nodupB errs && errs.all o.started.contains && o.started.all errs.contains
                && errs.all (fun i => outcome i == some false)) then "errors_not_each_attempt_once"
      else ""

def obsOf (s : St) : Obs :=
  { started := s.started, inFlight := live s, maxIn := s.maxIn, result := s.result }

end C08
