import Libp2pModel.Common.Drv
/-!
# C38 — model of `ClosestBucketsIter` / `ClosestIter` (`protocols/kad/src/kbucket.rs`)

Keys and distances are 256-bit integers (`Nat`); the correspondence with the 32-byte big-endian
`KeyBytes` is property C40.  A table is the local key, the bucket size and 256 buckets, each the
list of its keys in bucket order (what `KBucket::iter` yields).
-/
namespace C38

def NUM_BUCKETS : Nat := 256

/-- `BucketIndex::new(&distance)`: `ilog2` of a non-zero distance (C40.bucket_index) -/
def bucketIndex (d : Nat) : Option Nat := if d = 0 then none else some d.log2

/-- `ClosestBucketsIterState` -/
inductive St where
  | start (i : Nat)
  | zoomIn (i : Nat)
  | zoomOut (i : Nat)
  | done
  deriving Repr, DecidableEq

/-- `ClosestBucketsIter::new` -/
def new (d : Nat) : St :=
  match bucketIndex d with
  | some i => .start i
  | none => .start 0

/-- `next_in`: `(0..i).rev().find_map(|i| distance.bit(i).then(i))` -/
def nextIn (d : Nat) : Nat → Option Nat
  | 0 => none
  | i+1 => if d.testBit i then some i else nextIn d i

/-- `(s..s+n).find_map(|i| (!distance.bit(i)).then(i))` -/
def findClear (d : Nat) : Nat → Nat → Option Nat
  | _, 0 => none
  | s, n+1 => if !d.testBit s then some s else findClear d (s+1) n

/-- `next_out`: `(i+1..NUM_BUCKETS).find_map(..)` -/
def nextOut (d i : Nat) : Option Nat := findClear d (i+1) (NUM_BUCKETS - (i+1))

/-- the `ZoomOut(i)` arm of `Iterator::next` -/
def nextZoomOut (d i : Nat) : Option Nat × St :=
  match nextOut d i with
  | some j => (some j, .zoomOut j)
  | none => (none, .done)

/-- `Iterator for ClosestBucketsIter`: `next` — the code as REPAIRED
(`findings/C38-bucket0-twice.fix.diff`): when zooming in has just yielded bucket 0, it is not
yielded again. -/
def next (d : Nat) : St → Option Nat × St
  | .start i => (some i, .zoomIn i)
  | .zoomIn i =>
    match nextIn d i with
    | some j => (some j, .zoomIn j)
    | none =>
      if i = 0 then nextZoomOut d i
      else (some 0, .zoomOut 0)
  | .zoomOut i => nextZoomOut d i
  | .done => (none, .done)

/-- `next` as it was before the repair: `ZoomIn` always falls through to `BucketIndex(0)`. -/
def nextBuggy (d : Nat) : St → Option Nat × St
  | .start i => (some i, .zoomIn i)
  | .zoomIn i =>
    match nextIn d i with
    | some j => (some j, .zoomIn j)
    | none => (some 0, .zoomOut 0)
  | .zoomOut i => nextZoomOut d i
  | .done => (none, .done)

/-- drain an iterator (`fuel` bounds the number of `next` calls) -/
def drain (nx : St → Option Nat × St) : Nat → St → List Nat
  | 0, _ => []
  | f+1, st =>
    match nx st with
    | (some i, st') => i :: drain nx f st'
    | (none, _) => []

/-- more than enough `next` calls: at most 257 indices are ever produced (the proofs use a loose bound) -/
def FUEL : Nat := 600

/-- the sequence of bucket indices `ClosestBucketsIter::new(d)` produces -/
def bucketOrder (d : Nat) : List Nat := drain (next d) FUEL (new d)

def bucketOrderBuggy (d : Nat) : List Nat := drain (nextBuggy d) FUEL (new d)

/-- closed form: set bits of the distance in descending order, then clear bits ascending -/
def bucketOrderSpec (d : Nat) : List Nat :=
  ((List.range NUM_BUCKETS).reverse.filter fun i => d.testBit i) ++
  ((List.range NUM_BUCKETS).filter fun i => !d.testBit i)

/-! ## The table and `closest_keys` -/

structure Table where
  localKey : Nat
  bucketSize : Nat
  /-- 256 buckets; bucket `i` lists its keys in bucket order -/
  buckets : List (List Nat)
  deriving Repr

def Table.new (localKey bucketSize : Nat) : Table :=
  ⟨localKey, bucketSize, List.replicate NUM_BUCKETS []⟩

def Table.bucket (t : Table) (i : Nat) : List Nat := t.buckets.getD i []

/-- all stored keys -/
def Table.keys (t : Table) : List Nat := (List.range NUM_BUCKETS).flatMap t.bucket

/-- the comparison used by `buffer.sort_by` -/
def closerTo (target : Nat) (a b : Nat) : Bool := decide (target ^^^ a ≤ target ^^^ b)

/-- one bucket's contribution: `bucket.iter().take(bucket_size)`, stably sorted by distance to the
target -/
def bucketSorted (t : Table) (target i : Nat) : List Nat :=
  ((t.bucket i).take t.bucketSize).mergeSort (closerTo target)

/-- `ClosestIter`: concatenation over the bucket order (parametrised by the order for the
pre-repair variant) -/
def closestWith (order : Nat → List Nat) (t : Table) (target : Nat) : List Nat :=
  (order (t.localKey ^^^ target)).flatMap (bucketSorted t target)

/-- `KBucketsTable::closest_keys(target).collect()` -/
def closestKeys (t : Table) (target : Nat) : List Nat := closestWith bucketOrder t target

def closestKeysBuggy (t : Table) (target : Nat) : List Nat := closestWith bucketOrderBuggy t target

/-- result of the harness's `insert` (all nodes inserted as `Connected`): the `Entry` looked up
and `KBucket::insert(.., Connected)` on a bucket without disconnected nodes -/
inductive InsertRes where
  | isLocal | present | inserted | full
  deriving Repr, DecidableEq

def setBucket (bs : List (List Nat)) (i : Nat) (b : List Nat) : List (List Nat) := bs.set i b

def Table.insert (t : Table) (k : Nat) : Table × InsertRes :=
  match bucketIndex (t.localKey ^^^ k) with
  | none => (t, .isLocal)
  | some i =>
    let b := t.bucket i
    if b.contains k then (t, .present)
    else if b.length ≥ t.bucketSize then (t, .full)
    else ({ t with buckets := setBucket t.buckets i (b ++ [k]) }, .inserted)

/-! ## Executable Spec -/

/-- sorted by non-decreasing XOR distance to the target -/
def sortedTo (target : Nat) : List Nat → Bool
  | [] => true
  | [_] => true
  | a :: b :: rest => decide (target ^^^ a ≤ target ^^^ b) && sortedTo target (b :: rest)

/-- every element of `stored` occurs exactly once in `out`, and nothing else occurs -/
def exactlyOnce (stored out : List Nat) : Bool :=
  stored.all (fun k => out.count k == 1) && out.all (fun k => stored.contains k)

/-- THE property on an output: every stored key exactly once, in non-decreasing distance -/
def spec (stored : List Nat) (target : Nat) (out : List Nat) : Bool :=
  exactlyOnce stored out && sortedTo target out

/-- Spec for the bucket order: every index below 256 exactly once -/
def specOrder (out : List Nat) : Bool := exactlyOnce (List.range NUM_BUCKETS) out

end C38
