import Libp2pModel.Model.SwarmIO
/-!
# Executable Specs (trace monitors) for the Swarm properties C01 C02 C04 C05 C06

Each monitor consumes ONLY what the implementation printed (ops, results, events, counters) and
never looks at the model state.  `Hist` is the fold of the event history: the life-cycle status of
every connection id seen so far.
-/
namespace Swarm.Spec
open Swarm

inductive St where
  | pendOut (expected : Option Nat)
  | pendIn
  | est (p : Nat) (out : Bool)
  | failed
  | closed
  deriving DecidableEq, Repr, Inhabited

structure Hist where
  /-- connection id ↦ status; most recent binding first -/
  conns : List (Nat × St) := []
  /-- global transport dial index ↦ owning connection id -/
  dialOwner : List (Nat × Nat) := []
  nextDial : Nat := 0
  /-- connection id whose `Swarm::dial` is being executed (owner of the `tdial` events of this step) -/
  curDial : Option Nat := none
  /-- behaviour life-cycle calls not yet matched by their SwarmEvent: (kind, conn) -/
  bQueue : List (Nat × Nat) := []
  /-- connections some behaviour denied -/
  denied : List Nat := []
  /-- connections for which the denied failure pair was seen: (conn, #b failures, #s failures) -/
  listened : List Maddr := []
  deriving Repr, Inhabited

def Hist.status (h : Hist) (c : Nat) : Option St := (h.conns.find? (·.1 == c)).map (·.2)

def Hist.set (h : Hist) (c : Nat) (s : St) : Hist :=
  { h with conns := (c, s) :: h.conns.filter (·.1 != c) }

def Hist.numEst (h : Hist) (p : Nat) : Nat :=
  (h.conns.filter fun x => match x.2 with | .est q _ => q == p | _ => false).length

def Hist.count (h : Hist) (f : St → Bool) : Nat := (h.conns.filter (fun x => f x.2)).length

def Hist.connectedPeers (h : Hist) : List Nat :=
  h.conns.foldl (fun acc x => match x.2 with | .est p _ => insertSorted p acc | _ => acc) []

def Hist.isConnected (h : Hist) (p : Nat) : Bool := h.numEst p > 0
def Hist.isDialing (h : Hist) (p : Nat) : Bool :=
  h.conns.any fun x => match x.2 with | .pendOut e => e == some p | _ => false

/-- life-cycle kinds: 0 Established, 1 Closed, 2 DialFailure/OutgoingError, 3 ListenFailure/IncomingError -/
def bKind : Ev → Option (Nat × Nat)
  | .bEstablished c .. => some (0, c)
  | .bClosed c .. => some (1, c)
  | .bDialFailure c .. => some (2, c)
  | .bListenFailure c .. => some (3, c)
  | _ => none

def sKind : Ev → Option (Nat × Nat)
  | .sEstablished c .. => some (0, c)
  | .sClosed c .. => some (1, c)
  | .sOutgoingError c .. => some (2, c)
  | .sIncomingError c .. => some (3, c)
  | _ => none

/-- One event of the raw, ordered log.  Returns the new history and the violated clauses
(C01: life-cycle; C02: the `num_established`/`remaining` values carried by events). -/
def Hist.feed (h : Hist) (e : Ev) : Hist × List String :=
  -- C01 (4): the behaviour sees the same life cycle in the same order
  let (h, v0) : Hist × List String :=
    match bKind e with
    | some k => ({ h with bQueue := h.bQueue ++ [k] }, [])
    | none =>
      match sKind e with
      | some k =>
        match h.bQueue with
        | q :: rest => if q = k then ({ h with bQueue := rest }, []) else ({ h with bQueue := rest }, ["C01:order_mismatch"])
        | [] => (h, ["C01:swarm_event_without_behaviour_call"])
      | none => (h, [])
  match e with
  | .tdial _ =>
    ({ h with nextDial := h.nextDial + 1,
              dialOwner := match h.curDial with
                | some c => (h.nextDial, c) :: h.dialOwner
                | none => h.dialOwner }, v0)
  | .sDialing c p => (h.set c (.pendOut p), v0)
  | .sIncoming c =>
    match h.status c with
    | none => (h.set c .pendIn, v0)
    | some _ => (h, v0 ++ ["C01:id_reused"])
  | .sEstablished c p out num _ =>
    let v1 := match h.status c with
      | some (.pendOut _) => if out then [] else ["C01:established_direction"]
      | some .pendIn => if out then ["C01:established_direction"] else []
      | some _ => ["C01:second_terminal_event"]
      | none => ["C01:established_unknown_id"]
    let v2 := if num = h.numEst p + 1 then [] else ["C02:num_established"]
    (h.set c (.est p out), v0 ++ v1 ++ v2)
  | .bEstablished _ p _ other _ =>
    (h, v0 ++ (if other = h.numEst p then [] else ["C02:other_established"]))
  | .sOutgoingError c _ _ =>
    let v1 := match h.status c with
      | some (.pendOut _) => []
      | some _ => ["C01:second_terminal_event"]
      | none => ["C01:error_unknown_id"]
    (h.set c .failed, v0 ++ v1)
  | .sIncomingError c _ _ =>
    let v1 := match h.status c with
      | some .pendIn => []
      | none => []          -- denied before it was ever announced (`handle_pending_inbound_connection`)
      | some _ => ["C01:second_terminal_event"]
    (h.set c .failed, v0 ++ v1)
  | .sClosed c p num _ =>
    match h.status c with
    | some (.est q _) =>
      let h' := h.set c .closed
      (h', v0 ++ (if q = p then [] else ["C01:closed_peer_mismatch"]) ++
        (if num = h'.numEst p then [] else ["C02:num_established_closed"]))
    | some .closed => (h, v0 ++ ["C01:closed_twice"])
    | _ => (h, v0 ++ ["C01:closed_without_established"])
  | .bClosed c p remaining _ =>
    -- called before the SwarmEvent: the connection is still `est` in the history
    let after := h.numEst p - (match h.status c with | some (.est q _) => if q = p then 1 else 0 | _ => 0)
    (h, v0 ++ (if remaining = after then [] else ["C02:remaining_established"]))
  | .bPendingIn c true | .bPendingOut c true | .bEstIn c true | .bEstOut c true =>
    ({ h with denied := c :: h.denied }, v0)
  | .sNewListenAddr a => ({ h with listened := if h.listened.contains a then h.listened else h.listened ++ [a] }, v0)
  | .sExpiredListenAddr a => ({ h with listened := h.listened.filter (· != a) }, v0)
  | _ => (h, v0)

def Hist.feedAll (h : Hist) : List Ev → Hist × List String
  | [] => (h, [])
  | e :: es =>
    let (h1, v1) := h.feed e
    let (h2, v2) := h1.feedAll es
    (h2, v1 ++ v2)

/-- End of a step (the Swarm is idle): every behaviour life-cycle call has been matched, except the
single `DialFailure` of a synchronously rejected `Swarm::dial` (`syncRejected`). -/
def Hist.endStep (h : Hist) (syncRejected : Option Nat) : Hist × List String :=
  let q := match syncRejected with
    | some c => h.bQueue.filter (· != (2, c))
    | none => h.bQueue
  ({ h with bQueue := [] }, if q.isEmpty then [] else ["C01:behaviour_call_without_swarm_event"])

/-- C02: the counters and peer views printed by the implementation equal the history fold. -/
def Hist.checkObs (h : Hist) (l : IO.ImplLine) : List String :=
  -- C01: every id handed out and not yet ended by a terminal event is still pending in the Swarm
  (if l.pi + l.po = h.count (fun s => match s with | .pendOut _ | .pendIn => true | _ => false) then []
   else ["C01:pending_id_vanished_without_terminal_event"]) ++
  (if l.pi = h.count (· == .pendIn) then [] else ["C02:pending_incoming"]) ++
  (if l.po = h.count (fun s => match s with | .pendOut _ => true | _ => false) then [] else ["C02:pending_outgoing"]) ++
  (if l.ei = h.count (fun s => match s with | .est _ false => true | _ => false) then [] else ["C02:established_incoming"]) ++
  (if l.eo = h.count (fun s => match s with | .est _ true => true | _ => false) then [] else ["C02:established_outgoing"]) ++
  (if l.peers = h.connectedPeers then [] else ["C02:connected_peers"]) ++
  (if l.np = h.connectedPeers.length then [] else ["C02:num_peers"])

/-! ## C04 — dial preconditions and address selection -/

def stripP2p (a : Maddr) (pb : List Nat) : Maddr :=
  match a.getLast? with
  | some (.p2p q) => if q = pb then a.dropLast else a
  | _ => a

def nodup : List Maddr → Bool
  | [] => true
  | a :: rest => !rest.contains a && nodup rest

/-- C04 on one `dial` op, given the history BEFORE the op, the op's arguments, and what the
implementation printed. `pb` = multihash bytes of the target peer (if any). -/
def checkDial (h : Hist) (c : Cond) (peer : Option Nat) (pb : List Nat) (viaBeh : Bool)
    (inputs : List Maddr) (l : IO.ImplLine) (poBefore : Nat) : List String :=
  let suffix (a : Maddr) : Option Maddr := match peer with
    | some _ => Maddr.withP2p a pb
    | none => some a
  let id := l.id.getD 0
  let tdials := l.log.filterMap fun e => match e with | .tdial a => some a | _ => none
  let nFail := (l.log.filter fun e => match e with | .bDialFailure c' _ _ => c' == id | _ => false).length
  let condHolds : Bool := match peer with
    | none => true
    | some p => match c with
      | .always => true
      | .disconnected => !h.isConnected p
      | .notDialing => !h.isDialing p
      | .disconnectedAndNotDialing => !h.isDialing p && !h.isConnected p
  if !condHolds then
    -- rejected with DialPeerConditionFalse, reported once, no pending connection, nothing dialed
    (if viaBeh || l.res = "err:DialPeerConditionFalse" then [] else ["C04:cond_false_not_rejected"]) ++
    (if l.log.any (fun e => match e with | .bDialFailure c' _ .condFalse => c' == id | _ => false) && nFail = 1 then [] else ["C04:cond_false_not_reported_once"]) ++
    (if tdials.isEmpty then [] else ["C04:cond_false_dialed"]) ++
    (if l.po = poBefore then [] else ["C04:cond_false_pending_created"])
  else
    (if l.res = "err:DialPeerConditionFalse" then ["C04:cond_true_rejected"] else []) ++
    -- attempted addresses: never one of our own listen addresses (before or after the suffix) …
    -- (every attempted address stems from a requested address that is not a listen address)
    (if tdials.any (fun a' => (inputs.filter (fun a => suffix a == some a')).all (fun a => h.listened.contains a))
      then ["C04:dialed_own_listen_address"] else []) ++
    -- … each distinct address at most once …
    (if nodup tdials then [] else ["C04:address_dialed_twice"]) ++
    -- … with the /p2p suffix of the target peer
    (match peer with
     | some _ => if tdials.all (fun a => a.getLast? == some (.p2p pb)) then [] else ["C04:missing_p2p_suffix"]
     | none => []) ++
    (if l.res = "err:NoAddresses" && !tdials.isEmpty then ["C04:no_addresses_but_dialed"] else [])

/-! ## C05 — peer identity of established connections -/

/-- `resolve k p deny` (dial) / `resolveIn` (expected = none): what the implementation printed must be
consistent with: established ⇒ expected ∈ {none, p} ∧ p ≠ local; mismatch ⇒ WrongPeerId / LocalPeerId
and the muxer is closed. -/
def checkResolve (h : Hist) (dialSide : Bool) (k p : Nat) (l : IO.ImplLine) : List String :=
  let owner : Option Nat := if dialSide then (h.dialOwner.find? (·.1 == k)).map (·.2) else none
  let expected : Option Nat := match owner.bind h.status with
    | some (.pendOut e) => e
    | _ => none
  let ests := l.log.filterMap fun e => match e with | .sEstablished c q _ _ _ => some (c, q) | _ => none
  let muxClosed := l.log.any fun e => match e with | .muxClosed d k' => d == dialSide && k' == k | _ => false
  (if ests.all (fun (_, q) => q == p) then [] else ["C05:established_with_other_peer_than_authenticated"]) ++
  (if ests.all (fun (_, q) => q != 0) then [] else ["C05:established_local_peer"]) ++
  (if ests.all (fun (c, q) => match h.status c with
      | some (.pendOut (some e)) => e == q
      | _ => true) then [] else ["C05:established_unexpected_peer"]) ++
  -- failure side: when the implementation reports a failure for this resolution it is the right one
  (l.log.foldl (fun acc e => match e with
    | .sOutgoingError _ _ (.wrongPeerId o) =>
      acc ++ (if o = p && expected.isSome && expected != some p then [] else ["C05:wrong_peer_id_misreported"]) ++
             (if muxClosed then [] else ["C05:rejected_connection_not_closed"])
    | .sOutgoingError _ _ .localPeerId | .sIncomingError _ _ .localPeerId =>
      acc ++ (if p = 0 then [] else ["C05:local_peer_id_misreported"]) ++
             (if muxClosed then [] else ["C05:rejected_connection_not_closed"])
    | _ => acc) []) ++
  -- completeness at the decision point: an authenticated local / unexpected peer never yields Established
  (if p = 0 && !ests.isEmpty then ["C05:established_local_peer"] else [])

/-! ## C06 — a denial is final -/

def checkDenied (h : Hist) (log : List Ev) : List String :=
  -- h = history BEFORE the step plus denials of this step are found in `log` itself
  let deniedNow := log.filterMap fun e => match e with
    | .bPendingIn c true | .bPendingOut c true | .bEstIn c true | .bEstOut c true => some c
    | _ => none
  let denied := deniedNow ++ h.denied
  (if log.any (fun e => match e with
      | .sEstablished c .. | .bEstablished c .. => denied.contains c
      | _ => false) then ["C06:denied_connection_established"] else []) ++
  (if log.any (fun e => match e with
      | .bEstIn c false | .bEstOut c false => h.denied.contains c
      | _ => false) then ["C06:handler_created_after_denial"] else []) ++
  (deniedNow.foldl (fun acc c =>
      let nb := (log.filter fun e => match e with
        | .bDialFailure c' _ .denied | .bListenFailure c' _ .denied => c' == c | _ => false).length
      let nOther := (log.filter fun e => match e with
        | .bDialFailure c' _ e' => c' == c && e' != .denied
        | .bListenFailure c' _ e' => c' == c && e' != .denied
        | _ => false).length
      acc ++ (if nb = 1 && nOther = 0 then [] else ["C06:denial_not_reported_exactly_once"])) [])

end Swarm.Spec
