import Libp2pModel.Model.C13
/-!
# C13, second part — where users see translated addresses:
`identify::Behaviour::emit_new_external_addr_candidate_event` (`protocols/identify/src/behaviour.rs`)

Transcribed exactly: the candidates are the observed address itself unless the connection is an
outbound one established with `PortUse::New` (member of `outbound_connections_with_ephemeral_port`);
then every current listen address that is "of the same transport kind" as the observed address
(`is_tcp_addr` both, or `is_quic_addr(_, true)` both, or `is_quic_addr(_, false)` both) is passed
through `_address_translation` (= `C13.translate`), the results are sorted and deduplicated, and if
nothing came out the observed address itself is emitted.  No other normalisation is applied to a
candidate (the strip-trailing-`/p2p` in `handle_established_outbound_connection` concerns the
address sent to the handler, not the candidates).  The order of emission (`sort_unstable` on the
binary form) is canonicalised away on both sides of the correspondence.
-/
namespace C13

def isTcpProto : Proto → Bool
  | .tcp _ => true
  | _ => false

def isUdpProto : Proto → Bool
  | .udp _ => true
  | _ => false

/-- `is_tcp_addr` -/
def isTcpAddr : Maddr → Bool
  | first :: second :: _ => isHost first && isTcpProto second
  | _ => false

/-- `is_quic_addr(addr, v1)` -/
def isQuicAddr (a : Maddr) (v1 : Bool) : Bool :=
  match a with
  | first :: second :: third :: rest =>
    isHost first && isUdpProto second &&
    (if v1 then third == .quicV1 else third == .quic) &&
    (match rest with
     | [] => true
     | [.p2p _] => true
     | _ => false)
  | _ => false

/-- the condition under which a listen address `server` is translated -/
def eligible (server observed : Maddr) : Bool :=
  (isTcpAddr server && isTcpAddr observed) ||
  (isQuicAddr server true && isQuicAddr observed true) ||
  (isQuicAddr server false && isQuicAddr observed false)

inductive ConnKind where
  /-- outbound, `PortUse::New` (ephemeral source port) -/
  | outNew
  /-- outbound, `PortUse::Reuse` -/
  | outReuse
  | inbound
  deriving DecidableEq, Repr

/-- `translated_addresses` (as a set: sort + dedup) -/
def translated (listen : List Maddr) (observed : Maddr) : List Maddr :=
  (listen.filterMap fun server => if eligible server observed then translate server observed else none).eraseDups

/-- the `NewExternalAddrCandidate` events of one `emit_new_external_addr_candidate_event` -/
def candidates (listen : List Maddr) (observed : Maddr) (kind : ConnKind) : List Maddr :=
  if kind = .outNew then
    let t := translated listen observed
    if t.isEmpty then [observed] else t
  else [observed]

/-- one candidate is acceptable: it is the observed address itself, or it agrees with some current
listen address in every component but the first, and its first component is the observed one's -/
def candOk (listen : List Maddr) (observed c : Maddr) : Bool :=
  c == observed ||
  listen.any fun s => c.length == s.length && c.tail == s.tail && c.head? == observed.head? && !c.isEmpty

/-- Spec on the implementation's candidates -/
def specIdent (listen : List Maddr) (observed : Maddr) (cands : List Maddr) : Bool :=
  !cands.isEmpty && cands.all (candOk listen observed)

end C13
