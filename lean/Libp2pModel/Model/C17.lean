import Libp2pModel.Common.Framed
import Libp2pModel.Gen.Consts
/-!
# C17 — model of `transports/noise/src/io.rs` (`Output::{poll_read,poll_write,poll_flush}`) and
`io/framed.rs` (`encode_length_prefixed`, `decode_length_prefixed`, `encrypt`, `decrypt`,
`Codec<snow::TransportState>`).

The AEAD of the Noise transport phase is an abstract pair of functions `Aead.enc / Aead.dec`
(nonce-indexed); its laws are the *hypotheses* bundled in `AeadIdeal` (never axioms).
`snow::TransportState::{write_message, read_message}` are transcribed around it (length checks,
nonce handling: the nonce advances only on success, `u64::MAX` is refused).

`asynchronous_codec::Framed` is represented by: write half = the byte string `wire` appended to by
`start_send` (what reaches the socket after `poll_flush`); read half = `inbuf`, the bytes received
from the socket and not yet consumed by the decoder (FramedRead's buffer ++ what the socket holds;
merging the two is justified by split-independence of the `Good` decoder `decodeLengthPrefixed`,
theorem `C17.frames_split_independent`).
-/
namespace C17

abbrev Bytes := List Nat

/-- `const MAX_NOISE_MSG_LEN: usize = 65535;` (re-extracted from the source on every run) -/
def MAX_NOISE_MSG_LEN : Nat := Gen.NOISE_MAX_NOISE_MSG_LEN
/-- `const EXTRA_ENCRYPT_SPACE: usize = 1024;` -/
def EXTRA_ENCRYPT_SPACE : Nat := Gen.NOISE_EXTRA_ENCRYPT_SPACE
/-- `pub(crate) const MAX_FRAME_LEN: usize = MAX_NOISE_MSG_LEN - EXTRA_ENCRYPT_SPACE;`
(the shape of this definition is pinned by `Gen.NOISE_FRAME_LEN_IS_MSG_MINUS_EXTRA_U16`) -/
def MAX_FRAME_LEN : Nat := MAX_NOISE_MSG_LEN - EXTRA_ENCRYPT_SPACE
/-- `size_of::<u16>() * 8` as pinned by the constant table (the length prefix is a u16) -/
def U16_BITS : Nat := Gen.NOISE_FRAME_LEN_IS_MSG_MINUS_EXTRA_U16
/-- snow `TAGLEN` -/
def TAGLEN : Nat := 16
/-- snow `MAXMSGLEN` -/
def SNOW_MAXMSGLEN : Nat := 65535
/-- `u64::MAX`: snow refuses to use this nonce -/
def NONCE_MAX : Nat := 2 ^ 64 - 1

/-- The transport-phase AEAD of one direction (key fixed), indexed by the nonce counter. -/
structure Aead where
  enc : Nat → Bytes → Bytes
  dec : Nat → Bytes → Option Bytes

/-! ## `io/framed.rs` -/

/-- `encode_length_prefixed`: `(src.len() as u16).to_be_bytes() ++ src` -/
def encodeLengthPrefixed (src : Bytes) : Bytes :=
  (src.length / 256) % 256 :: src.length % 256 :: src

/-- `decode_length_prefixed` as a one-frame decoder in the sense of `Common.Framed`. -/
def decodeLengthPrefixed : Framed.Dec Bytes := fun src =>
  match src with
  | hi :: lo :: rest =>
    let len := hi * 256 + lo
    if rest.length ≥ len then some (rest.take len, rest.drop len) else none
  | _ => none

/-- `snow::TransportState::write_message` (+ `CipherState::encrypt_ad`): `none` = `Err`. -/
def snowWrite (A : Aead) (nonce : Nat) (payload : Bytes) (outLen : Nat) : Option Bytes :=
  if payload.length + TAGLEN > SNOW_MAXMSGLEN ∨ payload.length + TAGLEN > outLen then none
  else if nonce = NONCE_MAX then none
  else some (A.enc nonce payload)

/-- `snow::TransportState::read_message` (+ `CipherState::decrypt_ad`): `none` = `Err`; the
caller advances the nonce only on `some`. -/
def snowRead (A : Aead) (nonce : Nat) (msg : Bytes) : Option Bytes :=
  if msg.length > SNOW_MAXMSGLEN then none
  else if msg.length < TAGLEN then none
  else if nonce = NONCE_MAX then none
  else A.dec nonce msg

/-! ## Write half of `Output` -/

inductive WRes where
  | ok (n : Nat)
  | err
  | panic
  deriving Repr, DecidableEq

inductive FRes where
  | ok
  | err
  deriving Repr, DecidableEq

structure Writer where
  sendBuf : Bytes := []
  sendOff : Nat := 0
  /-- sending nonce of the snow transport state -/
  nonce : Nat := 0
  /-- everything `start_send` has encoded into the Framed write buffer so far -/
  wire : Bytes := []
  /-- length of `wire` at the last completed `poll_flush` (those bytes are on the socket) -/
  flushed : Nat := 0
  /-- ghost: plaintexts of the frames sent so far -/
  frames : List Bytes := []
  /-- ghost: concatenation of the accepted prefixes of all `poll_write` buffers -/
  accepted : Bytes := []
  deriving Repr

/-- `Vec::resize(n, 0)` -/
def resize (v : Bytes) (n : Nat) : Bytes := v.take n ++ List.replicate (n - v.length) 0

/-- `io.start_send(frame_buf)`: `Codec<TransportState>::encode` = `encrypt` (buffer of
`len + EXTRA_ENCRYPT_SPACE`) then `encode_length_prefixed`. `none` = the `io::Error`. -/
def startSend (A : Aead) (w : Writer) : Option Writer :=
  match snowWrite A w.nonce w.sendBuf (w.sendBuf.length + EXTRA_ENCRYPT_SPACE) with
  | none => none
  | some ct =>
    some { w with wire := w.wire ++ encodeLengthPrefixed ct,
                  nonce := w.nonce + 1,
                  frames := w.frames ++ [w.sendBuf] }

/-- `Output::poll_write` (the Framed sink is always ready; a `Pending` from `poll_ready` happens
before any state change and is retried by the caller). -/
def pollWrite (A : Aead) (w : Writer) (buf : Bytes) : Writer × WRes :=
  let w1 : Option Writer :=
    if w.sendOff = MAX_FRAME_LEN then
      (startSend A w).map (fun w' => { w' with sendOff := 0 })
    else some w
  match w1 with
  | none => (w, .err)
  | some w =>
    let off := w.sendOff
    let n := min MAX_FRAME_LEN (off + buf.length)
    let sb := resize w.sendBuf n
    if off > MAX_FRAME_LEN then (w, .panic) else   -- `MAX_FRAME_LEN - off` underflow
    let n := min (MAX_FRAME_LEN - off) buf.length
    if off + n > sb.length then (w, .panic) else   -- slice index out of range
    let sb := sb.take off ++ buf.take n ++ sb.drop (off + n)
    ({ w with sendBuf := sb, sendOff := off + n, accepted := w.accepted ++ buf.take n }, .ok n)

/-- `Output::poll_flush` -/
def pollFlush (A : Aead) (w : Writer) : Writer × FRes :=
  if w.sendOff > 0 then
    match startSend A w with
    | none => (w, .err)
    | some w' => ({ w' with sendOff := 0, flushed := w'.wire.length }, .ok)
  else ({ w with flushed := w.wire.length }, .ok)

inductive WOp where
  | write (buf : Bytes)
  | flush
  deriving Repr

inductive WOut where
  | w (r : WRes)
  | f (r : FRes)
  deriving Repr, DecidableEq

def wstep (A : Aead) (w : Writer) : WOp → Writer × WOut
  | .write buf => let (w', r) := pollWrite A w buf; (w', .w r)
  | .flush => let (w', r) := pollFlush A w; (w', .f r)

/-- the honest wire of the frame plaintexts `ps`, first nonce `n` -/
def wireOf (A : Aead) : Nat → List Bytes → Bytes
  | _, [] => []
  | n, p :: ps => encodeLengthPrefixed (A.enc n p) ++ wireOf A (n + 1) ps

/-! ## Read half of `Output` -/

inductive RErr where
  | invalidData
  | unexpectedEof
  deriving Repr, DecidableEq

inductive Next where
  | pending
  | none
  | err (e : RErr)
  | frame (pt : Bytes)
  deriving Repr

inductive RRes where
  | pending
  | ok (data : Bytes)
  | err (e : RErr)
  | panic
  deriving Repr, DecidableEq

structure Reader where
  recvBuf : Bytes := []
  recvOff : Nat := 0
  /-- receiving nonce of the snow transport state -/
  nonce : Nat := 0
  /-- bytes received from the socket, not yet consumed by the frame decoder -/
  inbuf : Bytes := []
  eof : Bool := false
  /-- ghost: all bytes returned by `poll_read` so far -/
  delivered : Bytes := []
  deriving Repr

/-- `Framed::poll_next` with `Codec<TransportState>::decode` = `decrypt`:
`decode_length_prefixed` consumes the frame BEFORE `read_message` is tried. -/
def pollNext (A : Aead) (r : Reader) : Reader × Next :=
  match decodeLengthPrefixed r.inbuf with
  | some (ct, rest) =>
    match snowRead A r.nonce ct with
    | some pt => ({ r with inbuf := rest, nonce := r.nonce + 1 }, .frame pt)
    | none => ({ r with inbuf := rest }, .err .invalidData)
  | none =>
    if r.eof then
      (if r.inbuf.isEmpty then (r, .none) else (r, .err .unexpectedEof))
    else (r, .pending)

/-- the `loop` of `Output::poll_read` (fuel: every iteration that continues consumed a frame of
at least two bytes from `inbuf`). -/
def pollReadLoop (A : Aead) : Nat → Reader → Nat → Reader × RRes
  | 0, r, _ => (r, .pending)
  | fuel + 1, r, buflen =>
    let len := r.recvBuf.length
    let off := r.recvOff
    if len > 0 then
      if off > len then (r, .panic) else   -- `len - off` underflow / slice out of range
      let n := min (len - off) buflen
      let data := (r.recvBuf.drop off).take n
      let off' := off + n
      ({ r with recvOff := off',
                recvBuf := if len = off' then [] else r.recvBuf,
                delivered := r.delivered ++ data }, .ok data)
    else
      match pollNext A r with
      | (r', .pending) => (r', .pending)
      | (r', .none) => (r', .ok [])
      | (r', .err e) => (r', .err e)
      | (r', .frame pt) => pollReadLoop A fuel { r' with recvBuf := pt, recvOff := 0 } buflen

/-- `Output::poll_read` with a destination buffer of `buflen` bytes -/
def pollRead (A : Aead) (r : Reader) (buflen : Nat) : Reader × RRes :=
  pollReadLoop A (r.inbuf.length + 1) r buflen

inductive ROp where
  /-- the socket delivers these bytes (ANY bytes: the adversary controls the wire) -/
  | feed (chunk : Bytes)
  /-- the socket reports end of stream -/
  | eof
  | read (buflen : Nat)
  deriving Repr

inductive ROut where
  | none
  | r (res : RRes)
  deriving Repr, DecidableEq

def rstep (A : Aead) (r : Reader) : ROp → Reader × ROut
  | .feed chunk => ({ r with inbuf := r.inbuf ++ chunk }, .none)
  | .eof => ({ r with eof := true }, .none)
  | .read n => let (r', res) := pollRead A r n; (r', .r res)

/-! ## Hypotheses on the AEAD (ideal functionality relative to the honest transcript) -/

/-- `sent[n]` is the plaintext the honest writer encrypted under nonce `n`.
* `correct`: honest ciphertexts decrypt to their plaintext;
* `integrity` (INT-CTXT): whatever decrypts under nonce `n` IS the honest ciphertext of nonce `n`;
* `overhead`: a ciphertext is `TAGLEN` bytes longer than its plaintext. -/
structure AeadIdeal (A : Aead) (sent : List Bytes) : Prop where
  correct   : ∀ n p, sent[n]? = some p → A.dec n (A.enc n p) = some p
  integrity : ∀ n c q, A.dec n c = some q → ∃ p, sent[n]? = some p ∧ c = A.enc n p
  overhead  : ∀ n p, sent[n]? = some p → (A.enc n p).length = p.length + TAGLEN

/-- The table AEAD used by the driver: the real ciphertexts `cts` observed on the wire are opaque
atoms; `dec n c` succeeds exactly when `c` is the observed ciphertext number `n`. -/
def tableAead (sent cts : List Bytes) : Aead where
  enc n _ := cts.getD n []
  dec n c := match cts[n]?, sent[n]? with
    | some c', some p => if c = c' then some p else none
    | _, _ => none

/-! ## Executable Spec (judges the IMPLEMENTATION's outputs) -/

/-- a read result is acceptable w.r.t. the bytes accepted by the peer's writer so far and the
bytes delivered so far: data continues the written stream, never anything else. -/
def specRead (accepted delivered : Bytes) : RRes → Bool
  | .ok data => (delivered ++ data).isPrefixOf accepted
  | .pending => true
  | .err _ => true
  | .panic => false

/-- a write result is acceptable: no panic, at most the buffer, progress on a non-empty buffer. -/
def specWrite (buf : Bytes) : WRes → Bool
  | .ok n => n ≤ buf.length && (buf.isEmpty || n > 0)
  | .err => true
  | .panic => false

/-- frame lengths seen on the wire (ciphertext lengths): each plaintext `0 < len ≤ MAX_FRAME_LEN`. -/
def specFrameLen (ctLen : Nat) : Bool := TAGLEN < ctLen && ctLen ≤ MAX_FRAME_LEN + TAGLEN

end C17
