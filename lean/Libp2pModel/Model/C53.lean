import Libp2pModel.Model.Swarm
/-!
# C53 — Allow and block lists are enforced: model of `misc/allow-block-list/src/lib.rs`
composed with the shared Swarm model

`ABL` transcribes `allow_block_list::Behaviour<S>`: the peer set of the state `S`
(`BlockedPeers` / `AllowedPeers`, selected by `allowMode`), the `close_connections` queue and the
stored waker (`waker = true`: a waker is stored).  `enforce` = `Enforce::enforce` (`true` = deny).
`blockPeer/unblockPeer/allowPeer/disallowPeer` are the four API calls (result, new state, whether
the stored waker was woken), `poll` is `NetworkBehaviour::poll`.

Composition (`step`): the list behaviour is the FIRST field of the derived behaviour
`{ list, probe }`.  A Swarm op runs `Swarm.step` with `deny := list ∨ probe` at the three decision
points the list implements (`handle_pending_outbound_connection`, both `handle_established_*`;
`handle_pending_inbound_connection` is the default `Ok`).  A list op performs the API call and
then polls the Swarm to quiescence (`drain`): every queued peer is popped by `poll` and handled by
the Swarm as `ToSwarm::CloseConnection { peer, All }` = `Pool::disconnect`, i.e. the Swarm model's
`behClose p none`; the last `poll` finds the queue empty and stores the waker.
-/
namespace C53
open Swarm

structure ABL where
  allowMode : Bool := false
  peers : List Nat := []
  closeQ : List Nat := []
  waker : Bool := false
  deriving DecidableEq, Repr, Inhabited

def setInsert (l : List Nat) (c : Nat) : List Nat := if l.contains c then l else l ++ [c]
def setRemove (l : List Nat) (c : Nat) : List Nat := l.filter (· != c)

/-- `Enforce::enforce`: `true` = `Err(ConnectionDenied)` -/
def ABL.enforce (b : ABL) (p : Nat) : Bool :=
  if b.allowMode then !b.peers.contains p else b.peers.contains p

/-- result of an API call: (new state, return value, stored waker woken) -/
abbrev ApiRes := ABL × Bool × Bool

/-- `Behaviour<BlockedPeers>::block_peer` -/
def blockPeer (b : ABL) (p : Nat) : ApiRes :=
  let inserted := !b.peers.contains p
  if inserted then
    ({ b with peers := setInsert b.peers p, closeQ := b.closeQ ++ [p], waker := false }, true, b.waker)
  else (b, false, false)

/-- `Behaviour<BlockedPeers>::unblock_peer` -/
def unblockPeer (b : ABL) (p : Nat) : ApiRes :=
  let removed := b.peers.contains p
  if removed then ({ b with peers := setRemove b.peers p, waker := false }, true, b.waker)
  else (b, false, false)

/-- `Behaviour<AllowedPeers>::allow_peer` -/
def allowPeer (b : ABL) (p : Nat) : ApiRes :=
  let inserted := !b.peers.contains p
  if inserted then ({ b with peers := setInsert b.peers p, waker := false }, true, b.waker)
  else (b, false, false)

/-- `Behaviour<AllowedPeers>::disallow_peer` -/
def disallowPeer (b : ABL) (p : Nat) : ApiRes :=
  let removed := b.peers.contains p
  if removed then
    ({ b with peers := setRemove b.peers p, closeQ := b.closeQ ++ [p], waker := false }, true, b.waker)
  else (b, false, false)

/-- `poll`: `some p` = `Poll::Ready(CloseConnection { peer_id: p, connection: All })`; `none` =
`Poll::Pending` with the waker stored -/
def poll (b : ABL) : ABL × Option Nat :=
  match b.closeQ with
  | p :: rest => ({ b with closeQ := rest }, some p)
  | [] => ({ b with waker := true }, none)

/-- the list op "make `p` denied": `block_peer` resp. `disallow_peer` -/
def denyPeer (b : ABL) (p : Nat) : ApiRes := if b.allowMode then disallowPeer b p else blockPeer b p
/-- the list op "make `p` permitted": `unblock_peer` resp. `allow_peer` -/
def permitPeer (b : ABL) (p : Nat) : ApiRes := if b.allowMode then allowPeer b p else unblockPeer b p

/-- `Pool::disconnect(p)` with the closing/abort order oracles; an oracle that is not a permutation
of the affected connections is replaced by the table order -/
def disconnectAny (s : State) (p : Nat) (order aborts : List Nat) : State × List Ev :=
  match disconnect s p order aborts with
  | some r => r
  | none =>
    ((abortMany (closeMany s ((s.est.filter (·.peer == p)).map (·.id))).1 ((s.pendOut.filter (·.peer == some p)).map (·.id))).1,
     (closeMany s ((s.est.filter (·.peer == p)).map (·.id))).2 ++
       (abortMany (closeMany s ((s.est.filter (·.peer == p)).map (·.id))).1 ((s.pendOut.filter (·.peer == some p)).map (·.id))).2)

/-- poll to quiescence: pop every queued peer (fuel = queue length), the Swarm disconnects it;
the oracles belong to the first popped peer -/
def drain (b : ABL) (s : State) (order aborts : List Nat) : Nat → ABL × State × List Ev
  | 0 => ((poll b).1, s, [])
  | fuel + 1 =>
    match poll b with
    | (b', none) => (b', s, [])
    | (b', some p) =>
      let r := disconnectAny s p order aborts
      let r2 := drain b' r.1 [] [] fuel
      (r2.1, r2.2.1, r.2 ++ r2.2.2)

/-- `Swarm.race` (the queued report of dial `k` is processed by the pool before the closes/aborts
commanded by `Pool::disconnect(dp)` come back; the abort of the already finished pending dial is a
no-op); oracles that are not permutations of the affected connections are replaced by table order -/
def raceAny (s : State) (k p : Nat) (deny : Bool) (dp : Nat) (order aborts : List Nat) : State × List Ev :=
  match race s k p deny dp order aborts with
  | some r => r
  | none =>
    let o := (s.est.filter (·.peer == dp)).map (·.id)
    let a := ((s.pendOut.filter (·.peer == some dp)).map (·.id)).filter
      (fun c => some c != (findPendOut s.pendOut k).map (·.id))
    ((abortMany (closeMany (resolveDial s k p deny).1 o).1 a).1,
     (resolveDial s k p deny).2 ++ (closeMany (resolveDial s k p deny).1 o).2 ++
       (abortMany (closeMany (resolveDial s k p deny).1 o).1 a).2)

/-- the peer argument of the op's decision point -/
def ctxOf (sw : State) : Op → Option Nat
  | .dial _ _ p0 addrs _ _ _ _ => (dialPeer sw p0 addrs).getD none
  | .resolve _ p _ => some p
  | .resolveIn _ p _ => some p
  | _ => none

/-- the list behaviour's verdict at the op's decision point -/
def decideOp (b : ABL) (sw : State) (op : Op) : Bool :=
  match op with
  | .dial .. => match ctxOf sw op with | some p => b.enforce p | none => false
  | .resolve _ p _ => b.enforce p
  | .resolveIn _ p _ => b.enforce p
  | _ => false

def withDeny (op : Op) (d : Bool) : Op :=
  match op with
  | .dial v c p a e b dn r => .dial v c p a e b (dn || d) r
  | .resolve k p dn => .resolve k p (dn || d)
  | .resolveIn k p dn => .resolveIn k p (dn || d)
  | o => o

/-- the probe's own decision call at a point where the list behaviour is asked first -/
def isListDecision : Ev → Bool
  | .bPendingOut .. | .bEstIn .. | .bEstOut .. => true
  | _ => false

structure CS where
  sw : State
  b : ABL
  deriving Repr, Inhabited

/-- the rig polls the Swarm once at construction: the waker is stored -/
def CS.init (peerIds : List (List Nat)) (allowMode : Bool) : CS :=
  { sw := State.init peerIds, b := { allowMode, waker := true } }

inductive COp where
  | sw (op : Op)
  | deny (p : Nat) (order aborts : List Nat)
  | permit (p : Nat)
  /-- the list change races with a finished dial: the task of transport dial `k` has authenticated
  peer `p` and queued its `ConnectionEstablished` report (the Swarm was polled once), THEN
  `block_peer(q)` / `disallow_peer(q)` is called, then the Swarm is polled to quiescence.
  `pd` = the probe denies at the established-time decision point. -/
  | raceDeny (k p : Nat) (pd : Bool) (q : Nat) (order aborts : List Nat)
  deriving Repr, Inhabited

/-- output of a step: Swarm result, API return value, waker woken, events -/
structure Out where
  res : Res := .none
  ret : Option Bool := none
  woken : Bool := false
  evs : List Ev := []
  deriving Repr, Inhabited

def step (cs : CS) : COp → CS × Out
  | .sw op =>
    let d := decideOp cs.b cs.sw op
    let r := Swarm.step cs.sw (withDeny op d)
    -- the Swarm polls the behaviour on its way to quiescence: queue empty, waker stored
    ({ sw := r.1, b := (poll cs.b).1 },
     { res := r.2.1, evs := if d then r.2.2.filter (fun e => !isListDecision e) else r.2.2 })
  | .deny p order aborts =>
    let a := denyPeer cs.b p
    let r := drain a.1 cs.sw order aborts (a.1.closeQ.length)
    ({ sw := r.2.1, b := r.1 }, { ret := some a.2.1, woken := a.2.2, evs := r.2.2 })
  | .permit p =>
    let a := permitPeer cs.b p
    ({ sw := cs.sw, b := (poll a.1).1 }, { ret := some a.2.1, woken := a.2.2 })
  | .raceDeny k p pd q order aborts =>
    -- the API call comes first; `handle_established_outbound_connection` for the queued report
    -- runs afterwards and sees the NEW list
    let a := denyPeer cs.b q
    let ld := a.1.enforce p
    let r := if a.2.1 then raceAny cs.sw k p (pd || ld) q order aborts else resolveDial cs.sw k p (pd || ld)
    -- poll: pops the queued peer (if any), then finds the queue empty and stores the waker
    ({ sw := r.1, b := (poll (poll a.1).1).1 },
     { ret := some a.2.1, woken := a.2.2, evs := if ld then r.2.filter (fun e => !isListDecision e) else r.2 })

/-! ## The executable Spec -/

def estPeers (evs : List Ev) : List Nat :=
  evs.filterMap fun e => match e with
    | .sEstablished _ p .. => some p
    | .bEstablished _ p .. => some p
    | _ => none

def closedIds (evs : List Ev) : List Nat :=
  evs.filterMap fun e => match e with | .sClosed c .. => some c | _ => none

/-- THE property on one step.  `denied` = the list's verdict after the step's list change (if any),
`evs` = the events of the step, `connected` = `Swarm::connected_peers` after the step,
`mustClose` = for a step that made a peer denied: the connections to it that existed before. -/
def violations (denied : Nat → Bool) (evs : List Ev) (connected : List Nat) (mustClose : List Nat) : List String :=
  (if (estPeers evs).any denied then ["C53:established_while_denied"] else []) ++
  (if connected.any denied then ["C53:connected_to_denied_peer"] else []) ++
  (if mustClose.all (closedIds evs).contains then [] else ["C53:existing_connection_not_closed"])

end C53
