import Libp2pModel.Common.Drv
/-!
# C49 — `CopyFuture` (`protocols/relay/src/copy_future.rs`)

Two endpoints `S` and `D` (each `AsyncRead + AsyncWrite`), each wrapped in a
`futures::io::BufReader` (capacity `cap`, 8 KiB).  `forward_data` and `CopyFuture::poll`
transcribed; the endpoints are the environment: every `poll_read / poll_write / poll_flush /
poll_close` call consumes the next event of that endpoint's script for that call (an exhausted
script means "ready": deliver what fits / accept everything).  An endpoint's `inp` is the byte
stream its remote peer sends into the circuit; `out` collects what `poll_write` accepted.
-/
namespace C49

inductive REv where
  /-- `poll_read` returns up to `k+1` bytes (as many as the buffer and the input allow; `0` bytes
  only when the input is exhausted = EOF) -/
  | chunk (k : Nat)
  | pending
  | err
  deriving DecidableEq, Repr

inductive WEv where
  /-- `poll_write` accepts `min k len` bytes (`take 0` makes it return `Ok(0)`) -/
  | take (k : Nat)
  | pending
  | err
  deriving DecidableEq, Repr

/-- `poll_flush` / `poll_close` -/
inductive FEv where
  | ready
  | pending
  | err
  deriving DecidableEq, Repr

inductive Err where
  | read | write | flush | close | writeZero | maxBytes | timedOut
  deriving DecidableEq, Repr

structure End where
  inp : List Nat
  rs : List REv
  ws : List WEv
  fs : List FEv
  cs : List FEv
  out : List Nat
  /-- successful `poll_close` calls -/
  closes : Nat
  deriving Repr

inductive RRes where
  | pending | err | data (bs : List Nat)

/-- `inner.poll_read(cx, buffer)` with `buffer.len() = cap` -/
def End.read (cap : Nat) (e : End) : RRes × End :=
  match e.rs with
  | [] => let n := min cap e.inp.length
          (.data (e.inp.take n), { e with inp := e.inp.drop n })
  | .pending :: rs => (.pending, { e with rs := rs })
  | .err :: rs => (.err, { e with rs := rs })
  | .chunk k :: rs =>
    let n := min (k + 1) (min cap e.inp.length)
    (.data (e.inp.take n), { e with rs := rs, inp := e.inp.drop n })

def End.flush (e : End) : FEv × End :=
  match e.fs with
  | [] => (.ready, e)
  | f :: fs => (f, { e with fs := fs })

def End.close (e : End) : FEv × End :=
  match e.cs with
  | [] => (.ready, { e with closes := e.closes + 1 })
  | .ready :: cs => (.ready, { e with cs := cs, closes := e.closes + 1 })
  | f :: cs => (f, { e with cs := cs })

inductive WRes where
  | pending | err | wrote (n : Nat)

def End.write (e : End) (data : List Nat) : WRes × End :=
  match e.ws with
  | [] => (.wrote data.length, { e with out := e.out ++ data })
  | .pending :: ws => (.pending, { e with ws := ws })
  | .err :: ws => (.err, { e with ws := ws })
  | .take k :: ws =>
    let n := min k data.length
    (.wrote n, { e with ws := ws, out := e.out ++ data.take n })

/-- result of `forward_data`: `Poll<io::Result<u64>>` -/
inductive FRes where
  | pending | err (e : Err) | ok (n : Nat)
  deriving DecidableEq, Repr

/-- `forward_data` after `poll_fill_buf` returned `Ready(buffer)` -/
def deliver (buf : List Nat) (src dst : End) : List Nat × End × End × FRes :=
  if buf.isEmpty then
    -- EOF: flush and close the destination
    match dst.flush with
    | (.pending, dst1) => (buf, src, dst1, .pending)
    | (.err, dst1) => (buf, src, dst1, .err .flush)
    | (.ready, dst1) =>
      match dst1.close with
      | (.pending, dst2) => (buf, src, dst2, .pending)
      | (.err, dst2) => (buf, src, dst2, .err .close)
      | (.ready, dst2) => (buf, src, dst2, .ok 0)
  else
    match dst.write buf with
    | (.pending, dst1) => (buf, src, dst1, .pending)
    | (.err, dst1) => (buf, src, dst1, .err .write)
    | (.wrote n, dst1) =>
      if n = 0 then (buf, src, dst1, .err .writeZero)
      else (buf.drop n, src, dst1, .ok n)   -- `consume(i)`

/-- `forward_data(src, dst, cx)`; `buf` = the unread part of `src`'s `BufReader` buffer -/
def forward (cap : Nat) (buf : List Nat) (src dst : End) : List Nat × End × End × FRes :=
  if buf.isEmpty then
    -- `poll_fill_buf` reads from the inner stream only when its buffer is exhausted
    match src.read cap with
    | (.pending, src1) =>
      match dst.flush with
      | (.err, dst1) => ([], src1, dst1, .err .flush)
      | (_, dst1) => ([], src1, dst1, .pending)
    | (.err, src1) => ([], src1, dst, .err .read)
    | (.data bs, src1) => deliver bs src1 dst
  else deliver buf src dst

structure St where
  s : End
  d : End
  /-- unread part of `BufReader<S>` -/
  bufS : List Nat
  bufD : List Nat
  /-- `bytes_sent` -/
  sent : Nat
  deriving Repr

inductive PollRes where
  | pending | ok | err (e : Err)
  /-- the model's loop fuel ran out (shown impossible: `C49.no_diverge`) -/
  | diverged
  deriving DecidableEq, Repr

inductive LoopRes where
  | ready (r : PollRes)
  /-- `break`: go on to poll the timer -/
  | brk
  deriving DecidableEq, Repr

def FRes.bytes : FRes → Nat
  | .ok n => n
  | _ => 0

/-- `Status::Progressed` -/
def FRes.progressed : FRes → Bool
  | .ok n => n != 0
  | _ => false

/-- `Status::Done` -/
def FRes.done : FRes → Bool
  | .ok n => n == 0
  | _ => false

/-- the `loop { … }` of `CopyFuture::poll` -/
def pollLoop (cap max : Nat) : Nat → St → St × LoopRes
  | 0, st => (st, .ready .diverged)
  | fuel + 1, st =>
    if 0 < max ∧ max < st.sent then (st, .ready (.err .maxBytes)) else
    match forward cap st.bufS st.s st.d with
    | (bufS, s1, d1, r1) =>
      match r1 with
      | .err e => (⟨s1, d1, bufS, st.bufD, st.sent⟩, .ready (.err e))
      | _ =>
        match forward cap st.bufD d1 s1 with
        | (bufD, d2, s2, r2) =>
          match r2 with
          | .err e => (⟨s2, d2, bufS, bufD, st.sent + r1.bytes⟩, .ready (.err e))
          | _ =>
            let st' : St := ⟨s2, d2, bufS, bufD, st.sent + r1.bytes + r2.bytes⟩
            if r1.done && r2.done then (st', .ready .ok)
            else if r1.progressed || r2.progressed then pollLoop cap max fuel st'
            else (st', .brk)

/-- bytes still in flight or to come: every progressing iteration lowers it -/
def St.measure (st : St) : Nat := st.s.inp.length + st.bufS.length + st.d.inp.length + st.bufD.length

/-- `CopyFuture::poll`; `fired` = `max_circuit_duration.poll_unpin(cx)` is `Ready` -/
def poll (cap max : Nat) (fired : Bool) (st : St) : St × PollRes :=
  match pollLoop cap max (st.measure + 1) st with
  | (st', .ready r) => (st', r)
  | (st', .brk) => (st', if fired then .err .timedOut else .pending)

def End.init (inp : List Nat) (rs : List REv) (ws : List WEv) (fs cs : List FEv) : End :=
  ⟨inp, rs, ws, fs, cs, [], 0⟩

def St.init (s d : End) : St := ⟨s, d, [], [], 0⟩

/-! ## Executable Spec: a monitor over the observations of one circuit -/

/-- what is known of a circuit: both input streams, the limit, and what arrived so far -/
structure Mon where
  cap : Nat
  max : Nat
  inpS : List Nat
  inpD : List Nat
  /-- bytes accepted by `D.poll_write` so far (they come from `S`) -/
  outD : List Nat
  outS : List Nat
  deriving Repr

def isPrefix : List Nat → List Nat → Bool
  | [], _ => true
  | _ :: _, [] => false
  | a :: as, b :: bs => a == b && isPrefix as bs

/-- judge one `poll`: its result, the bytes newly accepted at each end, the close counts -/
def Mon.step (m : Mon) (fired : Bool) (res : PollRes) (newD newS : List Nat) (closesS closesD : Nat) :
    Mon × String :=
  let m' := { m with outD := m.outD ++ newD, outS := m.outS ++ newS }
  let total := m'.outD.length + m'.outS.length
  let v :=
    if res == .diverged then "FAIL:diverged"
    else if !(isPrefix m'.outD m.inpS && isPrefix m'.outS m.inpD) then "FAIL:prefix"
    else if decide (0 < m.max) && (res == .pending || res == .ok) && decide (m.max < total) then
      "FAIL:limit_not_enforced"
    else if decide (0 < m.max) && decide (m.max + 2 * m.cap < total) then "FAIL:limit_overshoot"
    else if res == .ok && !(m'.outD == m.inpS && m'.outS == m.inpD && decide (1 ≤ closesS) && decide (1 ≤ closesD))
      then "FAIL:eof"
    else if fired && res == .pending then "FAIL:timeout"
    else "ok"
  (m', v)

end C49
