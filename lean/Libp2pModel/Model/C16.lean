/-!
# C16 — model of the libp2p-layer logic of the Noise XX handshake

Transcribed from `transports/noise/src/io/handshake.rs` (`recv`, `recv_empty`, `recv_identity`,
`State::finish`), `io/framed.rs` (`Codec<HandshakeState>::into_transport`), `lib.rs`
(`upgrade_inbound`, `upgrade_outbound`) and `protocol.rs` (`STATIC_KEY_DOMAIN`,
`Keypair::into_authentic`).  Signatures, identity keys and the Noise XX session (`snow`) are
symbolic: `Crypto` is the interface the code consults, `NoiseXX`-style ideal behaviour is the
explicit definition `simulate` (used for the man-in-the-middle correspondence) and the hypothesis
structures in `Props/C16.lean`.  Import-free.
-/
namespace C16

abbrev Bytes := List Nat

/-- `pub(crate) const STATIC_KEY_DOMAIN: &str = "noise-libp2p-static-key:";` -/
def STATIC_KEY_DOMAIN : Bytes := "noise-libp2p-static-key:".toUTF8.toList.map (·.toNat)

/-- what the code consults about identity keys and signatures -/
structure Crypto where
  IdKey : Type
  /-- `identity::PublicKey::try_decode_protobuf` -/
  decodeKey : Bytes → Option IdKey
  /-- `identity::PublicKey::verify(msg, sig)` -/
  verify : IdKey → Bytes → Bytes → Bool
  /-- `PublicKey::to_peer_id` -/
  peerId : IdKey → Nat

inductive IoKind where
  | invalidData
  | unexpectedEof
  | other
  deriving Repr, DecidableEq

/-- `libp2p_noise::Error` (variants that can arise here) -/
inductive Err where
  | io (k : IoKind)
  | noise
  | invalidKey
  | invalidLength
  | badSignature
  | authenticationFailed
  | unknownWebTransportCerthashes
  deriving Repr, DecidableEq

/-- `proto::NoiseHandshakePayload`; `extensions` = the certhashes that survive
`Multihash::read` in `From<proto::NoiseExtensions> for Extensions` -/
structure Payload where
  identityKey : Bytes := []
  identitySig : Bytes := []
  extensions : Option (List Bytes) := none
  deriving Repr, DecidableEq

/-- `Message::encoded_len() == 0` for a proto3 message: every field at its default -/
def Payload.isDefault (p : Payload) : Bool :=
  p.identityKey.isEmpty && p.identitySig.isEmpty && p.extensions.isNone

/-- the mutable fields of `handshake::State` -/
structure State (C : Crypto) where
  isInitiator : Bool
  dhRemotePubkeySig : Option Bytes := none
  idRemotePubkey : Option C.IdKey := none
  responderWebtransportCerthashes : Option (List Bytes) := none
  remoteExtensions : Option (List Bytes) := none

/-- what `snow::HandshakeState` reports when `finish` runs -/
structure SessionEnd where
  /-- `session.get_remote_static()` -/
  remoteStatic : Option Bytes
  /-- `session.into_transport_mode()` succeeds (handshake complete) -/
  finished : Bool
  deriving Repr

/-- result of polling the Framed stream once for a handshake message (`state.io.next().await`) -/
inductive Recv where
  | eof
  | err (k : IoKind)
  | payload (p : Payload)
  deriving Repr

/-- `async fn recv` -/
def recv : Recv → Except Err Payload
  | .eof => .error (.io .unexpectedEof)
  | .err k => .error (.io k)
  | .payload p => .ok p

/-- `recv_empty` -/
def recvEmpty (m : Recv) : Except Err Unit :=
  match recv m with
  | .error e => .error e
  | .ok p => if !p.isDefault then .error (.io .invalidData) else .ok ()

/-- `recv_identity` -/
def recvIdentity (C : Crypto) (st : State C) (m : Recv) : Except Err (State C) :=
  match recv m with
  | .error e => .error e
  | .ok pb =>
    match C.decodeKey pb.identityKey with
    | none => .error .invalidKey
    | some k =>
      let st := { st with idRemotePubkey := some k }
      let st := if !pb.identitySig.isEmpty then { st with dhRemotePubkeySig := some pb.identitySig } else st
      let st := match pb.extensions with
        | some ext => { st with remoteExtensions := some ext }
        | none => st
      .ok st

/-- `Codec<HandshakeState>::into_transport` (+ `PublicKey::from_slice`) -/
def intoTransport (s : SessionEnd) : Except Err Bytes :=
  match s.remoteStatic with
  | none => .error (.io .other)
  | some dh =>
    if dh.length ≠ 32 then .error .invalidLength
    else if !s.finished then .error .noise
    else .ok dh

/-- `expected.is_subset(&received)` on `HashSet`s -/
def isSubset (a b : List Bytes) : Bool := a.all (fun x => b.contains x)

/-- `State::finish` -/
def finish (C : Crypto) (st : State C) (s : SessionEnd) : Except Err C.IdKey :=
  match intoTransport s with
  | .error e => .error e
  | .ok pubkey =>
    match st.idRemotePubkey with
    | none => .error .authenticationFailed
    | some idPk =>
      let isValidSignature := match st.dhRemotePubkeySig with
        | some sig => C.verify idPk (STATIC_KEY_DOMAIN ++ pubkey) sig
        | none => false
      if !isValidSignature then .error .badSignature
      else
        let certOk : Except Err Unit :=
          if st.isInitiator then
            match st.responderWebtransportCerthashes with
            | some expected =>
              match st.remoteExtensions with
              | none => .error .unknownWebTransportCerthashes
              | some received =>
                if !isSubset expected received then .error .unknownWebTransportCerthashes else .ok ()
            | none => .ok ()
          else .ok ()
        match certOk with
        | .error e => .error e
        | .ok () => .ok idPk

/-- `upgrade_inbound` (responder): `recv_empty`, `send_identity`, `recv_identity`, `finish`.
`sendOk` = the write of message 2 succeeded. -/
def upgradeInbound (C : Crypto) (certhashes : Option (List Bytes)) (m1 : Recv) (sendOk : Bool)
    (m3 : Recv) (s : SessionEnd) : Except Err Nat :=
  let st : State C := { isInitiator := false, responderWebtransportCerthashes := certhashes }
  match recvEmpty m1 with
  | .error e => .error e
  | .ok () =>
    if !sendOk then .error (.io .other) else
    match recvIdentity C st m3 with
    | .error e => .error e
    | .ok st =>
      match finish C st s with
      | .error e => .error e
      | .ok pk => .ok (C.peerId pk)

/-- `upgrade_outbound` (initiator): `send_empty`, `recv_identity`, `send_identity`, `finish` -/
def upgradeOutbound (C : Crypto) (certhashes : Option (List Bytes)) (send1Ok : Bool) (m2 : Recv)
    (send3Ok : Bool) (s : SessionEnd) : Except Err Nat :=
  let st : State C := { isInitiator := true, responderWebtransportCerthashes := certhashes }
  if !send1Ok then .error (.io .other) else
  match recvIdentity C st m2 with
  | .error e => .error e
  | .ok st =>
    if !send3Ok then .error (.io .other) else
    match finish C st s with
    | .error e => .error e
    | .ok pk => .ok (C.peerId pk)

/-- `Keypair::into_authentic`: the payload an honest party with identity key bytes `idKey` sends;
`sign` is its signing function. -/
def honestPayload (idKey : Bytes) (sign : Bytes → Bytes) (dhPublic : Bytes) : Payload :=
  { identityKey := idKey, identitySig := sign (STATIC_KEY_DOMAIN ++ dhPublic) }

/-! ## Symbolic instance (Dolev–Yao terms as byte lists) used by the driver and in examples -/

/-- identity key of principal `p` -/
def symKey (p : Nat) : Bytes := [1, p]
/-- signature by principal `p` over `m` -/
def symSign (p : Nat) (m : Bytes) : Bytes := 2 :: p :: m
/-- static DH public key number `s` (32 bytes) -/
def symDh (s : Nat) : Bytes := List.replicate 32 s

def Sym : Crypto where
  IdKey := Nat
  decodeKey b := match b with
    | [1, p] => some p
    | _ => none
  verify k m s := s == symSign k m
  peerId k := k

/-! ## Ideal Noise XX between two honest endpoints with a man in the middle

What the receiver of handshake message `k` gets. -/
inductive Seen where
  /-- bit-identical to what the peer sent for this step of THIS session -/
  | intact
  /-- a complete frame of `len` body bytes that differs from it -/
  | altered (len : Nat)
  /-- no complete frame ever arrives (dropped, stalled by an enlarged length prefix, cut) -/
  | never
  /-- a foreign frame of `len` body bytes put there by the adversary whether or not the peer sent
  anything (e.g. a duplicate of an earlier message) -/
  | injected (len : Nat)
  deriving Repr, DecidableEq

/-- endpoint result: `Ok(peer)` or the error -/
abbrev Res := Except Err Nat

structure Party where
  /-- principal number (= symbolic peer id) -/
  id : Nat
  /-- static DH key number -/
  dh : Nat

/-- payload of an honest party in the symbolic instance -/
def Party.payload (p : Party) : Payload := honestPayload (symKey p.id) (symSign p.id) (symDh p.dh)

/-- **Ideal XX** (Noise_XX_25519_ChaChaPoly_SHA256, honest dialer `a`, honest listener `b`):
message 1 (`e`, empty payload) is unauthenticated — any 32-byte body is accepted by the
responder but desynchronises the transcript hash; messages 2 and 3 are accepted only if
bit-identical to what the peer sent AND both transcripts (prologue, message 1) agree.
Returns (dialer result, listener result); `none` = outside the ideal model (message 1 with a
non-empty payload). -/
def simulate (a b : Party) (prologueEq : Bool) (s1 s2 s3 : Seen) : Option (Res × Res) :=
  let eofErr : Res := .error (.io .unexpectedEof)
  let badErr : Res := .error (.io .invalidData)
  -- listener, message 1
  let l1 : Option (Option Bool) :=   -- some (some sync) = accepted; some none = rejected; none = unknown
    match s1 with
    | .intact => some (some prologueEq)
    | .altered len => if len < 32 then some none else if len = 32 then some (some false) else none
    | .injected len => if len < 32 then some none else if len = 32 then some (some false) else none
    | .never => some none
  match l1 with
  | none => none
  | some none =>
    -- the listener failed or never got message 1; the dialer never gets message 2
    some (eofErr, if s1 = .never then eofErr else badErr)
  | some (some sync) =>
    -- the listener sent message 2 and now waits for message 3
    let dialer : Res × Bool :=   -- result, sent message 3
      match s2 with
      | .never => (eofErr, false)
      | .altered _ => (badErr, false)
      | .injected _ => (badErr, false)
      | .intact =>
        if sync then
          (upgradeOutbound Sym none true (.payload b.payload) true
            { remoteStatic := some (symDh b.dh), finished := true }, true)
        else (badErr, false)
    if !dialer.2 then some (dialer.1, match s3 with | .injected _ => badErr | _ => eofErr)
    else
      let listener : Res :=
        match s3 with
        | .never => eofErr
        | .altered _ => badErr
        | .injected _ => badErr
        | .intact =>
          upgradeInbound Sym none (.payload {}) true (.payload a.payload)
            { remoteStatic := some (symDh a.dh), finished := true }
      some (dialer.1, listener)

/-! ## Executable Spec (judges the IMPLEMENTATION's outputs) -/

/-- an endpoint that completed the key exchange with the party whose identity is `holder` may
report only `holder` -/
def specReport (holder : Nat) : Res → Bool
  | .ok p => p == holder
  | .error _ => true

/-- a malicious endpoint holding the session keys itself (static DH key `dh`) presenting
`payload`: the victim may accept only as a principal `p` whose key is the presented key and whose
signature over the domain-separated static key of THIS session is the presented signature. -/
def specMal (dh : Nat) (payload : Payload) : Res → Bool
  | .ok p => payload.identityKey == symKey p &&
      payload.identitySig == symSign p (STATIC_KEY_DOMAIN ++ symDh dh)
  | .error _ => true

end C16
