import Libp2pModel.Common.Machine
/-!
# C45 — every request gets exactly one outcome
(`protocols/request-response/src/lib.rs`: `Behaviour` bookkeeping)

State: `next_outbound_request_id`, `connected : HashMap<PeerId, SmallVec<Connection>>`
(`Connection = {id, pending_outbound_responses, pending_inbound_responses}`),
`pending_outbound_requests : HashMap<PeerId, SmallVec<OutboundMessage>>`.

The two hash maps are modelled as total functions `Peer → List _` with `[]` for "no entry": the
code never stores an empty vector under a key (`entry().or_default().push(..)` is the only
insertion, `on_connection_closed` removes the key when the vector becomes empty, and
`pending_outbound_requests` entries are removed whole), and every reader treats `None` like an empty
vector.  Hash *sets* are duplicate-free lists in insertion order; the only place where the
iteration order of a `HashSet` is observable (`on_connection_closed`) is canonicalised by the
harness and by the driver (sorted by id).

`fx = false` is THE MODEL: the code as it is (`debug_assert!(removed)`, then the event is emitted
unconditionally).  `fx = true` is a defensive variant (`if removed { emit }`) used only as a proof
device: it satisfies the invariant for every op order, and on in-contract operations
(`inContract`) it coincides with the code.  `dbg` = `cfg!(debug_assertions)`.

Not modelled: `remote_address`/`addresses` (no influence on the bookkeeping), `u64` overflow of the
request-id counter (`Nat` here), and the `debug_assert_eq!(connections.is_empty(),
remaining_established == 0)` consistency check of `on_connection_closed` (the harness, playing the
Swarm, always passes the correct `remaining_established`).
-/
namespace C45

abbrev Peer := Nat
abbrev CId := Nat
abbrev RId := Nat

structure Conn where
  id : CId
  /-- `pending_outbound_responses` -/
  pout : List RId
  /-- `pending_inbound_responses` -/
  pin : List RId
deriving Repr, DecidableEq, Inhabited

/-- selector: `true` = outbound set, `false` = inbound set -/
def Conn.get (b : Bool) (c : Conn) : List RId := if b then c.pout else c.pin
def Conn.put (b : Bool) (c : Conn) (l : List RId) : Conn :=
  if b then { c with pout := l } else { c with pin := l }

inductive OutErr | dialFailure | timeout | connectionClosed | unsupported | io
deriving DecidableEq, Repr
inductive InErr | timeout | connectionClosed | omission | io
deriving DecidableEq, Repr

/-- what `poll` hands to the Swarm -/
inductive Ev
  | dial (p : Peer)
  | notify (p : Peer) (c : CId) (id : RId)
  | response (p : Peer) (c : CId) (id : RId)
  | request (p : Peer) (c : CId) (id : RId)
  | outFail (p : Peer) (c : CId) (id : RId) (e : OutErr)
  | inFail (p : Peer) (c : CId) (id : RId) (e : InErr)
  | respSent (p : Peer) (c : CId) (id : RId)
deriving DecidableEq, Repr

inductive HOut | response | timeout | unsupported | streamFailed
deriving DecidableEq, Repr
inductive HIn | responseSent | omission | timeout | streamFailed
deriving DecidableEq, Repr

inductive Op
  /-- `send_request(p, _)` -/
  | send (p : Peer)
  /-- `handle_established_{in,out}bound_connection(c, p, ..)` + `ConnectionEstablished` -/
  | established (p : Peer) (c : CId)
  /-- `FromSwarm::ConnectionClosed` -/
  | closed (p : Peer) (c : CId)
  /-- `FromSwarm::DialFailure`; `cond` = the error is `DialPeerConditionFalse` -/
  | dialFailure (p : Option Peer) (c : CId) (cond : Bool)
  /-- handler events `Response`/`OutboundTimeout`/`OutboundUnsupportedProtocols`/`OutboundStreamFailed` -/
  | hOut (p : Peer) (c : CId) (id : RId) (k : HOut)
  /-- handler event `Request` -/
  | hRequest (p : Peer) (c : CId) (id : RId)
  /-- handler events `ResponseSent`/`ResponseOmission`/`InboundTimeout`/`InboundStreamFailed` -/
  | hIn (p : Peer) (c : CId) (id : RId) (k : HIn)
deriving DecidableEq, Repr

structure St where
  dbg : Bool
  nextId : Nat
  connected : Peer → List Conn
  pending : Peer → List RId

structure Out where
  /-- value returned by `send_request` -/
  ret : Option RId := none
  /-- requests handed to the new handler by `preload_new_handler`, in order -/
  pre : List RId := []
  /-- `pending_events` pushed by this op, in order -/
  evs : List Ev := []
  panic : Option String := none
deriving Repr, DecidableEq

def init (dbg : Bool) : St := { dbg := dbg, nextId := 1, connected := fun _ => [], pending := fun _ => [] }

def upd {β : Type} (f : Nat → β) (k : Nat) (v : β) : Nat → β := fun x => if x = k then v else f x

/-- `HashSet::insert` -/
def insertSet (l : List RId) (x : RId) : List RId := if x ∈ l then l else l ++ [x]

/-- `connections[ix].pending_outbound_responses.insert(id)`; returns the connection's id.
`none` = index out of bounds (cannot happen: `ix = id % len`). -/
def sendTo (id : RId) : Nat → List Conn → Option (CId × List Conn)
  | _, [] => none
  | 0, x :: xs => some (x.id, { x with pout := insertSet x.pout id } :: xs)
  | i + 1, x :: xs => (sendTo id i xs).map fun r => (r.1, x :: r.2)

/-- `connections.iter().position(|c| c.id == cid).map(|p| connections.remove(p))` -/
def takeConn (c : CId) : List Conn → Option (Conn × List Conn)
  | [] => none
  | x :: xs => if x.id = c then some (x, xs) else (takeConn c xs).map fun r => (r.1, x :: r.2)

/-- `get_connection_mut(peer, cid).map(|c| c.<set>.remove(&id)).unwrap_or(false)` -/
def removeP (b : Bool) (c : CId) (id : RId) : List Conn → Bool × List Conn
  | [] => (false, [])
  | x :: xs =>
    if x.id = c then (decide (id ∈ x.get b), x.put b ((x.get b).filter (· ≠ id)) :: xs)
    else let r := removeP b c id xs; (r.1, x :: r.2)

/-- `get_connection_mut(peer, cid)` then `pending_inbound_responses.insert(id)`;
`none` = no such connection, `some (inserted, conns')`. -/
def insertIn (c : CId) (id : RId) : List Conn → Option (Bool × List Conn)
  | [] => none
  | x :: xs =>
    if x.id = c then some (decide (id ∉ x.pin), { x with pin := insertSet x.pin id } :: xs)
    else (insertIn c id xs).map fun r => (r.1, x :: r.2)

def hOutEv (p : Peer) (c : CId) (id : RId) : HOut → Ev
  | .response => .response p c id
  | .timeout => .outFail p c id .timeout
  | .unsupported => .outFail p c id .unsupported
  | .streamFailed => .outFail p c id .io

def hInEv (p : Peer) (c : CId) (id : RId) : HIn → Ev
  | .responseSent => .respSent p c id
  | .omission => .inFail p c id .omission
  | .timeout => .inFail p c id .timeout
  | .streamFailed => .inFail p c id .io

/-- the arms of `on_connection_handler_event` that the original code guards only with a
`debug_assert!(removed)` -/
def HIn.asserted : HIn → Bool
  | .responseSent | .omission => true
  | .timeout | .streamFailed => false

/-- One behaviour operation.  Returns the new state and what the op pushed to `pending_events`
(plus return value / preload / panic). -/
def step (fx : Bool) (s : St) : Op → St × Out
  | .send p =>
    -- next_outbound_request_id(); try_send_request
    let id := s.nextId
    let s1 := { s with nextId := id + 1 }
    if (s.connected p).isEmpty then
      ({ s1 with pending := upd s.pending p (s.pending p ++ [id]) }, { ret := some id, evs := [.dial p] })
    else
      match sendTo id (id % (s.connected p).length) (s.connected p) with
      | some (c, conns') =>
        ({ s1 with connected := upd s.connected p conns' }, { ret := some id, evs := [.notify p c id] })
      | none => (s1, { panic := some "index out of bounds" })
  | .established p c =>
    -- preload_new_handler
    let pre := s.pending p
    let conn : Conn := { id := c, pout := pre.foldl insertSet [], pin := [] }
    ({ s with pending := upd s.pending p [], connected := upd s.connected p (s.connected p ++ [conn]) },
     { pre := pre })
  | .closed p c =>
    if (s.connected p).isEmpty then
      (s, { panic := some "Expected some established connection to peer before closing." })
    else
      match takeConn c (s.connected p) with
      | none => (s, { panic := some "Expected connection to be established before closing." })
      | some (conn, rest) =>
        ({ s with connected := upd s.connected p rest },
         { evs := conn.pin.map (fun id => Ev.inFail p c id .connectionClosed) ++
                  conn.pout.map (fun id => Ev.outFail p c id .connectionClosed) })
  | .dialFailure po c cond =>
    if cond then (s, {})
    else
      match po with
      | none => (s, {})
      | some p =>
        ({ s with pending := upd s.pending p [] },
         { evs := (s.pending p).map fun id => Ev.outFail p c id .dialFailure })
  | .hOut p c id k =>
    let r := removeP true c id (s.connected p)
    let s' := { s with connected := upd s.connected p r.2 }
    if r.1 then (s', { evs := [hOutEv p c id k] })
    else if fx then (s', {})
    else if s.dbg then (s', { panic := some "debug_assert removed" })
    else (s', { evs := [hOutEv p c id k] })
  | .hRequest p c id =>
    match insertIn c id (s.connected p) with
    | none => (s, {})
    | some (inserted, conns') =>
      let s' := { s with connected := upd s.connected p conns' }
      if !inserted && s.dbg then (s', { panic := some "Expect id of new request to be unknown." })
      else (s', { evs := [.request p c id] })
  | .hIn p c id k =>
    let r := removeP false c id (s.connected p)
    let s' := { s with connected := upd s.connected p r.2 }
    if r.1 then (s', { evs := [hInEv p c id k] })
    else if !k.asserted then (s', {})
    else if fx then (s', {})
    else if s.dbg then (s', { panic := some "debug_assert removed" })
    else (s', { evs := [hInEv p c id k] })

/-- **The environment contract** (what a real `Swarm` + `Handler` deliver): `ConnectionClosed` only
for an established connection; a completion event (`Response`, `OutboundTimeout`,
`OutboundUnsupportedProtocols`, `OutboundStreamFailed`, `ResponseSent`, `ResponseOmission`) only for a
request that is pending on that live connection; a `Request` event does not re-use an id that is
pending on the connection.  (`InboundTimeout` / `InboundStreamFailed` for an id the behaviour has not
seen are legitimate — the stream failed before the request was read — and the code handles them.)
This is what the code's `expect`s and `debug_assert!`s state. -/
def inContract (s : St) : Op → Bool
  | .closed p c => !(s.connected p).isEmpty && (takeConn c (s.connected p)).isSome
  | .hOut p c id _ => (removeP true c id (s.connected p)).1
  | .hIn p c id k => !k.asserted || (removeP false c id (s.connected p)).1
  | .hRequest p c id =>
    match insertIn c id (s.connected p) with
    | some r => r.1
    | none => true
  | _ => true

/-- every operation of the sequence is in-contract at the state it is applied to -/
def okRun : St → List Op → Bool
  | _, [] => true
  | s, o :: os => inContract s o && okRun (step false s o).1 os

/-- `is_pending_outbound(p, id)` -/
def isPendingOut (s : St) (p : Peer) (id : RId) : Bool :=
  (s.connected p).any (fun c => decide (id ∈ c.pout)) || decide (id ∈ s.pending p)

/-- `is_pending_inbound(p, id)` -/
def isPendingIn (s : St) (p : Peer) (id : RId) : Bool :=
  (s.connected p).any (fun c => decide (id ∈ c.pin))

/-! ## Traces and the executable Spec

A trace entry records one op, what the behaviour emitted for it, and the `is_pending_*`
sample taken afterwards (`po`/`pi` = the `(peer, id)` pairs reported pending, for the peers
`0..np` and all ids issued / seen so far).  The Spec is the property evaluated on a trace
prefix; it is evaluated on the IMPLEMENTATION's trace by the driver and proved of the model's
traces in `Props/C45.lean`. -/

structure Entry where
  op : Op
  out : Out
  po : List (Peer × RId)
  pi : List (Peer × RId)
deriving Repr, DecidableEq

abbrev Trace := List Entry

def Trace.evs (t : Trace) : List Ev := t.flatMap (·.out.evs)

/-- `(id, p)` when the entry is a `send_request(p)` that returned `id` -/
def issuedOf (e : Entry) : List (RId × Peer) :=
  match e.op, e.out.ret with
  | .send p, some id => [(id, p)]
  | _, _ => []

def issued (t : Trace) : List (RId × Peer) := t.flatMap issuedOf

/-- outbound outcomes: `Message::Response` and `OutboundFailure` events, as `(id, p)` -/
def outDoneOf : Ev → Option (RId × Peer)
  | .response p _ id => some (id, p)
  | .outFail p _ id _ => some (id, p)
  | _ => none

def outDone (evs : List Ev) : List (RId × Peer) := evs.filterMap outDoneOf

/-- inbound requests delivered to the application (`Message::Request`) -/
def deliveredOf : Ev → Option (RId × Peer)
  | .request p _ id => some (id, p)
  | _ => none

def delivered (evs : List Ev) : List (RId × Peer) := evs.filterMap deliveredOf

/-- inbound outcomes: `ResponseSent` and `InboundFailure` events -/
def inDoneOf : Ev → Option (RId × Peer)
  | .respSent p _ id => some (id, p)
  | .inFail p _ id _ => some (id, p)
  | _ => none

def inDone (evs : List Ev) : List (RId × Peer) := evs.filterMap inDoneOf

/-- id carried by a handler `Request` event (chosen by the handler = environment) -/
def reqIdOf : Op → List RId
  | .hRequest _ _ id => [id]
  | _ => []

def reqIds (t : Trace) : List RId := t.flatMap (fun e => reqIdOf e.op)

/-- change of the number of connections to `p` the Swarm has open -/
def openDelta (p : Peer) (e : Entry) : Int :=
  match e.op with
  | .established q _ => if q = p then 1 else 0
  | .closed q _ => if q = p ∧ e.out.panic.isNone then -1 else 0
  | _ => 0

/-- number of connections to `p` the Swarm has open: establishments minus successful closes -/
def openCount (p : Peer) : Trace → Int
  | [] => 0
  | e :: t => openDelta p e + openCount p t

/-- is a `Dial` for `p` outstanding: emitted, and since then neither a connection to `p` was
established nor a (real) dial failure for `p` reported -/
def dialStep (p : Peer) (acc : Bool) (e : Entry) : Bool :=
  (match e.op with
   | .established q _ => if q = p then false else acc
   | .dialFailure (some q) _ false => if q = p then false else acc
   | _ => acc) || decide (Ev.dial p ∈ e.out.evs)

def dialing (p : Peer) (t : Trace) : Bool := t.foldl (dialStep p) false

def strictlyIncreasing : List Nat → Bool
  | [] => true
  | [_] => true
  | a :: b :: t => decide (a < b) && strictlyIncreasing (b :: t)

/-- is a panic of this op excused: the op violates the Swarm/handler contract
(`ConnectionClosed` for a connection never established; a `Request` event re-using an id).
`seen` = ids of the `Request` events before this op. -/
def panicExcused (seen : List RId) (op : Op) : Bool :=
  match op with
  | .closed _ _ => true
  | .hRequest _ _ id => decide (id ∈ seen)
  | _ => false

/-- every panic along the trace is excused -/
def panicsOk (seen : List RId) : Trace → Bool
  | [] => true
  | e :: t => (e.out.panic.isNone || panicExcused seen e.op) && panicsOk (seen ++ reqIdOf e.op) t

def lastPo (t : Trace) : List (Peer × RId) := (t.getLast?.map (·.po)).getD []
def lastPi (t : Trace) : List (Peer × RId) := (t.getLast?.map (·.pi)).getD []

/-! The clauses of the property, each a decidable statement about a trace. -/

/-- request ids are unique: strictly increasing in the order of the `send_request` calls -/
def clIds (t : Trace) : Prop := strictlyIncreasing ((issued t).map (·.1)) = true
/-- no outbound request id gets two outcomes -/
def clOnceOut (t : Trace) : Prop := ((outDone t.evs).map (·.1)).Nodup
/-- outcomes only for issued ids, and for the peer the request was addressed to -/
def clIssuedOut (t : Trace) : Prop := ∀ x ∈ outDone t.evs, x ∈ issued t
/-- partition: an issued id is reported pending (for its peer) iff it has had no outcome -/
def clPartOut (t : Trace) : Prop := ∀ x ∈ issued t, ((x.2, x.1) ∈ lastPo t ↔ x ∉ outDone t.evs)
def clPendIssuedOut (t : Trace) : Prop := ∀ x ∈ lastPo t, (x.2, x.1) ∈ issued t
/-- quiescence: no open connection to the peer and no outstanding dial ⇒ the request has had its outcome -/
def clQuiesOut (t : Trace) : Prop :=
  ∀ x ∈ issued t, x ∈ outDone t.evs ∨ 0 < openCount x.2 t ∨ dialing x.2 t = true
def clOnceIn (t : Trace) : Prop := ((inDone t.evs).map (·.1)).Nodup
def clDeliveredIn (t : Trace) : Prop := ∀ x ∈ inDone t.evs, x ∈ delivered t.evs
def clPartIn (t : Trace) : Prop := ∀ x ∈ delivered t.evs, ((x.2, x.1) ∈ lastPi t ↔ x ∉ inDone t.evs)
def clQuiesIn (t : Trace) : Prop := ∀ x ∈ delivered t.evs, x ∈ inDone t.evs ∨ 0 < openCount x.2 t

instance (t : Trace) : Decidable (clIds t) := by unfold clIds; infer_instance
instance (t : Trace) : Decidable (clOnceOut t) := by unfold clOnceOut; infer_instance
instance (t : Trace) : Decidable (clIssuedOut t) := by unfold clIssuedOut; infer_instance
instance (t : Trace) : Decidable (clPartOut t) := by unfold clPartOut; infer_instance
instance (t : Trace) : Decidable (clPendIssuedOut t) := by unfold clPendIssuedOut; infer_instance
instance (t : Trace) : Decidable (clQuiesOut t) := by unfold clQuiesOut; infer_instance
instance (t : Trace) : Decidable (clOnceIn t) := by unfold clOnceIn; infer_instance
instance (t : Trace) : Decidable (clDeliveredIn t) := by unfold clDeliveredIn; infer_instance
instance (t : Trace) : Decidable (clPartIn t) := by unfold clPartIn; infer_instance
instance (t : Trace) : Decidable (clQuiesIn t) := by unfold clQuiesIn; infer_instance

/-- **The property on a trace.**  Returns the first violated clause, `none` when the trace
satisfies the property.  The inbound clauses are stated under the handler contract "the ids of
`Request` events are fresh" (`(reqIds t).Nodup`; the real handler draws them from an atomic counter). -/
def specKey (t : Trace) : Option String :=
  let fresh := decide (reqIds t).Nodup
  if !decide (clIds t) then some "ids_not_increasing"
  else if !decide (clOnceOut t) then some "double_outcome_out"
  else if !decide (clIssuedOut t) then some "outcome_unissued_out"
  else if !decide (clPartOut t) then some "partition_out"
  else if !decide (clPendIssuedOut t) then some "pending_unissued_out"
  else if !decide (clQuiesOut t) then some "quiescence_out"
  else if fresh && !decide (clOnceIn t) then some "double_outcome_in"
  else if fresh && !decide (clDeliveredIn t) then some "outcome_undelivered_in"
  else if fresh && !decide (clPartIn t) then some "partition_in"
  else if fresh && !decide (clQuiesIn t) then some "quiescence_in"
  -- the behaviour never panics (on in-contract operations)
  else if !t.all (fun e => e.out.panic.isNone) then some "panic"
  else none

def spec (t : Trace) : Bool := (specKey t).isNone

/-! ## Handler contract (outbound failures), checked dynamically on the real `Handler`

The handler of a connection keeps the requests it was handed in FIFO order (`requested_outbound`);
when the negotiation of an outbound stream fails (timeout / no common protocol / I/O error) while
the connection stays open, it must report the corresponding failure event for the OLDEST of them
(`on_dial_upgrade_error`: `requested_outbound.pop_front()`).  `HQ` tracks, per connection, the
requests handed to its handler that have not completed — computed from a trace (of the model or
of the implementation) by `hqAfter`. -/

abbrev HQ := List (Peer × CId × List RId)

def hqPush (q : HQ) (p : Peer) (c : CId) (ids : List RId) : HQ :=
  if q.any (fun e => e.1 == p && e.2.1 == c) then
    q.map fun e => if e.1 == p && e.2.1 == c then (e.1, e.2.1, e.2.2 ++ ids) else e
  else q ++ [(p, c, ids)]

def hqAfter (q : HQ) (op : Op) (o : Out) : HQ :=
  let q1 : HQ := match op with
    | .established p c => hqPush q p c o.pre
    | .closed p c => if o.panic.isNone then q.filter (fun e => !(e.1 == p && e.2.1 == c)) else q
    | .hOut p c id _ => q.map fun e => if e.1 == p && e.2.1 == c then (e.1, e.2.1, e.2.2.erase id) else e
    | _ => q
  o.evs.foldl (fun q e => match e with | .notify p c id => hqPush q p c [id] | _ => q) q1

/-- the oldest request the handler of `(p, c)` holds -/
def hqHead (q : HQ) (p : Peer) (c : CId) : Option RId :=
  match q.find? (fun e => e.1 == p && e.2.1 == c) with
  | some e => e.2.2.head?
  | none => none

/-- run the model, recording the trace (`ids`: inbound ids to sample, as the harness does) -/
def samplePo (np : Nat) (s : St) : List (Peer × RId) :=
  (List.range np).flatMap fun p => ((List.range' 1 (s.nextId - 1)).filter (isPendingOut s p)).map fun id => (p, id)

def insertSorted (x : Nat) : List Nat → List Nat
  | [] => [x]
  | y :: ys => if x < y then x :: y :: ys else if x = y then y :: ys else y :: insertSorted x ys

def samplePi (np : Nat) (s : St) (ids : List RId) : List (Peer × RId) :=
  (List.range np).flatMap fun p => (ids.filter (isPendingIn s p)).map fun id => (p, id)

/-- sorted set of inbound ids seen so far -/
def seenAfter (ids : List RId) : Op → List RId
  | .hRequest _ _ id => insertSorted id ids
  | _ => ids

def runT (fx : Bool) (np : Nat) : St → List RId → List Op → Trace
  | _, _, [] => []
  | s, ids, o :: os =>
    let r := step fx s o
    let ids' := seenAfter ids o
    { op := o, out := r.2, po := samplePo np r.1, pi := samplePi np r.1 ids' } :: runT fx np r.1 ids' os

end C45
