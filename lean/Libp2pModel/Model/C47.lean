import Libp2pModel.Common.Drv
/-!
# C47 — relay resource limits (`protocols/relay/src/behaviour.rs`)

The relay `Behaviour`'s bookkeeping: `connections : HashMap<PeerId, HashMap<ConnectionId,
Reservation>>` and `circuits : CircuitsTracker`, and every `on_swarm_event` /
`on_connection_handler_event` arm that touches them.

`connections` is kept flat, as a list of `(peer, connection, reservation active)`: a peer entry of
the nested map exists exactly when it has at least one connection entry (every creation inserts a
connection, every removal of the last connection removes the peer), which is all
`get_mut(..).expect("valid connection")` / `Entry::Vacant => unreachable!` observe.

`Variant.repaired` mirrors the code after `findings/C47-*.fix.diff`; `Variant.preFix` is the code
as it was (per-peer tests with `>`, destination's circuit count not tested).
-/
namespace C47

structure Cfg where
  maxRes : Nat
  maxResPerPeer : Nat
  maxCirc : Nat
  maxCircPerPeer : Nat
  deriving Repr

abbrev Peer := Nat
abbrev Conn := Nat

structure Circuit where
  id : Nat
  src : Peer
  srcConn : Conn
  dst : Peer
  dstConn : Conn
  /-- `CircuitStatus::Accepted` (else `Accepting`) -/
  accepted : Bool
  deriving DecidableEq, Repr

structure St where
  conns : List (Peer × Conn × Bool)
  circuits : List Circuit
  nextId : Nat
  deriving Repr

def St.empty : St := ⟨[], [], 0⟩

structure Variant where
  /-- per-peer admission tests deny at `count ≥ max` (repaired) instead of `count > max` -/
  geq : Bool
  /-- the destination's circuit count is tested too (repaired) -/
  dstCheck : Bool

def Variant.repaired : Variant := ⟨true, true⟩
def Variant.preFix : Variant := ⟨false, false⟩

/-! ## `connections` -/

def isKey (p : Peer) (c : Conn) (e : Peer × Conn × Bool) : Bool := e.1 == p && e.2.1 == c

/-- `cs.remove(&connection)` (+ removal of an emptied peer entry) -/
def removeConn (l : List (Peer × Conn × Bool)) (p : Peer) (c : Conn) : List (Peer × Conn × Bool) :=
  l.filter (fun e => !isKey p c e)

/-- `connections.entry(p).or_default().insert(c, status)` -/
def setConn (l : List (Peer × Conn × Bool)) (p : Peer) (c : Conn) (a : Bool) : List (Peer × Conn × Bool) :=
  removeConn l p c ++ [(p, c, a)]

/-- `connections.get(&p)` is `Some` -/
def hasPeer (l : List (Peer × Conn × Bool)) (p : Peer) : Bool := l.any (fun e => e.1 == p)

/-- `connections.get(&p).map(|cs| cs.values().filter(is_active).count()).unwrap_or(0)` -/
def activeOf (l : List (Peer × Conn × Bool)) (p : Peer) : Nat := l.countP (fun e => e.1 == p && e.2.2)

/-- `connections.values().map(|cs| cs.values().filter(is_active).count()).sum()` -/
def totalActive (l : List (Peer × Conn × Bool)) : Nat := l.countP (fun e => e.2.2)

/-- `connections.get(&dst).and_then(|cs| cs.iter().find(is_active))` is `Some` -/
def hasActive (l : List (Peer × Conn × Bool)) (p : Peer) : Bool := l.any (fun e => e.1 == p && e.2.2)

/-! ## `CircuitsTracker` -/

def involves (p : Peer) (k : Circuit) : Bool := k.src == p || k.dst == p

/-- `num_circuits_of_peer` -/
def numOf (l : List Circuit) (p : Peer) : Nat := l.countP (involves p)

/-- the `retain` predicate of `remove_by_connection` (true = removed) -/
def onConn (p : Peer) (c : Conn) (k : Circuit) : Bool :=
  (k.src == p && k.srcConn == c) || (k.dst == p && k.dstConn == c)

/-! ## events -/

inductive Op where
  /-- `FromSwarm::ConnectionEstablished` -/
  | established (p : Peer) (c : Conn)
  /-- `FromSwarm::ConnectionClosed` -/
  | closed (p : Peer) (c : Conn)
  /-- `handler::Event::ReservationReqReceived`; `rate` = all rate limiters said yes -/
  | resReq (p : Peer) (c : Conn) (renewed rate : Bool)
  /-- `handler::Event::ReservationReqAccepted` -/
  | resAccepted (p : Peer) (c : Conn)
  /-- `handler::Event::ReservationTimedOut` -/
  | resTimedOut (p : Peer) (c : Conn)
  /-- `handler::Event::CircuitReqReceived`; `pick` = the active connection of `dst` that
  `cs.iter().find(..)` returned (HashMap order: an oracle, validated by the model) -/
  | circReq (p : Peer) (c : Conn) (dst : Peer) (rate : Bool) (pick : Option Conn)
  /-- `handler::Event::CircuitReqAccepted` -/
  | circAccepted (id : Nat)
  /-- `CircuitReqDenied{circuit_id: Some}`, `CircuitReqDenyFailed{Some}`, `CircuitReqAcceptFailed`,
  `CircuitClosed`: all do `circuits.remove(circuit_id)` -/
  | circRemove (id : Nat)
  deriving Repr

inductive Out where
  | none
  | resAccept
  | resDeny
  | circAccept (id : Nat)
  | circDenyLimit
  | circDenyNoRes
  | panic
  | badOracle
  deriving DecidableEq, Repr

/-- `count > max` as written, `count ≥ max` after the repair -/
def exceeds (v : Variant) (count max : Nat) : Bool :=
  if v.geq then decide (max ≤ count) else decide (max < count)

def step (v : Variant) (cfg : Cfg) (st : St) : Op → St × Out
  | .established p c => ({ st with conns := setConn st.conns p c false }, .none)
  | .closed p c =>
    ({ st with conns := removeConn st.conns p c,
               circuits := st.circuits.filter (fun k => !onConn p c k) }, .none)
  | .resReq p c renewed rate =>
    if (!renewed && exceeds v (activeOf st.conns p) cfg.maxResPerPeer)
        || decide (cfg.maxRes ≤ totalActive st.conns)
        || !rate then
      (st, .resDeny)
    else
      ({ st with conns := setConn st.conns p c true }, .resAccept)
  | .resAccepted p c =>
    if hasPeer st.conns p then ({ st with conns := setConn st.conns p c true }, .none)
    else (st, .panic)
  | .resTimedOut p c =>
    if hasPeer st.conns p then ({ st with conns := removeConn st.conns p c }, .none)
    else (st, .panic)
  | .circReq p c dst rate pick =>
    if exceeds v (numOf st.circuits p) cfg.maxCircPerPeer
        || (v.dstCheck && decide (cfg.maxCircPerPeer ≤ numOf st.circuits dst))
        || decide (cfg.maxCirc ≤ st.circuits.length)
        || !rate then
      (st, .circDenyLimit)
    else if hasActive st.conns dst then
      match pick with
      | some dc =>
        if st.conns.contains (dst, dc, true) then
          ({ st with circuits := st.circuits ++ [⟨st.nextId, p, c, dst, dc, false⟩],
                     nextId := st.nextId + 1 }, .circAccept st.nextId)
        else (st, .badOracle)
      | none => (st, .badOracle)
    else (st, .circDenyNoRes)
  | .circAccepted id =>
    ({ st with circuits := st.circuits.map (fun k => if k.id == id then { k with accepted := true } else k) },
     .none)
  | .circRemove id => ({ st with circuits := st.circuits.filter (fun k => !(k.id == id)) }, .none)

/-! ## Executable Spec: the four bounds on a snapshot of the bookkeeping -/

def spec (cfg : Cfg) (conns : List (Peer × Conn × Bool)) (circuits : List Circuit) : String :=
  if !conns.all (fun e => decide (activeOf conns e.1 ≤ cfg.maxResPerPeer)) then "FAIL:res_per_peer"
  else if !decide (totalActive conns ≤ cfg.maxRes) then "FAIL:res_total"
  else if !circuits.all (fun k => decide (numOf circuits k.src ≤ cfg.maxCircPerPeer)
      && decide (numOf circuits k.dst ≤ cfg.maxCircPerPeer)) then "FAIL:circ_per_peer"
  else if !decide (circuits.length ≤ cfg.maxCirc) then "FAIL:circ_total"
  else "ok"

/-! ## Spec, part 2: a ledger of circuits kept from what the relay DID

Independent of the relay's own `CircuitsTracker`: a circuit enters the ledger when a circuit
request is observed accepted (with the two connections it runs over, as recorded at acceptance),
and leaves it when that circuit is observed closed or one of those two connections closes.  The
per-peer and total circuit limits are judged on the ledger after every request. -/

/-- the requests of the correspondence harness (each one a short sequence of `Op`s) -/
inductive DOp where
  | conn (p : Peer) (c : Conn)
  | closeconn (p : Peer) (c : Conn)
  | reserve (p : Peer) (c : Conn) (renewed : Bool)
  /-- `pick` as in `Op.circReq` -/
  | circuit (p : Peer) (c : Conn) (dst : Peer) (pick : Option Conn)
  /-- a circuit request the relay admitted but the destination refused (STOP failed) -/
  | circuitFail (p : Peer) (c : Conn) (dst : Peer)
  | closecirc (id : Nat)
  deriving Repr

inductive DOut where
  | ok
  | resAcc
  | resDeny
  | circAcc (id : Nat)
  | circDenyLimit
  | circDenyNoRes
  | stopFail
  | panic
  | badOracle
  deriving DecidableEq, Repr

/-- a request, executed: `reserve` = request + the handler's confirmation, `circuit` = request +
`CircuitReqAccepted`, `circuitFail` = request + removal after the denied STOP -/
def dstep (v : Variant) (cfg : Cfg) (st : St) : DOp → St × DOut
  | .conn p c => ((step v cfg st (.established p c)).1, .ok)
  | .closeconn p c => ((step v cfg st (.closed p c)).1, .ok)
  | .reserve p c renewed =>
    match step v cfg st (.resReq p c renewed true) with
    | (st1, .resAccept) =>
      match step v cfg st1 (.resAccepted p c) with
      | (st2, .none) => (st2, .resAcc)
      | (_, _) => (st, .panic)
    | (st1, _) => (st1, .resDeny)
  | .circuit p c dst pick =>
    match step v cfg st (.circReq p c dst true pick) with
    | (st1, .circAccept id) => ((step v cfg st1 (.circAccepted id)).1, .circAcc id)
    | (st1, .circDenyLimit) => (st1, .circDenyLimit)
    | (st1, .circDenyNoRes) => (st1, .circDenyNoRes)
    | (_, _) => (st, .badOracle)
  | .circuitFail p c dst =>
    -- any active connection of `dst` serves: the circuit is dropped again
    let dc := (st.conns.find? (fun e => e.1 == dst && e.2.2)).map (·.2.1)
    match step v cfg st (.circReq p c dst true dc) with
    | (st1, .circAccept id) => ((step v cfg st1 (.circRemove id)).1, .stopFail)
    | (st1, .circDenyLimit) => (st1, .circDenyLimit)
    | (st1, .circDenyNoRes) => (st1, .circDenyNoRes)
    | (_, _) => (st, .badOracle)
  | .closecirc id => ((step v cfg st (.circRemove id)).1, .ok)

/-- the ledger after one observed request -/
def ledgerStep (l : List Circuit) : DOp → DOut → List Circuit
  | .circuit p c dst (some dc), .circAcc id => l ++ [⟨id, p, c, dst, dc, true⟩]
  | .closecirc id, _ => l.filter (fun k => !(k.id == id))
  | .closeconn p c, _ => l.filter (fun k => !onConn p c k)
  | _, _ => l

/-- the circuit limits judged on the ledger -/
def specLedger (cfg : Cfg) (l : List Circuit) : String :=
  if !l.all (fun k => decide (numOf l k.src ≤ cfg.maxCircPerPeer)
      && decide (numOf l k.dst ≤ cfg.maxCircPerPeer)) then "FAIL:circ_per_peer"
  else if !decide (l.length ≤ cfg.maxCirc) then "FAIL:circ_total"
  else "ok"

end C47
