/-!
# C47 — one connection's reservation handler and the behaviour, asynchronously composed

`behaviour/handler.rs` (fields `active_reservation`, `reservation_request_future`,
`pending_reservation_requests`) and the behaviour's view of the same connection, with the two
event queues between them (handler → behaviour: `ToBehaviour` events of this connection, in order;
behaviour → handler: `In::AcceptReservationReq` / `In::DenyReservationReq`).  The behaviour's
admission test depends on all other connections: it is an arbitrary Boolean here.

`repaired = true` is the handler after `findings/C47-renewal-expiry-race.fix.diff` (no
`ReservationTimedOut` while a reservation request is in flight), `false` the handler as it was.
-/
namespace C47h

/-- handler → behaviour -/
inductive Up where
  /-- `ReservationReqReceived { renewed }` -/
  | recv (renewed : Bool)
  /-- `ReservationTimedOut` -/
  | tmo
  /-- `ReservationReqAccepted` -/
  | acc
  deriving DecidableEq, Repr

structure Sys where
  /-- the behaviour records `Reservation::Active` for this connection -/
  bActive : Bool
  /-- events of this connection the behaviour has not processed yet (front = head) -/
  up : List Up
  /-- answers the handler has not received yet (`true` = accept) -/
  down : List Bool
  /-- `active_reservation.is_some()` -/
  hActive : Bool
  /-- `pending_reservation_requests` -/
  pending : Nat
  /-- `reservation_request_future`: `some true` = `Accepting`, `some false` = `Denying` -/
  fut : Option Bool
  deriving Repr

def Sys.init : Sys := ⟨false, [], [], false, 0, none⟩

inductive Act where
  /-- an inbound RESERVE arrives: the handler reports it -/
  | request
  /-- the reservation timer fires and the handler notices -/
  | expire
  /-- the handler receives the behaviour's next answer -/
  | command
  /-- the accept / deny future completes; `ok` = the response was written -/
  | complete (ok : Bool)
  /-- the behaviour processes the next event; `adm` = outcome of its admission test -/
  | process (adm : Bool)
  deriving Repr

/-- one step; `none` = the action is not enabled -/
def step (repaired : Bool) (s : Sys) : Act → Option Sys
  | .request => some { s with up := s.up ++ [.recv s.hActive], pending := s.pending + 1 }
  | .expire =>
    if s.hActive && (!repaired || (s.pending == 0 && s.fut.isNone)) then
      some { s with hActive := false, up := s.up ++ [.tmo] }
    else none
  | .command =>
    match s.down with
    | [] => none
    | d :: ds => some { s with down := ds, pending := s.pending - 1, fut := some d }
  | .complete ok =>
    match s.fut with
    | none => none
    | some true =>
      if ok then some { s with fut := none, hActive := true, up := s.up ++ [.acc] }
      else some { s with fut := none }
    | some false => some { s with fut := none }
  | .process adm =>
    match s.up with
    | [] => none
    | .recv _ :: es =>
      some { s with up := es, bActive := s.bActive || adm, down := s.down ++ [adm] }
    | .tmo :: es => some { s with up := es, bActive := false }
    | .acc :: es => some { s with up := es, bActive := true }

/-- the handler contract of `C47.OpOk`, on the event the behaviour is about to process -/
def headOk (s : Sys) : Bool :=
  match s.up with
  | .recv true :: _ => s.bActive
  | .acc :: _ => s.bActive
  | _ => true

def run (repaired : Bool) : Sys → List Act → Option Sys
  | s, [] => some s
  | s, a :: as => match step repaired s a with
    | none => none
    | some s' => run repaired s' as

end C47h
