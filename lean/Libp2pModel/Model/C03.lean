import Libp2pModel.Common.Drv
/-!
# C03 — connection ids are never reused (`swarm/src/connection.rs::ConnectionId::next`)

`NEXT_CONNECTION_ID.fetch_add(1, SeqCst)` on one process-wide `static AtomicUsize`, called from
the three `DialOpts` builders and from `handle_transport_event` (incoming connections) of every
Swarm on every thread.  Model: one shared counter; a schedule is the sequence of thread ids taking
the next *atomic step*; two step semantics — `rmw` (what the code does: one atomic
read-modify-write returns `c` and sets `c+1`) and `loadStore` (what a racy rewrite would do: a
load step, later a store step).  The `rmw`/`loadStore` machines use an unbounded `Nat` counter;
`stepW`/`runW` model the counter as the code has it — a `w`-bit `usize` whose `fetch_add` wraps
modulo `2^w` (std: "This operation wraps around on overflow") — so the theorems can say exactly
how far uniqueness reaches (`2^w` allocations) and where it ends (allocation `2^w + 1`).
-/
namespace C03

inductive Shape where
  | rmw
  | loadStore
  deriving DecidableEq, Repr

structure St where
  ctr : Nat
  regs : List (Nat × Nat) := []    -- thread ↦ value it loaded (loadStore only, between its two steps)
  out : List (Nat × Nat) := []     -- (thread, id) handed out, newest first

/-- one atomic step of thread `t` -/
def step (sh : Shape) (s : St) (t : Nat) : St :=
  match sh with
  | .rmw => { s with ctr := s.ctr + 1, out := (t, s.ctr) :: s.out }
  | .loadStore =>
    match s.regs.lookup t with
    | none => { s with regs := (t, s.ctr) :: s.regs }
    | some v => { ctr := v + 1, regs := s.regs.filter (·.1 != t), out := (t, v) :: s.out }

/-- run an interleaving (any thread ids, any length) -/
def run (sh : Shape) (s : St) (sched : List Nat) : St := sched.foldl (step sh) s

/-- ids in allocation order -/
def ids (s : St) : List Nat := (s.out.map (·.2)).reverse

/-- one atomic `fetch_add(1)` of thread `t` on a `w`-bit counter: returns the old value, stores
`old + 1` wrapped modulo `2^w` -/
def stepW (w : Nat) (s : St) (t : Nat) : St :=
  { s with ctr := (s.ctr + 1) % 2 ^ w, out := (t, s.ctr) :: s.out }

/-- run an interleaving on the `w`-bit counter -/
def runW (w : Nat) (s : St) (sched : List Nat) : St := sched.foldl (stepW w) s

/-- round-robin schedule of `t` threads × `k` allocations (used by the driver to run the model) -/
def roundRobin (t k : Nat) : List Nat := (List.range k).flatMap fun _ => List.range t

/-- number of distinct values of a sorted list -/
def distinctSorted : List Nat → Nat
  | [] => 0
  | [_] => 1
  | a :: b :: r => (if a = b then 0 else 1) + distinctSorted (b :: r)

/-- the summary the harness prints for a multiset of ids: (n, distinct, max-min+1) -/
def summary (l : List Nat) : Nat × Nat × Nat :=
  let s := l.mergeSort (fun a b => decide (a ≤ b))
  (l.length, distinctSorted s, match s.head?, s.getLast? with
    | some lo, some hi => hi - lo + 1
    | _, _ => 0)

/-- Spec, judged on the implementation's summary: no id was handed out twice -/
def specStress (n distinct : Nat) : Bool := n == distinct

/-- Spec for a run across the wrap point (far fewer than `2^w` allocations): no id twice -/
def specWrap (ids : List String) : Bool := decide (ids.Pairwise (· ≠ ·))

/-- Spec for the allocation shape reported from the source: one `fetch_add(1, ..)` on a static atomic -/
def specShape (toks : List String) : Bool := toks == ["shape", "rmw", "add=1", "static=1"]

end C03
