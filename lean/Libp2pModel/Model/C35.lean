/-!
# C35 — gossipsub fanout on publish without subscription
(`protocols/gossipsub/src/behaviour.rs`: `publish_peers`, `filter_publish_candidates`, and every
other place that writes `Behaviour::fanout`: `join`, `handle_received_subscriptions`,
`on_connection_closed`, the fanout part of `heartbeat`)

The model keeps exactly the state the fanout logic reads: connected peers (kind, subscribed
topics), explicit peers, the set of topics the node is subscribed to (= keys of `mesh`),
`fanout`, `fanout_last_pub`.  Peer scores are not modelled: every op that reads scores carries
`low` = the connected peers whose score is below `publish_threshold`, as read from the
implementation just before the op.  `rand` sampling is an oracle argument read off the
implementation's result and validated (`choice ⊆ pool ∧ |choice| = min need |pool|`).

Send queues: only the occupancy of each peer's bounded non-priority queue is modelled (`qlen`,
capacity `cfg.cap` = `connection_handler_queue_len`). The harness is the receiving side: it empties a
peer's queue after every op unless the peer is `held` (ops `hold` / `release`); gossip emission is
switched off in the harness config, so `RpcOut::Publish` is the only non-priority traffic.

`publishG true` is the code as repaired (`fanout.entry(t).or_default().extend(new_peers)`),
`publishG false` the code before (`fanout.insert(t, new_peers)`, which replaces the set).
-/
namespace C35

structure Peer where
  id : Nat
  /-- `kind.is_gossipsub()`; `false` = `PeerKind::Floodsub` -/
  gossip : Bool
  topics : List Nat
deriving Repr

structure Cfg where
  meshN : Nat
  /-- `fanout_ttl` in ns -/
  ttl : Nat
  /-- `flood_publish` -/
  flood : Bool
  /-- `connection_handler_queue_len`: capacity of a peer's non-priority send queue -/
  cap : Nat
deriving Repr

structure State where
  cfg : Cfg
  /-- `connected_peers` -/
  peers : List Peer
  /-- `explicit_peers` -/
  explicit : List Nat
  /-- keys of `mesh` -/
  subscribed : List Nat
  fanout : Nat → Option (List Nat)
  /-- `fanout_last_pub` -/
  lastPub : Nat → Option Nat
  /-- occupancy of each peer's non-priority send queue -/
  qlen : Nat → Nat
  /-- peers whose queue the harness is not emptying at the moment -/
  held : List Nat

def init (c : Cfg) : State :=
  { cfg := c, peers := [], explicit := [], subscribed := [], fanout := fun _ => none, lastPub := fun _ => none,
    qlen := fun _ => 0, held := [] }

def setF {α : Type} (f : Nat → Option α) (k : Nat) (v : Option α) : Nat → Option α :=
  fun k' => if k' = k then v else f k'

def findPeer (s : State) (p : Nat) : Option Peer := s.peers.find? (fun x => x.id == p)

def connected (s : State) (p : Nat) : Bool := (findPeer s p).isSome

/-- set insert (`BTreeSet::insert` / `extend`) -/
def ins (l : List Nat) (x : Nat) : List Nat := if l.contains x then l else l ++ [x]

def insAll (l : List Nat) (xs : List Nat) : List Nat := xs.foldl ins l

/-! ## connection / subscription bookkeeping -/

/-- `handle_established_*` + `ConnectionEstablished` + `HandlerEvent::PeerKind` for a first connection -/
def connect (s : State) (p : Nat) (gossip : Bool) : State :=
  if connected s p then s
  else { s with peers := s.peers ++ [{ id := p, gossip := gossip, topics := [] }]
                qlen := fun q => if q = p then 0 else s.qlen q }

/-- `on_connection_closed` with `remaining_established = 0`: the peer leaves the fanout of
every topic *it is subscribed to*, then `connected_peers` -/
def disconnect (s : State) (p : Nat) : State :=
  match findPeer s p with
  | none => s
  | some pd =>
    { s with
      fanout := fun t => if pd.topics.contains t then (s.fanout t).map (fun l => l.filter (· != p)) else s.fanout t
      peers := s.peers.filter (fun x => x.id != p)
      qlen := fun q => if q = p then 0 else s.qlen q }

/-- the default `filter_incoming_subscriptions`: per topic, a later entry with the other action
cancels the kept one, an equal action is dropped -/
def filterSubs : List (Bool × Nat) → List (Bool × Nat) → List (Bool × Nat)
  | acc, [] => acc
  | acc, (a, t) :: rest =>
    match acc.find? (fun e => e.2 == t) with
    | some e => if e.1 != a then filterSubs (acc.filter (fun e => e.2 != t)) rest else filterSubs acc rest
    | none => filterSubs (acc ++ [(a, t)]) rest

def setTopics (s : State) (p : Nat) (f : List Nat → List Nat) : State :=
  { s with peers := s.peers.map (fun x => if x.id == p then { x with topics := f x.topics } else x) }

/-- `handle_received_subscriptions` as far as `topics` and `fanout` go -/
def applySub (s : State) (p : Nat) (e : Bool × Nat) : State :=
  if e.1 then setTopics s p (fun ts => ins ts e.2)
  else
    let s1 := setTopics s p (fun ts => ts.filter (· != e.2))
    { s1 with fanout := setF s1.fanout e.2 ((s1.fanout e.2).map (fun l => l.filter (· != p))) }

def recvSubs (s : State) (p : Nat) (subs : List (Bool × Nat)) : State :=
  if connected s p then (filterSubs [] subs).foldl (fun s e => applySub s p e) s else s

def addExplicit (s : State) (p : Nat) : State := { s with explicit := ins s.explicit p }

/-- `subscribe` → `join`: the fanout entry (and, only then, the last-publish time) is removed -/
def subscribe (s : State) (t : Nat) : State :=
  if s.subscribed.contains t then s
  else
    let s1 := { s with subscribed := s.subscribed ++ [t] }
    match s.fanout t with
    | some _ => { s1 with fanout := setF s.fanout t none, lastPub := setF s.lastPub t none }
    | none => s1

/-- `unsubscribe` → `leave` -/
def unsubscribe (s : State) (t : Nat) : State :=
  { s with subscribed := s.subscribed.filter (· != t) }

/-! ## publish -/

/-- `publish_peers` -/
def candidates (s : State) (t : Nat) (low : List Nat) : List Nat :=
  (s.peers.filter (fun p => p.topics.contains t && (s.explicit.contains p.id || !low.contains p.id))).map (·.id)

def isFloodsub (s : State) (p : Nat) : Bool :=
  match findPeer s p with
  | some pd => !pd.gossip
  | none => false

/-- explicit and floodsub candidates: always recipients -/
def baseRecipients (s : State) (c : List Nat) : List Nat :=
  c.filter (fun p => s.explicit.contains p || isFloodsub s p)

/-- is `choice` an admissible result of `iter.sample(rng, need)` over `pool`? -/
def validChoice (choice pool : List Nat) (need : Nat) : Bool :=
  choice.all (pool.contains ·) && choice.Nodup && choice.length == min need pool.length

inductive PubOut where
  /-- `flood_publish` or subscribed topic: recipients not predicted by this model -/
  | other
  /-- fanout branch: the recipient set and the recipients whose queue accepted the message -/
  | sent (rc delivered : List Nat)
  /-- the oracle is not an admissible sample -/
  | badOracle
deriving Repr, DecidableEq

/-- the peers the fanout branch samples from -/
def pool (s : State) (t : Nat) (low : List Nat) : List Nat :=
  let c := candidates s t low
  let fp := ((s.fanout t).getD []).filter (c.contains ·)
  c.filter (fun p => !(insAll (baseRecipients s c) fp).contains p)

/-- `filter_publish_candidates` (fanout branch): the state with `fanout` / `fanout_last_pub` updated
and the recipient set; `none` = the oracle is not an admissible sample. `fixed` selects the repaired
fanout update. `fanAfter` = the topic's fanout entry the implementation ended with (oracle): the
sampled peers are the ones that were not in the entry before. -/
def pubFanout (fixed : Bool) (s : State) (t now : Nat) (low : List Nat) (fanAfter : Option (List Nat)) :
    Option (State × List Nat) :=
  let c := candidates s t low
  let fp := ((s.fanout t).getD []).filter (c.contains ·)
  let needed := s.cfg.meshN - fp.length
  let rec1 := insAll (baseRecipients s c) fp
  if needed > 0 then
    let pl := c.filter (fun p => !rec1.contains p)
    let new := (fanAfter.getD []).filter (fun p => !((s.fanout t).getD []).contains p)
    if validChoice new pl needed then
      let fan' := if fixed then insAll ((s.fanout t).getD []) new else insAll [] new
      some ({ s with fanout := setF s.fanout t (some fan'), lastPub := setF s.lastPub t (some now) }, insAll rec1 new)
    else none
  else
    some ({ s with lastPub := setF s.lastPub t (some now) }, rec1)

/-- the send loop of `publish`: `send_message` succeeds while the peer's queue has room -/
def sendLoop (cap : Nat) : List Nat → (Nat → Nat) → List Nat → (Nat → Nat) × List Nat
  | [], q, d => (q, d)
  | r :: rest, q, d =>
    if q r < cap then sendLoop cap rest (fun p => if p = r then q r + 1 else q p) (d ++ [r])
    else sendLoop cap rest q d

/-- the harness empties the queues of the peers it is not holding -/
def settle (s : State) : State := { s with qlen := fun p => if s.held.contains p then s.qlen p else 0 }

/-- the rest of `publish` after `filter_publish_candidates`: nothing is sent when there is no
recipient (`NoPeersSubscribedToTopic`); otherwise the send loop, which touches the queues only -/
def pubSend (s1 : State) (rc : List Nat) : State × PubOut :=
  if rc.isEmpty then (s1, .sent [] [])
  else
    let r := sendLoop s1.cfg.cap rc s1.qlen []
    (settle { s1 with qlen := r.1 }, .sent rc r.2)

/-- `publish` for a topic the node may or may not be subscribed to -/
def publishG (fixed : Bool) (s : State) (t now : Nat) (low : List Nat) (fanAfter : Option (List Nat)) :
    State × PubOut :=
  if s.cfg.flood then ({ s with qlen := fun _ => 0 }, .other)
  else if s.subscribed.contains t then ({ s with qlen := fun _ => 0 }, .other)
  else
    match pubFanout fixed s t now low fanAfter with
    | some (s1, rc) => pubSend s1 rc
    | none => (s, .badOracle)

def publish := publishG true
def publishBuggy := publishG false

/-- `publish`'s result: `Ok`, `NoPeersSubscribedToTopic`, `AllQueuesFull(n)` -/
def resultOf (rc delivered : List Nat) : String :=
  if rc.isEmpty then "nopeers" else if delivered.isEmpty then "full:" ++ toString rc.length else "ok"

/-! ## heartbeat (fanout part) -/

/-- "remove expired fanout topics" for one topic -/
def expired (s : State) (now t : Nat) : Bool :=
  match s.lastPub t with
  | some lp => decide (s.cfg.ttl < now - lp)
  | none => false

/-- peers of a fanout entry that stay: still connected, still subscribed, score not below the
publish threshold -/
def hbKept (s : State) (t : Nat) (low : List Nat) (l : List Nat) : List Nat :=
  l.filter (fun p => match findPeer s p with
    | some pd => pd.topics.contains t && !low.contains p
    | none => false)

/-- `get_random_peers` pool for topping the fanout up -/
def hbPool (s : State) (t : Nat) (low kept : List Nat) : List Nat :=
  (s.peers.filter (fun p => p.topics.contains t && p.gossip && !kept.contains p.id
      && !s.explicit.contains p.id && !low.contains p.id)).map (·.id)

/-- fanout maintenance of one topic; `post` = the entry the implementation ended with (oracle).
`none` = the oracle is not admissible. -/
def hbTopic (s : State) (t : Nat) (low : List Nat) (l post : List Nat) : Option (List Nat) :=
  let kept := hbKept s t low l
  if kept.length < s.cfg.meshN then
    let added := post.filter (fun p => !kept.contains p)
    if validChoice added (hbPool s t low kept) (s.cfg.meshN - kept.length) then some (insAll kept added)
    else none
  else some kept

/-- the fanout part of `heartbeat` over the topic universe `ts`; `post t` = oracle -/
def heartbeat (s : State) (now : Nat) (low : List Nat) (ts : List Nat) (post : Nat → List Nat) : Option State :=
  -- remove expired fanout topics
  let s1 : State := { s with
    fanout := fun t => if expired s now t then none else s.fanout t
    lastPub := fun t => if expired s now t then none else s.lastPub t }
  -- maintain fanout
  let step (acc : Option (Nat → Option (List Nat))) (t : Nat) : Option (Nat → Option (List Nat)) :=
    match acc with
    | none => none
    | some f =>
      match s1.fanout t with
      | none => some f
      | some l =>
        match hbTopic s1 t low l (post t) with
        | some l' => some (setF f t (some l'))
        | none => none
  match ts.foldl step (some s1.fanout) with
  | some f => some { s1 with fanout := f }
  | none => none

/-! ## op machine -/

inductive Op where
  | connect (p : Nat) (gossip : Bool)
  | disconnect (p : Nat)
  | explicit (p : Nat)
  | subs (p : Nat) (l : List (Bool × Nat))
  | subscribe (t : Nat)
  | unsubscribe (t : Nat)
  | publish (t now : Nat) (low : List Nat) (fanAfter : Option (List Nat))
  | heartbeat (now : Nat) (low : List Nat) (post : Nat → List Nat)
  /-- the harness stops emptying `p`'s queue -/
  | hold (p : Nat)
  /-- the harness empties `p`'s queue and resumes emptying it after every op -/
  | release (p : Nat)

/-- the topic universe of the driver (heartbeat iterates the fanout entries among these) -/
def topicUniverse : List Nat := [0, 1, 2, 3]

def step (s : State) : Op → State
  | .connect p g => connect s p g
  | .disconnect p => disconnect s p
  | .explicit p => addExplicit s p
  | .subs p l => recvSubs s p l
  | .subscribe t => subscribe s t
  | .unsubscribe t => unsubscribe s t
  | .publish t now low fa => (publish s t now low fa).1
  | .heartbeat now low post => (heartbeat s now low topicUniverse post).getD s
  | .hold p => { s with held := ins s.held p }
  | .release p => { s with held := s.held.filter (· != p), qlen := fun q => if q = p then 0 else s.qlen q }

/-! ## executable Spec — the property evaluated on the IMPLEMENTATION's fanout and recipients -/

def subset (a b : List Nat) : Bool := a.all (b.contains ·)

/-- Publish to a topic the node is not subscribed to (no `flood_publish`), candidate set `c`:
`pre`/`post` = the topic's fanout set before/after as reported by the implementation — whatever the
send queues looked like and whatever `publish` returned (`Ok`, `AllQueuesFull`, `NoPeersSubscribedToTopic`);
`rcpt` = the peers the harness is emptying that received the message, `held` = the peers whose queue
the harness is not emptying (their queue may be full), `cap` = the queue capacity. -/
def specPublish (meshN cap : Nat) (c pre post rcpt held : List Nat) : Option String :=
  let keep := pre.filter (c.contains ·)
  if !subset pre post then some "fanout_dropped"
  else if !subset post (pre ++ c) then some "fanout_foreign"
  else if decide (cap > 0) && !subset (keep.filter (fun p => !held.contains p)) rcpt then some "rcpt_missing"
  else if decide (meshN ≤ keep.length) && !subset post pre then some "fanout_grew"
  else none

/-- Any op other than a heartbeat: a fanout peer may leave the set only by its own disconnect /
unsubscribe, or because the node subscribed to the topic (the entry is promoted to the mesh). -/
def allowedLoss (o : Op) (t p : Nat) : Bool :=
  match o with
  | .disconnect q => q == p
  | .subs q l => q == p && l.any (fun e => !e.1 && e.2 == t)
  | .subscribe t' => t' == t
  | .heartbeat .. => true
  | _ => false

def specKeep (o : Op) (t : Nat) (pre post : List Nat) : Option String :=
  if pre.all (fun p => post.contains p || allowedLoss o t p) then none else some "fanout_lost"

end C35
