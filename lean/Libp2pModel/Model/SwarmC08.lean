import Libp2pModel.Model.SwarmDrv
/-!
# C08 at the `Swarm` level

Property C08 speaks about "a dial over N addresses": every address is attempted at most once, and on
failure every attempted address appears exactly once in the reported errors.  The component-level part
of the check drives `ConcurrentDial`/`SmartDial` directly; this file is the Swarm-level part: the
addresses `Swarm::dial` hands to the transport for ONE dial (after its own selection and
de-duplication, including the addresses contributed by behaviours) and the `DialError::Transport` list
reported when that dial fails, observed on the real `Swarm` through the shared swarm harness.

`Mon8` is a trace monitor over the implementation's lines only (it never looks at the model):
* `C08:address_attempted_twice` — the `Transport::dial` calls of one dial are not pairwise distinct;
* `C08:errors_not_attempted_exactly_once` — some attempted address does not appear exactly once in the
  reported `DialError::Transport` list of that connection;
* `C08:failed_before_success_not_attempted_once` — the `concurrent_dial_errors` of an established
  connection contain an address twice, or all attempted addresses (although one of them succeeded).
-/
namespace Swarm.C08
open Swarm

structure Mon8 where
  /-- connection id ↦ addresses handed to `Transport::dial` for it -/
  att : List (Nat × List Maddr) := []
  /-- connection id of the dial executed by the current move -/
  cur : Option Nat := none
  deriving Repr, Inhabited

def removeFirst (a : Maddr) : List Maddr → Option (List Maddr)
  | [] => none
  | x :: xs => if x = a then some xs else (removeFirst a xs).map (x :: ·)

/-- `l` is a permutation of `r` (executable) -/
def isPerm : List Maddr → List Maddr → Bool
  | [], r => r.isEmpty
  | a :: l, r => match removeFirst a r with
    | some r' => isPerm l r'
    | none => false

def nodup : List Maddr → Bool
  | [] => true
  | a :: l => !l.contains a && nodup l

def tdialsOf (evs : List Ev) : List Maddr :=
  evs.filterMap fun e => match e with | .tdial a => some a | _ => none

def Mon8.attOf (m : Mon8) (c : Nat) : List Maddr := ((m.att.find? (·.1 == c)).map (·.2)).getD []

def count (a : Maddr) (l : List Maddr) : Nat := (l.filter (· == a)).length

/-- every attempted address appears exactly once in the reported list.  (The list may hold further entries:
addresses that `Swarm::dial` rejected BEFORE any attempt — `with_p2p` on an address ending in another peer's
`/p2p` — are reported as `MultiaddrNotSupported` without a transport dial.) -/
def coversOnce (att reported : List Maddr) : Bool := att.all fun a => count a reported == 1

def checkEv (m : Mon8) : Ev → List String
  | .sOutgoingError c _ (.transport errs) =>
    if coversOnce (m.attOf c) (errs.map (·.1)) then [] else ["C08:errors_not_attempted_exactly_once"]
  | .bDialFailure c _ (.transport errs) =>
    if coversOnce (m.attOf c) (errs.map (·.1)) then [] else ["C08:errors_not_attempted_exactly_once"]
  | .sEstablished c _ true _ failed =>
    -- concurrent_dial_errors: the addresses that failed before the successful one — no address twice, and
    -- not every attempted address can be in it (one succeeded)
    if nodup failed && ((m.attOf c).isEmpty || !(m.attOf c).all (fun a => failed.contains a)) then []
    else ["C08:failed_before_success_not_attempted_once"]
  | _ => []

/-- the monitor step: `args` = the op tokens, `outs` = the implementation's tokens -/
def mon (m : Mon8) (args outs : List String) : Mon8 × String :=
  match args with
  | ["order"] =>
    let raw := match outs with | [t] => IO.parseLog t | _ => []
    let td := tdialsOf raw
    let (m, v1) : Mon8 × List String :=
      match m.cur with
      | some c =>
        if td.isEmpty then (m, [])
        else ({ m with att := (c, td) :: m.att.filter (·.1 != c) },
              if nodup td then [] else ["C08:address_attempted_twice"])
      | none => (m, [])
    let v2 := raw.flatMap (checkEv m)
    ({ m with cur := none }, match v1 ++ v2 with | [] => "ok" | v :: _ => "FAIL:" ++ v)
  | "dial" :: _ =>
    match IO.parseImpl outs with
    | some l => ({ m with cur := l.id }, "ok")
    | none => ({ m with cur := none }, "ok")
  | _ => ({ m with cur := none }, "ok")

/-- the Swarm-level machine of C08: the shared Swarm model (exact ordered-log correspondence; clauses with
prefix `C08:` of the shared monitors, i.e. none) plus `Mon8` -/
def machine := (Swarm.Drv.machine "C08:").withMonitor (fun _ => ({} : Mon8)) mon

end Swarm.C08
