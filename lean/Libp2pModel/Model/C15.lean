import Libp2pModel.Common.Mss
import Libp2pModel.Common.Drv
/-!
# C15 — negotiation messages round-trip; malformed input is rejected safely

The model of the anchored code (`Message::{encode,decode}`, `LengthDelimited`, the
listener/dialer automata) lives in `Common/Mss.lean` (shared with C14).  This file holds the
byte-level runner used for the "hostile input" operations and the executable Spec.
-/
namespace C15
open Mss

def lDone : LSt → Bool
  | .done _ => true
  | _ => false

def dDone : DSt → Bool
  | .done _ => true
  | _ => false

def lResult : LSt → NRes
  | .done r => r
  | _ => .panic "not-done"

/-- `listener_select_proto(io, names)` driven to completion on `input` followed by EOF (writes
always succeed): result, bytes written, number of input bytes consumed. -/
def listenRun (names : List Bytes) (input : Bytes) : NRes × Bytes × Nat :=
  let (s, sent, rest) := runToEof (lStep (listenerProtocols names)) lDone .recvHeader input
  (lResult s, wireOfAll sent, input.length - rest.length)

/-- outcome of the dialer side as the harness observes it -/
inductive DObs where
  /-- `dialer_select_proto` returned this (V1, or an error before the lazy exit) -/
  | res (r : NRes)
  /-- the future returned `Ok(cur)` (V1: after the confirmation; V1Lazy with its last protocol:
  at once); then the `Negotiated` stream was read to its end:
  `data` = application bytes obtained, `fin` = `none` for a clean EOF or the read error. -/
  | lazy (cur : Bytes) (data : Bytes) (fin : Option NRes)
  deriving DecidableEq, Repr

/-- the `DialerSelectFuture` has returned: `Done`, or the lazy exit to `Negotiated::expecting` -/
def dFutureDone : DSt → Bool
  | .await _ _ => false
  | _ => true

/-- `dialer_select_proto(io, names, version)` on `input` + EOF; for `V1Lazy` the returned
`Negotiated` is then read until EOF or error. -/
def dialRun (lazy : Bool) (names : List Bytes) (input : Bytes) : DObs × Bytes × Nat :=
  let (s0, sent0) := dStart lazy names
  let (s1, sent1, rest1) := runToEof (dStep lazy) dFutureDone s0 input
  match s1 with
  | .expecting c _ =>
    let (s2, sent2, rest2) := runToEof (dStep lazy) dDone s1 rest1
    let out := wireOfAll (sent0 ++ sent1 ++ sent2)
    match s2 with
    | .done (.ok _) => (.lazy c rest2 none, out, input.length)
    | .done r => (.lazy c [] (some r), out, input.length - rest2.length)
    | _ => (.lazy c [] (some (.panic "not-done")), out, input.length - rest2.length)
  | .done (.ok c) => (.lazy c rest1 none, wireOfAll (sent0 ++ sent1), input.length)
  | .done r => (.res r, wireOfAll (sent0 ++ sent1), input.length - rest1.length)
  | .await _ _ => (.res (.panic "not-done"), wireOfAll (sent0 ++ sent1), input.length - rest1.length)

/-! ## the executable Spec -/

/-- a protocol name as the property means it: starts with `/`, UTF-8, no line feed -/
def validName (p : Bytes) : Bool := nameOk p && utf8Valid p && !p.contains 10 && decide (p.length + 1 < 2 ^ 64)

/-- names inside an `ls` response are length-prefixed, so a line feed inside is harmless -/
def validListName (p : Bytes) : Bool := nameOk p && utf8Valid p && decide (p.length + 1 < 2 ^ 64)

/-- *valid negotiation message*: names are valid; a single proposed protocol is not literally the
header line (its encoding IS the header — wire ambiguity of multistream-select itself); at most
`MAX_PROTOCOLS` listed names. -/
def valid : Msg → Bool
  | .header => true
  | .na => true
  | .ls => true
  | .proto p => validName p && p ≠ headerName
  | .protos ps => ps.all validListName && decide (ps.length ≤ MAX_PROTOCOLS)

/-- what an accepted message looks like -/
def wf : Msg → Bool
  | .proto p => nameOk p && utf8Valid p && !p.contains 10
  | .protos ps => ps.all (fun p => nameOk p && utf8Valid p) && decide (ps.length ≤ MAX_PROTOCOLS)
  | _ => true

def isErr : DecRes → Bool
  | .err _ => true
  | _ => false

def isPanic : DecRes → Bool
  | .panic _ => true
  | _ => false

/-- clause *round trip*: a valid message must decode back to itself -/
def rtFail (m : Msg) (res : DecRes) : Bool := valid m && decide (res ≠ .ok m)

/-- clause *length prefix of at most two bytes* for every valid message that fits a frame -/
def prefixFail (m : Msg) (enc : Bytes) : Bool :=
  valid m && decide (enc.length ≤ MAX_FRAME_SIZE) && decide ((Varint.encode enc.length).length > 2)

/-- clause *more than 1000 listed protocols are rejected* -/
def tooManyFail (m : Msg) (res : DecRes) : Bool :=
  (match m with
    | .protos ps => decide (ps.length > MAX_PROTOCOLS) && ps.all validListName
    | _ => false) && !isErr res

/-- clause *a listed name not starting with `/` is rejected* -/
def badNameFail (m : Msg) (res : DecRes) : Bool :=
  (match m with
    | .protos ps => ps.any (fun p => !nameOk p) && ps.all (fun p => decide (p.length + 1 < 2 ^ 64))
    | _ => false) && !isErr res

/-- clause *nothing malformed is accepted* -/
def malformedFail (res : DecRes) : Bool :=
  match res with
  | .ok m' => !wf m'
  | _ => false

/-- Spec of `rt m`: given the implementation's `encode(m)` bytes and `decode(encode(m))` result. -/
def specRt (m : Msg) (enc : Bytes) (res : DecRes) : String :=
  if isPanic res then "FAIL:panic"
  else if rtFail m res then "FAIL:roundtrip"
  else if prefixFail m enc then "FAIL:prefix_len"
  else if tooManyFail m res then "FAIL:too_many_accepted"
  else if badNameFail m res then "FAIL:bad_name_accepted"
  else if malformedFail res then "FAIL:accepted_malformed"
  else "ok"

/-- Spec of `dec bytes`. -/
def specDec (res : DecRes) : String :=
  if isPanic res then "FAIL:panic"
  else if malformedFail res then "FAIL:accepted_malformed"
  else "ok"

/-- the input starts with a length prefix announcing more than `MAX_FRAME_SIZE` bytes -/
def oversizeFirst : Bytes → Bool
  | b0 :: b1 :: _ => decide (b0 ≥ 128) && decide (b1 ≥ 128)
  | _ => false

/-- every byte written is part of a well-formed frame (≤ 2 length bytes) -/
def wireWellFormed (out : Bytes) : Bool :=
  let (fs, residual) := Framed.drainAll frameDec out
  residual.isEmpty && fs.all fun f =>
    match f with
    | .data bs => !isPanic (decodeMsg bs)
    | .err _ => false

def nresPanic : NRes → Bool
  | .panic _ => true
  | _ => false

def nresErr : NRes → Bool
  | .perr _ => true
  | _ => false

/-- Spec of `listen names input`. -/
def specListenRes (names : List Bytes) (input : Bytes) (r : NRes) (out : Bytes) : String :=
  if nresPanic r then "FAIL:panic"
  else if (match r with | .ok p => !(names.contains p && nameOk p) | _ => false) then "FAIL:selected_unknown"
  else if oversizeFirst input && !nresErr r then "FAIL:oversize_accepted"
  else if !wireWellFormed out then "FAIL:wire_malformed"
  else "ok"

/-- Spec of `dial version names input`; `consumed` = number of input bytes the dialer pulled
(a dialer that fails before reading anything has not seen the oversized prefix). -/
def specDialRes (names : List Bytes) (input : Bytes) (o : DObs) (out : Bytes) (consumed : Nat) : String :=
  let r : NRes := match o with
    | .res r => r
    | .lazy _ _ (some r) => r
    | .lazy c _ none => .ok c
  if nresPanic r then "FAIL:panic"
  else if (match o with
      | .res (.ok p) => !(names.contains p && nameOk p)
      | .lazy c _ _ => !(names.contains c && nameOk c)
      | _ => false) then "FAIL:selected_unknown"
  else if oversizeFirst input && decide (consumed ≥ 2) && (match o with | .res r => !nresErr r | .lazy _ _ fin => !(match fin with | some r => nresErr r | none => false)) then
    "FAIL:oversize_accepted"
  else if !wireWellFormed out then "FAIL:wire_malformed"
  else "ok"

end C15
