import Libp2pModel.Model.C26Spec
/-!
# C24 — Multiplexed substreams deliver exactly their own bytes: the end-to-end Spec

The one-endpoint model of mplex is `Model/C26.lean` (shared with C26).  This file holds the
muxer-independent, executable statement of the property for a *pair* of endpoints joined by a
lossless FIFO connection — a trace monitor over what the two applications observe:

* `foreign_or_reordered_bytes` — what a side has read from a substream is a prefix of what the
  other side's writes on that substream were reported to accept (`poll_write → Ok(n)`), so never
  another substream's bytes, never reordered, duplicated or with a hole;
* `early_eof` — end-of-stream is reported only after the writer half-closed, and only once every
  accepted byte has been delivered;
* `data_after_eof` — nothing follows end-of-stream;
* `phantom_stream` — an accepted inbound substream is one the other side opened, handed out once;
* `unannounced_empty_stream` / `incomplete_delivery` — at the end of a session in which every writer flushed and half-closed
  and every reader read until nothing more came, every substream direction has delivered
  everything followed by end-of-stream.
-/
namespace C24

inductive Side | A | B
  deriving DecidableEq, Repr, Inhabited

def Side.other : Side → Side
  | .A => .B
  | .B => .A

/-- a substream, named by the side that opened it and its index there -/
structure Name where
  opener : Side
  idx : Nat
  deriving DecidableEq, Repr, Inhabited

/-- one direction of one substream: `from` writes, the other side reads -/
structure Dir where
  name : Name
  writer : Side
  sent : List Nat := []
  closed : Bool := false
  got : List Nat := []
  eof : Bool := false
  deriving Repr, Inhabited

structure SpecSt where
  opened : List Name := []
  accepted : List Name := []
  dirs : List Dir := []
  deriving Repr, Inhabited

inductive Ev
  | opened (n : Name)
  | accepted (side : Side) (n : Option Name)
  | wrote (n : Name) (side : Side) (bytes : List Nat)      -- the accepted prefix
  | closed (n : Name) (side : Side)                        -- half-close issued (Ok or Pending)
  | data (n : Name) (side : Side) (bytes : List Nat)       -- read returned these bytes
  | eof (n : Name) (side : Side)
  | finish
  | other
  deriving Repr, Inhabited

def getDir (l : List Dir) (n : Name) (w : Side) : Dir :=
  (l.find? (fun d => d.name == n && d.writer == w)).getD { name := n, writer := w }

def putDir (l : List Dir) (d : Dir) : List Dir :=
  d :: l.filter (fun x => !(x.name == d.name && x.writer == d.writer))

def isPrefix : List Nat → List Nat → Bool
  | [], _ => true
  | _ :: _, [] => false
  | a :: as, b :: bs => a == b && isPrefix as bs

def specStep (t : SpecSt) (ev : Ev) : SpecSt × String :=
  match ev with
  | .other => (t, "ok")
  | .opened n => ({ t with opened := n :: t.opened }, "ok")
  | .accepted side none => (t, if side = .A then "phantom_stream" else "phantom_stream")
  | .accepted side (some n) =>
    if n.opener = side.other && t.opened.contains n && !t.accepted.contains n then
      ({ t with accepted := n :: t.accepted }, "ok")
    else (t, "phantom_stream")
  | .wrote n side bytes =>
    let d := getDir t.dirs n side
    ({ t with dirs := putDir t.dirs { d with sent := d.sent ++ bytes } }, "ok")
  | .closed n side =>
    let d := getDir t.dirs n side
    ({ t with dirs := putDir t.dirs { d with closed := true } }, "ok")
  | .data n side bytes =>
    let d := getDir t.dirs n side.other
    let got := d.got ++ bytes
    let t' := { t with dirs := putDir t.dirs { d with got := got } }
    if d.eof then (t', "data_after_eof")
    else if isPrefix got d.sent then (t', "ok") else (t', "foreign_or_reordered_bytes")
  | .eof n side =>
    let d := getDir t.dirs n side.other
    let t' := { t with dirs := putDir t.dirs { d with eof := true } }
    if d.closed && d.got == d.sent then (t', "ok") else (t', "early_eof")
  | .finish =>
    let bad := t.dirs.filter (fun d => d.closed && !(d.eof && d.got == d.sent))
    if bad.isEmpty then (t, "ok")
    -- stable key for one known input class (external yamux crate): a substream half-closed before a
    -- single byte was written on it, which the other side was never told about
    else if bad.all (fun d => d.sent.isEmpty && d.writer == d.name.opener && !t.accepted.contains d.name) then
      (t, "unannounced_empty_stream")
    else (t, "incomplete_delivery")

/-- the monitor's safety invariant: everything read so far is a prefix of what was accepted -/
def Good (t : SpecSt) : Prop := ∀ d ∈ t.dirs, isPrefix d.got d.sent = true

end C24
