import Libp2pModel.Common.Varint
import Libp2pModel.Common.Machine
/-!
# C56 — WebRTC stream half-close state machine
(`misc/webrtc-utils/src/stream/state.rs`, `misc/webrtc-utils/src/stream.rs`)

`State` and every method of `state.rs` are transcribed branch for branch; `unreachable!`,
`debug_assert!` (debug assertions are on in the harness profile, as under `cargo test`) and
`expect` are explicit `panic` results.  `Stream::{poll_read, poll_write, poll_flush, poll_close,
poll_close_read}` are transcribed over a deterministic model of the data channel: an inbound queue
of protobuf messages (+ EOF), and the `asynchronous_codec::Framed` sink (byte-counted buffer with
high-water mark `MAX_DATA_LEN`, an underlying writer that is ready / pending / failing as the
environment says).  Environment moves (`inject`, `eof`, `block`, `werr`) are ops like any other,
so theorems over "all op sequences" quantify over all environment behaviours of this class.
-/
namespace C56

inductive Closing where
  | requested | messageSent
deriving Repr, DecidableEq

inductive State where
  | open
  | readClosed
  | writeClosed
  | closingRead (writeClosed : Bool) (inner : Closing)
  | closingWrite (readClosed : Bool) (inner : Closing)
  | bothClosed (reset : Bool)
deriving Repr, DecidableEq

inductive Flag where
  | fin | stopSending | reset
deriving Repr, DecidableEq

/-- `io::ErrorKind`s that can surface -/
inductive Kind where
  | brokenPipe | connectionReset | other | invalidData | timedOut
deriving Repr, DecidableEq

inductive PanicWhy where
  | unreachableState      -- `unreachable!("bad state machine impl")`
  | debugAssertInner      -- `debug_assert!(matches!(inner, …))`
  | debugAssertBuffer     -- `debug_assert!(read_buffer.is_empty())`
  | closeTwice            -- `.expect("to not close twice")`
  | fuel                  -- a model loop ran out of fuel (shown unreachable)
deriving Repr, DecidableEq

/-! ## state.rs -/

/-- `State::handle_inbound_flag(flag, buffer)` -/
def handleInboundFlag (s : State) (f : Flag) (buf : List Nat) : State × List Nat :=
  match s, f with
  | .open, .fin => (.readClosed, buf)
  | .writeClosed, .fin => (.bothClosed false, buf)
  | .open, .stopSending => (.writeClosed, buf)
  | .readClosed, .stopSending => (.bothClosed false, buf)
  | _, .reset => (.bothClosed true, [])
  | s, _ => (s, buf)

/-- `State::write_closed`; `Except.error` = panic -/
def writeClosed : State → Except PanicWhy State
  | .closingWrite true inner => if inner = .messageSent then .ok (.bothClosed false) else .error .debugAssertInner
  | .closingWrite false inner => if inner = .messageSent then .ok .writeClosed else .error .debugAssertInner
  | _ => .error .unreachableState

def closeWriteMessageSent : State → Except PanicWhy State
  | .closingWrite rc inner => if inner = .requested then .ok (.closingWrite rc .messageSent) else .error .debugAssertInner
  | _ => .error .unreachableState

def readClosed : State → Except PanicWhy State
  | .closingRead true inner => if inner = .messageSent then .ok (.bothClosed false) else .error .debugAssertInner
  | .closingRead false inner => if inner = .messageSent then .ok .readClosed else .error .debugAssertInner
  | _ => .error .unreachableState

def closeReadMessageSent : State → Except PanicWhy State
  | .closingRead wc inner => if inner = .requested then .ok (.closingRead wc .messageSent) else .error .debugAssertInner
  | _ => .error .unreachableState

def readFlagsInAsyncWrite : State → Bool
  | .readClosed => true
  | _ => false

/-- `read_barrier`: `none` = `Ok(())` -/
def readBarrier : State → Option Kind
  | .open | .writeClosed | .closingWrite false _ => none
  | .closingWrite true _ | .readClosed | .closingRead _ _ | .bothClosed false => some .brokenPipe
  | .bothClosed true => some .connectionReset

def writeBarrier : State → Option Kind
  | .open | .readClosed | .closingRead false _ => none
  | .closingRead true _ | .writeClosed | .closingWrite _ _ | .bothClosed false => some .brokenPipe
  | .bothClosed true => some .connectionReset

/-- `close_write_barrier` (its `loop` runs at most twice: the `Open`/`ReadClosed` arms assign a
`ClosingWrite` state and the next round returns its `inner`) -/
def closeWriteBarrier : State → State × Except Kind (Option Closing)
  | .writeClosed => (.writeClosed, .ok none)
  | .closingWrite rc inner => (.closingWrite rc inner, .ok (some inner))
  | .open => (.closingWrite false .requested, .ok (some .requested))
  | .readClosed => (.closingWrite true .requested, .ok (some .requested))
  | .closingRead true i => (.closingRead true i, .error .brokenPipe)
  | .bothClosed false => (.bothClosed false, .error .brokenPipe)
  | .closingRead false i => (.closingRead false i, .error .other)
  | .bothClosed true => (.bothClosed true, .error .connectionReset)

def closeReadBarrier : State → State × Except Kind (Option Closing)
  | .readClosed => (.readClosed, .ok none)
  | .closingRead wc inner => (.closingRead wc inner, .ok (some inner))
  | .open => (.closingRead false .requested, .ok (some .requested))
  | .writeClosed => (.closingRead true .requested, .ok (some .requested))
  | .closingWrite true i => (.closingWrite true i, .error .brokenPipe)
  | .bothClosed false => (.bothClosed false, .error .brokenPipe)
  | .closingWrite false i => (.closingWrite false i, .error .other)
  | .bothClosed true => (.bothClosed true, .error .connectionReset)

/-- the read half is open (states in which `read_barrier` lets a read through) -/
def readOpen (s : State) : Bool := (readBarrier s).isNone
/-- the write half is open -/
def writeOpen (s : State) : Bool := (writeBarrier s).isNone

/-! ## the data channel -/

/-- an inbound protobuf `Message { flag, message }`; `flag` is the raw enum value -/
structure InMsg where
  flag : Option Nat
  data : Option (List Nat)
deriving Repr, DecidableEq

inductive OutFrame where
  | fin | stopSending | data (d : List Nat)
deriving Repr, DecidableEq

/-- `MAX_MSG_LEN - VARINT_LEN - PROTO_OVERHEAD` = 16384 - 2 - 5 -/
def maxDataLen : Nat := 16377
/-- `framed.set_send_high_water_mark(MAX_DATA_LEN)` -/
def hwm : Nat := maxDataLen

/-- encoded size of a frame in the sink's buffer: uvi length prefix + protobuf body -/
def frameBytes : OutFrame → Nat
  | .fin => 3
  | .stopSending => 3
  | .data d => let body := 1 + Varint.len d.length + d.length; Varint.len body + body

def bufBytes (l : List OutFrame) : Nat := (l.map frameBytes).sum

structure St where
  st : State
  rbuf : List Nat          -- `read_buffer`
  notifier : Bool          -- `drop_notifier.is_some()`
  inq : List InMsg         -- frames the remote has sent and the stream has not yet read
  eof : Bool               -- remote closed the channel
  blocked : Bool           -- underlying writer returns `Pending`
  werr : Bool              -- underlying writer returns `Err`
  obuf : List OutFrame     -- the `Framed` sink's write buffer
  finSent : Nat            -- ghost: FIN frames handed to the sink so far
  stopSent : Nat           -- ghost: STOP_SENDING frames handed to the sink so far
deriving Repr, DecidableEq

def init : St :=
  { st := .open, rbuf := [], notifier := true, inq := [], eof := false, blocked := false,
    werr := false, obuf := [], finSent := 0, stopSent := 0 }

inductive Res where
  | pending
  | okData (d : List Nat)   -- `poll_read` → `Ok(n)`, the `n` bytes
  | okN (n : Nat)           -- `poll_write` → `Ok(n)`
  | okUnit
  | err (k : Kind)
  | panic (w : PanicWhy)
  | env                     -- an environment move
deriving Repr, DecidableEq

def Res.isPanic : Res → Bool
  | .panic _ => true
  | _ => false

def Flag.ofWire : Nat → Option Flag
  | 0 => some .fin
  | 1 => some .stopSending
  | 2 => some .reset
  | _ => none

inductive Next where
  | pending | err | eof
  | msg (flag : Option Flag) (data : Option (List Nat))
deriving Repr, DecidableEq

/-- `io_poll_next` -/
def ioPollNext (σ : St) : St × Next :=
  match σ.inq with
  | m :: rest =>
    let σ' := { σ with inq := rest }
    match m.flag with
    | none => (σ', .msg none m.data)
    | some v =>
      match Flag.ofWire v with
      | some f => (σ', .msg (some f) m.data)
      | none => (σ', .err)                -- `Flag::try_from` fails → InvalidData
  | [] => if σ.eof then (σ, .eof) else (σ, .pending)

inductive Sink where
  | pending | err | ready
deriving Repr, DecidableEq

/-- the underlying writer is offered the (non-empty) buffer -/
def tWrite (σ : St) : St × Sink × List OutFrame :=
  if σ.werr then (σ, .err, [])
  else if σ.blocked then (σ, .pending, [])
  else ({ σ with obuf := [] }, .ready, σ.obuf)

/-- `FramedWrite2::poll_ready` -/
def pollReady (σ : St) : St × Sink × List OutFrame :=
  if hwm ≤ bufBytes σ.obuf then tWrite σ else (σ, .ready, [])

/-- `FramedWrite2::poll_flush` (the channel's own `poll_flush` is always ready) -/
def sinkFlush (σ : St) : St × Sink × List OutFrame :=
  if σ.obuf ≠ [] then tWrite σ else (σ, .ready, [])

def applyFlag (σ : St) (f : Flag) : St :=
  let (s, b) := handleInboundFlag σ.st f σ.rbuf
  { σ with st := s, rbuf := b }

/-! ## stream.rs -/

/-- `poll_read` with a destination of `n` bytes -/
def pollReadLoop : Nat → St → Nat → St × Res
  | 0, σ, _ => (σ, .panic .fuel)
  | fuel + 1, σ, n =>
    match readBarrier σ.st with
    | some k => (σ, .err k)
    | none =>
      if σ.rbuf ≠ [] then
        let k := min σ.rbuf.length n
        ({ σ with rbuf := σ.rbuf.drop k }, .okData (σ.rbuf.take k))
      else
        match ioPollNext σ with
        | (σ1, .pending) => (σ1, .pending)
        | (σ1, .err) => (σ1, .err .invalidData)
        | (σ1, .msg flag data) =>
          let σ2 := match flag with
            | some f => applyFlag σ1 f
            | none => σ1
          if σ2.rbuf ≠ [] then (σ2, .panic .debugAssertBuffer)
          else
            match data with
            | some (b :: bs) => pollReadLoop fuel { σ2 with rbuf := b :: bs } n
            | _ => (σ2, .okData [])
        | (σ1, .eof) => (applyFlag σ1 .fin, .okData [])

def pollRead (σ : St) (n : Nat) : St × Res := pollReadLoop 3 σ n

/-- the `while self.state.read_flags_in_async_write()` loop of `poll_write`;
`some r` = early return through `?` -/
def drainFlags : Nat → St → St × Option Res
  | 0, σ => (σ, some (.panic .fuel))
  | fuel + 1, σ =>
    if readFlagsInAsyncWrite σ.st then
      match ioPollNext σ with
      | (σ1, .err) => (σ1, some (.err .invalidData))
      | (σ1, .msg (some f) _) => drainFlags fuel (applyFlag σ1 f)
      | (σ1, .msg none _) => drainFlags fuel σ1
      | (σ1, .eof) => (σ1, none)
      | (σ1, .pending) => (σ1, none)
    else (σ, none)

def pollWrite (σ : St) (data : List Nat) : St × Res × List OutFrame :=
  match drainFlags (σ.inq.length + 1) σ with
  | (σ1, some r) => (σ1, r, [])
  | (σ1, none) =>
    match writeBarrier σ1.st with
    | some k => (σ1, .err k, [])
    | none =>
      match pollReady σ1 with
      | (σ2, .pending, w) => (σ2, .pending, w)
      | (σ2, .err, w) => (σ2, .err .timedOut, w)
      | (σ2, .ready, w) =>
        let n := min data.length maxDataLen
        ({ σ2 with obuf := σ2.obuf ++ [.data (data.take n)] }, .okN n, w)

def pollFlush (σ : St) : St × Res × List OutFrame :=
  match sinkFlush σ with
  | (σ1, .pending, w) => (σ1, .pending, w)
  | (σ1, .err, w) => (σ1, .err .timedOut, w)
  | (σ1, .ready, w) => (σ1, .okUnit, w)

def pollCloseLoop : Nat → St → St × Res × List OutFrame
  | 0, σ => (σ, .panic .fuel, [])
  | fuel + 1, σ =>
    let (s, r) := closeWriteBarrier σ.st
    let σ := { σ with st := s }
    match r with
    | .error k => (σ, .err k, [])
    | .ok none => (σ, .okUnit, [])
    | .ok (some .requested) =>
      match pollReady σ with
      | (σ1, .pending, w) => (σ1, .pending, w)
      | (σ1, .err, w) => (σ1, .err .timedOut, w)
      | (σ1, .ready, w) =>
        let σ2 := { σ1 with obuf := σ1.obuf ++ [.fin], finSent := σ1.finSent + 1 }
        match closeWriteMessageSent σ2.st with
        | .error p => (σ2, .panic p, w)
        | .ok s' =>
          let (σ3, r3, w3) := pollCloseLoop fuel { σ2 with st := s' }
          (σ3, r3, w ++ w3)
    | .ok (some .messageSent) =>
      match sinkFlush σ with
      | (σ1, .pending, w) => (σ1, .pending, w)
      | (σ1, .err, w) => (σ1, .err .timedOut, w)
      | (σ1, .ready, w) =>
        match writeClosed σ1.st with
        | .error p => (σ1, .panic p, w)
        | .ok s' =>
          if σ1.notifier then ({ σ1 with st := s', notifier := false }, .okUnit, w)
          else ({ σ1 with st := s' }, .panic .closeTwice, w)

def pollClose (σ : St) : St × Res × List OutFrame := pollCloseLoop 3 σ

def pollCloseReadLoop : Nat → St → St × Res × List OutFrame
  | 0, σ => (σ, .panic .fuel, [])
  | fuel + 1, σ =>
    let (s, r) := closeReadBarrier σ.st
    let σ := { σ with st := s }
    match r with
    | .error k => (σ, .err k, [])
    | .ok none => (σ, .okUnit, [])
    | .ok (some .requested) =>
      match pollReady σ with
      | (σ1, .pending, w) => (σ1, .pending, w)
      | (σ1, .err, w) => (σ1, .err .timedOut, w)
      | (σ1, .ready, w) =>
        let σ2 := { σ1 with obuf := σ1.obuf ++ [.stopSending], stopSent := σ1.stopSent + 1 }
        match closeReadMessageSent σ2.st with
        | .error p => (σ2, .panic p, w)
        | .ok s' =>
          let (σ3, r3, w3) := pollCloseReadLoop fuel { σ2 with st := s' }
          (σ3, r3, w ++ w3)
    | .ok (some .messageSent) =>
      match sinkFlush σ with
      | (σ1, .pending, w) => (σ1, .pending, w)
      | (σ1, .err, w) => (σ1, .err .timedOut, w)
      | (σ1, .ready, w) =>
        match readClosed σ1.st with
        | .error p => (σ1, .panic p, w)
        | .ok s' => ({ σ1 with st := s' }, .okUnit, w)

def pollCloseRead (σ : St) : St × Res × List OutFrame := pollCloseReadLoop 3 σ

/-! ## the machine -/

inductive Op where
  | read (n : Nat)
  | write (data : List Nat)
  | flush
  | close
  | closeRead
  | inject (m : InMsg)
  | eof
  | block (b : Bool)
  | werr (b : Bool)
deriving Repr, DecidableEq

structure Out where
  res : Res
  wire : List OutFrame      -- frames that reached the underlying writer during this op
deriving Repr, DecidableEq

def step (σ : St) : Op → St × Out
  | .read n => let (σ', r) := pollRead σ n; (σ', ⟨r, []⟩)
  | .write d => let (σ', r, w) := pollWrite σ d; (σ', ⟨r, w⟩)
  | .flush => let (σ', r, w) := pollFlush σ; (σ', ⟨r, w⟩)
  | .close => let (σ', r, w) := pollClose σ; (σ', ⟨r, w⟩)
  | .closeRead => let (σ', r, w) := pollCloseRead σ; (σ', ⟨r, w⟩)
  | .inject m => ({ σ with inq := σ.inq ++ [m] }, ⟨.env, []⟩)
  | .eof => ({ σ with eof := true }, ⟨.env, []⟩)
  | .block b => ({ σ with blocked := b }, ⟨.env, []⟩)
  | .werr b => ({ σ with werr := b }, ⟨.env, []⟩)

/-- the state in which `poll_write` meets its barrier (after it has drained inbound flags) -/
def writeBarrierState (σ : St) : State := (drainFlags (σ.inq.length + 1) σ).1.st

/-- has the stream processed an inbound RESET -/
def isReset (σ : St) : Bool := σ.st = .bothClosed true

/-- the operations the reset clause speaks about -/
def Op.isLocalIo : Op → Bool
  | .read _ | .write _ | .close | .closeRead => true
  | _ => false

/-! ## executable Spec: the property's clauses, judged on an output for op `o` from state `σ` -/

def specStep (σ : St) (o : Op) (r : Res) : String :=
  if r.isPanic then "FAIL:panic"
  else if isReset σ && o.isLocalIo && r != .err .connectionReset then "FAIL:reset_not_absorbing"
  else
    match o, r with
    | .read _, .okData _ => if readOpen σ.st then "ok" else "FAIL:read_while_read_half_closed"
    | .write _, .okN _ => if writeOpen (writeBarrierState σ) then "ok" else "FAIL:write_while_write_half_closed"
    | _, _ => "ok"

end C56
