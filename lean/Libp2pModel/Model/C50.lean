import Libp2pModel.Common.Multiaddr
import Libp2pModel.Common.Machine
/-!
# C50 — AutoNAT v1 server (`protocols/autonat/src/v1/behaviour/as_server.rs`)

* `filterValidAddrs`      ↔ `AsServer::filter_valid_addrs` (after the two C50 fixes)
* `filterValidAddrsBuggy` ↔ the same function before the fixes (kept for the counterexample theorems)
* `resolve`               ↔ `AsServer::resolve_inbound_request`
* `step`                  ↔ `handle_event` / `on_outbound_connection` / `on_outbound_dial_error` and the
                             `connected` bookkeeping of `Behaviour::on_connection_established/closed`
* `addrOk`, `specFilter`, `monStep` — the executable statement of the property.
-/
namespace C50

abbrev Peer := List Nat

/-! ## `filter_valid_addrs` -/

/-- `observed_remote_at.into_iter().find(|p| matches!(p, Ip4(_) | Ip6(_)))` -/
def observedIp (obs : Maddr) : Option Proto := obs.find? Proto.isIp

/-- `addr.iter().position(|p| matches!(p, Ip4(_) | Ip6(_)))` -/
def position (f : Proto → Bool) : Maddr → Option Nat
  | [] => none
  | h :: t => if f h then some 0 else (position f t).map (· + 1)

/-- `Multiaddr::replace(at, |_| Some(q))`: `None` when `at` is out of range. -/
def replaceAt : Maddr → Nat → Proto → Option Maddr
  | [], _, _ => none
  | _ :: t, 0, q => some (q :: t)
  | h :: t, i + 1, q => (replaceAt t i q).map (h :: ·)

/-- the `is_valid` closure (fixed code: a remaining IP component must be the observed one) -/
def validProto (peer : Peer) (ip : Proto) : Proto → Bool
  | .p2pCircuit => false
  | .p2p id => id == peer
  | .ip4 a => Proto.ip4 a == ip
  | .ip6 a => Proto.ip6 a == ip
  | _ => true

/-- the `is_valid` closure before the fix -/
def validProtoBuggy (peer : Peer) : Proto → Bool
  | .p2pCircuit => false
  | .p2p id => id == peer
  | _ => true

/-- `matches!(addr.iter().last(), Some(Protocol::P2p(_)))` -/
def lastIsP2p (a : Maddr) : Bool :=
  match a.getLast? with
  | some (.p2p _) => true
  | _ => false

/-- body of the `filter_map` closure, without the `distinct` set (fixed code) -/
def rewriteOne (peer : Peer) (ip : Proto) (addr : Maddr) : Option Maddr :=
  match position Proto.isIp addr with
  | none => none
  | some i =>
    match replaceAt addr i ip with
    | none => none
    | some a =>
      if !(a.all (validProto peer ip)) then none
      else if !(lastIsP2p a) then some (a ++ [.p2p peer])
      else some a

/-- body of the `filter_map` closure before the fixes -/
def rewriteOneBuggy (peer : Peer) (ip : Proto) (addr : Maddr) : Option Maddr :=
  match position Proto.isIp addr with
  | none => none
  | some i =>
    match replaceAt addr i ip with
    | none => none
    | some a =>
      if !(a.all (validProtoBuggy peer)) then none
      else if !(a.any Proto.isP2p) then some (a ++ [.p2p peer])
      else some a

/-- `filter_map` with `distinct.insert(addr.clone()).then_some(addr)`; `seen` is the `HashSet`. -/
def collect (f : Maddr → Option Maddr) : List Maddr → List Maddr → List Maddr
  | _, [] => []
  | seen, d :: rest =>
    match f d with
    | none => collect f seen rest
    | some a =>
      if seen.contains a then collect f seen rest
      else a :: collect f (a :: seen) rest

def filterValidAddrs (peer : Peer) (demanded : List Maddr) (obs : Maddr) : List Maddr :=
  match observedIp obs with
  | none => []
  | some ip => collect (rewriteOne peer ip) [] demanded

def filterValidAddrsBuggy (peer : Peer) (demanded : List Maddr) (obs : Maddr) : List Maddr :=
  match observedIp obs with
  | none => []
  | some ip => collect (rewriteOneBuggy peer ip) [] demanded

/-! ## The per-address statement of the property (executable) -/

/-- every IP component is `ip`, no relay hop, last component is `/p2p/peer` -/
def addrOk (peer : Peer) (ip : Proto) (a : Maddr) : Bool :=
  a.all (fun p => !p.isIp || p == ip) && !(a.contains Proto.p2pCircuit) &&
    (a.getLast? == some (Proto.p2p peer))

def nodupB : List Maddr → Bool
  | [] => true
  | a :: t => !(t.contains a) && nodupB t

/-- Spec of one `filter_valid_addrs` call, judged on (inputs, returned list). -/
def specFilter (peer : Peer) (obs : Maddr) (res : List Maddr) : Bool :=
  match observedIp obs with
  | none => res.isEmpty
  | some ip => res.all (addrOk peer ip) && nodupB res

/-- which clause fails (for the `FAIL:<key>` token) -/
def specFilterKey (peer : Peer) (obs : Maddr) (res : List Maddr) : String :=
  match observedIp obs with
  | none => if res.isEmpty then "ok" else "FAIL:no_observed_ip_but_addresses"
  | some ip =>
    if !(res.all fun a => a.all (fun p => !p.isIp || p == ip)) then "FAIL:ip_not_observed"
    else if !(res.all fun a => !(a.contains Proto.p2pCircuit)) then "FAIL:relay_hop"
    else if !(res.all fun a => a.getLast? == some (Proto.p2p peer)) then "FAIL:not_ending_with_requester"
    else if !(nodupB res) then "FAIL:duplicate"
    else "ok"

/-! ## `resolve_inbound_request` and the server state machine -/

structure Cfg where
  maxPeerAddresses : Nat
  globalMax : Nat
  peerMax : Nat
  /-- `throttle_clients_period`, in clock units -/
  period : Nat
  deriving Repr, DecidableEq

structure Ongoing where
  probe : Nat
  req : Nat
  addrs : List Maddr
  deriving Repr, DecidableEq

structure St where
  /-- the monotonic clock (`Instant::now()`) -/
  now : Nat
  probeId : Nat
  /-- `throttled_clients: Vec<(PeerId, Instant)>` -/
  throttled : List (Peer × Nat)
  /-- `ongoing_inbound: HashMap<PeerId, _>` as association list (at most one entry per key) -/
  ongoing : List (Peer × Ongoing)
  /-- `connected: HashMap<PeerId, HashMap<ConnectionId, Option<Multiaddr>>>` -/
  connected : List (Peer × List (Nat × Option Maddr))
  deriving Repr, DecidableEq

def St.init : St := ⟨0, 0, [], [], []⟩

inductive Refusal
  | peerIdMismatch      -- BadRequest "peer id mismatch"
  | alreadyOngoing      -- DialRefused "dial-back already ongoing"
  | tooManyTotal        -- DialRefused "too many total dials"
  | tooManyPeer         -- DialRefused "too many dials for peer"
  | noObserved          -- DialRefused "refusing to dial peer with blocked observed address"
  | noDialable          -- DialRefused "no dialable addresses"
  | panicNotConnected   -- `.expect("Peer is connected.")`
  deriving Repr, DecidableEq

/-- `partition_point(|(_, t)| *t + period < now)` + `drain(..i)` on the time-ordered vector:
drops the maximal prefix of expired entries. (`partition_point` is specified only for partitioned
input; `Props.C50.throttled_sorted` shows the vector is always ordered by time.) -/
def purge (period now : Nat) (l : List (Peer × Nat)) : List (Peer × Nat) :=
  l.dropWhile (fun e => e.2 + period < now)

def hasKey {β} (l : List (Peer × β)) (p : Peer) : Bool := l.any (fun e => e.1 == p)

def lookup {β} : List (Peer × β) → Peer → Option β
  | [], _ => none
  | (k, v) :: t, p => if k == p then some v else lookup t p

def erase {β} (l : List (Peer × β)) (p : Peer) : List (Peer × β) := l.filter (fun e => !(e.1 == p))

/-- `HashMap::insert` -/
def insert {β} (l : List (Peer × β)) (p : Peer) (v : β) : List (Peer × β) := (p, v) :: erase l p

def countPeer (l : List (Peer × Nat)) (p : Peer) : Nat := (l.filter (fun e => e.1 == p)).length

/-- `.values().find_map(|a| a.as_ref())` -/
def firstObserved : List (Nat × Option Maddr) → Option Maddr
  | [] => none
  | (_, some a) :: _ => some a
  | (_, none) :: t => firstObserved t

/-- `resolve_inbound_request`: new `throttled_clients` and the result. -/
def resolve (cfg : Cfg) (st : St) (sender reqPeer : Peer) (addrs : List Maddr) :
    List (Peer × Nat) × Except Refusal (List Maddr) :=
  let thr := purge cfg.period st.now st.throttled
  if reqPeer ≠ sender then (thr, .error .peerIdMismatch)
  else if hasKey st.ongoing sender then (thr, .error .alreadyOngoing)
  else if thr.length ≥ cfg.globalMax then (thr, .error .tooManyTotal)
  else if countPeer thr sender ≥ cfg.peerMax then (thr, .error .tooManyPeer)
  else
    match lookup st.connected sender with
    | none => (thr, .error .panicNotConnected)
    | some conns =>
      match firstObserved conns with
      | none => (thr, .error .noObserved)
      | some obs =>
        let as := (filterValidAddrs sender addrs obs).take cfg.maxPeerAddresses
        if as.isEmpty then (thr, .error .noDialable) else (thr, .ok as)

inductive Op
  /-- time passes -/
  | advance (dt : Nat)
  /-- `on_connection_established`; `observed` is what the code stores (`None` for relayed /
  non-global endpoints); `dialedAddr` is `Some(address)` for a `Dialer` endpoint with
  `role_override: Dialer` -/
  | connEstablished (peer : Peer) (conn : Nat) (observed : Option Maddr) (dialedAddr : Option Maddr)
  | connClosed (peer : Peer) (conn : Nat) (remaining : Nat)
  /-- inbound `Message::Request` -/
  | request (peer reqPeer : Peer) (reqId : Nat) (addrs : List Maddr)
  | inboundFailure (peer : Peer) (reqId : Nat)
  /-- `request_response::Event::ResponseSent`: dropped by `Behaviour::poll`, never reaches the server -/
  | responseSent (peer : Peer) (reqId : Nat)
  | dialFailure (peer : Option Peer)
  deriving Repr, DecidableEq

inductive Out
  | nothing
  /-- `InboundProbeEvent::Request` + `ToSwarm::Dial` -/
  | dial (probe : Nat) (peer : Peer) (addrs : List Maddr)
  /-- `InboundProbeEvent::Error{Response(..)}` after a refusal (`none` = peer not connected) -/
  | refused (probe : Nat) (peer : Peer) (why : Option Refusal)
  /-- `InboundProbeEvent::Error{InboundRequest(..)}` -/
  | inboundErr (probe : Nat) (peer : Peer)
  /-- `InboundProbeEvent::Response` (dial-back succeeded) -/
  | response (probe : Nat) (peer : Peer) (addr : Maddr)
  /-- `InboundProbeEvent::Error{Response(DialError)}` (dial-back failed) -/
  | dialFailed (probe : Nat) (peer : Peer)
  | panic
  deriving Repr, DecidableEq

/-- `on_outbound_connection` -/
def onOutboundConnection (st : St) (peer : Peer) (addr : Maddr) : St × Out :=
  match lookup st.ongoing peer with
  | none => (st, .nothing)
  | some o =>
    if !(o.addrs.contains addr) then (st, .nothing)
    else ({ st with ongoing := erase st.ongoing peer }, .response o.probe peer addr)

def step (cfg : Cfg) (st : St) : Op → St × Out
  | .advance dt => ({ st with now := st.now + dt }, .nothing)
  | .connEstablished peer conn observed dialed =>
    let conns := (lookup st.connected peer).getD []
    let conns' := (conn, observed) :: conns.filter (fun c => !(c.1 == conn))
    let st := { st with connected := insert st.connected peer conns' }
    match dialed with
    | some a => onOutboundConnection st peer a
    | none => (st, .nothing)
  | .connClosed peer conn remaining =>
    if remaining == 0 then ({ st with connected := erase st.connected peer }, .nothing)
    else
      match lookup st.connected peer with
      | none => (st, .panic)
      | some conns =>
        ({ st with connected := insert st.connected peer (conns.filter (fun c => !(c.1 == conn))) }, .nothing)
  | .request peer reqPeer reqId addrs =>
    let probe := st.probeId
    let st := { st with probeId := st.probeId + 1 }
    if !(hasKey st.connected peer) then (st, .refused probe peer none)
    else
      match resolve cfg st peer reqPeer addrs with
      | (thr, .ok as) =>
        ({ st with throttled := thr ++ [(peer, st.now)],
                   ongoing := insert st.ongoing peer ⟨probe, reqId, as⟩ }, .dial probe peer as)
      | (thr, .error e) => ({ st with throttled := thr }, .refused probe peer (some e))
  | .inboundFailure peer reqId =>
    match lookup st.ongoing peer with
    | some o =>
      if o.req == reqId then ({ st with ongoing := erase st.ongoing peer }, .inboundErr o.probe peer)
      else ({ st with probeId := st.probeId + 1 }, .inboundErr st.probeId peer)
    | none => ({ st with probeId := st.probeId + 1 }, .inboundErr st.probeId peer)
  | .responseSent _ _ => (st, .nothing)
  | .dialFailure none => (st, .nothing)
  | .dialFailure (some peer) =>
    match lookup st.ongoing peer with
    | none => (st, .nothing)
    | some o => ({ st with ongoing := erase st.ongoing peer }, .dialFailed o.probe peer)

/-! ## Trace monitor: the stateful part of the property, judged on (op, output) pairs -/

structure Mon where
  now : Nat
  /-- dial-backs started and not yet finished: (peer, id of the request that started it) -/
  inflight : List (Peer × Nat)
  /-- every dial-back ever started: (peer, start time), oldest first -/
  log : List (Peer × Nat)
  /-- observed addresses of the live connections, as reported by the ops -/
  conns : List (Peer × List (Nat × Option Maddr))
  /-- request id of the request op being judged -/
  curReq : Nat
  deriving Repr, DecidableEq

def Mon.init : Mon := ⟨0, [], [], [], 0⟩

/-- number of logged dial-backs that started within the last `period` (not yet expired at `now`) -/
def live (period now : Nat) (log : List (Peer × Nat)) : List (Peer × Nat) :=
  log.filter (fun e => !(e.2 + period < now))

/-- some live connection of `peer` was observed at an address whose IP all of `addrs` use -/
def addrsOkFor (peer : Peer) (conns : List (Nat × Option Maddr)) (addrs : List Maddr) : Bool :=
  conns.any fun c =>
    match c.2 with
    | none => false
    | some obs =>
      match observedIp obs with
      | none => false
      | some ip => addrs.all (addrOk peer ip)

def monConn (m : Mon) : Op → Mon
  | .advance dt => { m with now := m.now + dt }
  | .connEstablished peer conn observed _ =>
    let cs := (lookup m.conns peer).getD []
    { m with conns := insert m.conns peer ((conn, observed) :: cs.filter (fun c => !(c.1 == conn))) }
  | .connClosed peer conn remaining =>
    if remaining == 0 then { m with conns := erase m.conns peer }
    else
      match lookup m.conns peer with
      | none => m
      | some cs => { m with conns := insert m.conns peer (cs.filter (fun c => !(c.1 == conn))) }
  | .request _ _ reqId _ => { m with curReq := reqId }
  /- the inbound request `reqId` of `peer` died: a dial-back started by exactly that request is
  finished (nobody is left to answer); a failure of any OTHER request finishes nothing -/
  | .inboundFailure peer reqId => { m with inflight := m.inflight.filter (· ≠ (peer, reqId)) }
  | _ => m

/-- Judge one output in monitor state `m` (`none` = accepted). -/
def judge (cfg : Cfg) (m : Mon) (out : Out) : Mon × Option String :=
  match out with
  | .dial _ peer addrs =>
    let m' := { m with inflight := (peer, m.curReq) :: m.inflight, log := m.log ++ [(peer, m.now)] }
    if hasKey m.inflight peer then (m', some "single_flight")
    else if (live cfg.period m.now m.log).length ≥ cfg.globalMax then (m', some "global_throttle")
    else if countPeer (live cfg.period m.now m.log) peer ≥ cfg.peerMax then (m', some "peer_throttle")
    else if addrs.isEmpty || addrs.length > cfg.maxPeerAddresses then (m', some "address_count")
    else if !(nodupB addrs) then (m', some "duplicate")
    else if !(addrsOkFor peer ((lookup m.conns peer).getD []) addrs) then (m', some "address_not_ok")
    else (m', none)
  /- the outcome of the dial to `peer` finishes its dial-back -/
  | .response _ peer _ => ({ m with inflight := m.inflight.filter (fun e => !(e.1 == peer)) }, none)
  | .dialFailed _ peer => ({ m with inflight := m.inflight.filter (fun e => !(e.1 == peer)) }, none)
  | _ => (m, none)

/-- One monitor step: the op updates clock/connections first (as in the code), then the output is
judged. -/
def monStep (cfg : Cfg) (m : Mon) (op : Op) (out : Out) : Mon × Option String :=
  judge cfg (monConn m op) out

/-- run the monitor over a trace: final monitor state and the first failure key, if any -/
def monRun (cfg : Cfg) : Mon → List (Op × Out) → Mon × Option String
  | m, [] => (m, none)
  | m, (op, out) :: rest =>
    match monStep cfg m op out with
    | (m', some k) => (m', some k)
    | (m', none) => monRun cfg m' rest

/-- number of dial-backs of `p` started (a `Dial` was emitted) and not yet finished -/
def inflightCount (m : Mon) (p : Peer) : Nat := countPeer m.inflight p

/-- the key set of `ongoing_inbound` (as observed on the implementation) is exactly the set of
peers with a dial-back in flight, and no peer has more than one -/
def ongoingOk (m : Mon) (keys : List Peer) : Bool :=
  keys.all (fun p => inflightCount m p == 1) && m.inflight.all (fun e => keys.contains e.1 && inflightCount m e.1 == 1)

/-- the (op, output) trace of the model -/
def trace (cfg : Cfg) : St → List Op → List (Op × Out)
  | _, [] => []
  | st, op :: ops => (op, (step cfg st op).2) :: trace cfg (step cfg st op).1 ops

end C50
