import Libp2pModel.Common.Drv
/-!
# C18 — libp2p TLS certificate acceptance (`transports/tls/src/certificate.rs`)

A certificate is abstracted to the facts `parse_unverified` / `P2pCertificate::verify` /
`signature_scheme` / `public_key` consult.  ASN.1/X.509 parsing (x509-parser, yasna), public-key
decoding, and the two signature verifications (ring for the self-signature, libp2p-identity for
the extension signature) are INPUTS of the model (`CertFacts`), not modelled.
-/
namespace C18

abbrev Bytes := List Nat

/-- `webpki::Error` variants the code returns -/
inductive Err
  | badDer | extensionValueInvalid | unknownIssuer | unsupportedCriticalExtension
  | invalidCertValidity | unsupportedSignatureAlgorithm | signatureAlgorithmMismatch
  deriving DecidableEq, Repr

/-- what decoding a libp2p extension's value yields -/
inductive ExtVal
  /-- `yasna::decode_der::<(Vec<u8>, Vec<u8>)>` failed -/
  | asn1Bad
  /-- `PublicKey::try_decode_protobuf` failed -/
  | keyBad
  /-- decoded: the host key (identified by its peer id) and whether
      `host_key.verify("libp2p-tls-handshake:" ++ spki, signature)` holds -/
  | good (peer : Bytes) (sigOk : Bool)
  deriving DecidableEq, Repr

structure Ext where
  isP2p : Bool
  critical : Bool
  val : ExtVal
  deriving DecidableEq, Repr

inductive EcParam | missing | notOid | p256 | p384 | p521 | other
  deriving DecidableEq, Repr

/-- `tbs_certificate.subject_pki.algorithm` -/
inductive SpkiAlg | rsa | ec (p : EcParam) | other
  deriving DecidableEq, Repr

inductive PssHash | sha256 | sha384 | sha512 | other
  deriving DecidableEq, Repr

/-- the certificate's (outer) `signature_algorithm` -/
inductive SigAlg
  | sha256Rsa | sha384Rsa | sha512Rsa | rsaPss (h : PssHash)
  | ecdsaSha256 | ecdsaSha384 | ecdsaSha512 | ed25519 | ed448 | other
  deriving DecidableEq, Repr

/-- `rustls::SignatureScheme` values `signature_scheme` can return -/
inductive Scheme
  | rsaPkcs1Sha256 | rsaPkcs1Sha384 | rsaPkcs1Sha512
  | rsaPssSha256 | rsaPssSha384 | rsaPssSha512
  | ecdsaP256Sha256 | ecdsaP384Sha384 | ecdsaP521Sha512
  | ed25519 | ed448
  deriving DecidableEq, Repr

structure CertFacts where
  /-- `X509Certificate::from_der` succeeded -/
  parseOk : Bool
  exts : List Ext
  /-- `validity().is_valid()` -/
  validNow : Bool
  spki : SpkiAlg
  sigAlg : SigAlg
  /-- ring: does the certificate's signature verify over `tbs_certificate` with the subject
      public key under the verification algorithm selected for this scheme? -/
  ringVerifies : Scheme → Bool

/-- `signature_scheme()` -/
def schemeOf (spki : SpkiAlg) (sig : SigAlg) : Except Err Scheme :=
  let tail : Except Err Scheme :=
    match sig with
    | .ed25519 => .ok .ed25519
    | .ed448 => .ok .ed448
    | _ => .error .unsupportedSignatureAlgorithm
  match spki with
  | .rsa =>
    match sig with
    | .sha256Rsa => .ok .rsaPkcs1Sha256
    | .sha384Rsa => .ok .rsaPkcs1Sha384
    | .sha512Rsa => .ok .rsaPkcs1Sha512
    | .rsaPss h =>
      match h with
      | .sha256 => .ok .rsaPssSha256
      | .sha384 => .ok .rsaPssSha384
      | .sha512 => .ok .rsaPssSha512
      | .other => .error .unsupportedSignatureAlgorithm
    | _ => tail
  | .ec p =>
    match p with
    | .missing => .error .badDer
    | .notOid => .error .badDer
    | .p256 => if sig = .ecdsaSha256 then .ok .ecdsaP256Sha256 else .error .unsupportedSignatureAlgorithm
    | .p384 => if sig = .ecdsaSha384 then .ok .ecdsaP384Sha384 else .error .unsupportedSignatureAlgorithm
    | .p521 => if sig = .ecdsaSha512 then .ok .ecdsaP521Sha512 else .error .unsupportedSignatureAlgorithm
    | .other => .error .unsupportedSignatureAlgorithm
  | .other => tail

/-- `public_key(scheme)`: schemes ring has a verification algorithm for -/
def ringSupported : Scheme → Bool
  | .ecdsaP521Sha512 => false
  | .ed448 => false
  | _ => true

/-- the extension loop of `parse_unverified` (`acc` = `libp2p_extension`) -/
def extLoop : List Ext → Option (Bytes × Bool) → Except Err (Option (Bytes × Bool))
  | [], acc => .ok acc
  | e :: rest, acc =>
    if e.isP2p ∧ acc.isSome then .error .badDer
    else if e.isP2p then
      match e.val with
      | .asn1Bad => .error .extensionValueInvalid
      | .keyBad => .error .unknownIssuer
      | .good p s => extLoop rest (some (p, s))
    else if e.critical then .error .unsupportedCriticalExtension
    else extLoop rest acc

/-- `parse_unverified` -/
def parseUnverified (c : CertFacts) : Except Err (Bytes × Bool) :=
  if !c.parseOk then .error .badDer
  else match extLoop c.exts none with
    | .error e => .error e
    | .ok none => .error .badDer
    | .ok (some x) => .ok x

/-- `P2pCertificate::verify` (given the parsed extension) -/
def verify (c : CertFacts) (ext : Bytes × Bool) : Except Err Unit :=
  if !c.validNow then .error .invalidCertValidity
  else match schemeOf c.spki c.sigAlg with
    | .error e => .error e
    | .ok scheme =>
      -- `verify_signature(scheme, tbs, sig).map_err(|_| SignatureAlgorithmMismatch)`:
      -- `public_key(scheme)` fails for unsupported schemes, then ring verifies
      if !(ringSupported scheme && c.ringVerifies scheme) then .error .signatureAlgorithmMismatch
      else if !ext.2 then .error .unknownIssuer
      else .ok ()

/-- `certificate::parse(..).map(|c| c.peer_id())` -/
def accept (c : CertFacts) : Except Err Bytes :=
  match parseUnverified c with
  | .error e => .error e
  | .ok ext =>
    match verify c ext with
    | .error e => .error e
    | .ok () => .ok ext.1

/-! ## the property as a decidable predicate (Spec) -/

def p2pExts (c : CertFacts) : List Ext := c.exts.filter (·.isP2p)

def noUnknownCritical (c : CertFacts) : Bool := c.exts.all fun e => e.isP2p || !e.critical

def allowedScheme : Scheme → Bool
  | .rsaPkcs1Sha256 | .rsaPkcs1Sha384 | .rsaPkcs1Sha512
  | .rsaPssSha256 | .rsaPssSha384 | .rsaPssSha512
  | .ecdsaP256Sha256 | .ecdsaP384Sha384 | .ed25519 => true
  | _ => false

/-- "accepted only if self-signed with an allowed algorithm, currently valid, carries exactly one
libp2p extension whose signature by the host key over the certificate key verifies, and has no
unknown critical extension; the peer id is that host key's id" -/
def acceptable (c : CertFacts) (pid : Bytes) : Bool :=
  c.parseOk && noUnknownCritical c && c.validNow &&
  (match p2pExts c with
   | [e] => e.val == .good pid true
   | _ => false) &&
  (match schemeOf c.spki c.sigAlg with
   | .ok s => allowedScheme s && c.ringVerifies s
   | .error _ => false)

/-- Spec on the implementation's verdict: acceptance only of acceptable certificates, with the
host key's peer id; and, for a certificate derived from one generated for `orig`, never a
different peer id. -/
def spec (c : CertFacts) (orig : Option Bytes) (verdict : Except Err Bytes) : Bool :=
  match verdict with
  | .error _ => true
  | .ok pid => acceptable c pid && (match orig with | some o => pid == o | none => true)

end C18
