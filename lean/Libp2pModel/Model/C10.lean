import Libp2pModel.Common.Drv
import Libp2pModel.Common.Machine
/-!
# C10 — idle shutdown of a connection (`swarm/src/connection.rs`, `swarm/src/stream.rs`)

Transcription of `compute_new_shutdown`, of the shutdown block of `Connection::poll` and of
`ActiveStreamCounter::has_no_active_streams`.  Time is the monotonic clock in ms; a
`Shutdown::Later(Delay)` carries its deadline; the `Delay` is ready at a poll only if its deadline
has passed (`fired` = the timer's verdict at that poll; a timer never fires early).
`checked_add_fraction` (halving on `Instant` overflow) is not modelled: no overflow on `Nat`.
-/
namespace C10

inductive Sh where
  | none
  | asap
  | later (deadline : Nat)
  deriving DecidableEq, Repr

/-- `compute_new_shutdown(handler_keep_alive, current_shutdown, idle_timeout)` at time `now` -/
def computeNew (keepAlive : Bool) (cur : Sh) (timeout now : Nat) : Option Sh :=
  match cur, keepAlive with
  | .later _, false => if timeout == 0 then some .asap else Option.none
  | _, false => if timeout == 0 then some .asap else some (.later (now + timeout))
  | _, true => some .none

/-- what one `Connection::poll` sees when it reaches the shutdown block -/
structure Obs where
  negIn : Nat          -- `negotiating_in.len()`
  negOut : Nat         -- `negotiating_out.len()`
  requested : Nat      -- `requested_substreams.len()`
  counted : Nat        -- clones of the `ActiveStreamCounter` besides the connection's own
  keepAlive : Bool     -- `handler.connection_keep_alive()`
  now : Nat
  fired : Bool         -- the pending `Delay` reports ready at this poll

/-- `ActiveStreamCounter::has_no_active_streams`: `Arc::strong_count == 1` -/
def hasNoActiveStreams (clones : Nat) : Bool := clones + 1 == 1

def idle (o : Obs) : Bool :=
  o.negIn == 0 && o.negOut == 0 && o.requested == 0 && hasNoActiveStreams o.counted

/-- the shutdown block of `Connection::poll`; `true` = `Err(ConnectionError::KeepAliveTimeout)` -/
def pollShutdown (timeout : Nat) (sh : Sh) (o : Obs) : Sh × Bool :=
  if idle o then
    let sh' := match computeNew o.keepAlive sh timeout o.now with
      | some n => n
      | Option.none => sh
    match sh' with
    | .none => (sh', false)
    | .asap => (sh', true)
    | .later d => (sh', o.fired && decide (d ≤ o.now))
  else (.none, false)

/-- ghost: start time of the current uninterrupted streak of idle-and-not-keep-alive polls -/
def streak (since : Option Nat) (o : Obs) : Option Nat :=
  if idle o && !o.keepAlive then some (since.getD o.now) else Option.none

structure St where
  sh : Sh := .none
  since : Option Nat := Option.none
  closed : Bool := false

def step (timeout : Nat) (s : St) (o : Obs) : St × Bool :=
  let r := pollShutdown timeout s.sh o
  ({ sh := r.1, since := streak s.since o, closed := r.2 }, r.2)

/-- executable Spec of one poll: a close verdict is legitimate only when truly idle, and with a
non-zero timeout only after a full timeout of uninterrupted idleness -/
def specPoll (timeout : Nat) (since : Option Nat) (o : Obs) (closed : Bool) : Bool :=
  !closed || (idle o && !o.keepAlive &&
    (timeout == 0 || match streak since o with
      | some t => decide (t + timeout ≤ o.now)
      | Option.none => false))

end C10
