import Libp2pModel.Common.Drv
import Libp2pModel.Common.Machine
/-!
# C10 — idle shutdown of a connection (`swarm/src/connection.rs`, `swarm/src/stream.rs`)

Transcription of `compute_new_shutdown`, of the shutdown block of `Connection::poll` and of
`ActiveStreamCounter::has_no_active_streams`.  Time is the monotonic clock in ms; a
`Shutdown::Later(Delay)` carries its deadline; the `Delay` is ready at a poll only if its deadline
has passed (`fired` = the timer's verdict at that poll; a timer never fires early).
`checked_add_fraction` (halving on `Instant` overflow) is not modelled: no overflow on `Nat`.
-/
namespace C10

inductive Sh where
  | none
  | asap
  | later (deadline : Nat)
  deriving DecidableEq, Repr

/-- `compute_new_shutdown(handler_keep_alive, current_shutdown, idle_timeout)` at time `now` -/
def computeNew (keepAlive : Bool) (cur : Sh) (timeout now : Nat) : Option Sh :=
  match cur, keepAlive with
  | .later _, false => if timeout == 0 then some .asap else Option.none
  | _, false => if timeout == 0 then some .asap else some (.later (now + timeout))
  | _, true => some .none

/-- what one `Connection::poll` sees when it reaches the shutdown block -/
structure Obs where
  negIn : Nat          -- `negotiating_in.len()`
  negOut : Nat         -- `negotiating_out.len()`
  requested : Nat      -- `requested_substreams.len()`
  counted : Nat        -- clones of the `ActiveStreamCounter` besides the connection's own
  keepAlive : Bool     -- `handler.connection_keep_alive()`
  now : Nat
  fired : Bool         -- the pending `Delay` reports ready at this poll

/-- `ActiveStreamCounter::has_no_active_streams`: `Arc::strong_count == 1` -/
def hasNoActiveStreams (clones : Nat) : Bool := clones + 1 == 1

def idle (o : Obs) : Bool :=
  o.negIn == 0 && o.negOut == 0 && o.requested == 0 && hasNoActiveStreams o.counted

/-- the shutdown block of `Connection::poll`; `true` = `Err(ConnectionError::KeepAliveTimeout)` -/
def pollShutdown (timeout : Nat) (sh : Sh) (o : Obs) : Sh × Bool :=
  if idle o then
    let sh' := match computeNew o.keepAlive sh timeout o.now with
      | some n => n
      | Option.none => sh
    match sh' with
    | .none => (sh', false)
    | .asap => (sh', true)
    | .later d => (sh', o.fired && decide (d ≤ o.now))
  else (.none, false)

/-- ghost: start time of the current uninterrupted streak of idle-and-not-keep-alive polls -/
def streak (since : Option Nat) (o : Obs) : Option Nat :=
  if idle o && !o.keepAlive then some (since.getD o.now) else Option.none

structure St where
  sh : Sh := .none
  since : Option Nat := Option.none
  closed : Bool := false

def step (timeout : Nat) (s : St) (o : Obs) : St × Bool :=
  let r := pollShutdown timeout s.sh o
  ({ sh := r.1, since := streak s.since o, closed := r.2 }, r.2)

/-- executable Spec of one poll: a close verdict is legitimate only when truly idle, and with a
non-zero timeout only after a full timeout of uninterrupted idleness -/
def specPoll (timeout : Nat) (since : Option Nat) (o : Obs) (closed : Bool) : Bool :=
  !closed || (idle o && !o.keepAlive &&
    (timeout == 0 || match streak since o with
      | some t => decide (t + timeout ≤ o.now)
      | Option.none => false))


/-! ## The whole connection, op by op (end-to-end correspondence with the real `Connection::poll`)

State = what `Connection::poll` looks at, as counts: requests still queued in the handler (`hq`),
`requested_substreams` (`req`), substreams the muxer is ready to hand out (`outTokens`) / has ready
inbound (`inbWaiting`), negotiating upgrades whose remote has not / has answered (`neg*W` / `neg*R`),
streams held by the handler and counted (`held`) or marked `ignore_for_keep_alive` (`ignored`).
`lastBusy` is a ghost: the last moment a keep-alive condition held (a stream condition at any op, the
handler's keep-alive answer at the polls that sampled it). -/

structure CS where
  timeout : Nat
  maxNegIn : Nat
  now : Nat := 0
  keepAlive : Bool := false
  hq : Nat := 0
  req : Nat := 0
  outTokens : Nat := 0
  negOutW : Nat := 0
  negOutR : Nat := 0
  inbWaiting : Nat := 0
  negInW : Nat := 0
  negInR : Nat := 0
  held : Nat := 0
  ignored : Nat := 0
  sh : Sh := .none
  closed : Bool := false
  lastBusy : Nat := 0

/-- an active stream not marked ignore, a stream still negotiating, or an outstanding outbound request -/
def busyS (c : CS) : Bool :=
  decide (0 < c.hq + c.req + c.negOutW + c.negOutR + c.negInW + c.negInR + c.held)

/-- what the shutdown block sees -/
def obsOf (c : CS) : Obs :=
  { negIn := c.negInW + c.negInR, negOut := c.negOutW + c.negOutR, requested := c.req,
    counted := c.negOutW + c.negOutR + c.negInW + c.negInR + c.held,
    keepAlive := c.keepAlive, now := c.now, fired := true }

/-- top of the loop: the handler's queued requests are pushed to `requested_substreams`, finished
negotiations are delivered to the handler (which holds the stream) -/
def absorb (c : CS) : CS :=
  { c with req := c.req + c.hq, hq := 0, held := c.held + c.negOutR + c.negInR, negOutR := 0, negInR := 0 }

inductive PollRes where
  | pending | closed
  deriving DecidableEq, Repr

/-- state after the shutdown block of one loop iteration (the ghost `lastBusy` is refreshed when a
condition holds at this point) -/
def afterBlock (c : CS) : CS :=
  { absorb c with
    sh := (pollShutdown (absorb c).timeout (absorb c).sh (obsOf (absorb c))).1,
    lastBusy := if busyS (absorb c) || (absorb c).keepAlive then (absorb c).now else (absorb c).lastBusy }

/-- `muxing.poll_outbound` hands a substream to the first requested one: it starts negotiating -/
def grantOut (c : CS) : CS :=
  { c with req := c.req - 1, outTokens := c.outTokens - 1, negOutW := c.negOutW + 1 }

/-- `muxing.poll_inbound` yields a substream: it starts negotiating -/
def acceptIn (c : CS) : CS :=
  { c with inbWaiting := c.inbWaiting - 1, negInW := c.negInW + 1 }

/-- the `loop` of `Connection::poll` -/
def pollLoop : Nat → CS → CS × PollRes
  | 0, c => (c, .pending)
  | fuel + 1, c =>
    if (pollShutdown (absorb c).timeout (absorb c).sh (obsOf (absorb c))).2 then
      ({ afterBlock c with closed := true }, .closed)
    else if 0 < (afterBlock c).req && 0 < (afterBlock c).outTokens then
      pollLoop fuel (grantOut (afterBlock c))
    else if (afterBlock c).negInW + (afterBlock c).negInR < (afterBlock c).maxNegIn
        && 0 < (afterBlock c).inbWaiting then
      pollLoop fuel (acceptIn (afterBlock c))
    else (afterBlock c, .pending)

inductive COp where
  | ka (b : Bool) | req | allow | respOut | inb | respIn | drop | ignore | dropIgn
  | adv (d : Nat) | poll
  /-- the handler closes the WRITE half of a held (counted / ignored) stream, or writes to it, and keeps
  holding it: the stream still counts — no effect on what `Connection::poll` looks at -/
  | closeW | closeWI | write

def applyOp (c : CS) : COp → CS
  | .ka b => { c with keepAlive := b }
  | .req => { c with hq := c.hq + 1 }
  | .allow => { c with outTokens := c.outTokens + 1 }
  | .respOut => if 0 < c.negOutW then { c with negOutW := c.negOutW - 1, negOutR := c.negOutR + 1 } else c
  | .inb => { c with inbWaiting := c.inbWaiting + 1 }
  | .respIn => if 0 < c.negInW then { c with negInW := c.negInW - 1, negInR := c.negInR + 1 } else c
  | .drop => if 0 < c.held then { c with held := c.held - 1 } else c
  | .ignore => if 0 < c.held then { c with held := c.held - 1, ignored := c.ignored + 1 } else c
  | .dropIgn => if 0 < c.ignored then { c with ignored := c.ignored - 1 } else c
  | .adv d => { c with now := c.now + d }
  | .poll => c
  | .closeW => c
  | .closeWI => c
  | .write => c

/-- ghost: a stream condition holding after an op holds *now* -/
def touch (c : CS) : CS := if busyS c then { c with lastBusy := c.now } else c

def cstep (c : CS) (o : COp) : CS × Option PollRes :=
  if c.closed then (c, none) else
  match o with
  | .poll =>
    let r := pollLoop (c.hq + c.req + c.inbWaiting + 2) c
    (touch r.1, some r.2)
  | o => (touch (applyOp c o), none)

def cinit (timeout maxNegIn : Nat) : CS := { timeout := timeout, maxNegIn := maxNegIn }

/-- Spec of a poll's verdict: a `KeepAliveTimeout` is legitimate only if no keep-alive condition holds
and at least `timeout` has passed since the last moment one held. -/
def specClose (timeout : Nat) (busy keepAlive : Bool) (lastBusy now : Nat) (closed : Bool) : Bool :=
  !closed || (!busy && !keepAlive && decide (lastBusy + timeout ≤ now))

end C10
