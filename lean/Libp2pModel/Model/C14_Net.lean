import Libp2pModel.Model.C14
/-!
# C14 — the negotiation at BYTE granularity under an adversarial delivery schedule

Same automata as `C14.Sys`, but the channels carry bytes: what a side sends is the wire image of
its messages (`wireOfAll`), and a poll of a side finds an ARBITRARY prefix of the unconsumed bytes
readable (`n` of them — chunking, delivery delay and partial writes all show up to the reader as
"only a prefix is there yet"); it then does what the real future does: pull complete frames
through the frame reader until it is finished or no complete frame is left, and, if the peer has
closed, everything was delivered and it asks for more (`n` exceeds what is there), see EOF.  `Proofs/C14Net.lean` shows every run of this system
is a run of the message-level system.

Not represented here: the write path of the real code (write buffer, `poll_flush` before the next
read).  Sending is atomic and in order; that the real `Sink` delivers the bytes of successive
frames completely and in order is covered by the correspondence runs.  Optimistic application
data of a `V1Lazy` dialer is not part of this system (`Params.junk = none`).
-/
namespace C14
open Mss

structure BChan where
  /-- sent and not yet consumed by the reader, in order -/
  bytes : Bytes
  closed : Bool
  deriving DecidableEq, Repr

structure BCfg where
  started : Bool
  d : DSt
  l : LSt
  dl : BChan
  ld : BChan
  deriving DecidableEq, Repr

inductive BMove where
  /-- poll the dialer; the first `n` unconsumed bytes of its inbound channel are readable -/
  | pollD (n : Nat)
  | pollL (n : Nat)
  deriving DecidableEq, Repr

/-- one poll of a side: `(new state, unconsumed inbound bytes, messages sent)` -/
def pollBytes {σ : Type} (step : σ → RdEv → σ × List Msg) (isDone : σ → Bool)
    (s : σ) (inb : Bytes) (closed : Bool) (n : Nat) : σ × Bytes × List Msg :=
  if isDone s then (s, inb, [])
  else
    let (s1, out1, rest) := runBytes step isDone (n + 1) s (inb.take n)
    if !isDone s1 && closed && decide (inb.length < n) then
      -- the reader pulled everything there will ever be and asked for more: `Ok(0)` from the stream
      let (s2, out2) := step s1 (eofEvent rest)
      (s2, [], out1 ++ out2)
    else (s1, rest ++ inb.drop n, out1)

def dIsDone : DSt → Bool
  | .done _ => true
  | _ => false

def lIsDone : LSt → Bool
  | .done _ => true
  | _ => false

def binit : BCfg :=
  { started := false, d := .done .failed, l := .recvHeader, dl := ⟨[], false⟩, ld := ⟨[], false⟩ }

def bStepD (P : Params) (n : Nat) (c : BCfg) : BCfg :=
  if !c.started then
    let (d', out) := dStart P.lazy P.ds
    { c with started := true, d := d', dl := ⟨c.dl.bytes ++ wireOfAll out, c.dl.closed || dFailed d'⟩ }
  else if dIsDone c.d then c
  else
    let (d', inb, out) := pollBytes (dStep P.lazy) dIsDone c.d c.ld.bytes c.ld.closed n
    { c with d := d', ld := ⟨inb, c.ld.closed⟩,
             dl := ⟨c.dl.bytes ++ wireOfAll out, c.dl.closed || dFailed d'⟩ }

def bStepL (P : Params) (n : Nat) (c : BCfg) : BCfg :=
  if lIsDone c.l then c else
  let (l', inb, out) := pollBytes (lStep P.ls) lIsDone c.l c.dl.bytes c.dl.closed n
  { c with l := l', dl := ⟨inb, c.dl.closed⟩,
           ld := ⟨c.ld.bytes ++ wireOfAll out, c.ld.closed || lFailed l'⟩ }

def bstep (P : Params) (c : BCfg) : BMove → BCfg
  | .pollD n => bStepD P n c
  | .pollL n => bStepL P n c

def bexec (P : Params) (sched : List BMove) : BCfg := sched.foldl (bstep P) binit

end C14
