import Libp2pModel.Common.Mss
/-!
# C14 — `LengthDelimited::poll_next` as the incremental state machine it is

`Mss.frameDec` is the *batch* view of the frame reader (one frame from a buffer of received
bytes).  The code is incremental: `ReadState::ReadLength { buf, pos }` reads the length prefix
ONE byte per `poll_read`, `ReadState::ReadData { len, pos }` asks for exactly the missing
`len - pos` payload bytes and takes whatever the stream hands over.  This file transcribes that
state machine; `Proofs/C14Reader.lean` proves it refines `frameDec` for every readiness /
chunk-size behaviour of the underlying stream.
-/
namespace C14
open Mss

/-- `ReadState` (+ the part of `read_buffer` filled so far) -/
inductive RState where
  /-- `ReadLength { buf, pos }`: `none` ⇔ `pos = 0`, `some b0` ⇔ `pos = 1`, `buf[0] = b0` -/
  | readLength (b0 : Option Nat)
  /-- `ReadData { len, pos }` with `read_buffer[..pos] = acc` -/
  | readData (len : Nat) (acc : Bytes)
  deriving DecidableEq, Repr

inductive PollRes where
  /-- `Poll::Ready(Some(Ok(frame)))` / `Poll::Ready(Some(Err(e)))` -/
  | frame (f : Frame)
  | pending
  deriving DecidableEq, Repr

/-- how many bytes the next successful `poll_read` hands over at most (at least one) -/
def readLimit (lim : List Nat) (want : Nat) : Nat :=
  match lim with
  | [] => want
  | k :: _ => max 1 k

/-- One call of `poll_next` (its `loop`), on a stream that currently has `avail` bytes ready and
whose successive successful `poll_read`s return at most `lim₀, lim₁, …` bytes (at least one; an
exhausted list means "as many as asked for").  Returns the result, the new state, the bytes still
ready, and the unused limits.  Fuel `avail.length + 1` suffices (every iteration consumes a byte). -/
def pollNext : Nat → RState → Bytes → List Nat → PollRes × RState × Bytes × List Nat
  | 0, st, avail, lim => (.pending, st, avail, lim)
  | fuel + 1, .readLength b0?, avail, lim =>
    match avail with
    | [] => (.pending, .readLength b0?, [], lim)          -- `poll_read` is `Pending`
    | b :: rest =>                                         -- `poll_read(&mut buf[pos..pos+1])` = 1 byte
      if b < 128 then
        -- `(buf[pos-1] & 0x80) == 0`: `decode::u16(buf)`
        match b0? with
        | none =>
          if b ≥ 1 then pollNext fuel (.readData b []) rest lim
          else (.frame (.data []), .readLength none, rest, lim)
        | some b0 =>
          if b = 0 then (.frame (.err .invalidPrefix), .readLength none, rest, lim)   -- NotMinimal
          else
            let len := (b0 % 128) ||| (b <<< 7)
            if len ≥ 1 then pollNext fuel (.readData len []) rest lim
            else (.frame (.data []), .readLength none, rest, lim)
      else
        match b0? with
        | none => pollNext fuel (.readLength (some b)) rest lim
        | some _ => (.frame (.err .frameTooLong), .readLength none, rest, lim)      -- `pos == MAX_LEN_BYTES`
  | fuel + 1, .readData len acc, avail, lim =>
    match avail with
    | [] => (.pending, .readData len acc, [], lim)
    | _ :: _ =>
      -- `poll_read(&mut read_buffer[pos..])`: between 1 and `len - pos` bytes
      let want := len - acc.length
      let l := readLimit lim want
      let n := min want (min avail.length l)
      let acc' := acc ++ avail.take n
      if acc'.length = len then (.frame (.data acc'), .readLength none, avail.drop n, lim.tail)
      else pollNext fuel (.readData len acc') (avail.drop n) lim.tail

/-- the bytes of the current, incomplete frame that the reader has already pulled off the stream -/
def held : RState → Bytes
  | .readLength none => []
  | .readLength (some b0) => [b0]
  | .readData len acc => Varint.encode len ++ acc

/-- states the reader can be in -/
def RState.WF : RState → Prop
  | .readLength none => True
  | .readLength (some b0) => 128 ≤ b0 ∧ b0 < 256
  | .readData len acc => 1 ≤ len ∧ len < 16384 ∧ acc.length < len ∧ ∀ x ∈ acc, x < 256

/-- what `poll_next` answers when the stream reports EOF (`Ok(0)`) in state `st` -/
def atEof (st : RState) : RdEv :=
  match st with
  | .readLength none => .eof
  | _ => .err .unexpectedEof

/-- `Stream::poll_next` called again and again on the bytes currently ready, until it is
`Pending`: the frames obtained and the state the reader is left in (`k` bounds the number of frames). -/
def readerFeed : Nat → RState → Bytes → List Nat → List Frame × RState
  | 0, st, _, _ => ([], st)
  | k + 1, st, avail, lim =>
    match pollNext (avail.length + 1) st avail lim with
    | (.frame f, st', rest, lim') =>
      let (fs, st'') := readerFeed k st' rest lim'
      (f :: fs, st'')
    | (.pending, st', _, _) => ([], st')

/-- the stream delivers its bytes in arbitrary chunks (`chunks`), each with its own `poll_read`
size behaviour (`lims`); after every delivery the consumer polls until `Pending` -/
def readerFeedMany : RState → List Bytes → List (List Nat) → List Frame × RState
  | st, [], _ => ([], st)
  | st, c :: cs, lims =>
    -- fuel: any bound on the number of frames one delivery can complete
    let (fs, st') := readerFeed ((held st ++ c).length + 1) st c (lims.headD [])
    let (gs, st'') := readerFeedMany st' cs lims.tail
    (fs ++ gs, st'')

end C14
