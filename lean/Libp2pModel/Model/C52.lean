import Libp2pModel.Model.Swarm
/-!
# C52 — Connection limits are never exceeded: model of `misc/connection-limits/src/lib.rs`
composed with the shared Swarm model

`Lim` transcribes `connection_limits::Behaviour` (the limits, the bypass set, the five id sets),
`checkLimit` = `check_limit`, the four `handle_*` callbacks and `on_swarm_event`.  `HashSet`s are
insertion-ordered duplicate-free lists (`setInsert` = `HashSet::insert`, `setRemove` = `remove`),
the per-peer `HashMap` is an association list (`ppGet`/`ppUpd` = `get`/`entry().or_default()`).
`usize as u32` is not modelled (set sizes stay far below 2^32).

Composition (`step`): the limits behaviour is the FIRST field of the derived behaviour
`{ limits, probe }`, so at a decision point it is asked first; when it denies, the probe is not
asked.  `decide` computes the limits' verdict from its state, `Swarm.step` is run with
`deny := limits ∨ probe`, and the events of the step are fed, in order, into the limits model
(`feed`): the `b*` decision events are the `handle_*` calls, `bEstablished/bClosed/bDialFailure/
bListenFailure` are `on_swarm_event`.

Ghost components (never read by a decision): `exDial`/`exEst` = ids of the dials started /
connections established while their peer was on the bypass list ("not counted for limits"),
`limTaint` = the limits were changed while connections existed, `bypTaint` = a peer was taken off
the bypass list while it had connections.
-/
namespace C52
open Swarm

structure Limits where
  maxPI : Option Nat := none
  maxPO : Option Nat := none
  maxEI : Option Nat := none
  maxEO : Option Nat := none
  maxPP : Option Nat := none
  maxTot : Option Nat := none
  deriving DecidableEq, Repr, Inhabited

def U32MAX : Nat := 4294967295

/-- `check_limit`: `true` = `Err(Exceeded)` -/
def checkLimit (limit : Option Nat) (current : Nat) : Bool :=
  decide (limit.getD U32MAX ≤ current)

def setInsert (l : List Nat) (c : Nat) : List Nat := if l.contains c then l else l ++ [c]
def setRemove (l : List Nat) (c : Nat) : List Nat := l.filter (· != c)

abbrev PP := List (Nat × List Nat)

def ppGet (m : PP) (p : Nat) : List Nat :=
  match m.find? (·.1 == p) with
  | some x => x.2
  | none => []

/-- `map.entry(p).or_default()` followed by `f` on the set -/
def ppUpd (m : PP) (p : Nat) (f : List Nat → List Nat) : PP :=
  if m.any (·.1 == p) then m.map (fun x => if x.1 == p then (x.1, f x.2) else x)
  else m ++ [(p, f [])]

structure Lim where
  limits : Limits := {}
  bypass : List Nat := []
  pendIn : List Nat := []
  pendOut : List Nat := []
  estIn : List Nat := []
  estOut : List Nat := []
  perPeer : PP := []
  deriving Repr, Inhabited

def Lim.isBypassed (b : Lim) (p : Nat) : Bool := b.bypass.contains p

/-- `handle_pending_inbound_connection` -/
def handlePendingIn (b : Lim) (c : Nat) : Lim × Bool :=
  if checkLimit b.limits.maxPI b.pendIn.length then (b, true)
  else ({ b with pendIn := setInsert b.pendIn c }, false)

/-- the three `check_limit` calls of `handle_established_{in,out}bound_connection` -/
def estChecks (b : Lim) (out : Bool) (p : Nat) : Bool :=
  checkLimit (if out then b.limits.maxEO else b.limits.maxEI) (if out then b.estOut.length else b.estIn.length) ||
  checkLimit b.limits.maxPP (ppGet b.perPeer p).length ||
  checkLimit b.limits.maxTot (b.estIn.length + b.estOut.length)

/-- `handle_established_inbound_connection` -/
def handleEstIn (b : Lim) (c p : Nat) : Lim × Bool :=
  let b := { b with pendIn := setRemove b.pendIn c }
  if b.isBypassed p then (b, false) else (b, estChecks b false p)

def bypassedOpt (b : Lim) (peer : Option Nat) : Bool :=
  match peer with
  | some p => b.isBypassed p
  | none => false

/-- `handle_pending_outbound_connection` -/
def handlePendingOut (b : Lim) (c : Nat) (peer : Option Nat) : Lim × Bool :=
  if bypassedOpt b peer then (b, false)
  else if checkLimit b.limits.maxPO b.pendOut.length then (b, true)
  else ({ b with pendOut := setInsert b.pendOut c }, false)

/-- `handle_established_outbound_connection` -/
def handleEstOut (b : Lim) (c p : Nat) : Lim × Bool :=
  let b := { b with pendOut := setRemove b.pendOut c }
  if b.isBypassed p then (b, false) else (b, estChecks b true p)

/-- `on_swarm_event(ConnectionEstablished)` -/
def onEstablished (b : Lim) (c p : Nat) (out : Bool) : Lim :=
  { b with estOut := if out then setInsert b.estOut c else b.estOut,
           estIn := if out then b.estIn else setInsert b.estIn c,
           perPeer := ppUpd b.perPeer p (setInsert · c) }

/-- `on_swarm_event(ConnectionClosed)` -/
def onClosed (b : Lim) (c p : Nat) : Lim :=
  { b with estIn := setRemove b.estIn c, estOut := setRemove b.estOut c,
           perPeer := ppUpd b.perPeer p (setRemove · c) }

/-- limits behaviour + ghost exemption lists -/
structure GL where
  lim : Lim := {}
  exDial : List Nat := []
  exEst : List Nat := []
  deriving Repr, Inhabited

/-- One event of a Swarm step as seen by the limits behaviour.  `ctx` = the peer argument of the
decision point of this op (`maybe_peer` of a dial, the authenticated peer of a resolution). -/
def feed (ctx : Option Nat) (g : GL) : Ev → GL
  | .bPendingIn c _ => { g with lim := (handlePendingIn g.lim c).1 }
  | .bPendingOut c _ =>
    { g with lim := (handlePendingOut g.lim c ctx).1,
             exDial := if bypassedOpt g.lim ctx then c :: g.exDial else g.exDial }
  | .bEstIn c _ => { g with lim := (handleEstIn g.lim c (ctx.getD 0)).1 }
  | .bEstOut c _ => { g with lim := (handleEstOut g.lim c (ctx.getD 0)).1 }
  | .bEstablished c p out _ _ =>
    { g with lim := onEstablished g.lim c p out,
             exEst := if g.lim.isBypassed p then c :: g.exEst else g.exEst }
  | .bClosed c p _ _ => { g with lim := onClosed g.lim c p }
  | .bDialFailure c _ _ => { g with lim := { g.lim with pendOut := setRemove g.lim.pendOut c } }
  | .bListenFailure c _ _ => { g with lim := { g.lim with pendIn := setRemove g.lim.pendIn c } }
  | _ => g

def feedAll (ctx : Option Nat) (g : GL) (evs : List Ev) : GL := evs.foldl (feed ctx) g

/-- the peer argument of the op's decision point -/
def ctxOf (sw : State) : Op → Option Nat
  | .dial _ _ p0 addrs _ _ _ _ => (dialPeer sw p0 addrs).getD none
  | .resolve _ p _ => some p
  | .resolveIn _ p _ => some p
  | _ => none

/-- the verdict the limits behaviour gives at the op's decision point (`true` = deny); it depends
on the set sizes and the peer only, not on the connection id -/
def decideOp (b : Lim) (sw : State) (op : Op) : Bool :=
  match op with
  | .dial .. => (handlePendingOut b 0 (ctxOf sw op)).2
  | .resolve _ p _ => (handleEstOut b 0 p).2
  | .incoming _ => (handlePendingIn b 0).2
  | .resolveIn _ p _ => (handleEstIn b 0 p).2
  | _ => false

/-- the op with `deny := probe ∨ limits` -/
def withDeny (op : Op) (d : Bool) : Op :=
  match op with
  | .dial v c p a e b dn r => .dial v c p a e b (dn || d) r
  | .resolve k p dn => .resolve k p (dn || d)
  | .incoming dn => .incoming (dn || d)
  | .resolveIn k p dn => .resolveIn k p (dn || d)
  | o => o

/-- the probe's own decision call (not made when the limits behaviour has already denied) -/
def isDecision : Ev → Bool
  | .bPendingIn .. | .bPendingOut .. | .bEstIn .. | .bEstOut .. => true
  | _ => false

structure CS where
  sw : State
  g : GL := {}
  limTaint : Bool := false
  bypTaint : Bool := false
  deriving Repr, Inhabited

def CS.init (peerIds : List (List Nat)) (l : Limits) : CS :=
  { sw := State.init peerIds, g := { lim := { limits := l } } }

/-- `sw op ov`: a Swarm op; `ov` = the dial was made with `DialOpts::override_role()` (hole
punching: the local node plays the listener of the upgrade on a connection it dialed).  Neither the
Swarm's bookkeeping nor the limits behaviour looks at the role override — a dialed connection is
pending-outgoing / established-outgoing whatever its role — so the flag is carried (and printed in
replays) but read by nothing: that is the claim the correspondence tests. -/
inductive COp where
  | sw (op : Op) (ov : Bool)
  | bypass (p : Nat)
  | unbypass (p : Nat)
  | setLimits (l : Limits)
  deriving Repr, Inhabited

def hasConns (s : State) : Bool := !(s.pendOut.isEmpty && s.pendIn.isEmpty && s.est.isEmpty)

def hasConnsTo (s : State) (p : Nat) : Bool := s.isConnected p || s.isDialing p

def step (cs : CS) : COp → CS × Res × List Ev
  | .sw op _ =>
    let d := decideOp cs.g.lim cs.sw op
    let r := Swarm.step cs.sw (withDeny op d)
    ({ cs with sw := r.1, g := feedAll (ctxOf cs.sw op) cs.g r.2.2 }, r.2.1,
     if d then r.2.2.filter (fun e => !isDecision e) else r.2.2)
  | .bypass p =>
    ({ cs with g := { cs.g with lim := { cs.g.lim with bypass := setInsert cs.g.lim.bypass p } } }, .none, [])
  | .unbypass p =>
    ({ cs with g := { cs.g with lim := { cs.g.lim with bypass := setRemove cs.g.lim.bypass p } },
               bypTaint := cs.bypTaint || hasConnsTo cs.sw p }, .none, [])
  | .setLimits l =>
    ({ cs with g := { cs.g with lim := { cs.g.lim with limits := l } },
               limTaint := cs.limTaint || hasConns cs.sw }, .none, [])

/-! ## The executable Spec: the property as a decidable predicate over connection tables -/

/-- `none` = unlimited -/
def within (limit : Option Nat) (n : Nat) : Bool :=
  match limit with
  | some m => decide (n ≤ m)
  | none => true

/-- A snapshot of "what the Swarm holds", with the connections exempted by the bypass rule
already removed: ids of pending incoming / pending outgoing connections, established incoming /
outgoing connections as (id, peer). -/
structure Table where
  pendIn : List Nat
  pendOut : List Nat
  estIn : List (Nat × Nat)
  estOut : List (Nat × Nat)

def perPeerCount (t : Table) (p : Nat) : Nat :=
  (t.estIn.filter (·.2 == p)).length + (t.estOut.filter (·.2 == p)).length

/-- THE property: the violated clauses (empty = every counter within its limit) -/
def violations (l : Limits) (t : Table) : List String :=
  (if within l.maxPI t.pendIn.length then [] else ["C52:pending_incoming"]) ++
  (if within l.maxPO t.pendOut.length then [] else ["C52:pending_outgoing"]) ++
  (if within l.maxEI t.estIn.length then [] else ["C52:established_incoming"]) ++
  (if within l.maxEO t.estOut.length then [] else ["C52:established_outgoing"]) ++
  (if (t.estIn ++ t.estOut).all (fun x => within l.maxPP (perPeerCount t x.2)) then [] else ["C52:established_per_peer"]) ++
  (if within l.maxTot (t.estIn.length + t.estOut.length) then [] else ["C52:established_total"])

/-- the table of the model: the Swarm's connections minus the exempted ones -/
def CS.table (cs : CS) : Table :=
  { pendIn := cs.sw.pendIn.map (·.id),
    pendOut := (cs.sw.pendOut.map (·.id)).filter (fun c => !cs.g.exDial.contains c),
    estIn := ((cs.sw.est.filter (fun e => !e.out)).filter (fun e => !cs.g.exEst.contains e.id)).map (fun e => (e.id, e.peer)),
    estOut := ((cs.sw.est.filter (fun e => e.out)).filter (fun e => !cs.g.exEst.contains e.id)).map (fun e => (e.id, e.peer)) }

/-- the table by the CURRENT bypass list: connections whose (known) peer is bypassed are ignored -/
def CS.tableNow (cs : CS) : Table :=
  { pendIn := cs.sw.pendIn.map (·.id),
    pendOut := (cs.sw.pendOut.filter (fun pc => !bypassedOpt cs.g.lim pc.peer)).map (·.id),
    estIn := ((cs.sw.est.filter (fun e => !e.out)).filter (fun e => !cs.g.lim.isBypassed e.peer)).map (fun e => (e.id, e.peer)),
    estOut := ((cs.sw.est.filter (fun e => e.out)).filter (fun e => !cs.g.lim.isBypassed e.peer)).map (fun e => (e.id, e.peer)) }

/-! ### bookkeeping: the behaviour's five sets against the Swarm's tables -/

def sortNat (l : List Nat) : List Nat := l.foldl (fun acc x => insertSorted x acc) []

/-- what the five sets must be, given the Swarm's tables: (pendIn, pendOut, estIn, estOut) and the
per-peer sets of the peers that have an entry -/
structure Sets where
  pendIn : List Nat
  pendOut : List Nat
  estIn : List Nat
  estOut : List Nat
  perPeer : PP
  deriving DecidableEq, Repr

/-- violated bookkeeping clauses: `got` = the behaviour's sets, `pin … eout` = ids the Swarm holds
(pending outgoing: only those the behaviour was asked to count), `peerOf` = established id ↦ peer -/
def bookkeeping (got : Sets) (pin pout : List Nat) (est : List (Nat × Nat × Bool)) : List String :=
  (if sortNat got.pendIn = sortNat pin then [] else ["C52:bookkeeping_pending_inbound"]) ++
  (if sortNat got.pendOut = sortNat pout then [] else ["C52:bookkeeping_pending_outbound"]) ++
  (if sortNat got.estIn = sortNat ((est.filter (fun x => !x.2.2)).map (·.1)) then [] else ["C52:bookkeeping_established_inbound"]) ++
  (if sortNat got.estOut = sortNat ((est.filter (fun x => x.2.2)).map (·.1)) then [] else ["C52:bookkeeping_established_outbound"]) ++
  (if got.perPeer.all (fun e => sortNat e.2 = sortNat ((est.filter (fun x => x.2.1 == e.1)).map (·.1))) &&
      est.all (fun x => got.perPeer.any (fun e => e.1 == x.2.1))
   then [] else ["C52:bookkeeping_per_peer"])

end C52
