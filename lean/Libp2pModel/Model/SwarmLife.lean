import Libp2pModel.Model.Swarm
/-!
# C01 — the life-cycle monitor (executable Spec, evaluated on the implementation's ordered event log
and proved to accept every trace of the model)

Every connection id moves `fresh → pendOut | pendIn → est → done` or `… → done`:
* an id is handed out when the behaviours are consulted for it (`handle_pending_*_connection`);
* exactly one of ConnectionEstablished / OutgoingConnectionError / IncomingConnectionError ends the
  pending phase; ConnectionClosed only follows ConnectionEstablished, once;
* every behaviour life-cycle call (`FromSwarm::{ConnectionEstablished, ConnectionClosed, DialFailure,
  ListenFailure}`) is followed by the corresponding SwarmEvent before the next life-cycle call
  (same order in both streams); the only exception is the single `DialFailure` of a synchronously
  rejected `Swarm::dial`, which is still pending when the step ends (`endStep`).
-/
namespace Swarm.Life
open Swarm

inductive LSt where
  | fresh | pendOut | pendIn | est | done
  deriving DecidableEq, Repr, Inhabited

structure LM where
  st : Nat → LSt
  /-- behaviour life-cycle call awaiting its SwarmEvent: (kind, connection);
  kinds: 0 Established, 1 Closed, 2 DialFailure, 3 ListenFailure -/
  q : Option (Nat × Nat)

def upd (m : Nat → LSt) (c : Nat) (v : LSt) : Nat → LSt := fun x => if x = c then v else m x

def feed (m : LM) : Ev → Option LM
  | .bPendingOut c _ => if m.st c = .fresh ∧ m.q = none then some { m with st := upd m.st c .pendOut } else none
  | .bPendingIn c _ => if m.st c = .fresh ∧ m.q = none then some { m with st := upd m.st c .pendIn } else none
  | .bEstablished c .. => if m.q = none then some { m with q := some (0, c) } else none
  | .bClosed c .. => if m.q = none then some { m with q := some (1, c) } else none
  | .bDialFailure c .. => if m.q = none then some { m with q := some (2, c) } else none
  | .bListenFailure c .. => if m.q = none then some { m with q := some (3, c) } else none
  | .sEstablished c _ out _ _ =>
    if m.q = some (0, c) ∧ m.st c = (if out then .pendOut else .pendIn)
    then some { st := upd m.st c .est, q := none } else none
  | .sClosed c .. =>
    if m.q = some (1, c) ∧ m.st c = .est then some { st := upd m.st c .done, q := none } else none
  | .sOutgoingError c .. =>
    if m.q = some (2, c) ∧ m.st c = .pendOut then some { st := upd m.st c .done, q := none } else none
  | .sIncomingError c .. =>
    if m.q = some (3, c) ∧ m.st c = .pendIn then some { st := upd m.st c .done, q := none } else none
  | _ => some m

def feedAll (m : LM) : List Ev → Option LM
  | [] => some m
  | e :: es => (feed m e).bind (fun m' => feedAll m' es)

/-- the Swarm is idle: nothing may be left unmatched except the `DialFailure` of a synchronously
rejected dial, whose id is thereby finished -/
def endStep (m : LM) : Option LM :=
  match m.q with
  | none => some m
  | some (k, c) =>
    if k = 2 ∧ (m.st c = .fresh ∨ m.st c = .pendOut) then some { st := upd m.st c .done, q := none } else none

end Swarm.Life
