import Libp2pModel.Common.Machine
/-!
# C27 — network-level propagation of ONE gossipsub message id

A finite network of gossipsub nodes, all subscribed to one topic.  What a node does with a message
is transcribed from `protocols/gossipsub/src/behaviour.rs`:

* `publish` (l. 627): the publisher inserts the id into its own `duplicate_cache` and calls
  `send_message(p, RpcOut::Publish{..})` for every `p` in `recipients`
  (`filter_publish_candidates`; a random choice when `flood_publish` is off — an input here).
* `handle_received_message` (l. 1926), for a copy arriving at `v` from `u` (`propagation_source`):
  1. `message_is_valid`: if `message.source == Some(own id)` and `u != own id` the copy is rejected
     (`RejectReason::SelfOrigin`) — *before* the duplicate check, nothing is recorded;
  2. `if !self.duplicate_cache.insert(id) { …; return }` — a duplicate is ignored;
  3. otherwise (first receipt; we are subscribed: `self.mesh.contains_key(topic)`) the message is
     handed to the application (`Event::Message{propagation_source: u,..}`) and, since
     `validate_messages` is off, `forward_msg(id, raw, Some(u), ∅)` is called.
  With `validate_messages` ON the message is NOT forwarded at step 3: it stays in the `mcache`
  unvalidated with an (initially empty) set `originating_peers`; every later duplicate from `w`
  runs `self.mcache.observe_duplicate(id, w)` which inserts `w` into that set while the entry is
  unvalidated.  The application answers with `report_message_validation_result(id, u, verdict)`
  (l. 954): `Accept` → `mcache.validate(id)` hands back `originating_peers` and
  `forward_msg(id, raw, Some(u), originating_peers)` runs; `Reject`/`Ignore` → `mcache.remove(id)`,
  nothing is forwarded; no entry → `false`, nothing happens.
* `forward_msg` (l. 2954): `recipient_peers` = every explicit / floodsub peer subscribed to the
  topic and every `mesh[topic]` peer `p` with
  `Some(p) != propagation_source && !originating_peers.contains(p) && Some(p) != message.source`,
  collected in a `HashSet`; one `RpcOut::Publish` per element.

`fwd v` is the union `mesh[topic] ∪ explicit ∪ floodsub` of node `v` — arbitrary, but fixed during
the propagation of the one message the model follows.  Links are lossless; `flight` holds the
copies sent and not yet received; a *schedule* is the list of links `(u, v)` whose head copy is
received next — any list is a schedule (an entry that is not in flight is a no-op), so a statement
about all schedules covers every interleaving of receptions.

Message identity: the model is id-agnostic — "the message" is whatever all nodes agree is one
`MessageId` (see `specIds`); with a `DataTransform` the id is computed from the un-transformed data
on both sides.
-/
namespace C27

abbrev Node := Nat

/-- configuration, fixed while one message propagates -/
structure Cfg where
  /-- all nodes of the network (finite) -/
  nodes : List Node
  /-- `mesh[topic] ∪ explicit ∪ floodsub` of each node -/
  fwd : Node → List Node
  /-- the publishing node -/
  pub : Node
  /-- the publisher's `recipients` (result of `filter_publish_candidates`) -/
  recips : List Node
  /-- `message.source` (`Some(author)` when signing, `None` when anonymous) -/
  source : Option Node
  /-- `config.validate_messages()` of each node -/
  validate : Node → Bool := fun _ => false

/-- `HashSet` semantics: each element once (first occurrences dropped, order irrelevant). -/
def uniq : List Node → List Node
  | [] => []
  | a :: l => if a ∈ l then uniq l else a :: uniq l

/-- the filter of `forward_msg` for a copy received by `v` from `u` (`originating_peers = ∅`). -/
def keep (cfg : Cfg) (u : Node) (p : Node) : Bool :=
  p != u && some p != cfg.source

/-- `recipient_peers` of `forward_msg` at node `v`, propagation source `u`. -/
def recipients (cfg : Cfg) (v u : Node) : List Node :=
  uniq ((cfg.fwd v).filter (keep cfg u))

/-- `recipient_peers` of `forward_msg(id, raw, Some(u), orig)` called from
`report_message_validation_result(.., Accept)`: additionally `!originating_peers.contains(p)`. -/
def recipientsV (cfg : Cfg) (v u : Node) (orig : List Node) : List Node :=
  uniq ((cfg.fwd v).filter fun p => keep cfg u p && !orig.contains p)

/-- the application's `MessageAcceptance` -/
inductive Verdict where
  | accept | reject | ignore
  deriving DecidableEq, Repr

/-- history events, in chronological order -/
inductive Ev where
  /-- `handle_received_message(raw, u)` ran on node `v` (whatever it then did with the copy) -/
  | recvd (v u : Node)
  /-- node `v` called `send_message(w, Publish)` -/
  | sent (v w : Node)
  deriving DecidableEq, Repr

structure State where
  /-- nodes whose `duplicate_cache` contains the id -/
  seen : List Node
  /-- copies sent and not yet received: (from, to) -/
  flight : List (Node × Node)
  /-- log of application deliveries: (node, propagation source) -/
  delivered : List (Node × Node)
  /-- log of every `send_message(to, Publish)`: (from, to) -/
  sent : List (Node × Node)
  /-- messages awaiting the application's verdict: node ↦ (first sender, `originating_peers`) —
  the unvalidated `mcache` entries -/
  held : List (Node × (Node × List Node)) := []
  /-- nodes whose application rejected / ignored the message -/
  dropped : List Node := []
  /-- every reception and every send, in the order they happened -/
  hist : List Ev := []

/-- what one step did -/
inductive Out where
  /-- first receipt: delivered to the application and forwarded to these peers -/
  | first (fwd : List Node)
  /-- duplicate-cache hit: ignored -/
  | dup
  /-- `message_is_valid`: claims to be from ourselves but came from somebody else: rejected -/
  | selfOrigin
  /-- the schedule named a link with nothing in flight: no-op -/
  | noflight
  /-- first receipt in validation mode: delivered to the application, held for its verdict -/
  | hold
  /-- `Accept`: forwarded to these peers -/
  | forwarded (fwd : List Node)
  /-- `Reject` / `Ignore`: removed from the cache, never forwarded -/
  | dropped
  /-- a verdict for a message that is not awaiting one: `false`, nothing happens -/
  | noheld
  deriving DecidableEq, Repr

/-- `Behaviour::publish` on node `cfg.pub` -/
def publish (cfg : Cfg) : State :=
  { seen := [cfg.pub]
    flight := cfg.recips.map fun p => (cfg.pub, p)
    delivered := []
    sent := cfg.recips.map fun p => (cfg.pub, p)
    hist := cfg.recips.map fun p => Ev.sent cfg.pub p }

/-- `mcache.observe_duplicate(id, u)` on node `v`: only an unvalidated entry records the sender -/
def noteDup (held : List (Node × (Node × List Node))) (v u : Node) :
    List (Node × (Node × List Node)) :=
  held.map fun h => if h.1 = v then (h.1, h.2.1, u :: h.2.2) else h

/-- node `v` receives the copy in flight on link `u → v` (`handle_received_message`). -/
def recv (cfg : Cfg) (s : State) (l : Node × Node) : State × Out :=
  let u := l.1
  let v := l.2
  if (u, v) ∈ s.flight then
    let fl := s.flight.erase (u, v)
    let hi := s.hist ++ [Ev.recvd v u]
    if cfg.source = some v ∧ u ≠ v then
      ({ s with flight := fl, hist := hi }, .selfOrigin)
    else if v ∈ s.seen then
      ({ s with flight := fl, held := noteDup s.held v u, hist := hi }, .dup)
    else if cfg.validate v = true then
      ({ s with seen := v :: s.seen, flight := fl, delivered := (v, u) :: s.delivered,
                held := (v, (u, [])) :: s.held, hist := hi }, .hold)
    else
      let r := recipients cfg v u
      ({ s with seen := v :: s.seen
                flight := fl ++ r.map fun p => (v, p)
                delivered := (v, u) :: s.delivered
                sent := s.sent ++ r.map fun p => (v, p)
                hist := hi ++ r.map fun p => Ev.sent v p }, .first r)
  else (s, .noflight)

/-- the application of node `v` calls `report_message_validation_result(id, first sender, a)` -/
def verdict (cfg : Cfg) (s : State) (v : Node) (a : Verdict) : State × Out :=
  match s.held.lookup v with
  | none => (s, .noheld)
  | some (u, orig) =>
    let held' := s.held.filter fun h => h.1 != v
    if a = .accept then
      let r := recipientsV cfg v u orig
      ({ s with held := held'
                flight := s.flight ++ r.map fun p => (v, p)
                sent := s.sent ++ r.map fun p => (v, p)
                hist := s.hist ++ r.map fun p => Ev.sent v p }, .forwarded r)
    else
      ({ s with held := held', dropped := v :: s.dropped }, .dropped)

/-- one scheduled event: a reception or an application verdict -/
inductive Op where
  | recv (u v : Node)
  | verdict (v : Node) (a : Verdict)
  deriving DecidableEq, Repr

def step (cfg : Cfg) (s : State) : Op → State × Out
  | .recv u v => recv cfg s (u, v)
  | .verdict v a => verdict cfg s v a

/-- state after a schedule -/
def run (cfg : Cfg) (sched : List Op) : State :=
  Machine.exec (step cfg) (publish cfg) sched

/-- outputs of a schedule -/
def outs (cfg : Cfg) (sched : List Op) : List Out :=
  (Machine.run (step cfg) (publish cfg) sched).2

/-- no copy in flight and no message awaiting a verdict -/
def State.quiescent (s : State) : Prop := s.flight = [] ∧ s.held = []

/-- **the temporal no-echo predicate** over a history: scanning from the oldest event with the
receptions seen so far, no send `v → w` happens after a reception `v ← w`. -/
def noEcho : List (Node × Node) → List Ev → Prop
  | _, [] => True
  | r, .recvd v u :: t => noEcho ((v, u) :: r) t
  | r, .sent v w :: t => (v, w) ∉ r ∧ noEcho r t

/-! ## The forwarding graph and executable reachability -/

/-- edge "a sends the message to b when it publishes / first receives it" -/
def edges (cfg : Cfg) (a : Node) : List Node :=
  if a = cfg.pub then cfg.recips else cfg.fwd a

/-- one round of closure: add the successors of every node of `acc` -/
def expand (cfg : Cfg) (acc : List Node) : List Node :=
  acc ++ (acc.flatMap (edges cfg)).filter (fun b => !acc.contains b)

/-- `fuel` rounds of closure from the publisher -/
def closure (cfg : Cfg) : Nat → List Node → List Node
  | 0, acc => acc
  | n + 1, acc => closure cfg n (uniq (expand cfg acc))

/-- nodes reachable from the publisher in the forwarding graph (enough fuel: one new node per
round at least, or a fixpoint) -/
def reachSet (cfg : Cfg) : List Node :=
  closure cfg cfg.nodes.length [cfg.pub]

/-- the reachability premise of the at-least-once clause, decidable form -/
def premise (cfg : Cfg) : Bool :=
  cfg.nodes.all fun v => (reachSet cfg).contains v

/-- the premise on `message.source` under which no honest copy is rejected as self-origin -/
def sourceOk (cfg : Cfg) : Bool :=
  cfg.source == none || cfg.source == some cfg.pub

/-! ## Executable Spec (the property as a monitor over observed outputs) -/

/-- clause check for the `publish` step: the publisher does not send to itself nor to the
message's source. Returns the failing clause. -/
def specPub (cfg : Cfg) : Option String :=
  if cfg.recips.contains cfg.pub then some "pub_to_self"
  else match cfg.source with
    | some x => if x != cfg.pub && cfg.recips.contains x then some "echo_source" else none
    | none => none

/-- receptions `(v, u)` of a history, oldest first -/
def rcvdOf : List Ev → List (Node × Node)
  | [] => []
  | .recvd v u :: t => (v, u) :: rcvdOf t
  | .sent _ _ :: t => rcvdOf t

/-- does `v` send to a peer it has a recorded reception from? -/
def echoes (rc : List (Node × Node)) (v : Node) (r : List Node) : Bool :=
  r.any fun w => rc.contains (v, w)

def toSource (cfg : Cfg) (r : List Node) : Bool :=
  match cfg.source with
  | some x => r.contains x
  | none => false

/-- monitor state: nodes whose application got the id; every observed reception `(v, u)` -/
structure Mon where
  got : List Node := []
  rc : List (Node × Node) := []

/-- clause check for one reception at `v` from `u` with observed outcome `o`. -/
def specRecv (cfg : Cfg) (m : Mon) (u v : Node) (o : Out) : Option String :=
  match o with
  | .first r =>
    if m.got.contains v then some "at_most_once"
    else if v == cfg.pub then some "to_publisher"
    else if echoes (m.rc ++ [(v, u)]) v r then some "echo_prop"
    else if toSource cfg r then some "echo_source"
    else none
  | .hold =>
    if m.got.contains v then some "at_most_once"
    else if v == cfg.pub then some "to_publisher"
    else none
  | _ => none

/-- clause check for the sends of an `Accept`ed message on node `v`: to nobody `v` has received
the message from (first sender and duplicate senders alike), nor to the source. -/
def specVerdict (cfg : Cfg) (m : Mon) (v : Node) (o : Out) : Option String :=
  match o with
  | .forwarded r =>
    if echoes m.rc v r then some "echo_prop"
    else if toSource cfg r then some "echo_source"
    else none
  | _ => none

/-- clause check for a send of the id by `u` to `w` that is the answer to an IWANT (gossip is not
part of the model; `w` asked for it, possibly before it sent us a duplicate): `w` must not be the
peer `u` FIRST got the message from, nor the message's source. `src` = observed (node, first
propagation source) pairs. -/
def specSend (cfg : Cfg) (src : List (Node × Node)) (u w : Node) : Option String :=
  if src.contains (u, w) then some "echo_prop"
  else if cfg.source == some w then some "echo_source"
  else none

/-- The model follows ONE message identity: it assumes that every node computes the same
`MessageId` for the message (the publisher in `publish`, from the un-transformed data; every
receiver in `handle_received_message`, from the inbound-transformed data), so that the publisher's
`duplicate_cache` entry is the one an echoed copy hits.  The harness checks this assumption on the
implementation: `same` = the id carried by every `Event::Message` equals the id `publish()`
returned. -/
def specIds (same : Bool) : Option String :=
  if same then none else some "publisher_id_differs"

def specStep (cfg : Cfg) (m : Mon) (op : Op) (o : Out) : Option String :=
  match op with
  | .recv u v => specRecv cfg m u v o
  | .verdict v _ => specVerdict cfg m v o

def monAfter (m : Mon) (op : Op) (o : Out) : Mon :=
  match op, o with
  | .recv _ _, .noflight => m
  | .recv u v, .first _ => { got := v :: m.got, rc := m.rc ++ [(v, u)] }
  | .recv u v, .hold => { got := v :: m.got, rc := m.rc ++ [(v, u)] }
  | .recv u v, _ => { m with rc := m.rc ++ [(v, u)] }
  | .verdict _ _, _ => m

/-- monitor over a whole trace; `none` = every clause held -/
def monitor (cfg : Cfg) : List (Op × Out) → Mon → Option String
  | [], _ => none
  | (op, o) :: rest, m =>
    match specStep cfg m op o with
    | some k => some k
    | none => monitor cfg rest (monAfter m op o)

def nodupB : List Node → Bool
  | [] => true
  | a :: l => !l.contains a && nodupB l

/-- clause check at quiescence: `dlv` = nodes whose application received the id (with
multiplicity); `clean` = no application rejected / ignored the message. -/
def specQuiet (cfg : Cfg) (clean : Bool) (dlv : List Node) : Option String :=
  if !nodupB dlv then some "at_most_once"
  else if dlv.contains cfg.pub then some "to_publisher"
  else if premise cfg && sourceOk cfg && clean && !(cfg.nodes.all fun v => v == cfg.pub || dlv.contains v)
    then some "at_least_once"
  else none

/-- the trace a schedule produces on the model -/
def trace (cfg : Cfg) : State → List Op → List (Op × Out)
  | _, [] => []
  | s, op :: rest => (op, (step cfg s op).2) :: trace cfg (step cfg s op).1 rest

end C27
