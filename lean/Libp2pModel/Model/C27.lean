import Libp2pModel.Common.Machine
/-!
# C27 — network-level propagation of ONE gossipsub message id

A finite network of gossipsub nodes, all subscribed to one topic.  What a node does with a message
is transcribed from `protocols/gossipsub/src/behaviour.rs`:

* `publish` (l. 627): the publisher inserts the id into its own `duplicate_cache` and calls
  `send_message(p, RpcOut::Publish{..})` for every `p` in `recipients`
  (`filter_publish_candidates`; a random choice when `flood_publish` is off — an input here).
* `handle_received_message` (l. 1926), for a copy arriving at `v` from `u` (`propagation_source`):
  1. `message_is_valid`: if `message.source == Some(own id)` and `u != own id` the copy is rejected
     (`RejectReason::SelfOrigin`) — *before* the duplicate check, nothing is recorded;
  2. `if !self.duplicate_cache.insert(id) { …; return }` — a duplicate is ignored;
  3. otherwise (first receipt; we are subscribed: `self.mesh.contains_key(topic)`) the message is
     handed to the application (`Event::Message{propagation_source: u,..}`) and, since
     `validate_messages` is off, `forward_msg(id, raw, Some(u), ∅)` is called.
* `forward_msg` (l. 2954): `recipient_peers` = every explicit / floodsub peer subscribed to the
  topic and every `mesh[topic]` peer `p` with
  `Some(p) != propagation_source && !originating_peers.contains(p) && Some(p) != message.source`,
  collected in a `HashSet`; one `RpcOut::Publish` per element.

`fwd v` is the union `mesh[topic] ∪ explicit ∪ floodsub` of node `v` — arbitrary, but fixed during
the propagation of the one message the model follows.  Links are lossless; `flight` holds the
copies sent and not yet received; a *schedule* is the list of links `(u, v)` whose head copy is
received next — any list is a schedule (an entry that is not in flight is a no-op), so a statement
about all schedules covers every interleaving of receptions.
-/
namespace C27

abbrev Node := Nat

/-- configuration, fixed while one message propagates -/
structure Cfg where
  /-- all nodes of the network (finite) -/
  nodes : List Node
  /-- `mesh[topic] ∪ explicit ∪ floodsub` of each node -/
  fwd : Node → List Node
  /-- the publishing node -/
  pub : Node
  /-- the publisher's `recipients` (result of `filter_publish_candidates`) -/
  recips : List Node
  /-- `message.source` (`Some(author)` when signing, `None` when anonymous) -/
  source : Option Node

/-- `HashSet` semantics: each element once (first occurrences dropped, order irrelevant). -/
def uniq : List Node → List Node
  | [] => []
  | a :: l => if a ∈ l then uniq l else a :: uniq l

/-- the filter of `forward_msg` for a copy received by `v` from `u` (`originating_peers = ∅`). -/
def keep (cfg : Cfg) (u : Node) (p : Node) : Bool :=
  p != u && some p != cfg.source

/-- `recipient_peers` of `forward_msg` at node `v`, propagation source `u`. -/
def recipients (cfg : Cfg) (v u : Node) : List Node :=
  uniq ((cfg.fwd v).filter (keep cfg u))

structure State where
  /-- nodes whose `duplicate_cache` contains the id -/
  seen : List Node
  /-- copies sent and not yet received: (from, to) -/
  flight : List (Node × Node)
  /-- log of application deliveries: (node, propagation source) -/
  delivered : List (Node × Node)
  /-- log of every `send_message(to, Publish)`: (from, to) -/
  sent : List (Node × Node)

/-- what one reception did -/
inductive Out where
  /-- first receipt: delivered to the application and forwarded to these peers -/
  | first (fwd : List Node)
  /-- duplicate-cache hit: ignored -/
  | dup
  /-- `message_is_valid`: claims to be from ourselves but came from somebody else: rejected -/
  | selfOrigin
  /-- the schedule named a link with nothing in flight: no-op -/
  | noflight
  deriving DecidableEq, Repr

/-- `Behaviour::publish` on node `cfg.pub` -/
def publish (cfg : Cfg) : State :=
  { seen := [cfg.pub]
    flight := cfg.recips.map fun p => (cfg.pub, p)
    delivered := []
    sent := cfg.recips.map fun p => (cfg.pub, p) }

/-- node `v` receives the copy in flight on link `u → v` (`handle_received_message`). -/
def recv (cfg : Cfg) (s : State) (l : Node × Node) : State × Out :=
  let u := l.1
  let v := l.2
  if (u, v) ∈ s.flight then
    let fl := s.flight.erase (u, v)
    if cfg.source = some v ∧ u ≠ v then
      ({ s with flight := fl }, .selfOrigin)
    else if v ∈ s.seen then
      ({ s with flight := fl }, .dup)
    else
      let r := recipients cfg v u
      ({ seen := v :: s.seen
         flight := fl ++ r.map fun p => (v, p)
         delivered := (v, u) :: s.delivered
         sent := s.sent ++ r.map fun p => (v, p) }, .first r)
  else (s, .noflight)

/-- state after a schedule -/
def run (cfg : Cfg) (sched : List (Node × Node)) : State :=
  Machine.exec (recv cfg) (publish cfg) sched

/-- outputs of a schedule -/
def outs (cfg : Cfg) (sched : List (Node × Node)) : List Out :=
  (Machine.run (recv cfg) (publish cfg) sched).2

/-! ## The forwarding graph and executable reachability -/

/-- edge "a sends the message to b when it publishes / first receives it" -/
def edges (cfg : Cfg) (a : Node) : List Node :=
  if a = cfg.pub then cfg.recips else cfg.fwd a

/-- one round of closure: add the successors of every node of `acc` -/
def expand (cfg : Cfg) (acc : List Node) : List Node :=
  acc ++ (acc.flatMap (edges cfg)).filter (fun b => !acc.contains b)

/-- `fuel` rounds of closure from the publisher -/
def closure (cfg : Cfg) : Nat → List Node → List Node
  | 0, acc => acc
  | n + 1, acc => closure cfg n (uniq (expand cfg acc))

/-- nodes reachable from the publisher in the forwarding graph (enough fuel: one new node per
round at least, or a fixpoint) -/
def reachSet (cfg : Cfg) : List Node :=
  closure cfg cfg.nodes.length [cfg.pub]

/-- the reachability premise of the at-least-once clause, decidable form -/
def premise (cfg : Cfg) : Bool :=
  cfg.nodes.all fun v => (reachSet cfg).contains v

/-- the premise on `message.source` under which no honest copy is rejected as self-origin -/
def sourceOk (cfg : Cfg) : Bool :=
  cfg.source == none || cfg.source == some cfg.pub

/-! ## Executable Spec (the property as a monitor over observed outputs) -/

/-- clause check for the `publish` step: the publisher does not send to itself nor to the
message's source. Returns the failing clause. -/
def specPub (cfg : Cfg) : Option String :=
  if cfg.recips.contains cfg.pub then some "pub_to_self"
  else match cfg.source with
    | some x => if x != cfg.pub && cfg.recips.contains x then some "echo_source" else none
    | none => none

/-- clause check for one reception at `v` from `u` with observed outcome `o`; `got` = nodes whose
application already received the id. -/
def specRecv (cfg : Cfg) (got : List Node) (u v : Node) (o : Out) : Option String :=
  match o with
  | .first r =>
    if got.contains v then some "at_most_once"
    else if v == cfg.pub then some "to_publisher"
    else if r.contains u then some "echo_prop"
    else if (match cfg.source with | some x => r.contains x | none => false) then some "echo_source"
    else none
  | _ => none

/-- clause check for a send of the id by `u` to `w` that is not the forward of a first receipt (the
answer to an IWANT; gossip is not part of the model): `w` must not be the peer `u` got the message
from, nor the message's source. `src` = observed (node, propagation source) pairs. -/
def specSend (cfg : Cfg) (src : List (Node × Node)) (u w : Node) : Option String :=
  if src.contains (u, w) then some "echo_prop"
  else if cfg.source == some w then some "echo_source"
  else none

def gotAfter (got : List Node) (v : Node) (o : Out) : List Node :=
  match o with
  | .first _ => v :: got
  | _ => got

/-- monitor over a whole trace `(u, v, outcome)`; `none` = every clause held -/
def monitor (cfg : Cfg) : List (Node × Node × Out) → List Node → Option String
  | [], _ => none
  | (u, v, o) :: rest, got =>
    match specRecv cfg got u v o with
    | some k => some k
    | none => monitor cfg rest (gotAfter got v o)

def nodupB : List Node → Bool
  | [] => true
  | a :: l => !l.contains a && nodupB l

/-- clause check at quiescence: `dlv` = nodes whose application received the id (with
multiplicity). -/
def specQuiet (cfg : Cfg) (dlv : List Node) : Option String :=
  if !nodupB dlv then some "at_most_once"
  else if dlv.contains cfg.pub then some "to_publisher"
  else if premise cfg && sourceOk cfg && !(cfg.nodes.all fun v => v == cfg.pub || dlv.contains v)
    then some "at_least_once"
  else none

/-- the trace a schedule produces on the model -/
def trace (cfg : Cfg) : State → List (Node × Node) → List (Node × Node × Out)
  | _, [] => []
  | s, l :: rest => (l.1, l.2, (recv cfg s l).2) :: trace cfg (recv cfg s l).1 rest

end C27
