import Libp2pModel.Common.Multiaddr
/-!
# C22 — global-only transport (`core/src/transport/global_only.rs`)

IPv4 addresses are the `u32` value (`u32::from(Ipv4Addr)`, big endian), IPv6 addresses the `u128`
value; `oct a i` = `a.octets()[i]`, `seg a i` = `a.segments()[i]`.  The predicates are transcribed
branch for branch (bit masks stay bit masks: `&&&` is `Nat.land`); the `std::net` helpers the Rust
code calls (`is_loopback`, `is_link_local`, `is_documentation`, `is_broadcast`, `is_unspecified`)
are transcribed from their std definitions.

The registry (DESIGN.md Appendix A) is a list of explicit prefixes; membership of an address in
a prefix of length `len` is the arithmetic statement `a / 2^(w-len) = base / 2^(w-len)`.
-/
namespace C22

/-! ## addresses -/

/-- `a.octets()[i]` for a 32-bit address -/
def oct (a i : Nat) : Nat := a / 2 ^ (8 * (3 - i)) % 256

/-- `a.segments()[i]` for a 128-bit address -/
def seg (a i : Nat) : Nat := a / 2 ^ (16 * (7 - i)) % 65536

/-- dotted quad -/
def ip4 (a b c d : Nat) : Nat := ((a * 256 + b) * 256 + c) * 256 + d

/-- eight 16-bit groups -/
def ip6 (s0 s1 s2 s3 s4 s5 s6 s7 : Nat) : Nat :=
  ((((((s0 * 65536 + s1) * 65536 + s2) * 65536 + s3) * 65536 + s4) * 65536 + s5) * 65536 + s6) * 65536 + s7

/-! ## `mod ipv4_global` -/
namespace V4

/-- `Ipv4Addr::is_broadcast`: `u32::from_be_bytes(self.octets()) == u32::from_be_bytes(BROADCAST.octets())` -/
def isBroadcast (a : Nat) : Bool := a == 0xFFFFFFFF

/-- `Ipv4Addr::is_loopback`: `self.octets()[0] == 127` -/
def isLoopback (a : Nat) : Bool := oct a 0 == 127

/-- `Ipv4Addr::is_link_local`: `matches!(self.octets(), [169, 254, ..])` -/
def isLinkLocal (a : Nat) : Bool := oct a 0 == 169 && oct a 1 == 254

/-- `Ipv4Addr::is_documentation`: `[192, 0, 2, _] | [198, 51, 100, _] | [203, 0, 113, _]` -/
def isDocumentation (a : Nat) : Bool :=
  (oct a 0 == 192 && oct a 1 == 0 && oct a 2 == 2)
  || (oct a 0 == 198 && oct a 1 == 51 && oct a 2 == 100)
  || (oct a 0 == 203 && oct a 1 == 0 && oct a 2 == 113)

/-- `a.octets()[0] & 240 == 240 && !a.is_broadcast()` -/
def isReserved (a : Nat) : Bool := (oct a 0 &&& 240 == 240) && !isBroadcast a

/-- `a.octets()[0] == 198 && (a.octets()[1] & 0xfe) == 18` -/
def isBenchmarking (a : Nat) : Bool := oct a 0 == 198 && (oct a 1 &&& 0xfe) == 18

/-- `a.octets()[0] == 100 && (a.octets()[1] & 0b1100_0000 == 0b0100_0000)` -/
def isShared (a : Nat) : Bool := oct a 0 == 100 && (oct a 1 &&& 0b11000000 == 0b01000000)

/-- `[10, ..] | [172, b, ..] if b >= 16 && b <= 31 | [192, 168, ..]` -/
def isPrivate (a : Nat) : Bool :=
  if oct a 0 == 10 then true
  else if oct a 0 == 172 && (oct a 1 ≥ 16 && oct a 1 ≤ 31) then true
  else if oct a 0 == 192 && oct a 1 == 168 then true
  else false

/-- `ipv4_global::is_global` -/
def isGlobal (a : Nat) : Bool :=
  !(oct a 0 == 0
    || isPrivate a
    || isShared a
    || isLoopback a
    || isLinkLocal a
    || (oct a 0 == 192 && oct a 1 == 0 && oct a 2 == 0)
    || isDocumentation a
    || isBenchmarking a
    || isReserved a
    || isBroadcast a)

end V4

/-! ## `mod ipv6_global` -/
namespace V6

/-- `(a.segments()[0] & 0xffc0) == 0xfe80` -/
def isUnicastLinkLocal (a : Nat) : Bool := (seg a 0 &&& 0xffc0) == 0xfe80

/-- `(a.segments()[0] & 0xfe00) == 0xfc00` -/
def isUniqueLocal (a : Nat) : Bool := (seg a 0 &&& 0xfe00) == 0xfc00

/-- `(a.segments()[0] == 0x2001) && (a.segments()[1] == 0xdb8)` -/
def isDocumentation (a : Nat) : Bool := seg a 0 == 0x2001 && seg a 1 == 0xdb8

/-- `Ipv6Addr::is_unspecified`: `u128::from_be_bytes(self.octets()) == 0` -/
def isUnspecified (a : Nat) : Bool := a == 0

/-- `Ipv6Addr::is_loopback`: `u128::from_be_bytes(self.octets()) == 1` -/
def isLoopback (a : Nat) : Bool := a == 1

/-- the carve-outs inside `2001::/23` (the `!( … )` group) -/
def carvedOut (a : Nat) : Bool :=
  a == 0x20010001000000000000000000000001
  || a == 0x20010001000000000000000000000002
  || (seg a 0 == 0x2001 && seg a 1 == 3)
  || (seg a 0 == 0x2001 && seg a 1 == 4 && seg a 2 == 0x112)
  || (seg a 0 == 0x2001 && (seg a 1 ≥ 0x20 && seg a 1 ≤ 0x2F))

/-- `ipv6_global::is_global` -/
def isGlobal (a : Nat) : Bool :=
  !(isUnspecified a
    || isLoopback a
    || (seg a 0 == 0 && seg a 1 == 0 && seg a 2 == 0 && seg a 3 == 0 && seg a 4 == 0 && seg a 5 == 0xffff)
    || (seg a 0 == 0x64 && seg a 1 == 0xff9b && seg a 2 == 1)
    || (seg a 0 == 0x100 && seg a 1 == 0 && seg a 2 == 0 && seg a 3 == 0)
    || ((seg a 0 == 0x2001 && seg a 1 < 0x200) && !carvedOut a)
    || isDocumentation a
    || isUniqueLocal a
    || isUnicastLinkLocal a)

end V6

/-! ## `Transport::dial` -/

/-- `DialOpts { role, port_use }` -/
structure Opts where
  listener : Bool
  reuse : Bool
  deriving DecidableEq, Repr

/-- what the caller of `dial` sees: the three kinds of result the recording inner transport can
produce, and the wrapper's own `MultiaddrNotSupported(addr)`. -/
inductive Res where
  | notSupported (a : Maddr)
  | ok
  | other
  deriving DecidableEq, Repr

/-- result + the calls the inner transport received -/
structure Outcome where
  res : Res
  calls : List (Maddr × Opts)
  deriving DecidableEq, Repr

/-- `<global_only::Transport<T> as Transport>::dial`; `inner` is `T::dial`. -/
def dial (inner : Maddr → Opts → Res) (addr : Maddr) (opts : Opts) : Outcome :=
  match addr.head? with
  | some (.ip4 a) =>
    if !V4.isGlobal a then ⟨.notSupported addr, []⟩
    else ⟨inner addr opts, [(addr, opts)]⟩
  | some (.ip6 a) =>
    if !V6.isGlobal a then ⟨.notSupported addr, []⟩
    else ⟨inner addr opts, [(addr, opts)]⟩
  | _ => ⟨.notSupported addr, []⟩

/-! ## the registries (DESIGN.md Appendix A) -/

structure Prefix where
  name : String
  base : Nat
  len : Nat
  deriving Repr

/-- `a` lies in prefix `p` of a `w`-bit address space: the top `len` bits agree. -/
def Prefix.contains (w : Nat) (p : Prefix) (a : Nat) : Bool :=
  a / 2 ^ (w - p.len) == p.base / 2 ^ (w - p.len)

def inAny (w : Nat) (ps : List Prefix) (a : Nat) : Bool := ps.any (·.contains w a)

/-- first row containing `a` -/
def rowOf (w : Nat) (ps : List Prefix) (a : Nat) : Option Prefix := ps.find? (·.contains w a)

/-- IANA IPv4 Special-Purpose Address Registry, rows marked *not* globally reachable (tier A). -/
def nonGlobal4 : List Prefix := [
  ⟨"0.0.0.0/8", ip4 0 0 0 0, 8⟩,               -- "this network", RFC 791
  ⟨"10.0.0.0/8", ip4 10 0 0 0, 8⟩,             -- private use, RFC 1918
  ⟨"172.16.0.0/12", ip4 172 16 0 0, 12⟩,       -- private use, RFC 1918
  ⟨"192.168.0.0/16", ip4 192 168 0 0, 16⟩,     -- private use, RFC 1918
  ⟨"100.64.0.0/10", ip4 100 64 0 0, 10⟩,       -- shared address space, RFC 6598
  ⟨"127.0.0.0/8", ip4 127 0 0 0, 8⟩,           -- loopback, RFC 1122
  ⟨"169.254.0.0/16", ip4 169 254 0 0, 16⟩,     -- link local, RFC 3927
  ⟨"192.0.0.0/24", ip4 192 0 0 0, 24⟩,         -- IETF protocol assignments, RFC 6890
  ⟨"192.0.2.0/24", ip4 192 0 2 0, 24⟩,         -- documentation TEST-NET-1, RFC 5737
  ⟨"198.51.100.0/24", ip4 198 51 100 0, 24⟩,   -- documentation TEST-NET-2, RFC 5737
  ⟨"203.0.113.0/24", ip4 203 0 113 0, 24⟩,     -- documentation TEST-NET-3, RFC 5737
  ⟨"198.18.0.0/15", ip4 198 18 0 0, 15⟩,       -- benchmarking, RFC 2544
  ⟨"240.0.0.0/4", ip4 240 0 0 0, 4⟩,           -- reserved, RFC 1112
  ⟨"255.255.255.255/32", ip4 255 255 255 255, 32⟩ -- limited broadcast, RFC 919
]

/-- globally reachable /32s inside the non-global 192.0.0.0/24: either answer satisfies the
statement (the code refuses them); reported. -/
def either4 : List Prefix := [
  ⟨"192.0.0.9/32", ip4 192 0 0 9, 32⟩,         -- PCP anycast, RFC 7723
  ⟨"192.0.0.10/32", ip4 192 0 0 10, 32⟩,       -- TURN anycast, RFC 8155
  ⟨"192.88.99.0/24", ip4 192 88 99 0, 24⟩      -- deprecated 6to4 relay anycast, RFC 7526 (n/a)
]

/-- special-purpose rows marked globally reachable: must be passed. -/
def global4 : List Prefix := [
  ⟨"192.31.196.0/24", ip4 192 31 196 0, 24⟩,   -- AS112-v4, RFC 7535
  ⟨"192.52.193.0/24", ip4 192 52 193 0, 24⟩,   -- AMT, RFC 7450
  ⟨"192.175.48.0/24", ip4 192 175 48 0, 24⟩    -- direct delegation AS112, RFC 7534
]

/-- IANA IPv6 Special-Purpose Address Registry, not globally reachable, tier A. -/
def nonGlobal6 : List Prefix := [
  ⟨"::/128", ip6 0 0 0 0 0 0 0 0, 128⟩,                 -- unspecified, RFC 4291
  ⟨"::1/128", ip6 0 0 0 0 0 0 0 1, 128⟩,                -- loopback, RFC 4291
  ⟨"::ffff:0:0/96", ip6 0 0 0 0 0 0xffff 0 0, 96⟩,      -- IPv4-mapped, RFC 4291
  ⟨"64:ff9b:1::/48", ip6 0x64 0xff9b 1 0 0 0 0 0, 48⟩,  -- IPv4-IPv6 translation (local use), RFC 8215
  ⟨"100::/64", ip6 0x100 0 0 0 0 0 0 0, 64⟩,            -- discard-only, RFC 6666
  ⟨"2001::/23", ip6 0x2001 0 0 0 0 0 0 0, 23⟩,          -- IETF protocol assignments, RFC 2928
  ⟨"2001:db8::/32", ip6 0x2001 0xdb8 0 0 0 0 0 0, 32⟩,  -- documentation, RFC 3849
  ⟨"fc00::/7", ip6 0xfc00 0 0 0 0 0 0 0, 7⟩,            -- unique local, RFC 4193
  ⟨"fe80::/10", ip6 0xfe80 0 0 0 0 0 0 0, 10⟩           -- link-local unicast, RFC 4291
]

/-- globally reachable more-specific rows inside 2001::/23 that the code implements. -/
def carveOut6 : List Prefix := [
  ⟨"2001:1::1/128", ip6 0x2001 1 0 0 0 0 0 1, 128⟩,     -- PCP anycast, RFC 7723
  ⟨"2001:1::2/128", ip6 0x2001 1 0 0 0 0 0 2, 128⟩,     -- TURN anycast, RFC 8155
  ⟨"2001:3::/32", ip6 0x2001 3 0 0 0 0 0 0, 32⟩,        -- AMT, RFC 7450
  ⟨"2001:4:112::/48", ip6 0x2001 4 0x112 0 0 0 0 0, 48⟩,-- AS112-v6, RFC 7535
  ⟨"2001:20::/28", ip6 0x2001 0x20 0 0 0 0 0 0, 28⟩     -- ORCHIDv2, RFC 7343
]

/-- tier B: later registry additions (not globally reachable) and later carve-outs / n-a rows:
either answer is accepted, the implementation's answer is reported. -/
def either6 : List Prefix := [
  ⟨"3fff::/20", ip6 0x3fff 0 0 0 0 0 0 0, 20⟩,          -- documentation, RFC 9637 (tier B)
  ⟨"5f00::/16", ip6 0x5f00 0 0 0 0 0 0 0, 16⟩,          -- SRv6 SIDs, RFC 9602 (tier B)
  ⟨"100:0:0:1::/64", ip6 0x100 0 0 1 0 0 0 0, 64⟩,      -- dummy prefix, RFC 9780 (tier B)
  ⟨"2001:1::3/128", ip6 0x2001 1 0 0 0 0 0 3, 128⟩,     -- DNS-SD SRP anycast, RFC 9665 (tier B carve-out)
  ⟨"2001:30::/28", ip6 0x2001 0x30 0 0 0 0 0 0, 28⟩,    -- DETs, RFC 9374 (tier B carve-out)
  ⟨"2002::/16", ip6 0x2002 0 0 0 0 0 0 0, 16⟩           -- 6to4, RFC 3056 (n/a)
]

/-- special-purpose rows marked globally reachable outside every non-global block: must be passed. -/
def global6 : List Prefix := [
  ⟨"64:ff9b::/96", ip6 0x64 0xff9b 0 0 0 0 0 0, 96⟩,    -- IPv4-IPv6 translation, RFC 6052
  ⟨"2620:4f:8000::/48", ip6 0x2620 0x4f 0x8000 0 0 0 0 0, 48⟩ -- direct delegation AS112, RFC 7534
]

/-- the registry's verdict "not globally reachable" (tier A, with the implemented carve-outs) -/
def registryNonGlobal4 (a : Nat) : Bool := inAny 32 nonGlobal4 a
def registryNonGlobal6 (a : Nat) : Bool := inAny 128 nonGlobal6 a && !inAny 128 carveOut6 a

/-! ## run-length form of the registries (used for interval sweeps) -/

/-- inclusive interval covered by a prefix -/
def Prefix.range (w : Nat) (p : Prefix) : Nat × Nat :=
  let k := 2 ^ (w - p.len)
  (p.base / k * k, p.base / k * k + (k - 1))

def inIntervals : List (Nat × Nat) → Nat → Bool
  | [], _ => false
  | (x, y) :: t, a => (decide (x ≤ a) && decide (a ≤ y)) || inIntervals t a

/-- restrict a sorted interval list to `[lo, hi]` -/
def clip : List (Nat × Nat) → Nat → Nat → List (Nat × Nat)
  | [], _, _ => []
  | (x, y) :: t, lo, hi =>
    if y < lo || hi < x then clip t lo hi else (max x lo, min y hi) :: clip t lo hi

/-- every interval lies inside `[lo, hi]` -/
def within (lo hi : Nat) : List (Nat × Nat) → Bool
  | [] => true
  | (x, y) :: t => decide (lo ≤ x) && decide (y ≤ hi) && within lo hi t

/-- sorted, non-adjacent (canonical run-length form) -/
def canonical : List (Nat × Nat) → Bool
  | [] => true
  | [(x, y)] => x ≤ y
  | (x, y) :: (x', y') :: r => x ≤ y && y + 1 < x' && canonical ((x', y') :: r)

/-- the refused IPv4 addresses as maximal intervals -/
def intervals4 : List (Nat × Nat) := [
  (ip4 0 0 0 0, ip4 0 255 255 255),
  (ip4 10 0 0 0, ip4 10 255 255 255),
  (ip4 100 64 0 0, ip4 100 127 255 255),
  (ip4 127 0 0 0, ip4 127 255 255 255),
  (ip4 169 254 0 0, ip4 169 254 255 255),
  (ip4 172 16 0 0, ip4 172 31 255 255),
  (ip4 192 0 0 0, ip4 192 0 0 255),
  (ip4 192 0 2 0, ip4 192 0 2 255),
  (ip4 192 168 0 0, ip4 192 168 255 255),
  (ip4 198 18 0 0, ip4 198 19 255 255),
  (ip4 198 51 100 0, ip4 198 51 100 255),
  (ip4 203 0 113 0, ip4 203 0 113 255),
  (ip4 240 0 0 0, ip4 255 255 255 255)
]

/-- the refused IPv6 addresses as maximal intervals -/
def intervals6 : List (Nat × Nat) := [
  (0, 1),
  (ip6 0 0 0 0 0 0xffff 0 0, ip6 0 0 0 0 0 0xffff 0xffff 0xffff),
  (ip6 0x64 0xff9b 1 0 0 0 0 0, ip6 0x64 0xff9b 1 0xffff 0xffff 0xffff 0xffff 0xffff),
  (ip6 0x100 0 0 0 0 0 0 0, ip6 0x100 0 0 0 0xffff 0xffff 0xffff 0xffff),
  (ip6 0x2001 0 0 0 0 0 0 0, ip6 0x2001 1 0 0 0 0 0 0),
  (ip6 0x2001 1 0 0 0 0 0 3, ip6 0x2001 2 0xffff 0xffff 0xffff 0xffff 0xffff 0xffff),
  (ip6 0x2001 4 0 0 0 0 0 0, ip6 0x2001 4 0x111 0xffff 0xffff 0xffff 0xffff 0xffff),
  (ip6 0x2001 4 0x113 0 0 0 0 0, ip6 0x2001 0x1f 0xffff 0xffff 0xffff 0xffff 0xffff 0xffff),
  (ip6 0x2001 0x30 0 0 0 0 0 0, ip6 0x2001 0x1ff 0xffff 0xffff 0xffff 0xffff 0xffff 0xffff),
  (ip6 0x2001 0xdb8 0 0 0 0 0 0, ip6 0x2001 0xdb8 0xffff 0xffff 0xffff 0xffff 0xffff 0xffff),
  (ip6 0xfc00 0 0 0 0 0 0 0, ip6 0xfdff 0xffff 0xffff 0xffff 0xffff 0xffff 0xffff 0xffff),
  (ip6 0xfe80 0 0 0 0 0 0 0, ip6 0xfebf 0xffff 0xffff 0xffff 0xffff 0xffff 0xffff 0xffff)
]

/-- model of a sweep over `[lo, hi]`: the maximal runs of refused addresses -/
def sweep4 (lo hi : Nat) : List (Nat × Nat) := clip intervals4 lo hi
def sweep6 (lo hi : Nat) : List (Nat × Nat) := clip intervals6 lo hi

/-! ## executable Spec (the property as a decidable predicate over input and observed output) -/

/-- what the property demands for a leading IP: `some true` = must be refused, `some false` =
must be passed to the inner transport, `none` = either (rows listed in `either4`/`either6`). -/
def demand4 (a : Nat) : Option Bool :=
  if inAny 32 either4 a then none
  else some (registryNonGlobal4 a)

def demand6 (a : Nat) : Option Bool :=
  if inAny 128 either6 a then none
  else some (registryNonGlobal6 a)

def demand (addr : Maddr) : Option Bool :=
  match addr.head? with
  | some (.ip4 a) => demand4 a
  | some (.ip6 a) => demand6 a
  | _ => some true

def isRefusal (addr : Maddr) (o : Outcome) : Bool :=
  o.res == .notSupported addr && o.calls.isEmpty

def isPass (inner : Maddr → Opts → Res) (addr : Maddr) (opts : Opts) (o : Outcome) : Bool :=
  o.calls == [(addr, opts)] && o.res == inner addr opts

/-- the property for one dial -/
def spec (inner : Maddr → Opts → Res) (addr : Maddr) (opts : Opts) (o : Outcome) : Bool :=
  match demand addr with
  | some true => isRefusal addr o
  | some false => isPass inner addr opts o
  | none => isRefusal addr o || isPass inner addr opts o

/-- the property for a sweep of `[lo, hi]` (`w`-bit space): the observed refused runs are exactly
the registry's, up to the `either` rows. Evaluated pointwise on both sides of every boundary of an
observed run and of a registry row inside `[lo, hi]` (two run-length encoded step functions that
agree on both sides of every breakpoint of either agree everywhere). -/
def demandW (w : Nat) (a : Nat) : Option Bool := if w = 32 then demand4 a else demand6 a

def agrees (w : Nat) (obs : List (Nat × Nat)) (a : Nat) : Bool :=
  match demandW w a with
  | some d => inIntervals obs a == d
  | none => true

/-- candidate points: both sides of every observed/registry boundary inside `[lo,hi]` -/
def boundaryPoints (l : List (Nat × Nat)) : List Nat :=
  l.flatMap fun (x, y) => [x - 1, x, y, y + 1]

def specSweep (w : Nat) (lo hi : Nat) (obs : List (Nat × Nat)) : Bool :=
  let regs := ((if w = 32 then nonGlobal4 ++ either4 ++ global4
                else nonGlobal6 ++ carveOut6 ++ either6 ++ global6).map (·.range w))
  let pts := (boundaryPoints obs ++ boundaryPoints regs ++ [lo, hi]).filter fun a => lo ≤ a && a ≤ hi
  within lo hi obs && pts.all (agrees w obs)

/-! ## reporting class of an address (extra information in the impl line) -/

def classOf (addr : Maddr) : String :=
  let cls (w : Nat) (a : Nat) (ng ei gl : List Prefix) (co : List Prefix) : String :=
    match rowOf w ei a with
    | some p => "either:" ++ p.name
    | none =>
      match rowOf w co a with
      | some p => "carveout:" ++ p.name
      | none =>
        match rowOf w ng a with
        | some p => "nonglobal:" ++ p.name
        | none =>
          match rowOf w gl a with
          | some p => "globalrow:" ++ p.name
          | none => "plain"
  match addr.head? with
  | some (.ip4 a) => cls 32 a nonGlobal4 either4 global4 []
  | some (.ip6 a) => cls 128 a nonGlobal6 either6 global6 carveOut6
  | _ => "nonip"

end C22
