/-!
# C07 — behaviour-to-handler notifications (`NotifyHandler::{One, Any}`)

Model of (rust-libp2p, `swarm/src`):

* `Swarm::poll_next_event` — the `pending_swarm_events` / `pending_handler_event` / behaviour /
  pool priority loop (`lib.rs`), `handle_behaviour_event` for `NotifyHandler`, `CloseConnection`
  and `GenerateEvent`, `notify_one`, `notify_any`;
* `EstablishedConnection::{poll_ready_notify_handler, notify_handler, start_close}` (`connection/pool.rs`)
  on top of a model of the bounded `futures::channel::mpsc` channel (message count, `buffer`,
  the main sender's `is_parked` flag, the FIFO `parked_queue`, `Receiver::close`);
* the established-connection task's command loop (`connection/pool/task.rs`): commands are served
  before the connection is polled, `Close` closes the receiver and drops what is queued behind it;
* `Pool::poll`: one `Closed` report, else one pending-connection report, else `advance_local`
  (with `Config::without_executor()` tasks run nowhere else), `Pool::disconnect`, `spawn_connection`.

`State.fixed` selects the repaired `pool.rs` (an `EstablishedConnection` remembers `start_close`
and reports "closing" from `poll_ready_notify_handler`); `fixed = false` is the code as found.

Ghost data: every notification carries the target captured when the behaviour emitted it
(`Note.tgt`), every connection the list of notes its handler received (`Conn.got`), closed
connections are archived in `State.gone`, every undelivered note is recorded in `State.dropped`
together with the targets that were still established and not closing at that moment.
Import-free.
-/
namespace C07

/-- `PendingNotifyHandler` -/
inductive Target where
  | one (c : Nat)
  | any (ids : List Nat)
  deriving DecidableEq, Repr, Inhabited

/-- a numbered `THandlerInEvent` and (ghost) the target captured at emission -/
structure Note where
  n : Nat
  tgt : Target
  /-- ghost: value of the model's establishment clock when the behaviour emitted the event -/
  emitAt : Nat := 0
  deriving DecidableEq, Repr, Inhabited

/-- `task::Command` -/
inductive Cmd where
  | notify (e : Note)
  | close
  deriving DecidableEq, Repr, Inhabited

def Cmd.notes : List Cmd → List Note
  | [] => []
  | .notify e :: r => e :: Cmd.notes r
  | .close :: r => Cmd.notes r

/-- `Sender::poll_ready` as seen by `notify_one` / `notify_any` -/
inductive Ready where
  | ok | pending | err
  deriving DecidableEq, Repr, Inhabited

/-- an entry of `Pool::established` with its command channel and its task -/
structure Conn where
  id : Nat
  peer : Nat
  /-- message queue of the command channel, oldest first (`num_messages = q.length`) -/
  q : List Cmd := []
  /-- `sender_task.is_parked` of the sender held by `EstablishedConnection` -/
  parked : Bool := false
  /-- `parked_queue`: `true` = the main sender, `false` = a (dropped) clone made by `start_close` -/
  parkedQ : List Bool := []
  /-- channel state `is_open` -/
  rxOpen : Bool := true
  /-- `start_close` has been called (a field of `EstablishedConnection` in the repaired code) -/
  closing : Bool := false
  /-- environment: the muxer fails from now on (remote closed) -/
  muxFail : Bool := false
  /-- the task has returned; its `Closed` report waits in the event channel -/
  done : Bool := false
  /-- ghost: events passed to `on_behaviour_event`, in order -/
  got : List Note := []
  /-- ghost: value of the establishment clock when `spawn_connection` ran -/
  estAt : Nat := 0
  deriving Repr, Inhabited

def Conn.pollReady (fixed : Bool) (k : Conn) : Ready :=
  if fixed && k.closing then .err
  else if !k.rxOpen then .err
  else if k.parked then .pending
  else .ok

/-- `notify_handler` right after `poll_ready = Ready(Ok)`: `try_send`'s own two tests (parked,
closed) are the ones `poll_ready` just made, so the message is queued; the sender parks itself
when the count exceeds `buffer`. -/
def Conn.push (buf : Nat) (e : Note) (k : Conn) : Conn :=
  { k with
    q := k.q ++ [.notify e]
    parked := if (k.q ++ [Cmd.notify e]).length > buf then true else k.parked
    parkedQ := if (k.q ++ [Cmd.notify e]).length > buf then k.parkedQ ++ [true] else k.parkedQ }

/-- `start_close`: a fresh clone of the sender (never parked) sends `Close`; it fails only when the
channel is closed. -/
def Conn.startClose (buf : Nat) (k : Conn) : Conn :=
  if !k.rxOpen then { k with closing := true }
  else
    { k with
      closing := true
      q := k.q ++ [.close]
      parkedQ := if (k.q ++ [Cmd.close]).length > buf then k.parkedQ ++ [false] else k.parkedQ }

/-- `Receiver::next_message` pops a message: `unpark_one` -/
def Conn.unparkOne (k : Conn) : Conn :=
  match k.parkedQ with
  | [] => k
  | b :: r => { k with parkedQ := r, parked := if b then false else k.parked }

/-- the task serves the queued commands: result, delivered notes, notes dropped with the queue -/
def runCmds (k : Conn) : List Cmd → Conn × List Note × List Note
  | [] => ({ k with q := [] }, [], [])
  | .notify e :: rest =>
    let (k', del, drp) := runCmds { k.unparkOne with got := k.got ++ [e] } rest
    (k', e :: del, drp)
  | .close :: rest =>
    ({ k with q := [], rxOpen := false, parked := false, parkedQ := [], done := true }, [], Cmd.notes rest)

/-- one poll of `new_for_established_connection` -/
def Conn.runTask (k : Conn) : Conn × List Note × List Note :=
  if k.done then (k, [], []) else
  let (k1, del, drp) := runCmds k k.q
  if k1.done then (k1, del, drp)
  else if k1.muxFail then
    ({ k1 with rxOpen := false, parked := false, parkedQ := [], done := true }, del, drp)
  else (k1, del, drp)

def Conn.isLive (k : Conn) : Bool := !k.closing && k.rxOpen

/-- commands the scripted behaviour returns from `poll` -/
inductive BCmd where
  | one (c n : Nat)
  | any (p n : Nat) (choice : Option Nat)
  | closeOne (c : Nat)
  | closeAll (p : Nat)
  | gen
  deriving DecidableEq, Repr, Inhabited

def BCmd.nums : List BCmd → List Nat
  | [] => []
  | .one _ n :: r => n :: BCmd.nums r
  | .any _ n _ :: r => n :: BCmd.nums r
  | _ :: r => BCmd.nums r

/-- `pending_handler_event`: the note, the target list still to be tried, the Any-oracle -/
structure Pending where
  e : Note
  cur : Target
  ch : Option Nat
  deriving Repr, Inhabited

structure Drop where
  e : Note
  /-- targets (of the list still carried) established and neither closing nor closed at that moment -/
  live : List Nat
  /-- the same over ALL targets captured at emission (including ids `notify_any` pruned earlier) -/
  liveAll : List Nat
  deriving Repr, Inhabited

/-- an entry of `Pool::pending` whose task has not reported yet.  The `ConnectionId` was allocated
when the dial was built (`DialOpts`) / the inbound connection accepted — NOT when it gets established. -/
structure Dial where
  id : Nat
  /-- outbound: the expected peer; inbound: the authenticated peer, known once `resolved` -/
  peer : Nat
  inbound : Bool
  /-- `abort_notifier` dropped (`Pool::disconnect`) -/
  aborted : Bool
  /-- environment: the transport dial / inbound upgrade has completed -/
  resolved : Bool
  deriving Repr, Inhabited

/-- the pending task has something to report when it is polled -/
def Dial.ready (d : Dial) : Bool := d.aborted || d.resolved

structure PendMsg where
  id : Nat
  peer : Nat
  ok : Bool
  deriving Repr, Inhabited

structure State where
  fixed : Bool := true
  buf : Nat := 1
  conns : List Conn := []
  gone : List Conn := []
  behQ : List BCmd := []
  pending : Option Pending := none
  swarmEvs : Nat := 0
  dialing : List Dial := []
  pendQ : List PendMsg := []
  nextConn : Nat := 0
  nextEv : Nat := 0
  dropped : List Drop := []
  /-- ghost: global delivery log (connection, number) -/
  log : List (Nat × Nat) := []
  /-- ghost: numbers of the `NotifyHandler` events in the order `handle_behaviour_event` saw them -/
  emLog : List Nat := []
  /-- ghost: establishment clock (incremented by every `spawn_connection`) -/
  clock : Nat := 0
  /-- `TransportEvent::Incoming` events waiting in the scripted transport -/
  incomingQ : Nat := 0
  /-- harness convention: the outbound dial left open by a `dial` op and not yet named by a `resolve`
  op.  At most one at a time: the task of an open outbound dial wakes itself on every poll (its inner
  `FuturesUnordered`), and two such tasks make the pool's `FuturesUnordered` yield before all ready
  tasks have run — scheduling the model does not describe. -/
  openDial : Option Nat := none
  /-- an oracle token did not denote an enabled choice -/
  bad : Bool := false
  deriving Repr, Inhabited

def findConn (cs : List Conn) (c : Nat) : Option Conn := cs.find? (·.id == c)

/-- update the entry `get_established(c)` returns -/
def upd (cs : List Conn) (c : Nat) (f : Conn → Conn) : List Conn :=
  match cs with
  | [] => []
  | k :: r => if k.id == c then f k :: r else k :: upd r c f

def eraseConn (cs : List Conn) (c : Nat) : List Conn :=
  match cs with
  | [] => []
  | k :: r => if k.id == c then r else k :: eraseConn r c

def State.isLiveId (s : State) (id : Nat) : Bool :=
  match findConn s.conns id with
  | some k => k.isLive
  | none => false

def State.liveIds (s : State) : Target → List Nat
  | .one c => [c].filter s.isLiveId
  | .any ids => ids.filter s.isLiveId

def State.status (s : State) (id : Nat) : Option Ready :=
  (findConn s.conns id).map (Conn.pollReady s.fixed)

def State.dropNote (s : State) (e : Note) (cur : Target) : State :=
  { s with dropped := s.dropped ++ [⟨e, s.liveIds cur, s.liveIds e.tgt⟩] }

/-- the `Some((peer_id, handler, event))` arm of `poll_next_event` (after `take()`): returns the new
state and whether the event is still pending (`Poll::Pending` from every candidate) -/
def deliverPending (s : State) (p : Pending) : State × Bool :=
  match p.cur with
  | .one c =>
    match s.status c with
    | none => (s.dropNote p.e p.cur, false)
    | some .pending => ({ s with pending := some p }, true)
    | some .err => (s.dropNote p.e p.cur, false)
    | some .ok => ({ s with conns := upd s.conns c (Conn.push s.buf p.e) }, false)
  | .any ids =>
    let ready := ids.filter (fun id => s.status id == some .ok)
    let pend := ids.filter (fun id => s.status id == some .pending)
    match ready with
    | r0 :: _ =>
      let c := match p.ch with
        | some c => if ready.contains c then c else r0
        | none => r0
      ({ s with conns := upd s.conns c (Conn.push s.buf p.e), bad := s.bad || (p.ch != some c) }, false)
    | [] =>
      if pend.isEmpty then (s.dropNote p.e p.cur, false)
      else ({ s with pending := some { p with cur := .any pend } }, true)

/-- `Pool::disconnect` -/
def disconnect (s : State) (p : Nat) : State :=
  { s with
    conns := s.conns.map (fun k => if k.peer == p then k.startClose s.buf else k)
    dialing := s.dialing.map (fun d => if d.peer == p && !d.inbound then { d with aborted := true } else d) }

/-- `handle_behaviour_event` (only reached with `pending_handler_event = None`) -/
def handleBeh (s : State) : BCmd → State
  | .one c n => { s with pending := some ⟨⟨n, .one c, s.clock⟩, .one c, none⟩, emLog := s.emLog ++ [n] }
  | .any p n ch =>
    { s with pending := some ⟨⟨n, .any ((s.conns.filter (·.peer == p)).map (·.id)), s.clock⟩,
                              .any ((s.conns.filter (·.peer == p)).map (·.id)), ch⟩,
             emLog := s.emLog ++ [n] }
  | .closeOne c => { s with conns := upd s.conns c (Conn.startClose s.buf) }
  | .closeAll p => disconnect s p
  | .gen => { s with swarmEvs := s.swarmEvs + 1 }

/-- all connection tasks run once (`advance_local`) -/
def runAll : List Conn → List Conn × List (Nat × Nat) × List Note
  | [] => ([], [], [])
  | k :: r =>
    let (k', del, drp) := k.runTask
    let (r', lg, drp') := runAll r
    (k' :: r', del.map (fun e => (k.id, e.n)) ++ lg, drp ++ drp')

def dropAll (s : State) : List Note → State
  | [] => s
  | e :: r => dropAll (s.dropNote e e.tgt) r

def advanceLocal (s : State) : State :=
  let msgs := (s.dialing.filter Dial.ready).map (fun d => (⟨d.id, d.peer, !d.aborted⟩ : PendMsg))
  let (cs, lg, dr) := runAll s.conns
  dropAll { s with dialing := s.dialing.filter (fun d => !d.ready), pendQ := s.pendQ ++ msgs, conns := cs,
                   log := s.log ++ lg } dr

inductive Ret where
  | pending
  | gen
  | closed (c : Nat)
  | est (c p : Nat)
  | fail (c : Nat)
  | incoming (c : Nat)
  deriving DecidableEq, Repr, Inhabited

/-- the pool handles `EstablishedConnectionEvent::Closed` of connection `c` -/
def reportClosed (s : State) (c : Nat) (bad : Bool) : State × Option Ret :=
  ({ s with conns := eraseConn s.conns c, gone := s.gone ++ (findConn s.conns c).toList, bad := bad },
    some (.closed c))

/-- the pool handles a `PendingConnectionEvent` -/
def reportPending (s : State) (m : PendMsg) (bad : Bool) : State × Option Ret :=
  if m.ok then
    ({ s with pendQ := s.pendQ.filter (fun x : PendMsg => x.id != m.id), bad := bad,
              conns := s.conns ++ [({ id := m.id, peer := m.peer, estAt := s.clock } : Conn)],
              clock := s.clock + 1 }, some (.est m.id m.peer))
  else
    ({ s with pendQ := s.pendQ.filter (fun x : PendMsg => x.id != m.id), bad := bad }, some (.fail m.id))

def pickClosed (doneIds : List Nat) (d0 : Nat) : Option Nat → Nat
  | some c => if doneIds.contains c then c else d0
  | none => d0

def pickMsg (q : List PendMsg) (m0 : PendMsg) : Option Nat → PendMsg
  | some c => (q.find? (fun x : PendMsg => x.id == c)).getD m0
  | none => m0

/-- `Pool::poll`: `some ret` = `Poll::Ready(event)` (turned into a `SwarmEvent` by
`handle_pool_event`), `none` = `Poll::Pending` after `advance_local`.  Which of several waiting
reports comes first is the oracle `pick`. -/
def poolPoll (s : State) (pick : Option Nat) : State × Option Ret :=
  match (s.conns.filter (·.done)).map (·.id) with
  | d0 :: ds =>
    reportClosed s (pickClosed (d0 :: ds) d0 pick) (s.bad || (pick != some (pickClosed (d0 :: ds) d0 pick)))
  | [] =>
    match s.pendQ with
    | m0 :: _ => reportPending s (pickMsg s.pendQ m0 pick) (s.bad || (pick != some (pickMsg s.pendQ m0 pick).id))
    | [] => (advanceLocal s, none)

/-- a new entry of `Pool::pending`; this is where the `ConnectionId` is allocated -/
def State.alloc (s : State) (peer : Nat) (inbound resolved : Bool) : State :=
  { s with dialing := s.dialing ++ [⟨s.nextConn, peer, inbound, false, resolved⟩], nextConn := s.nextConn + 1 }

/-- the transport is polled last: `TransportEvent::Incoming` → `handle_transport_event` allocates the
id, `Pool::add_incoming`, `SwarmEvent::IncomingConnection` -/
def transportPoll (s : State) : State × Ret :=
  if s.incomingQ > 0 then
    (({ s with incomingQ := s.incomingQ - 1 } : State).alloc 0 true false, .incoming s.nextConn)
  else (s, .pending)

def poolPart (s : State) (pick : Option Nat) : State × Ret :=
  match poolPoll s pick with
  | (s', some r) => (s', r)
  | (s', none) => transportPoll s'

/-- `poll_next_event` -/
def pollLoop : Nat → State → Option Nat → State × Ret
  | 0, s, _ => (s, .pending)
  | fuel + 1, s, pick =>
    if s.swarmEvs > 0 then ({ s with swarmEvs := s.swarmEvs - 1 }, .gen) else
    match s.pending with
    | some p =>
      match deliverPending { s with pending := none } p with
      | (s1, true) => poolPart s1 pick
      | (s1, false) => pollLoop fuel s1 pick
    | none =>
      match s.behQ with
      | cmd :: rest => pollLoop fuel (handleBeh { s with behQ := rest } cmd) pick
      | [] => poolPart s pick

/-- commands of an `emit` op, before numbering -/
inductive ECmd where
  | one (c : Nat)
  | any (p : Nat) (choice : Option Nat)
  | closeOne (c : Nat)
  | closeAll (p : Nat)
  | gen
  deriving DecidableEq, Repr, Inhabited

/-- harness convention: a connection name that has not been handed out yet when the command is
queued denotes no connection at all (the harness has no `ConnectionId` for it) -/
def State.resolve (s : State) (c : Nat) : Nat := if c < s.nextConn then c else c + 1000000

def pushCmds (s : State) : List ECmd → State
  | [] => s
  | .one c :: r => pushCmds { s with behQ := s.behQ ++ [.one (s.resolve c) s.nextEv], nextEv := s.nextEv + 1 } r
  | .any p ch :: r => pushCmds { s with behQ := s.behQ ++ [.any p s.nextEv ch], nextEv := s.nextEv + 1 } r
  | .closeOne c :: r => pushCmds { s with behQ := s.behQ ++ [.closeOne (s.resolve c)] } r
  | .closeAll p :: r => pushCmds { s with behQ := s.behQ ++ [.closeAll p] } r
  | .gen :: r => pushCmds { s with behQ := s.behQ ++ [.gen] } r

inductive Op where
  /-- `Swarm::dial` whose transport dial completes at once -/
  | connect (p : Nat)
  /-- `Swarm::dial`: the id is allocated now, the transport dial stays open -/
  | dial (p : Nat)
  /-- the open dial / inbound upgrade of connection `c` completes (inbound: authenticating peer `p`) -/
  | resolve (c p : Nat)
  /-- the scripted transport gets a `TransportEvent::Incoming` -/
  | incoming
  | close (c : Nat)
  | disconnect (p : Nat)
  | rclose (c : Nat)
  | emit (cmds : List ECmd)
  | poll (pick : Option Nat)
  deriving Repr, Inhabited

inductive Out where
  | id (c : Nat)
  | res (b : Bool)
  | unit
  | n (next : Nat)
  | poll (ret : Ret) (deliv : List (Nat × Nat)) (drops : List Nat) (ne : Nat) (em : List Nat) (bad : Bool)
  deriving Repr, Inhabited

def insertBy (x : Nat × Nat) : List (Nat × Nat) → List (Nat × Nat)
  | [] => [x]
  | y :: r => if x.1 ≤ y.1 then x :: y :: r else y :: insertBy x r

/-- stable sort by connection -/
def groupByConn (l : List (Nat × Nat)) : List (Nat × Nat) := l.foldr insertBy []

def insertNat (x : Nat) : List Nat → List Nat
  | [] => [x]
  | y :: r => if x ≤ y then x :: y :: r else y :: insertNat x r

def sortNat (l : List Nat) : List Nat := l.foldr insertNat []

def pollFuel (s : State) : Nat := 2 * s.behQ.length + 4

def step (s : State) : Op → State × Out
  | .connect p => (s.alloc p false true, .id s.nextConn)
  | .dial p =>
    if s.openDial.isSome then (s.alloc p false true, .id s.nextConn)
    else ({ s.alloc p false false with openDial := some s.nextConn }, .id s.nextConn)
  | .resolve c p =>
    ({ s with
       openDial := if s.openDial == some c then none else s.openDial
       dialing := s.dialing.map (fun d =>
        if d.id == c && !d.resolved then { d with resolved := true, peer := if d.inbound then p else d.peer }
        else d) }, .unit)
  | .incoming => ({ s with incomingQ := s.incomingQ + 1 }, .unit)
  | .close c =>
    ({ s with conns := upd s.conns c (Conn.startClose s.buf) }, .res (findConn s.conns c).isSome)
  | .disconnect p => (disconnect s p, .res (s.conns.any (·.peer == p)))
  | .rclose c => ({ s with conns := upd s.conns c (fun k => { k with muxFail := true }) }, .unit)
  | .emit cmds => let s' := pushCmds s cmds; (s', .n s'.nextEv)
  | .poll pick =>
    let (s', ret) := pollLoop (pollFuel s) { s with bad := false } pick
    (s', .poll ret (groupByConn (s'.log.drop s.log.length))
                   (sortNat ((s'.dropped.drop s.dropped.length).map (·.e.n))) s'.conns.length
                   (s'.emLog.drop s.emLog.length) s'.bad)

/-- `Config::with_notify_handler_buffer_size(n)`: the command channel is `mpsc::channel(n - 1)` -/
def State.init (n : Nat) (fixed : Bool := true) : State := { buf := n - 1, fixed := fixed }

end C07
