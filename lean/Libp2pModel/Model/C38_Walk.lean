import Libp2pModel.Model.C38
import Libp2pModel.Model.C37
/-!
# C38 — `ClosestIter` on the full routing table of C37 (statuses, pending entries, clock)

`ClosestIter::next` visits the buckets in the order of `ClosestBucketsIter`; for every bucket it
visits it first calls `apply_pending` (recording the result in `applied_pending`), then takes
`bucket_size` entries and sorts them by distance to the target.
-/
namespace C38

/-- the keys one visited bucket contributes (after its pending entry was applied) -/
def sortedKeys (bsize target : Nat) (b : C37.Bucket) : List Nat :=
  ((b.nodes.map (·.key)).take bsize).mergeSort (closerTo target)

/-- walk the buckets `order` (fully consumed iterator): new table state and the yielded keys -/
def closestWalk (bsize target : Nat) : C37.Table → List Nat → C37.Table × List Nat
  | t, [] => (t, [])
  | t, i :: rest =>
    let (b, ap) := (t.bucket i).applyPending t.now (2 * t.ops)
    let t' := t.setBucket i b
    let t'' := match ap with
      | some a => { t' with applied := t'.applied ++ [a] }
      | none => t'
    let (tf, out) := closestWalk bsize target t'' rest
    (tf, sortedKeys bsize target b ++ out)

/-- `KBucketsTable::closest_keys(target).collect()` on the C37 table; one API call -/
def closestFull (bsize : Nat) (t : C37.Table) (target : Nat) : C37.Table × List Nat :=
  let (t', out) := closestWalk bsize target t (bucketOrder (t.localKey ^^^ target))
  (t'.bump, out)

/-- all keys stored in the table (bucket by bucket) -/
def storedKeys (t : C37.Table) : List Nat :=
  (List.range NUM_BUCKETS).flatMap fun i => (t.bucket i).nodes.map (·.key)

end C38
