/-!
# C51 — rendezvous server `Registrations` (protocols/rendezvous/src/server.rs)

Executable model of `Registrations::{add, remove, get, poll}` *as the code is* (after the three
repairs recorded in `findings/C51-*.fix.diff`; the pre-fix behaviour is kept as `Variant.buggy`),
and the executable Spec: a trace monitor holding the reference map
`(peer, namespace) ⇀ (id, ttl, deadline)` that judges the implementation's outputs.

Modelling decisions (all exercised by the correspondence run):
* `RegistrationId::new()` / `Cookie::for_*` draw random `u64`s; the model draws from the counters
  `nextId` / `nextCookie` (fresh by construction — collisions of the real 64-bit ids are not modelled).
* `BiMap` / `HashMap` are insertion-ordered association lists; `get`'s `take(limit)` over the hash
  map's iteration order is resolved by the oracle argument `chosen` (read off the implementation's
  answer and validated here).
* `LruCache<Cookie, HashSet<RegistrationId>>` is a list, least recently used first.
* `next_expiry` is the list of pending `(deadline, id)` timers; `advance d` moves the clock and
  performs every `poll` iteration whose timer is due, in bulk (`pollOne` is the one-iteration
  transcription; iterations for distinct ids commute).
Time is in seconds. No imports: the driver links against this file only.
-/
namespace C51

abbrev Key := Nat × Nat             -- (peer, namespace)
abbrev Cookie := Nat × Option Nat   -- (cookie id, namespace it is bound to)

/-- `crate::DEFAULT_TTL` -/
def DEFAULT_TTL : Nat := 7200

structure Cfg where
  minTtl : Nat
  maxTtl : Nat
  perPeer : Nat
  total : Nat
  cookieCap : Nat
deriving Repr, DecidableEq

/-- `Registration { namespace, record, ttl }`; the record is identified by its signer. -/
structure Reg where
  peer : Nat
  ns : Nat
  ttl : Nat
deriving Repr, DecidableEq

inductive Err
  | invalidTtl
  | unavailable
deriving Repr, DecidableEq

/-- which of the three repairs are present (`fixed` = the tree as it is now) -/
structure Variant where
  fixRefresh : Bool
  fixTotal : Bool
  fixSupersede : Bool
deriving Repr, DecidableEq

def Variant.fixed : Variant := ⟨true, true, true⟩
def Variant.buggy : Variant := ⟨false, false, false⟩

structure St where
  byPeer : List (Key × Nat)            -- registrations_for_peer : BiMap<(PeerId, Namespace), RegistrationId>
  regs : List (Nat × Reg)              -- registrations : HashMap<RegistrationId, Registration>
  cookies : List (Cookie × List Nat)   -- cookies : LruCache<Cookie, HashSet<RegistrationId>>, LRU first
  timers : List (Nat × Nat)            -- next_expiry : pending (deadline, id)
  now : Nat
  nextId : Nat
  nextCookie : Nat
deriving Repr, DecidableEq

def St.init : St := ⟨[], [], [], [], 0, 0, 0⟩

/-- `assoc.get(k)` -/
def lookup {α β} [DecidableEq α] (k : α) : List (α × β) → Option β
  | [] => none
  | (a, b) :: t => if a = k then some b else lookup k t

/-- number of registrations of `peer`: `left_values().filter(|(p, _)| p == &peer).count()` -/
def countPeer (bp : List (Key × Nat)) (peer : Nat) : Nat :=
  (bp.filter (fun e => decide (e.1.1 = peer))).length

/-- `Registrations::remove` -/
def remove (s : St) (peer ns : Nat) : St :=
  match lookup (peer, ns) s.byPeer with
  | some id =>
    { s with byPeer := s.byPeer.filter (fun e => !decide (e.1 = (peer, ns))),
             regs := s.regs.filter (fun e => !decide (e.1 = id)) }
  | none => s

/-- `BiMap::insert`: drops every pair sharing the left or the right value, then adds the pair -/
def bimapInsert (bp : List (Key × Nat)) (k : Key) (id : Nat) : List (Key × Nat) :=
  bp.filter (fun e => !decide (e.1 = k) && !decide (e.2 = id)) ++ [(k, id)]

/-- `HashMap::insert` -/
def mapInsert {β} (m : List (Nat × β)) (id : Nat) (v : β) : List (Nat × β) :=
  m.filter (fun e => !decide (e.1 = id)) ++ [(id, v)]

/-- `Registrations::add` -/
def add (v : Variant) (c : Cfg) (s : St) (peer ns : Nat) (ttlOpt : Option Nat) : St × Except Err Reg :=
  let ttl := ttlOpt.getD DEFAULT_TTL
  if ttl > c.maxTtl ∨ ttl < c.minTtl then (s, .error .invalidTtl)
  else
    let isRefresh := v.fixRefresh && (lookup (peer, ns) s.byPeer).isSome
    let totalFull := if v.fixTotal then decide (s.byPeer.length ≥ c.total) else decide (s.byPeer.length > c.total)
    if !isRefresh && (decide (countPeer s.byPeer peer ≥ c.perPeer) || totalFull) then (s, .error .unavailable)
    else
      let id := s.nextId
      let s1 := if v.fixSupersede then remove s peer ns else s
      let reg : Reg := ⟨peer, ns, ttl⟩
      ({ s1 with byPeer := bimapInsert s1.byPeer (peer, ns) id,
                 regs := mapInsert s1.regs id reg,
                 timers := s1.timers ++ [(s1.now + ttl, id)],
                 nextId := id + 1 }, .ok reg)

def nsMatch (q : Option Nat) (ns : Nat) : Bool :=
  match q with
  | none => true
  | some n => decide (n = ns)

/-- the two rejected combinations at the top of `get` -/
def cookieMismatch (q : Option Nat) (cookie : Option Cookie) : Bool :=
  match q, cookie.bind (·.2) with
  | none, some _ => true
  | some n, some cn => !decide (n = cn)
  | _, _ => false

/-- `LruCache::get`: the value, and the cache with the entry moved to the back -/
def lruGet (cs : List (Cookie × List Nat)) (ck : Cookie) : Option (List Nat) × List (Cookie × List Nat) :=
  match lookup ck cs with
  | some set => (some set, cs.filter (fun e => !decide (e.1 = ck)) ++ [(ck, set)])
  | none => (none, cs)

/-- `LruCache::insert`: (re)insert at the back, then drop the front entry if over capacity -/
def lruInsert (cap : Nat) (cs : List (Cookie × List Nat)) (ck : Cookie) (set : List Nat) : List (Cookie × List Nat) :=
  let cs' := cs.filter (fun e => !decide (e.1 = ck)) ++ [(ck, set)]
  if cs'.length > cap then cs'.tail else cs'

inductive Out
  | regOk (ttl : Nat)
  | regErr (e : Err)
  | unregOk
  | discOk (entries : List (Nat × Reg)) (cookieNs : Option Nat)
  | discMismatch
  | discBadOracle
  | discPanic
  | expired (entries : List (Nat × Reg))
  | bad
deriving Repr, DecidableEq

/-- ids `get` may return: current registrations of the namespace not recorded under the cookie -/
def candidates (s : St) (q : Option Nat) (seen : List Nat) : List Nat :=
  (s.byPeer.filter (fun e => !seen.contains e.2 && nsMatch q e.1.2)).map (·.2)

def allSome {α} : List (Option α) → Option (List α)
  | [] => some []
  | none :: _ => none
  | some a :: t => (allSome t).map (a :: ·)

/-- the oracle is admissible: distinct candidates, exactly `min limit |candidates|` of them -/
def validChoice (cands : List Nat) (limit : Option Nat) (chosen : List Nat) : Bool :=
  chosen.all (cands.contains ·) && chosen.Nodup && decide (chosen.length = min (limit.getD cands.length) cands.length)

/-- `Registrations::get` -/
def get (c : Cfg) (s : St) (q : Option Nat) (cookie : Option Cookie) (limit : Option Nat)
    (chosen : List Nat) : St × Out :=
  if cookieMismatch q cookie then (s, .discMismatch)
  else
    let (found, cookies1) :=
      match cookie with
      | some ck => lruGet s.cookies ck
      | none => (none, s.cookies)
    let seen := found.getD []
    let cands := candidates s q seen
    if !validChoice cands limit chosen then (s, .discBadOracle)
    else
      let newSeen := seen ++ chosen
      let newCookie : Cookie := (s.nextCookie, q)
      let s' := { s with cookies := lruInsert c.cookieCap cookies1 newCookie newSeen, nextCookie := s.nextCookie + 1 }
      match allSome (chosen.map (fun id => (lookup id s.regs).map (fun r => (id, r)))) with
      | some entries => (s', .discOk entries q)
      | none => (s', .discPanic)   -- `.expect("bad internal data structure")`

/-- the closure of `cookies.retain`: drop the ids failing `keep` from the stored set; the cookie is
retained iff registrations are left -/
def purgeEntry (keep : Nat → Bool) (e : Cookie × List Nat) : Option (Cookie × List Nat) :=
  let set := e.2.filter keep
  if set.isEmpty then none else some (e.1, set)

/-- one iteration of the loop in `Registrations::poll` for the fired timer `id` -/
def pollOne (s : St) (id : Nat) : St × Option (Nat × Reg) :=
  let cookies := s.cookies.filterMap (purgeEntry fun i => !decide (i = id))
  let byPeer := s.byPeer.filter (fun e => !decide (e.2 = id))
  match lookup id s.regs with
  | none => ({ s with cookies := cookies, byPeer := byPeer }, none)
  | some r => ({ s with cookies := cookies, byPeer := byPeer, regs := s.regs.filter (fun e => !decide (e.1 = id)) }, some (id, r))

/-- ids whose timer is due at time `t` -/
def dueIds (s : St) (t : Nat) : List Nat :=
  (s.timers.filter (fun e => decide (e.1 ≤ t))).map (·.2)

/-- move the clock by `d` and run `poll` until `Pending`: every due timer's iteration, in bulk -/
def advance (s : St) (d : Nat) : St × Out :=
  let t := s.now + d
  let due := dueIds s t
  let cookies :=
    if due.isEmpty then s.cookies
    else s.cookies.filterMap (purgeEntry fun i => !due.contains i)
  ({ s with cookies := cookies,
            byPeer := s.byPeer.filter (fun e => !due.contains e.2),
            regs := s.regs.filter (fun e => !due.contains e.1),
            timers := s.timers.filter (fun e => decide (t < e.1)),
            now := t },
   .expired (s.regs.filter (fun e => due.contains e.1)))

inductive Op
  | reg (peer ns : Nat) (ttl : Option Nat)
  | unreg (peer ns : Nat)
  | disc (q : Option Nat) (cookie : Option Cookie) (limit : Option Nat) (chosen : List Nat)
  | adv (d : Nat)
deriving Repr, DecidableEq

def stepV (v : Variant) (c : Cfg) (s : St) : Op → St × Out
  | .reg peer ns ttl =>
    match add v c s peer ns ttl with
    | (s', .ok r) => (s', .regOk r.ttl)
    | (s', .error e) => (s', .regErr e)
  | .unreg peer ns => (remove s peer ns, .unregOk)
  | .disc q cookie limit chosen => get c s q cookie limit chosen
  | .adv d => advance s d

/-- the model of the code as it is -/
def step (c : Cfg) (s : St) (o : Op) : St × Out := stepV .fixed c s o

/-! ## Spec: the reference monitor -/

structure Live where
  id : Nat
  ttl : Nat
  deadline : Nat
deriving Repr, DecidableEq

/-- Reference state: the map `(peer, ns) ⇀ (id, ttl, deadline)` of current registrations, the clock,
the ids handed out along the chain that ends in the most recently issued cookie, and the ids
delivered along the chain of every cookie seen issued. -/
structure Ref where
  live : List (Key × Live)
  now : Nat
  nextId : Nat
  nextCookie : Nat
  chain : Option (Cookie × List Nat)
  /-- for every cookie seen ISSUED: the ids delivered along its chain, up to and including the
  response that issued it -/
  delivered : List (Cookie × List Nat)
deriving Repr, DecidableEq

def Ref.init : Ref := ⟨[], 0, 0, 0, none, []⟩

def liveEntry (e : Key × Live) : Nat × Reg := (e.2.id, ⟨e.1.1, e.1.2, e.2.ttl⟩)

def countLive (l : List (Key × Live)) (peer : Nat) : Nat :=
  (l.filter (fun e => decide (e.1.1 = peer))).length

/-- a discovered entry is a current, unexpired registration of the requested namespace, reported
with the data it was registered with -/
def entryLive (r : Ref) (q : Option Nat) (x : Nat × Reg) : Bool :=
  nsMatch q x.2.ns &&
  r.live.any (fun e => decide (e.1 = (x.2.peer, x.2.ns)) && decide (e.2.id = x.1) && decide (e.2.ttl = x.2.ttl) && decide (r.now < e.2.deadline))

/-- the ids already handed out along the chain, when the presented cookie is the chain's latest -/
def chainPrev (chain : Option (Cookie × List Nat)) (cookie : Option Cookie) : List Nat :=
  match chain, cookie with
  | some (ck, seen), some ck' => if ck = ck' then seen else []
  | _, _ => []

/-- the ids already delivered along the chain of the presented cookie (any cookie seen issued) -/
def deliveredPrev (delivered : List (Cookie × List Nat)) (cookie : Option Cookie) : List Nat :=
  (cookie.bind fun ck => lookup ck delivered).getD []

/-- One monitor step: given the op and the implementation's answer, the new reference state and the
verdict (`"ok"` or `"FAIL:<clause>"`). -/
def specStep (c : Cfg) (r : Ref) (o : Op) (out : Out) : Ref × String :=
  match o, out with
  | .reg peer ns ttlOpt, .regOk t =>
    let ttl := ttlOpt.getD DEFAULT_TTL
    let isNew := (lookup (peer, ns) r.live).isNone
    let r' := { r with live := r.live.filter (fun e => !decide (e.1 = (peer, ns))) ++ [((peer, ns), ⟨r.nextId, t, r.now + t⟩)],
                       nextId := r.nextId + 1 }
    (r',
      if ttl > c.maxTtl ∨ ttl < c.minTtl then "FAIL:ttl_bounds"
      else if t ≠ ttl then "FAIL:ttl_echo"
      else if isNew && decide (countLive r.live peer ≥ c.perPeer) then "FAIL:per_peer_limit"
      else if isNew && decide (r.live.length ≥ c.total) then "FAIL:total_limit"
      else "ok")
  | .reg peer ns ttlOpt, .regErr _ =>
    let ttl := ttlOpt.getD DEFAULT_TTL
    (r,
      if ttl > c.maxTtl ∨ ttl < c.minTtl then "ok"
      else if (lookup (peer, ns) r.live).isSome then "FAIL:refresh_refused"
      else if decide (countLive r.live peer ≥ c.perPeer) || decide (r.live.length ≥ c.total) then "ok"
      else "FAIL:reject_unjustified")
  | .unreg peer ns, .unregOk =>
    ({ r with live := r.live.filter (fun e => !decide (e.1 = (peer, ns))) }, "ok")
  | .disc q cookie _ _, .discMismatch =>
    (r, if cookieMismatch q cookie then "ok" else "FAIL:cookie_ns")
  | .disc q cookie _ _, .discOk entries cns =>
    let ids := entries.map (·.1)
    let prev : List Nat := chainPrev r.chain cookie
    let prevAll : List Nat := deliveredPrev r.delivered cookie
    let r' := { r with chain := some ((r.nextCookie, q), prev ++ ids), nextCookie := r.nextCookie + 1,
                       delivered := r.delivered ++ [((r.nextCookie, q), prevAll ++ ids)] }
    (r',
      if cookieMismatch q cookie then "FAIL:cookie_ns"
      else if cns ≠ q then "FAIL:cookie_ns"
      else if !entries.all (entryLive r q) then "FAIL:discover_live_only"
      else if !ids.Nodup then "FAIL:cookie_once"
      else if decide (c.cookieCap ≥ 1) && ids.any (prev.contains ·) then "FAIL:cookie_once"
      -- any earlier cookie, as long as no eviction can have happened yet: at most `max_cookies`
      -- cookies have been issued so far, so every issued cookie is still in the cache
      else if decide (r.nextCookie ≤ c.cookieCap) && ids.any (prevAll.contains ·) then "FAIL:cookie_once_replayed"
      else "ok")
  | .adv d, .expired entries =>
    let t := r.now + d
    let expected := (r.live.filter (fun e => decide (e.2.deadline ≤ t))).map liveEntry
    ({ r with live := r.live.filter (fun e => decide (t < e.2.deadline)), now := t },
      if entries = expected then "ok" else "FAIL:expired_exact")
  | _, _ => (r, "FAIL:unexpected_output")

end C51
