import Libp2pModel.Model.C19_Key
/-!
# C19 (part 3) — pnet `CryptWriter` / `PnetOutput` (`transports/pnet/src/{crypt_writer,lib}.rs`)

XSalsa20 is an abstract keystream `ks : Nat → Nat` (byte `i` of the stream); `apply_keystream` on a
cipher at position `pos` is `xorKs ks pos`.  The inner writer is scripted: every `poll_write` it
receives consumes one `Resp` (`acc k` = accept `min k len` bytes, so every legal answer `n ≤ len`
is covered; an exhausted script answers `Pending`).
-/
namespace C19

/-- `apply_keystream` from stream position `pos` -/
def xorKs (ks : Nat → Nat) : Nat → Bytes → Bytes
  | _, [] => []
  | pos, b :: r => (b ^^^ ks pos) :: xorKs ks (pos + 1) r

/-- one answer of the inner `AsyncWrite::poll_write` -/
inductive Resp
  | acc (k : Nat)     -- `Ready(Ok(min k len))`
  | pending           -- `Pending`
  | err               -- `Ready(Err(e))`, `e.kind() != Interrupted`
  | intr              -- `Ready(Err(Interrupted))`
  deriving DecidableEq, Repr

inductive FlushRes | ready | pending | errWriteZero | errInner
  deriving DecidableEq, Repr

/-- the `while written < len` loop of `poll_flush_buf`; returns the verdict, `written`, and the
unconsumed script -/
def flushLoop (buf : Bytes) : Nat → List Resp → FlushRes × Nat × List Resp
  | w, [] => if w < buf.length then (.pending, w, []) else (.ready, w, [])
  | w, r :: s =>
    if w < buf.length then
      match r with
      | .acc k =>
        let n := min k (buf.length - w)
        if n > 0 then flushLoop buf (w + n) s else (.errWriteZero, w, s)
      | .err => (.errInner, w, s)
      | .intr => flushLoop buf w s
      | .pending => (.pending, w, s)
    else (.ready, w, r :: s)

/-- `CryptWriter` (+ what the inner writer has received so far, `wire`, and — ghost — every byte that
went through the cipher, `plain`) -/
structure CW where
  buf : Bytes
  pos : Nat
  wire : Bytes
  plain : Bytes
  deriving Repr

def CW.init : CW := ⟨[], 0, [], []⟩

/-- `poll_flush_buf`: run the loop, `buf.drain(..written)` -/
def flushBuf (st : CW) (script : List Resp) : CW × FlushRes × List Resp :=
  let (res, w, s') := flushLoop st.buf 0 script
  ({ st with buf := st.buf.drop w, wire := st.wire ++ st.buf.take w }, res, s')

inductive WRes
  | ok (n : Nat) | pending | errWriteZero | errInner
  deriving DecidableEq, Repr

def FlushRes.toW : FlushRes → WRes
  | .ready => .ok 0 | .pending => .pending | .errWriteZero => .errWriteZero | .errInner => .errInner

/-- `CryptWriter::poll_write` -/
def pollWrite (ks : Nat → Nat) (st : CW) (data : Bytes) (script : List Resp) : CW × WRes × List Resp :=
  let (st1, r1, s1) := flushBuf st script
  match r1 with
  | .pending => (st1, .pending, s1)
  | .errWriteZero => (st1, .errWriteZero, s1)
  | .errInner => (st1, .errInner, s1)
  | .ready =>
    -- `Pin::new(&mut *this.buf).poll_write(cx, buf)` appends all of `data`;
    -- `this.cipher.apply_keystream(&mut this.buf[0..count])`
    let b' := st1.buf ++ data
    let count := data.length
    let b'' := xorKs ks st1.pos (b'.take count) ++ b'.drop count
    let st2 := { st1 with buf := b'', pos := st1.pos + count, plain := st1.plain ++ b'.take count }
    let (st3, r3, s3) := flushBuf st2 s1
    match r3 with
    | .errWriteZero => (st3, .errWriteZero, s3)
    | .errInner => (st3, .errInner, s3)
    | _ => (st3, .ok count, s3)

/-- `CryptWriter::poll_flush` / `poll_close` (the inner `poll_flush`/`poll_close` answer `Ok`) -/
def pollFlush (st : CW) (script : List Resp) : CW × WRes × List Resp :=
  let (st1, r1, s1) := flushBuf st script
  (st1, r1.toW, s1)

/-- `PnetOutput::poll_read` on the peer: the transport yields `size = min n m avail` bytes
(`m` = what the transport is willing to give now), deciphered in place at `rpos`. -/
def pnetRead (ks : Nat → Nat) (wire : Bytes) (rpos n m : Nat) : Nat × Option Bytes :=
  let avail := wire.drop rpos
  let size := min (min n m) avail.length
  if avail.isEmpty ∨ size = 0 then (rpos, none)   -- `Pending` (or a 0-byte read when n = 0)
  else (rpos + size, some (xorKs ks rpos (avail.take size)))

/-- writer endpoint + reader endpoint sharing the keystream (same key, same nonce) -/
structure PnetSt where
  cw : CW
  rpos : Nat
  delivered : Bytes
  deriving Repr

def PnetSt.init : PnetSt := ⟨CW.init, 0, []⟩

inductive POp
  | write (data : Bytes) (script : List Resp)
  | flush (script : List Resp)
  | read (n m : Nat)
  deriving Repr

inductive POut
  | w (r : WRes) (unused : Nat) (wire : Bytes)
  | r (out : Option Bytes)
  deriving DecidableEq, Repr

def pnetStep (ks : Nat → Nat) (st : PnetSt) : POp → PnetSt × POut
  | .write data script =>
    let (cw, r, s) := pollWrite ks st.cw data script
    ({ st with cw := cw }, .w r s.length (cw.wire.drop st.cw.wire.length))
  | .flush script =>
    let (cw, r, s) := pollFlush st.cw script
    ({ st with cw := cw }, .w r s.length (cw.wire.drop st.cw.wire.length))
  | .read n m =>
    let (rpos, out) := pnetRead ks st.cw.wire st.rpos n m
    ({ st with rpos := rpos, delivered := st.delivered ++ out.getD [] }, .r out)

/-! ## executable Spec: a monitor over the IMPLEMENTATION's outputs -/

structure PnetMon where
  /-- plaintext the writer reported as accepted (`Ok(n)`) -/
  accepted : Bytes
  /-- bytes the inner writer received -/
  wire : Bytes
  /-- plaintext the reader returned -/
  delivered : Bytes
  /-- a write/flush returned an error: the stream is dead, later ops are not judged -/
  dead : Bool
  deriving Repr

def PnetMon.init : PnetMon := ⟨[], [], [], false⟩

def isPrefix (a b : Bytes) : Bool := a == b.take a.length

/-- Judge one step.  Clauses: `accept_len` an accepted write takes the whole buffer;
`wire_is_cipher` what reached the inner writer is the keystream-xor of the accepted plaintext, in
order, nothing lost or duplicated; `flush_complete` after `Ok` from flush nothing is buffered;
`delivered_prefix` the reader returns exactly the accepted plaintext, in order. -/
def pnetJudge (ks : Nat → Nat) (m : PnetMon) (op : POp) (out : POut) : PnetMon × String :=
  if m.dead then (m, "ok") else
  match op, out with
  | .write data _, .w r _ wire =>
    match r with
    | .ok n =>
      let m' := { m with accepted := m.accepted ++ data.take n, wire := m.wire ++ wire }
      if n ≠ data.length then (m', "FAIL:accept_len")
      else if !isPrefix m'.wire (xorKs ks 0 m'.accepted) then (m', "FAIL:wire_is_cipher")
      else (m', "ok")
    | .pending =>
      let m' := { m with wire := m.wire ++ wire }
      if !isPrefix m'.wire (xorKs ks 0 m'.accepted) then (m', "FAIL:wire_is_cipher") else (m', "ok")
    | _ => ({ m with dead := true }, "ok")
  | .flush _, .w r _ wire =>
    let m' := { m with wire := m.wire ++ wire }
    match r with
    | .ok _ =>
      if !isPrefix m'.wire (xorKs ks 0 m'.accepted) then (m', "FAIL:wire_is_cipher")
      else if m'.wire.length ≠ m'.accepted.length then (m', "FAIL:flush_complete")
      else (m', "ok")
    | .pending =>
      if !isPrefix m'.wire (xorKs ks 0 m'.accepted) then (m', "FAIL:wire_is_cipher") else (m', "ok")
    | _ => ({ m' with dead := true }, "ok")
  | .read _ _, .r o =>
    let m' := { m with delivered := m.delivered ++ o.getD [] }
    if !isPrefix m'.delivered m'.accepted then (m', "FAIL:delivered_prefix")
    else if m'.delivered.length > m'.wire.length then (m', "FAIL:delivered_prefix")
    else (m', "ok")
  | _, _ => (m, "FAIL:unparsable")

end C19
