import Libp2pModel.Common.Drv
import Libp2pModel.Common.Multiaddr
/-!
# C44 — Kademlia message ↔ protobuf conversions (`protocols/kad/src/protocol.rs`)

`req_msg_to_proto`, `resp_msg_to_proto`, `proto_to_req_msg`, `proto_to_resp_msg`,
`record_to_proto`, `record_from_proto`, `KadPeer ↔ proto::Peer`, transcribed branch for branch on
abstract `proto::Message` records.

Two external parsers are oracles carried inside the proto-level values (their verdicts are read
off the real crates by the harness): `PeerId::from_bytes` (`PId.valid`) and
`Multiaddr::try_from(Vec<u8>)` (`PAddr.good a` / `PAddr.bad bytes`).  The theorems hold for every
assignment of these verdicts.  `prost`'s byte encoding is exercised by the harness, not modelled.
-/
namespace C44

abbrev Bytes := List Nat

def NS : Nat := 1000000000
def u32Max : Nat := 2 ^ 32 - 1

/-! ## proto level (`dht.pb.rs`) -/

/-- bytes of a peer id together with the verdict of `PeerId::from_bytes` -/
structure PId where
  bytes : Bytes
  valid : Bool
  deriving DecidableEq, Repr, Inhabited

/-- one `addrs` entry together with the verdict of `Multiaddr::try_from` -/
inductive PAddr where
  | good (a : Maddr)
  | bad (b : Bytes)
  deriving DecidableEq, Repr

structure PPeer where
  id : PId
  conn : Int
  addrs : List PAddr
  deriving DecidableEq, Repr

structure PRecord where
  key : Bytes
  value : Bytes
  publisher : PId
  ttl : Nat
  timeReceived : Bytes
  deriving DecidableEq, Repr

/-- `proto::Record::default()` -/
def PRecord.default : PRecord := ⟨[], [], ⟨[], false⟩, 0, []⟩

structure PMsg where
  ty : Int
  cl : Int
  key : Bytes
  record : Option PRecord
  closer : List PPeer
  provider : List PPeer
  deriving DecidableEq, Repr

/-- `proto::Message::default()` -/
def PMsg.default : PMsg := ⟨0, 0, [], none, [], []⟩

/-! ## Kademlia level -/

inductive ConnTy where
  | notConnected | connected | canConnect | cannotConnect
  deriving DecidableEq, Repr

def ConnTy.toInt : ConnTy → Int
  | .notConnected => 0 | .connected => 1 | .canConnect => 2 | .cannotConnect => 3

/-- `proto::ConnectionType::try_from(i32)` -/
def ConnTy.ofInt (i : Int) : Option ConnTy :=
  if i = 0 then some .notConnected else if i = 1 then some .connected
  else if i = 2 then some .canConnect else if i = 3 then some .cannotConnect else none

structure KadPeer where
  nodeId : Bytes
  conn : ConnTy
  addrs : List Maddr
  deriving DecidableEq, Repr

structure Record where
  key : Bytes
  value : Bytes
  publisher : Option Bytes
  expires : Option Nat
  deriving DecidableEq, Repr

inductive Req where
  | ping
  | findNode (key : Bytes)
  | getProviders (key : Bytes)
  | addProvider (key : Bytes) (provider : KadPeer)
  | getValue (key : Bytes)
  | putValue (record : Record)
  deriving DecidableEq, Repr

inductive Resp where
  | pong
  | findNode (closer : List KadPeer)
  | getProviders (closer : List KadPeer) (provider : List KadPeer)
  | getValue (record : Option Record) (closer : List KadPeer)
  | putValue (key : Bytes) (value : Bytes)
  deriving DecidableEq, Repr

/-- the `io::Error`s of the decoders -/
inductive Err where
  | unknownType | badPublisher | noValidPeer | noRecord | unexpectedAddProvider
  deriving DecidableEq, Repr

/-! ## peers -/

/-- `impl From<KadPeer> for proto::Peer` -/
def peerToProto (p : KadPeer) : PPeer :=
  ⟨⟨p.nodeId, true⟩, p.conn.toInt, p.addrs.map .good⟩

/-- the address loop of `KadPeer::try_from`: parse, `with_p2p(node_id)`, skip failures -/
def addrFromProto (id : Bytes) : PAddr → Option Maddr
  | .good a => Maddr.withP2p a id
  | .bad _ => none

/-- `impl TryFrom<proto::Peer> for KadPeer` (`none` = any of its errors) -/
def peerFromProto (p : PPeer) : Option KadPeer :=
  if p.id.valid then
    match ConnTy.ofInt p.conn with
    | some c => some ⟨p.id.bytes, c, p.addrs.filterMap (addrFromProto p.id.bytes)⟩
    | none => none
  else none

/-! ## records -/

/-- `record_to_proto(..).ttl` (as repaired for C42) -/
def toProtoTtl (expires : Option Nat) (now : Nat) : Nat :=
  match expires with
  | none => 0
  | some t => if t > now then max (min ((t - now) / NS) u32Max) 1 else 1

def recordToProto (now : Nat) (r : Record) : PRecord :=
  { key := r.key, value := r.value,
    publisher := match r.publisher with
      | some b => ⟨b, true⟩
      | none => ⟨[], false⟩,
    ttl := toProtoTtl r.expires now, timeReceived := [] }

def recordFromProto (now : Nat) (r : PRecord) : Except Err Record :=
  if r.publisher.bytes ≠ [] ∧ r.publisher.valid = false then .error .badPublisher
  else .ok
    { key := r.key, value := r.value,
      publisher := if r.publisher.bytes ≠ [] then some r.publisher.bytes else none,
      expires := if r.ttl > 0 then some (now + r.ttl * NS) else none }

/-! ## messages -/

def reqToProto (now : Nat) : Req → PMsg
  | .ping => { PMsg.default with ty := 5 }
  | .findNode key => { PMsg.default with ty := 4, key := key, cl := 10 }
  | .getProviders key => { PMsg.default with ty := 3, key := key, cl := 10 }
  | .addProvider key p => { PMsg.default with ty := 2, cl := 10, key := key, provider := [peerToProto p] }
  | .getValue key => { PMsg.default with ty := 1, cl := 10, key := key }
  | .putValue r => { PMsg.default with ty := 0, key := r.key, record := some (recordToProto now r) }

def respToProto (now : Nat) : Resp → PMsg
  | .pong => { PMsg.default with ty := 5 }
  | .findNode closer => { PMsg.default with ty := 4, cl := 9, closer := closer.map peerToProto }
  | .getProviders closer prov =>
    { PMsg.default with ty := 3, cl := 9, closer := closer.map peerToProto, provider := prov.map peerToProto }
  | .getValue r closer =>
    { PMsg.default with ty := 1, cl := 9, closer := closer.map peerToProto, record := r.map (recordToProto now) }
  | .putValue key value =>
    { PMsg.default with ty := 0, key := key, record := some { PRecord.default with key := key, value := value } }

/-- `proto_to_req_msg` -/
def protoToReq (now : Nat) (m : PMsg) : Except Err Req :=
  if m.ty = 5 then .ok .ping
  else if m.ty = 0 then
    match recordFromProto now (m.record.getD PRecord.default) with
    | .ok r => .ok (.putValue r)
    | .error e => .error e
  else if m.ty = 1 then .ok (.getValue m.key)
  else if m.ty = 4 then .ok (.findNode m.key)
  else if m.ty = 3 then .ok (.getProviders m.key)
  else if m.ty = 2 then
    match m.provider.findSome? peerFromProto with
    | some p => .ok (.addProvider m.key p)
    | none => .error .noValidPeer
  else .error .unknownType

/-- `proto_to_resp_msg` -/
def protoToResp (now : Nat) (m : PMsg) : Except Err Resp :=
  if m.ty = 5 then .ok .pong
  else if m.ty = 1 then
    match m.record with
    | some r =>
      match recordFromProto now r with
      | .ok rec => .ok (.getValue (some rec) (m.closer.filterMap peerFromProto))
      | .error e => .error e
    | none => .ok (.getValue none (m.closer.filterMap peerFromProto))
  else if m.ty = 4 then .ok (.findNode (m.closer.filterMap peerFromProto))
  else if m.ty = 3 then
    .ok (.getProviders (m.closer.filterMap peerFromProto) (m.provider.filterMap peerFromProto))
  else if m.ty = 0 then
    match m.record with
    | some r => .ok (.putValue m.key r.value)
    | none => .error .noRecord
  else if m.ty = 2 then .error .unexpectedAddProvider
  else .error .unknownType

/-! ## the documented normalisations of a round trip -/

/-- addresses get the `/p2p/<node_id>` suffix; those ending in a different `/p2p` are dropped -/
def normPeer (p : KadPeer) : KadPeer :=
  { p with addrs := p.addrs.filterMap (fun a => Maddr.withP2p a p.nodeId) }

/-- an expiry becomes whole seconds (at least 1, at most `u32::MAX`) from `now` -/
def normExp (now : Nat) : Option Nat → Option Nat
  | none => none
  | some t => some (now + toProtoTtl (some t) now * NS)

def normRecord (now : Nat) (r : Record) : Record := { r with expires := normExp now r.expires }

def normReq (now : Nat) : Req → Req
  | .addProvider key p => .addProvider key (normPeer p)
  | .putValue r => .putValue (normRecord now r)
  | m => m

def normResp (now : Nat) : Resp → Resp
  | .findNode c => .findNode (c.map normPeer)
  | .getProviders c p => .getProviders (c.map normPeer) (p.map normPeer)
  | .getValue r c => .getValue (r.map (normRecord now)) (c.map normPeer)
  | m => m

/-- well-formedness that the Rust types guarantee: a `PeerId` is never the empty byte string -/
def Record.WF (r : Record) : Prop := r.publisher ≠ some []
def Req.WF : Req → Prop
  | .putValue r => r.WF
  | _ => True
def Resp.WF : Resp → Prop
  | .getValue (some r) _ => r.WF
  | _ => True

instance (r : Record) : Decidable r.WF := by unfold Record.WF; infer_instance

/-! ## executable Spec -/

/-- what the harness reports for one decode -/
inductive Res (α : Type) where
  | ok (m : α)
  | err (e : Err)
  | panic
  deriving DecidableEq, Repr

def Res.ofExcept {α} : Except Err α → Res α
  | .ok m => .ok m
  | .error e => .err e

/-- encode-then-decode of a request yields the same message (up to the normalisation) -/
def specReq (now : Nat) (m : Req) (res : Res Req) : String :=
  match res with
  | .panic => "FAIL:panic"
  | .err _ => "FAIL:roundtrip_error"
  | .ok m' => if m' = normReq now m then "ok" else "FAIL:roundtrip_differs"

def specResp (now : Nat) (m : Resp) (res : Res Resp) : String :=
  match res with
  | .panic => "FAIL:panic"
  | .err _ => "FAIL:roundtrip_error"
  | .ok m' => if m' = normResp now m then "ok" else "FAIL:roundtrip_differs"

/-- arbitrary input decodes to a message or an error, never a panic -/
def specDecode {α} (res : Res α) : String :=
  match res with
  | .panic => "FAIL:panic"
  | _ => "ok"

end C44
