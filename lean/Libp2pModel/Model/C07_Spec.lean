import Libp2pModel.Model.C07
/-!
# C07 — executable Spec: a trace monitor over the IMPLEMENTATION's lines only

The monitor never looks at the model.  From the ops it knows which events were pushed onto the
behaviour's queue with which target, which connection belongs to which peer, and for which
connections a close was requested (API close / disconnect / remote close, or a queued behaviour
`CloseConnection` — counted from the moment it is queued, an over-approximation).  From the
implementation's poll lines it learns establishments, closes, deliveries and drops, and judges:

* `deliver_*`   a delivered event was pushed, is delivered/dropped at most once, goes to an
                established connection; `One(c)` only to `c`; `Any(p)` only to a connection of `p`;
* `order`       numbers delivered to one handler increase (numbers are assigned in emission order);
* `deliver_any_not_captured`  an `Any` event is delivered only to a connection that was established
                (reported established and not yet reported closed) when the behaviour emitted it — the
                harness logs the emission, the monitor snapshots its own established set at that moment;
* `lost_one`    a dropped `One(c)` event: `c` is not established or a close was requested;
* `lost_any`    a dropped `Any(p)` event: every connection of `p` that was established when the event
                was queued and still is, has a close requested.
-/
namespace C07.Spec

inductive Tgt where
  | one (c : Nat)
  /-- peer, connections established when the event was queued -/
  | any (p : Nat) (snapshot : List Nat)
  deriving Repr, Inhabited

structure Mon where
  nextConn : Nat := 0
  peerOf : List (Nat × Nat) := []
  est : List Nat := []
  everEst : List Nat := []
  closeReq : List Nat := []
  closePeers : List Nat := []
  /-- targets by event number (index = number) -/
  tgts : List Tgt := []
  deliv : List (Nat × Nat) := []
  drops : List Nat := []
  /-- event number ↦ connections established when the behaviour emitted it -/
  emitted : List (Nat × List Nat) := []
  deriving Repr, Inhabited

def Mon.peer (m : Mon) (c : Nat) : Option Nat := (m.peerOf.find? (·.1 == c)).map (·.2)

def Mon.emittedAt (m : Mon) (n : Nat) : Option (List Nat) := (m.emitted.find? (·.1 == n)).map (·.2)

def Mon.closeRequested (m : Mon) (c : Nat) : Bool :=
  m.closeReq.contains c || (match m.peer c with | some p => m.closePeers.contains p | none => false)

/-- parsed emit command -/
inductive PCmd where
  | one (c : Nat) | any (p : Nat) | cone (c : Nat) | call (p : Nat) | gen
  deriving Repr, Inhabited

inductive POp where
  | connect (p : Nat) | close (c : Nat) | disconnect (p : Nat) | rclose (c : Nat)
  | emit (l : List PCmd) | poll | other
  deriving Repr, Inhabited

inductive PRet where
  | pending | gen | closed (c : Nat) | est (c p : Nat) | fail (c : Nat) | incoming (c : Nat)
  deriving Repr, Inhabited

/-- harness convention: a name not handed out yet when the command is queued denotes no connection -/
def Mon.resolve (m : Mon) (c : Nat) : Nat := if c < m.nextConn then c else c + 1000000

def pushCmd (m : Mon) : PCmd → Mon
  | .one c => { m with tgts := m.tgts ++ [.one (m.resolve c)] }
  | .any p => { m with tgts := m.tgts ++ [.any p m.est] }
  | .cone c => { m with closeReq := m.resolve c :: m.closeReq }
  | .call p => { m with closePeers := p :: m.closePeers }
  | .gen => m

/-- bookkeeping of an op (inputs only) -/
def Mon.op (m : Mon) : POp → Mon
  | .connect p => { m with peerOf := (m.nextConn, p) :: m.peerOf, nextConn := m.nextConn + 1 }
  | .close c => { m with closeReq := c :: m.closeReq }
  | .disconnect p => { m with closeReq := (m.est.filter (fun c => m.peer c == some p)) ++ m.closeReq }
  | .rclose c => { m with closeReq := c :: m.closeReq }
  | .emit l => l.foldl pushCmd m
  | .poll => m
  | .other => m

def checkDeliv (m : Mon) (c n : Nat) : Option String :=
  match m.tgts[n]? with
  | none => some "deliver_unknown_event"
  | some t =>
    if m.deliv.any (·.2 == n) || m.drops.contains n then some "deliver_twice"
    else if !m.est.contains c then some "deliver_unestablished"
    else if m.deliv.any (fun d => d.1 == c && d.2 ≥ n) then some "order"
    else match t with
      | .one c' => if c' == c then none else some "deliver_one_wrong_target"
      | .any p _ =>
        if !(m.peer c == some p && m.everEst.contains c) then some "deliver_any_wrong_target"
        else match m.emittedAt n with
          | none => some "deliver_before_emission"
          | some snap => if snap.contains c then none else some "deliver_any_not_captured"

def checkDrop (m : Mon) (n : Nat) : Option String :=
  match m.tgts[n]? with
  | none => some "drop_unknown_event"
  | some t =>
    if m.deliv.any (·.2 == n) || m.drops.contains n then some "drop_twice"
    else match t with
      | .one c => if !m.est.contains c || m.closeRequested c then none else some "lost_one"
      | .any p snap =>
        let cap := (m.emittedAt n).getD snap
        if m.est.all (fun c => !(m.peer c == some p && cap.contains c) || m.closeRequested c) then none
        else some "lost_any"

def delivAll (m : Mon) : List (Nat × Nat) → Mon × Option String
  | [] => (m, none)
  | (c, n) :: r =>
    match checkDeliv m c n with
    | some k => (m, some k)
    | none => delivAll { m with deliv := (c, n) :: m.deliv } r

def dropAll (m : Mon) : List Nat → Mon × Option String
  | [] => (m, none)
  | n :: r =>
    match checkDrop m n with
    | some k => (m, some k)
    | none => dropAll { m with drops := n :: m.drops } r

def applyRet (m : Mon) : PRet → Mon × Option String
  | .est c p =>
    if m.everEst.contains c then (m, some "est_twice")
    else match m.peer c with
      | some q =>
        if q != p then (m, some "est_wrong_peer")
        else ({ m with est := c :: m.est, everEst := c :: m.everEst }, none)
      | none =>
        -- inbound connection: the peer is known only now
        if c < m.nextConn then
          ({ m with est := c :: m.est, everEst := c :: m.everEst, peerOf := (c, p) :: m.peerOf }, none)
        else (m, some "est_unknown_connection")
  | .incoming c =>
    if c == m.nextConn then ({ m with nextConn := m.nextConn + 1 }, none) else (m, some "incoming_id")
  | .closed c =>
    if !m.est.contains c then (m, some "closed_unestablished")
    else ({ m with est := m.est.filter (· != c) }, none)
  | _ => (m, none)

/-- judge one implementation poll line -/
def Mon.poll (m : Mon) (ret : PRet) (deliv : List (Nat × Nat)) (drops : List Nat) (em : List Nat) :
    Mon × String :=
  -- emissions (and swarm-level drops) precede the pool report / `advance_local` of the same call
  let m := { m with emitted := em.map (fun n => (n, m.est)) ++ m.emitted }
  match delivAll m deliv with
  | (m, some k) => (m, "FAIL:" ++ k)
  | (m1, none) =>
    match dropAll m1 drops with
    | (m, some k) => (m, "FAIL:" ++ k)
    | (m2, none) =>
      match applyRet m2 ret with
      | (m, some k) => (m, "FAIL:" ++ k)
      | (m3, none) => (m3, "ok")

end C07.Spec
