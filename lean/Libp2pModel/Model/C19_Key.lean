import Libp2pModel.Common.Drv
/-!
# C19 (part 1) — pnet pre-shared key file: `Display` / `FromStr for PreSharedKey`
(`transports/pnet/src/lib.rs`: `to_key_file`, `to_hex`, `from_str`, `parse_hex_key`)

A Rust `&str` is modelled as its UTF-8 **byte list** (`List Nat`, every byte `< 256`).  Rust slices
strings by *byte* offset and panics when an offset falls inside a multi-byte character; this is the
predicate `isBoundary` (`str::is_char_boundary`).  `sliceIdx` is the common core of `&s[a..b]`
(`none` = panic) and `s.get(a..b)` (`none` = `None`).

Two variants of `parse_hex_key` are modelled: `buggy := true` is the code before the repair
(`&s[i*2..i*2+2]`, panics), `buggy := false` is the code as it is now
(`s.get(i*2..i*2+2).unwrap_or("\u{fffd}")`).
-/
namespace C19

abbrev Bytes := List Nat

/-- `core::num::IntErrorKind` (the kinds `u8::from_str_radix` can produce) -/
inductive IntErr | empty | invalidDigit | posOverflow
  deriving DecidableEq, Repr

/-- result of `PreSharedKey::from_str`, with a panic as an explicit outcome -/
inductive KeyRes
  | ok (k : Bytes)
  | invalidKeyFile | invalidKeyType | invalidKeyEncoding | invalidKeyLength
  | invalidKeyChar (e : IntErr)
  | panic
  deriving DecidableEq, Repr

/-- "/key/swarm/psk/1.0.0/" -/
def KEYTYPE : Bytes := [47,107,101,121,47,115,119,97,114,109,47,112,115,107,47,49,46,48,46,48,47]
/-- "/base16/" -/
def ENCODING : Bytes := [47,98,97,115,101,49,54,47]
/-- U+FFFD in UTF-8, the stand-in pair used by the repaired code -/
def REPL : Bytes := [0xEF, 0xBF, 0xBD]
def KEY_SIZE : Nat := 32

/-! ## `to_hex` / `to_key_file` -/

def hexDig (d : Nat) : Nat := if d < 10 then 48 + d else 87 + d

/-- `to_hex`: `{byte:02x}` for every byte -/
def hexOf : Bytes → Bytes
  | [] => []
  | b :: r => hexDig (b / 16) :: hexDig (b % 16) :: hexOf r

/-- `to_key_file`: `"/key/swarm/psk/1.0.0/\n/base16/\n{hex}\n"` -/
def format (k : Bytes) : Bytes := KEYTYPE ++ [10] ++ (ENCODING ++ [10] ++ (hexOf k ++ [10]))

/-! ## `str::lines` -/

/-- strip one trailing `\r` (a line that was terminated by `\n`) -/
def stripCR (l : Bytes) : Bytes := if l.getLast? = some 13 then l.dropLast else l

/-- `s.lines()`: split after every `\n`; the terminator and one `\r` before it are removed; a final
unterminated line is returned as it is; no empty last line. `cur` = bytes of the current line. -/
def linesAux : Bytes → Bytes → List Bytes
  | [], cur => if cur.isEmpty then [] else [cur]
  | b :: rest, cur => if b = 10 then stripCR cur :: linesAux rest [] else linesAux rest (cur ++ [b])

def lines (s : Bytes) : List Bytes := linesAux s []

/-! ## `str::trim_end` (Unicode `White_Space`), on the reversed byte list -/

def isAsciiWs (b : Nat) : Bool := (9 ≤ b && b ≤ 13) || b = 32

/-- number of bytes of the white-space character that ends the string (`r` = reversed string);
0 when the last character is not white space.  The code points with `White_Space`: U+0009–000D,
U+0020, U+0085, U+00A0, U+1680, U+2000–200A, U+2028, U+2029, U+202F, U+205F, U+3000. -/
def wsLen (r : Bytes) : Nat :=
  match r with
  | [] => 0
  | b :: rest =>
    if b < 128 then (if isAsciiWs b then 1 else 0)
    else match rest with
      | 0xC2 :: _ => if b = 0x85 ∨ b = 0xA0 then 2 else 0
      | 0x9A :: 0xE1 :: _ => if b = 0x80 then 3 else 0
      | 0x80 :: 0xE2 :: _ => if (0x80 ≤ b ∧ b ≤ 0x8A) ∨ b = 0xA8 ∨ b = 0xA9 ∨ b = 0xAF then 3 else 0
      | 0x81 :: 0xE2 :: _ => if b = 0x9F then 3 else 0
      | 0x80 :: 0xE3 :: _ => if b = 0x80 then 3 else 0
      | _ => 0

def trimRev : Nat → Bytes → Bytes
  | 0, r => r
  | f+1, r => if wsLen r = 0 then r else trimRev f (r.drop (wsLen r))

def trimEnd (s : Bytes) : Bytes := (trimRev s.length s.reverse).reverse

/-! ## `u8::from_str_radix(_, 16)` -/

/-- `(c as char).to_digit(16)` -/
def toDigit16 (c : Nat) : Option Nat :=
  if 48 ≤ c ∧ c ≤ 57 then some (c - 48)
  else if 97 ≤ c ∧ c ≤ 102 then some (c - 87)
  else if 65 ≤ c ∧ c ≤ 70 then some (c - 55)
  else none

def digitsLoop : Bytes → Nat → Except IntErr Nat
  | [], acc => .ok acc
  | c :: cs, acc =>
    match toDigit16 c with
    | none => .error .invalidDigit
    | some d => if acc * 16 + d > 255 then .error .posOverflow else digitsLoop cs (acc * 16 + d)

/-- unsigned: a lone sign is an invalid digit, a leading `+` is skipped, `-` is no sign -/
def fromStrRadix16 (src : Bytes) : Except IntErr Nat :=
  match src with
  | [] => .error .empty
  | [43] => .error .invalidDigit
  | [45] => .error .invalidDigit
  | 43 :: rest => digitsLoop rest 0
  | _ => digitsLoop src 0

/-! ## byte-offset slicing -/

/-- `str::is_char_boundary` -/
def isBoundary (s : Bytes) (i : Nat) : Bool :=
  i == 0 || i == s.length ||
    (match s[i]? with
     | some b => b < 128 || 192 ≤ b
     | none => false)

/-- the range check shared by `&s[a..b]` (panics on `none`) and `s.get(a..b)` -/
def sliceIdx (s : Bytes) (a b : Nat) : Option Bytes :=
  if a ≤ b ∧ isBoundary s a ∧ isBoundary s b then some ((s.drop a).take (b - a)) else none

/-! ## `parse_hex_key` -/

inductive LoopRes | ok (r : Bytes) | err (e : IntErr) | panic
  deriving DecidableEq, Repr

/-- `for i in 0..KEY_SIZE { r[i] = u8::from_str_radix(<pair i>, 16)? }`, from index `i`, `n` more
iterations. -/
def hexLoop (buggy : Bool) (s : Bytes) : Nat → Nat → LoopRes
  | _, 0 => .ok []
  | i, n+1 =>
    match sliceIdx s (i * 2) (i * 2 + 2) with
    | none =>
      if buggy then .panic
      else
        -- `.unwrap_or("\u{fffd}")`
        match fromStrRadix16 REPL with
        | .error e => .err e
        | .ok v => match hexLoop buggy s (i+1) n with
          | .ok r => .ok (v :: r)
          | o => o
    | some pair =>
      match fromStrRadix16 pair with
      | .error e => .err e
      | .ok v => match hexLoop buggy s (i+1) n with
        | .ok r => .ok (v :: r)
        | o => o

def parseHexKey (buggy : Bool) (s : Bytes) : KeyRes :=
  if s.length = KEY_SIZE * 2 then
    match hexLoop buggy s 0 KEY_SIZE with
    | .ok r => .ok r
    | .err e => .invalidKeyChar e
    | .panic => .panic
  else .invalidKeyLength

/-- `impl FromStr for PreSharedKey` -/
def parseKey (buggy : Bool) (s : Bytes) : KeyRes :=
  match (lines s).take 3 with
  | [keytype, encoding, key] =>
    if keytype ≠ KEYTYPE then .invalidKeyType
    else if encoding ≠ ENCODING then .invalidKeyEncoding
    else parseHexKey buggy (trimEnd key)
  | _ => .invalidKeyFile

/-- the code as it is (after the repair) -/
def parse (s : Bytes) : KeyRes := parseKey false s
/-- the code before the repair -/
def parseBuggy (s : Bytes) : KeyRes := parseKey true s

/-! ## executable Spec (judges the IMPLEMENTATION's output) -/

/-- `parse` op: parsing any text never panics. -/
def specParse (_s : Bytes) (res : KeyRes) : Bool := res ≠ .panic

/-- `roundtrip` op: the printed key file is `format k` and parses back to `k`. -/
def specRoundtrip (k : Bytes) (text : Bytes) (res : KeyRes) : Bool :=
  text == format k && res == .ok k

end C19
