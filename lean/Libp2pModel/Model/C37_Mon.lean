import Libp2pModel.Model.C37
/-!
# C37 — the trace monitor (executable Spec over the IMPLEMENTATION's outputs), structured form

The driver parses every `impl` line into an `MObs` (operation, kind of result, drained
`take_applied_pending` records, dump of the non-empty buckets) and feeds it to `monStep`.
The monitor keeps its own bookkeeping, independent of the model: for every stored key the status
and logical time of its last assignment (`assigned`), for every key that became pending the
instant at which it did (`created`), the previous dump, and the clock.
-/
namespace C37

/-- one dumped bucket: `(key, connected?)` in bucket order, pending `(key, connected?)` -/
structure MBucket where
  index : Nat
  nodes : List (Nat × Bool)
  pending : Option (Nat × Bool)
  deriving Repr

def MBucket.toBD (b : MBucket) : BucketDump := ⟨b.index, b.nodes, b.pending.map (·.1)⟩

inductive MOp where
  | ins (k : Nat) (conn : Bool)
  | upd (k : Nat) (conn : Bool)
  | rem (k : Nat)
  | adv (n : Nat)
  | other
  deriving Repr

/-- the kinds of results the monitor distinguishes -/
inductive MRes where
  | inserted          -- `InsertResult::Inserted`
  | becamePending     -- `InsertResult::Pending`
  | present           -- the entry was `Present` (for `upd`: its status was set)
  | removed           -- a `Present` entry was removed
  | other
  deriving Repr, DecidableEq

structure MObs where
  op : MOp
  res : MRes
  /-- drained `take_applied_pending()`: (inserted key, evicted key) -/
  aps : List (Nat × Option Nat)
  dump : List MBucket
  deriving Repr

structure Mon where
  localKey : Nat
  bsize : Nat
  timeout : Nat
  now : Nat
  step : Nat
  prev : List MBucket
  /-- key ↦ instant at which it became pending (entries are only ever overwritten) -/
  created : List (Nat × Nat)
  /-- key ↦ (status last assigned, logical time of the assignment) -/
  assigned : List (Nat × Bool × Nat)
  deriving Repr

def Mon.init (localKey bsize timeout : Nat) : Mon := ⟨localKey, bsize, timeout, 0, 0, [], [], []⟩

def lookupA {β} (l : List (Nat × β)) (k : Nat) : Option β := (l.find? (·.1 == k)).map (·.2)
def eraseA {β} (l : List (Nat × β)) (k : Nat) : List (Nat × β) := l.filter (·.1 != k)
def setA {β} (l : List (Nat × β)) (k : Nat) (v : β) : List (Nat × β) := (k, v) :: eraseA l k

/-- the dumped bucket whose pending entry has key `k` -/
def findPending (d : List MBucket) (k : Nat) : Option MBucket :=
  d.find? fun b => match b.pending with
    | some p => p.1 == k
    | none => false

/-- structural clauses (`specDump`); on failure the key of the first violated clause -/
def structural (localKey bsize : Nat) (d : List MBucket) : Option String :=
  let conv := d.map MBucket.toBD
  if specDump localKey bsize conv then none
  else if conv.any (fun b => decide (b.nodes.length > bsize)) then some "bucket_over_capacity"
  else if conv.any (fun b => b.nodes.any fun n => bucketIndex (localKey ^^^ n.1) != some b.index) then
    (if (allKeys conv).contains localKey then some "local_key_stored" else some "key_in_wrong_bucket")
  else if !nodupB (allKeys conv) then some "duplicate_key"
  else if conv.any (fun b => !statusOrdered (b.nodes.map (·.2))) then some "connected_before_disconnected"
  else if conv.any (fun b => match b.pending with
      | some p => (b.nodes.map (·.1)).contains p || bucketIndex (localKey ^^^ p) != some b.index
      | none => false) then some "pending_key_invalid"
  else some "structure"

/-- the pending rule, judged on one applied record against the previous dump: the applied key was
pending, its timeout has elapsed, and the evicted key — if any — was the first entry of a full
bucket and disconnected; without eviction the bucket had room -/
def pendingRule (m : Mon) (a : Nat × Option Nat) : Option String :=
  match findPending m.prev a.1 with
  | none => some "applied_entry_was_not_pending"
  | some b =>
    match lookupA m.created a.1 with
    | none => some "applied_entry_was_not_pending"
    | some t0 =>
      if m.now < t0 + m.timeout then some "pending_applied_before_timeout"
      else
        match a.2 with
        | some ev =>
          match b.nodes with
          | h :: _ =>
            if h.1 != ev then some "evicted_not_least_recently_disconnected"
            else if h.2 then some "evicted_connected_entry"
            else if b.nodes.length < m.bsize then some "evicted_from_non_full_bucket"
            else none
          | [] => some "evicted_not_least_recently_disconnected"
        | none => if b.nodes.length < m.bsize then none else some "full_bucket_no_eviction"

/-- bookkeeping for one applied record: the evicted key is forgotten, the applied key is assigned
its pending status at logical time `2 * step` -/
def applyAp (prev : List MBucket) (step : Nat) (asg : List (Nat × Bool × Nat)) (a : Nat × Option Nat) :
    List (Nat × Bool × Nat) :=
  let st := match findPending prev a.1 with
    | some b => (match b.pending with | some p => p.2 | none => true)
    | none => true
  let asg := match a.2 with
    | some e => eraseA asg e
    | none => asg
  setA asg a.1 (st, 2 * step)

def incr : List Nat → Bool
  | a :: b :: r => decide (a < b) && incr (b :: r)
  | _ => true

def statusMismatch (x : Bool × Option (Bool × Nat)) : Bool :=
  match x.2 with
  | some (st, _) => st != x.1
  | none => true

def stampsOf (info : List (Bool × Option (Bool × Nat))) (c : Bool) : List Nat :=
  (info.filter (·.1 == c)).filterMap fun x => x.2.map (·.2)

/-- per bucket: the reported status of every entry is the one last assigned, and inside each status
group the assignment times increase (least-recently-updated first) -/
def lruBucket (assigned : List (Nat × Bool × Nat)) (b : MBucket) : Option String :=
  let info := b.nodes.map fun n => (n.2, lookupA assigned n.1)
  if info.any statusMismatch then some "status_not_last_assigned"
  else if incr (stampsOf info false) && incr (stampsOf info true) then none
  else some "not_least_recently_updated_order"

def lruCheck (assigned : List (Nat × Bool × Nat)) (d : List MBucket) : Option String :=
  d.findSome? (lruBucket assigned)

/-- the op's own effect on the bookkeeping (after the applied records) -/
def opEffect (m : Mon) (asg : List (Nat × Bool × Nat)) (o : MObs) :
    List (Nat × Bool × Nat) × List (Nat × Nat) × Nat :=
  match o.op, o.res with
  | .ins k c, .inserted => (setA asg k (c, 2 * m.step + 1), m.created, m.now)
  | .ins k _, .becamePending => (asg, setA m.created k m.now, m.now)
  | .upd k c, .present => (setA asg k (c, 2 * m.step + 1), m.created, m.now)
  | .rem k, .removed => (eraseA asg k, m.created, m.now)
  | .adv n, _ => (asg, m.created, m.now + n)
  | _, _ => (asg, m.created, m.now)

/-- one monitor step: new state and verdict (`none` = ok) -/
def monStep (m : Mon) (o : MObs) : Mon × Option String :=
  let ruleFail := o.aps.findSome? (pendingRule m)
  let assigned1 := o.aps.foldl (applyAp m.prev m.step) m.assigned
  let (assigned2, created2, now2) := opEffect m assigned1 o
  let m' : Mon := { m with now := now2, step := m.step + 1, prev := o.dump, created := created2,
                           assigned := assigned2 }
  match structural m.localKey m.bsize o.dump with
  | some k => (m', some k)
  | none =>
    match ruleFail with
    | some k => (m', some k)
    | none => (m', lruCheck assigned2 o.dump)

/-- run the monitor over a trace; `true` iff every step was accepted -/
def monRun (m : Mon) : List MObs → Bool
  | [] => true
  | o :: os => (monStep m o).2.isNone && monRun (monStep m o).1 os

/-! ## The model's own trace -/

def Bucket.mdump (i : Nat) (b : Bucket) : MBucket :=
  ⟨i, (b.dump i).nodes, b.pending.map fun p => (p.node.key, p.status == .connected)⟩

def Table.mdump (t : Table) : List MBucket :=
  (List.range NUM_BUCKETS).filterMap fun i =>
    if (t.bucket i).nodes.length > 0 ∨ (t.bucket i).pending.isSome then some ((t.bucket i).mdump i) else none

def mopOf : Op → MOp
  | .insert k _ st => .ins k (st == .connected)
  | .update k st => .upd k (st == .connected)
  | .remove k => .rem k
  | .advance n => .adv n
  | _ => .other

def mresOf : Op → OpResult → MRes
  | .insert .., .insert .inserted => .inserted
  | .insert .., .insert (.pending _) => .becamePending
  | .update .., .entry (.present _ _) => .present
  | .remove .., .removed _ _ false => .removed
  | _, _ => .other

/-- one API call of the model followed by draining `take_applied_pending`, as observed -/
def Table.observe (t : Table) (op : Op) : Table × MObs :=
  let (t1, r) := t.step op
  let (t2, aps) := t1.drain
  (t2, ⟨mopOf op, mresOf op r, aps.map fun a => (a.inserted.key, a.evicted.map (·.key)), t2.mdump⟩)

/-- the trace of an op history -/
def Table.traceOf (t : Table) : List Op → List MObs
  | [] => []
  | o :: os => (t.observe o).2 :: (t.observe o).1.traceOf os

end C37
