import Libp2pModel.Model.C14_Net
/-!
# C14 — the byte-level network with optimistic `V1Lazy` application data

As `C14_Net`, plus: when the dialer takes the lazy exit it writes its application data `A` right
behind the negotiation bytes (what `Negotiated::poll_write` in state `Expecting` does: flush the
buffered negotiation frames, then write).  `junkOf A` is how the listener's frame reader will
perceive these bytes — the `Params.junk` of the message-level system.
-/
namespace C14
open Mss

/-- the read error the optimistic data produces in the listener's `MessageIO`
(`appDataOk A` excludes data that parses as a negotiation message) -/
def junkOf (A : Bytes) : Option PErr :=
  if A = [] then none
  else
    match frameDec A with
    | none => some .unexpectedEof          -- never completes: an error once the dialer closes
    | some (.err e, _) => some e
    | some (.data bs, _) =>
      match decodeMsg bs with
      | .err e => some e
      | _ => none

/-- where one poll of the dialer SIDE stops: the future is done, or it has just returned through
the lazy exit (what happens afterwards is the application reading the `Negotiated` stream, in
later polls) -/
def dStop (old : DSt) (s : DSt) : Bool := dIsDone s || (isExpecting s && !isExpecting old)

def bStepDA (P : Params) (A : Bytes) (n : Nat) (c : BCfg) : BCfg :=
  if !c.started then
    let (d', out) := dStart P.lazy P.ds
    { c with started := true, d := d',
             dl := ⟨c.dl.bytes ++ wireOfAll out ++ (if isExpecting d' then A else []),
                    c.dl.closed || dFailed d'⟩ }
  else if dIsDone c.d then c
  else
    let (d', inb, out) := pollBytes (dStep P.lazy) (dStop c.d) c.d c.ld.bytes c.ld.closed n
    { c with d := d', ld := ⟨inb, c.ld.closed⟩,
             dl := ⟨c.dl.bytes ++ wireOfAll out ++ (if isExpecting d' && !isExpecting c.d then A else []),
                    c.dl.closed || dFailed d'⟩ }

def bstepA (P : Params) (A : Bytes) (c : BCfg) : BMove → BCfg
  | .pollD n => bStepDA P A n c
  | .pollL n => bStepL P n c

def bexecA (P : Params) (A : Bytes) (sched : List BMove) : BCfg := sched.foldl (bstepA P A) binit

end C14
