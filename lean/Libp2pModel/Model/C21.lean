import Libp2pModel.Common.Varint
/-!
# C21 — signed envelopes and peer records (`core/src/signed_envelope.rs`, `core/src/peer_record.rs`)

Signatures are symbolic: `verify : key → message → signature → Bool` is a parameter.  Modelled as
they are: `signature_payload` (three length-prefixed fields), `SignedEnvelope::verify`,
`payload_and_signing_key`, and the decision chain of `PeerRecord::from_signed_envelope_impl`.
-/
namespace C21

/-- `signature_payload(domain, payload_type, payload)` -/
def signaturePayload (d t p : List Nat) : List Nat :=
  Varint.encode d.length ++ d ++ (Varint.encode t.length ++ t ++ (Varint.encode p.length ++ p))

structure Envelope (K : Type) where
  key : K
  payloadType : List Nat
  payload : List Nat
  signature : List Nat

inductive ReadErr where
  | unexpectedPayloadType
  | invalidSignature
  deriving DecidableEq, Repr

variable {K : Type}

/-- `SignedEnvelope::verify` -/
def Envelope.verify (vf : K → List Nat → List Nat → Bool) (e : Envelope K) (domain : List Nat) : Bool :=
  vf e.key (signaturePayload domain e.payloadType e.payload) e.signature

/-- `SignedEnvelope::payload_and_signing_key` -/
def Envelope.payloadAndSigningKey (vf : K → List Nat → List Nat → Bool) (e : Envelope K)
    (domain expectedType : List Nat) : Except ReadErr (List Nat × K) :=
  if e.payloadType ≠ expectedType then .error .unexpectedPayloadType
  else if !e.verify vf domain then .error .invalidSignature
  else .ok (e.payload, e.key)

/-- `SignedEnvelope::new`, with a symbolic signing function -/
def Envelope.new {S : Type} (sign : S → List Nat → List Nat) (pk : S → K) (sk : S)
    (domain ty payload : List Nat) : Envelope K :=
  ⟨pk sk, ty, payload, sign sk (signaturePayload domain ty payload)⟩

inductive RecErr where
  | badPayload (e : ReadErr)
  | invalidPeerRecord
  | invalidPeerId
  | mismatchedSignature
  | invalidMultiaddr
  deriving DecidableEq, Repr

/-- the decoded `proto::PeerRecord`: peer id bytes, seq, address bytes -/
structure RawRecord where
  peerId : List Nat
  seq : Nat
  addrs : List (List Nat)
  deriving DecidableEq, Repr

/-- `PeerRecord::from_signed_envelope_impl`; the protobuf decoder of the record, `PeerId::from_bytes`,
`PublicKey::to_peer_id` and `Multiaddr::try_from` are parameters. Returns (peer id, seq, addresses). -/
def fromSignedEnvelope {P A : Type} [DecidableEq P]
    (vf : K → List Nat → List Nat → Bool) (decodeRecord : List Nat → Option RawRecord)
    (parsePeerId : List Nat → Option P) (peerIdOf : K → P) (parseAddr : List Nat → Option A)
    (e : Envelope K) (domain ty : List Nat) : Except RecErr (P × Nat × List A) :=
  match e.payloadAndSigningKey vf domain ty with
  | .error err => .error (.badPayload err)
  | .ok (payload, key) =>
    match decodeRecord payload with
    | none => .error .invalidPeerRecord
    | some r =>
      match parsePeerId r.peerId with
      | none => .error .invalidPeerId
      | some pid =>
        if pid ≠ peerIdOf key then .error .mismatchedSignature
        else match r.addrs.mapM parseAddr with
          | none => .error .invalidMultiaddr
          | some as => .ok (pid, r.seq, as)

/-! ## executable Spec (over harness-computed facts) -/

/-- what was changed relative to the envelope that was signed -/
structure Facts where
  sameDomain : Bool
  sameType : Bool      -- envelope's payload_type is the signed one
  samePayload : Bool
  sameSig : Bool
  sameKey : Bool
  expectedTypeMatches : Bool   -- `expected_payload_type == envelope.payload_type`
  deriving DecidableEq, Repr

/-- ideal signatures: valid iff nothing that enters the signed bytes, the key or the signature changed -/
def Facts.sigValid (f : Facts) : Bool := f.sameDomain && f.sameType && f.samePayload && f.sameSig && f.sameKey

inductive Verdict where
  | ok | errType | errSig
  deriving DecidableEq, Repr

def decideEnv (f : Facts) : Bool × Verdict :=
  (f.sigValid, if !f.expectedTypeMatches then .errType else if !f.sigValid then .errSig else .ok)

/-- the property on one observed (verify, verdict): accepted only when the type is the expected one
and the signature verifies for exactly what was signed; and then it IS accepted. -/
def specEnvelope (f : Facts) (verify : Bool) (v : Verdict) : Bool :=
  (verify == f.sigValid) &&
  (match v with
   | .ok => f.expectedTypeMatches && f.sigValid
   | .errType => !f.expectedTypeMatches
   | .errSig => f.expectedTypeMatches && !f.sigValid)

/-- facts for a peer record -/
structure RecFacts where
  envelopeOk : Bool
  recordDecodes : Bool
  peerIdParses : Bool
  peerIdIsSigner : Bool
  addrsParse : Bool
  deriving DecidableEq, Repr

inductive RecVerdict where
  | ok | errPayload | errRecord | errPeerId | errMismatch | errAddr
  deriving DecidableEq, Repr

def decideRec (f : RecFacts) : RecVerdict :=
  if !f.envelopeOk then .errPayload
  else if !f.recordDecodes then .errRecord
  else if !f.peerIdParses then .errPeerId
  else if !f.peerIdIsSigner then .errMismatch
  else if !f.addrsParse then .errAddr
  else .ok

def specRecord (f : RecFacts) (v : RecVerdict) : Bool :=
  match v with
  | .ok => f.envelopeOk && f.recordDecodes && f.peerIdParses && f.peerIdIsSigner && f.addrsParse
  | .errPayload => !f.envelopeOk
  | .errRecord => f.envelopeOk && !f.recordDecodes
  | .errPeerId => f.envelopeOk && f.recordDecodes && !f.peerIdParses
  | .errMismatch => f.envelopeOk && f.recordDecodes && f.peerIdParses && !f.peerIdIsSigner
  | .errAddr => f.envelopeOk && f.recordDecodes && f.peerIdParses && f.peerIdIsSigner && !f.addrsParse


/-! ## re-split attack (moving a field boundary under the same signature) -/

/-- an envelope signed for `(d, t, p)` is presented as `(d', t', p')` with the same key and
signature, checked under domain `d'` with expected type `t'`.  With ideal signatures the check
passes iff the signed bytes coincide (this is what the model computes) … -/
def resplitModel (d t p d' t' p' : List Nat) : Bool × Verdict :=
  let v := signaturePayload d t p == signaturePayload d' t' p'
  (v, if v then .ok else .errSig)

/-- … and the property demands: accepted ⇒ the presented triple IS the signed one (and the signed
one is accepted). -/
def specResplit (d t p d' t' p' : List Nat) (verify : Bool) (v : Verdict) : Bool :=
  let same := d == d' && t == t' && p == p'
  verify == same && v == (if same then Verdict.ok else Verdict.errSig)

/-- the signed bytes as the Spec reads them back: three length-prefixed fields and nothing else -/
def splitPayload (bs : List Nat) : Option (List Nat × List Nat × List Nat) :=
  match Varint.decode bs with
  | none => none
  | some (n1, r1) =>
    if r1.length < n1 then none else
    match Varint.decode (r1.drop n1) with
    | none => none
    | some (n2, r2) =>
      if r2.length < n2 then none else
      match Varint.decode (r2.drop n2) with
      | none => none
      | some (n3, r3) => if r3.length = n3 then some (r1.take n1, r2.take n2, r3) else none

/-- Spec for the signed bytes themselves: they parse back, unambiguously, to the three fields -/
def specPayloadBytes (d t p : List Nat) (bytes : List Nat) : Bool :=
  splitPayload bytes == some (d, t, p)


/-! ## structure-aware signature mutations -/

/-- the real schemes as they are: ECDSA over P-256 (`p256` crate: FIPS 186 verification, no low-S
rule) accepts the algebraic twin `(r, n − s)` of a valid signature; `k256` (secp256k1) enforces
low-S, ed25519-dalek and ring's RSA PKCS#1 accept no other encoding of a signature. -/
def malleable (scheme variant : String) : Bool := scheme == "ecdsa" && variant == "high_s"

/-- a signature that was re-encoded or algebraically transformed is presented for the message that
was signed: it verifies iff it is byte-for-byte the original — or the scheme is malleable in that
way; the envelope / peer record carrying it is accepted iff so.  (verify, envelope ok, record ok) -/
def sigstructModel (scheme variant : String) (changed : Bool) : Bool × Bool × Bool :=
  let a := !changed || malleable scheme variant
  (a, a, a)

/-- the property clause "any change to the signature makes verification fail" on one observation:
(verify, envelope accepted, record accepted) -/
def specSigstruct (changed : Bool) (verify envOk recOk : Bool) : Bool :=
  if changed then !verify && !envOk && !recOk else verify && envOk && recOk

end C21
