import Libp2pModel.Common.Varint
import Libp2pModel.Common.Framed
/-!
# C25 — mplex frame codec (`muxers/mplex/src/codec.rs`)

Transcription of `Codec::{decode, encode}` together with the `unsigned_varint::decode::u64` loop it
calls (`decode!(buf, 9, u64)`), bytes as `List Nat` (each `< 256`).

* `b & 0x7F` is written `b % 128`, `b & 0x80 == 0` is written `b < 128` (equal on bytes).
* `u64` arithmetic is explicit: `x << s` on `u64` is `(x <<< s) % 2^64`; a shift amount `≥ 64`
  panics under `overflow-checks` — kept as an explicit `panic` result (`uviGo_no_panic` shows
  it is unreachable).
* `len as usize` is the identity on the 64-bit targets the harness runs on.
-/
namespace C25

def MAX_FRAME_SIZE : Nat := 1048576
def U64 : Nat := 18446744073709551616

inductive Role | dialer | listener
  deriving DecidableEq, Repr, Inhabited

def Role.flip : Role → Role
  | .dialer => .listener
  | .listener => .dialer

structure Sid where
  num : Nat
  role : Role
  deriving DecidableEq, Repr, Inhabited

/-- `RemoteStreamId::into_local` / the (test-only) `LocalStreamId::into_remote` -/
def Sid.mirror (s : Sid) : Sid := ⟨s.num, s.role.flip⟩

inductive Frame
  | opn (id : Sid)
  | data (id : Sid) (d : List Nat)
  | close (id : Sid)
  | reset (id : Sid)
  deriving DecidableEq, Repr, Inhabited

/-- Equality test used at run time (the derived `DecidableEq` recurses non-tail-recursively through
1 MiB payloads; `List.beq` does not). -/
def Frame.beq : Frame → Frame → Bool
  | .opn a, .opn b => a == b
  | .data a d, .data b e => a == b && d == e
  | .close a, .close b => a == b
  | .reset a, .reset b => a == b
  | _, _ => false

instance : BEq Frame := ⟨Frame.beq⟩

instance : LawfulBEq Frame where
  rfl := by
    intro a
    show Frame.beq a a = true
    cases a <;> simp [Frame.beq]
  eq_of_beq := by
    intro a b h
    change Frame.beq a b = true at h
    cases a <;> cases b <;> simp_all [Frame.beq]

def Frame.id : Frame → Sid
  | .opn i | .data i _ | .close i | .reset i => i

def Frame.payload : Frame → List Nat
  | .data _ d => d
  | _ => []

def Frame.mapId (g : Sid → Sid) : Frame → Frame
  | .opn i => .opn (g i)
  | .data i d => .data (g i) d
  | .close i => .close (g i)
  | .reset i => .reset (g i)

/-! ## `unsigned_varint::decode::u64` -/

inductive UviErr | overflow | notMinimal
  deriving DecidableEq, Repr

inductive UviRes
  | need                                  -- `Error::Insufficient` → `Ok(None)` in `Uvi::deserialise`
  | err (e : UviErr)
  | ok (n : Nat) (rest : List Nat)
  | panic                                 -- shift amount ≥ 64
  deriving DecidableEq, Repr

/-- `n |= k << (i * 7)` on `u64` -/
def accum (acc k i : Nat) : Nat := acc ||| ((k <<< (7 * i)) % U64)

/-- the `for (i, b) in buf.iter().enumerate()` loop of `decode!(buf, 9, u64)` -/
def uviGo (i acc : Nat) : List Nat → UviRes
  | [] => .need
  | b :: rest =>
    if 64 ≤ 7 * i then .panic
    else
      let n := accum acc (b % 128) i
      if b < 128 then
        if b = 0 ∧ 0 < i then .err .notMinimal else .ok n rest
      else if i = 9 then .err .overflow
      else uviGo (i + 1) n rest

def uvi64 (buf : List Nat) : UviRes := uviGo 0 0 buf

/-! ## `Codec::decode` -/

inductive DErr
  | varint (e : UviErr)        -- io::ErrorKind::Other, from `?` on the varint decoder
  | lenTooBig (len : Nat)      -- InvalidData "Mplex frame length {len} exceeds maximum"
  | badType (header : Nat)     -- InvalidData "Invalid mplex header value"
  | poisoned                   -- InvalidData "Mplex codec poisoned"
  | panic
  deriving DecidableEq, Repr

inductive St
  | begin
  | hasHeader (h : Nat)
  | hasHeaderAndLen (h len : Nat)
  | poisoned
  deriving DecidableEq, Repr, Inhabited

/-- `Ok(None)` (with the amount passed to `src.reserve`), `Ok(Some(frame))`, `Err(e)` -/
inductive DRes
  | none (reserve : Nat)
  | some (f : Frame)
  | err (e : DErr)
  deriving DecidableEq, Repr

/-- the `match header & 7` table -/
def mkFrame (h : Nat) (buf : List Nat) : Option Frame :=
  let num := h / 8
  match h % 8 with
  | 0 => some (.opn ⟨num, .dialer⟩)
  | 1 => some (.data ⟨num, .listener⟩ buf)
  | 2 => some (.data ⟨num, .dialer⟩ buf)
  | 3 => some (.close ⟨num, .listener⟩)
  | 4 => some (.close ⟨num, .dialer⟩)
  | 5 => some (.reset ⟨num, .listener⟩)
  | 6 => some (.reset ⟨num, .dialer⟩)
  | _ => none

/-- arm `HasHeaderAndLen(header, len)` -/
def fromHL (h len : Nat) (src : List Nat) : St × List Nat × DRes :=
  if src.length < len then (.hasHeaderAndLen h len, src, .none (len - src.length))
  else
    match mkFrame h (src.take len) with
    | some f => (.begin, src.drop len, .some f)
    | none => (.poisoned, src.drop len, .err (.badType h))

/-- arm `HasHeader(header)` followed by the next loop iteration -/
def fromH (h : Nat) (src : List Nat) : St × List Nat × DRes :=
  match uvi64 src with
  | .need => (.hasHeader h, src, .none 0)
  | .err e => (.poisoned, src, .err (.varint e))
  | .panic => (.poisoned, src, .err .panic)
  | .ok len rest =>
    if len > MAX_FRAME_SIZE then (.poisoned, rest, .err (.lenTooBig len))
    else fromHL h len rest

/-- arm `Begin` followed by the next loop iterations -/
def fromBegin (src : List Nat) : St × List Nat × DRes :=
  match uvi64 src with
  | .need => (.begin, src, .none 0)
  | .err e => (.poisoned, src, .err (.varint e))
  | .panic => (.poisoned, src, .err .panic)
  | .ok h rest => fromH h rest

/-- one call of `Codec::decode(&mut self, src)`: new codec state, what is left in `src`, result -/
def decode (st : St) (src : List Nat) : St × List Nat × DRes :=
  match st with
  | .begin => fromBegin src
  | .hasHeader h => fromH h src
  | .hasHeaderAndLen h len => fromHL h len src
  | .poisoned => (.poisoned, src, .err .poisoned)

/-- termination measure of the decode loop of a `FramedRead`: a frame either consumes input or
leaves a non-`Begin` state -/
def measure (st : St) (buf : List Nat) : Nat := 2 * buf.length + (if st = .begin then 0 else 1)

/-- Call `decode` until it returns `Ok(None)` or `Err` (what `FramedRead::poll_next` does with the
bytes it has): frames produced, final codec state, bytes left in the buffer, the error if any. -/
def drain (st : St) (buf : List Nat) : List Frame × St × List Nat × Option DErr :=
  let r := decode st buf
  match r.2.2 with
  | .none _ => ([], r.1, r.2.1, none)
  | .err e => ([], r.1, r.2.1, some e)
  | .some f =>
    if _h : measure r.1 r.2.1 < measure st buf then
      let t := drain r.1 r.2.1
      (f :: t.1, t.2)
    else ([f], r.1, r.2.1, none)     -- unreachable (`decode_some_measure`)
termination_by measure st buf

/-- Feed chunks one after the other, draining after each (bytes stay in the buffer after an error,
exactly as with a `BytesMut` that keeps being extended); the first error is kept. -/
def feedMany (st : St) (buf : List Nat) : List (List Nat) → List Frame × St × List Nat × Option DErr
  | [] => ([], st, buf, none)
  | c :: cs =>
    let r := drain st (buf ++ c)
    let t := feedMany r.2.1 r.2.2.1 cs
    (r.1 ++ t.1, t.2.1, t.2.2.1, r.2.2.2.or t.2.2.2)

/-! ## `Codec::encode` -/

def flag : Frame → Nat
  | .opn _ => 0
  | .data ⟨_, .listener⟩ _ => 1
  | .data ⟨_, .dialer⟩ _ => 2
  | .close ⟨_, .listener⟩ => 3
  | .close ⟨_, .dialer⟩ => 4
  | .reset ⟨_, .listener⟩ => 5
  | .reset ⟨_, .dialer⟩ => 6

/-- `(num << 3) | flag` on `u64` -/
def header (f : Frame) : Nat := ((f.id.num <<< 3) % U64) ||| flag f

/-- `None` = `Err("data size exceed maximum")` -/
def encode (f : Frame) : Option (List Nat) :=
  if f.payload.length > MAX_FRAME_SIZE then none
  else some (Varint.encode (header f) ++ Varint.encode f.payload.length ++ f.payload)

/-- all frames or nothing (the first `Err` aborts) -/
def encodeAll : List Frame → Option (List Nat)
  | [] => some []
  | f :: fs =>
    match encode f, encodeAll fs with
    | some a, some b => some (a ++ b)
    | _, _ => none

/-! ## The property as executable predicates (run on the IMPLEMENTATION's outputs) -/

/-- A frame of the mplex wire format: 61-bit stream number, and `Open` is only ever sent for a
stream the sender initiated. -/
def Frame.wire (f : Frame) : Bool :=
  f.id.num < 2305843009213693952 &&
  (match f with | .opn i => i.role == .dialer | _ => true)

/-- Spec of one `encode` call: the limit, and (for wire frames) the bytes decode back — under the
reference decoder, in one piece — to exactly that frame (same kind, number, payload, id tagged with
the sender's role as a `RemoteStreamId`; `into_local` = `Sid.mirror` then mirrors the role), leaving
nothing. -/
def specEnc (f : Frame) (out : Option (List Nat)) : Bool :=
  match out with
  | none => f.payload.length > MAX_FRAME_SIZE
  | some bs =>
    f.payload.length ≤ MAX_FRAME_SIZE &&
    (!f.wire || drain .begin bs == ([f], St.begin, [], none))

inductive Status | need | err (e : DErr)
  deriving DecidableEq, Repr

def statusOf : Option DErr → Status
  | none => .need
  | some e => .err e

/-- Spec of a chunked feed: `all` = every byte handed to the decoder so far, `frames` = every frame
it produced so far, `last` = the result of its last `decode` call, `rem` = bytes left in its buffer,
`prevErr` = it had already failed before this feed.  The reference is ONE decode pass over the
concatenation.  Returns `"ok"` or the key of the violated clause. -/
def specFeedKey (all : List Nat) (frames : List Frame) (last : Status) (rem : Nat) (prevErr : Bool) : String :=
  let r := drain .begin all
  let want : Status :=
    match r.2.2.2 with
    | none => .need
    | some e => if prevErr then .err .poisoned else .err e
  let key : String :=
    match r.2.2.2 with
    | some (.lenTooBig _) => "len_not_rejected_early"
    | some (.badType _) => "unknown_type_not_rejected"
    | some (.varint _) => "varint_error"
    | some _ => "decode_status"
    | none => "split_roundtrip"
  if last = .err .panic then "panic"
  else if r.1 != frames then key
  else if last != want then key
  else if r.2.2.1.length != rem then "split_residue"
  else "ok"

/-! ## The two sides of the driver, as pure functions (so that "the Spec accepts the model" is a theorem) -/

/-- model side of `op feed <chunk>`: codec state + buffer ↦ frames, last status, bytes left -/
def modelFeed (s : St × List Nat) (c : List Nat) : (St × List Nat) × (List Frame × Status × Nat) :=
  let r := drain s.1 (s.2 ++ c)
  ((r.2.1, r.2.2.1), (r.1, statusOf r.2.2.2, r.2.2.1.length))

structure SpecSt where
  all : List Nat := []
  frames : List Frame := []
  prevErr : Bool := false

/-- spec side: judge one observed output of a feed -/
def specFeed (t : SpecSt) (c : List Nat) (out : List Frame × Status × Nat) : SpecSt × String :=
  let all := t.all ++ c
  let frames := t.frames ++ out.1
  let v := specFeedKey all frames out.2.1 out.2.2 t.prevErr
  ({ all := all, frames := frames, prevErr := t.prevErr || (out.2.1 != .need) }, v)

/-! ## encoding a SEQUENCE of frames into one output buffer (`dst: &mut BytesMut` is shared) -/

inductive EncErr | dataTooBig
  deriving DecidableEq, Repr

/-- `<Codec as Encoder>::encode(item, dst)`: the result and `dst` afterwards.  The size check comes
before anything is written, so a rejected frame leaves `dst` as it was. -/
def encodeInto (dst : List Nat) (f : Frame) : Except EncErr Unit × List Nat :=
  match encode f with
  | none => (.error .dataTooBig, dst)
  | some bs => (.ok (), dst ++ bs)

/-- the buffer after encoding a list of frames one after the other, errors ignored by the caller -/
def encodeSeq (dst : List Nat) : List Frame → List Nat
  | [] => dst
  | f :: fs => encodeSeq (encodeInto dst f).2 fs

/-- the frames the encoder accepts -/
def accepted (fs : List Frame) : List Frame := fs.filter (fun f => decide (f.payload.length ≤ MAX_FRAME_SIZE))

/-- Spec state for the shared-buffer family: the bytes the implementation's buffer holds (as
reported step by step) and the frames it accepted -/
structure EncSpecSt where
  buf : List Nat := []
  acc : List Frame := []

/-- judge one `encode` into the shared buffer: `ok` = it returned `Ok`, `add` = the bytes that
appeared at the end of the buffer, `len` = the buffer length afterwards, `prefixSame` = the old
contents are still there unchanged -/
def specEncInto (t : EncSpecSt) (f : Frame) (ok : Bool) (add : List Nat) (len : Nat) (prefixSame : Bool) :
    EncSpecSt × String :=
  let t' : EncSpecSt := { buf := t.buf ++ add, acc := if ok then t.acc ++ [f] else t.acc }
  let big := decide (f.payload.length > MAX_FRAME_SIZE)
  if ok == big then (t', "encode_limit")
  else if !ok then
    (t', if add.isEmpty && prefixSame && len == t.buf.length then "ok" else "reject_leaves_buffer")
  else if !(prefixSame && len == t.buf.length + add.length) then (t', "encode_appends")
  else if f.wire && !(drain .begin add == ([f], St.begin, [], none)) then (t', "roundtrip")
  else (t', "ok")

/-- judge one decode pass over the whole shared buffer (under some split): exactly the accepted
frames, in order, nothing left, no error -/
def specDecs (t : EncSpecSt) (frames : List Frame) (last : Status) (rem : Nat) : String :=
  let want := if t.acc.all Frame.wire then t.acc else (drain .begin t.buf).1
  if frames == want && last == .need && rem == 0 then "ok" else "stream_roundtrip"

/-- cut a buffer into chunks of the given sizes (the rest is the last chunk) -/
def cutChunks (buf : List Nat) : List Nat → List (List Nat)
  | [] => [buf]
  | n :: ns => buf.take n :: cutChunks (buf.drop n) ns

end C25
