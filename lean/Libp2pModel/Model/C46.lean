import Libp2pModel.Common.Multiaddr
import Libp2pModel.Common.Machine
/-!
# C46 — Identify only reports authenticated peer information

Transcription of the decision logic of
* `protocols/identify/src/protocol.rs`  — `parse_*`, `TryFrom<proto::Identify> for Info`,
  `TryFrom<proto::Identify> for PushInfo`, `Info::merge`;
* `core/src/signed_envelope.rs::payload_and_signing_key`, `core/src/peer_record.rs::
  from_signed_envelope_impl` (called by `Info::try_from`);
* `protocols/identify/src/handler.rs` — `handle_incoming_info` and the two receiving arms of
  `Handler::poll` (`ReceivedIdentify`, `ReceivedIdentifyPush`);
* `protocols/identify/src/behaviour.rs` — the `handler::Event::Identified` arm of
  `on_connection_handler_event` (`retain(multiaddr_matches_peer_id)`, then `Event::Received`).

Everything the identify code *calls but does not implement* (public-key / multiaddr / envelope /
record / peer-id decoders, `PublicKey::to_peer_id`, `SignedEnvelope::verify`) is a field of the
environment `Env`; the model and all theorems are parametric in it.  Keys `K` and decoded
envelopes `E` are abstract types.  Peer ids are their multihash bytes (the payload of a `/p2p`
multiaddr component in `Common.Multiaddr`).
-/
namespace C46

abbrev Bytes := List Nat

/-- `LEGACY_DOMAIN_SEP` (`core/src/peer_record.rs`) -/
def legacyDomain : Bytes := Maddr.strBytes "libp2p-routing-state"
/-- `LEGACY_PAYLOAD_TYPE` -/
def legacyPayloadType : Bytes := Maddr.strBytes "/libp2p/routing-state-record"

/-- `proto::PeerRecord` after `prost` decoding -/
structure RecordPb where
  peerId : Bytes
  seq : Nat
  addresses : List Bytes
  deriving DecidableEq, Repr

/-- The primitives the anchored code calls. -/
structure Env (K E : Type) where
  /-- `PublicKey::try_decode_protobuf` -/
  decodeKey : Bytes → Option K
  /-- `PublicKey::to_peer_id` (bytes of the peer id) -/
  peerIdOf : K → Bytes
  /-- `Multiaddr::try_from(Vec<u8>)` -/
  decodeAddr : Bytes → Option Maddr
  /-- `SignedEnvelope::from_protobuf_encoding` -/
  decodeEnvelope : Bytes → Option E
  envKey : E → K
  envPayloadType : E → Bytes
  envPayload : E → Bytes
  /-- `SignedEnvelope::verify(domain_separation)` -/
  verify : E → Bytes → Bool
  /-- `proto::PeerRecord::decode` -/
  decodeRecord : Bytes → Option RecordPb
  /-- `PeerId::from_bytes` -/
  decodePeerId : Bytes → Option Bytes

/-- `proto::Identify` -/
structure Msg where
  publicKey : Option Bytes
  listenAddrs : List Bytes
  signedPeerRecord : Option Bytes
  observedAddr : Option Bytes
  protocols : List Bytes
  protocolVersion : Option Bytes
  agentVersion : Option Bytes
  deriving DecidableEq, Repr

/-- `identify::Info` -/
structure Info (K E : Type) where
  publicKey : K
  protocolVersion : Bytes
  agentVersion : Bytes
  listenAddrs : List Maddr
  protocols : List Bytes
  observedAddr : Maddr
  signedPeerRecord : Option E
  deriving DecidableEq

/-- `identify::PushInfo` -/
structure PushInfo (K : Type) where
  publicKey : Option K
  protocolVersion : Option Bytes
  agentVersion : Option Bytes
  listenAddrs : List Maddr
  protocols : List Bytes
  observedAddr : Option Maddr

/-- `core::PeerRecord` -/
structure PeerRecord (E : Type) where
  peerId : Bytes
  seq : Nat
  addresses : List Maddr
  envelope : E

variable {K E : Type}

/-! ## `protocol.rs` parsers -/

/-- `parse_listen_addrs`: undecodable entries are skipped -/
def parseListenAddrs (env : Env K E) (l : List Bytes) : List Maddr :=
  l.filterMap env.decodeAddr

/-- `StreamProtocol::try_from_owned` succeeds iff the string starts with `/` -/
def validProtocol (p : Bytes) : Bool :=
  match p with
  | 0x2f :: _ => true
  | _ => false

/-- `parse_protocols` -/
def parseProtocols (l : List Bytes) : List Bytes := l.filter validProtocol

/-- `parse_public_key` -/
def parsePublicKey (env : Env K E) (pk : Option Bytes) : Option K := pk.bind env.decodeKey

/-- `parse_observed_addr` -/
def parseObservedAddr (env : Env K E) (o : Option Bytes) : Option Maddr := o.bind env.decodeAddr

/-! ## `core`: envelope and peer record -/

/-- `SignedEnvelope::payload_and_signing_key`: payload type first, then the signature. -/
def payloadAndSigningKey (env : Env K E) (e : E) (domain expectedType : Bytes) : Option (Bytes × K) :=
  if env.envPayloadType e ≠ expectedType then none
  else if !env.verify e domain then none
  else some (env.envPayload e, env.envKey e)

/-- `PeerRecord::from_signed_envelope` (= `from_signed_envelope_impl` with the legacy constants) -/
def fromSignedEnvelope (env : Env K E) (e : E) : Option (PeerRecord E) :=
  match payloadAndSigningKey env e legacyDomain legacyPayloadType with
  | none => none
  | some (payload, signingKey) =>
    match env.decodeRecord payload with
    | none => none
    | some record =>
      match env.decodePeerId record.peerId with
      | none => none
      | some peerId =>
        if peerId ≠ env.peerIdOf signingKey then none
        else
          match record.addresses.mapM env.decodeAddr with
          | none => none
          | some addresses => some ⟨peerId, record.seq, addresses, e⟩

/-! ## `TryFrom<proto::Identify>` -/

/-- the `msg.signed_peer_record.and_then(|b| …)` closure of `Info::try_from` -/
def recordFor (env : Env K E) (key : K) (spr : Option Bytes) : Option (List Maddr × Option E) :=
  spr.bind fun b =>
    (env.decodeEnvelope b).bind fun envelope =>
      (fromSignedEnvelope env envelope).bind fun peerRecord =>
        if peerRecord.peerId = env.peerIdOf key then
          some (peerRecord.addresses, some peerRecord.envelope)
        else none

/-- the `identify_public_key` of `Info::try_from`: the parsed key field, else the result of
decoding the empty byte string (`PublicKey::try_decode_protobuf(Default::default())?`) -/
def msgKey (env : Env K E) (m : Msg) : Option K :=
  match parsePublicKey env m.publicKey with
  | some k => some k
  | none => env.decodeKey []

/-- `Info::try_from(proto::Identify)`; `none` = `Err(UpgradeError::PublicKey)`.
When the key field is missing or undecodable the code decodes the empty byte string instead
("this will always produce a DecodingError") — transcribed literally. -/
def tryFrom (env : Env K E) (msg : Msg) : Option (Info K E) :=
  match msgKey env msg with
  | none => none
  | some key =>
    let (listenAddrs, signedEnvelope) :=
      (recordFor env key msg.signedPeerRecord).getD (parseListenAddrs env msg.listenAddrs, none)
    some {
      publicKey := key
      protocolVersion := msg.protocolVersion.getD []
      agentVersion := msg.agentVersion.getD []
      listenAddrs := listenAddrs
      protocols := parseProtocols msg.protocols
      observedAddr := (parseObservedAddr env msg.observedAddr).getD []
      signedPeerRecord := signedEnvelope }

/-- `PushInfo::try_from(proto::Identify)` (never fails; the signed record field is ignored) -/
def pushFrom (env : Env K E) (msg : Msg) : PushInfo K :=
  { publicKey := parsePublicKey env msg.publicKey
    protocolVersion := msg.protocolVersion
    agentVersion := msg.agentVersion
    listenAddrs := parseListenAddrs env msg.listenAddrs
    protocols := parseProtocols msg.protocols
    observedAddr := parseObservedAddr env msg.observedAddr }

/-- `Info::merge` (note: `signed_peer_record` is kept) -/
def merge (self : Info K E) (info : PushInfo K) : Info K E :=
  { publicKey := info.publicKey.getD self.publicKey
    protocolVersion := info.protocolVersion.getD self.protocolVersion
    agentVersion := info.agentVersion.getD self.agentVersion
    listenAddrs := if info.listenAddrs.isEmpty then self.listenAddrs else info.listenAddrs
    protocols := if info.protocols.isEmpty then self.protocols else info.protocols
    observedAddr := info.observedAddr.getD self.observedAddr
    signedPeerRecord := self.signedPeerRecord }

/-! ## handler and behaviour -/

/-- `multiaddr_matches_peer_id` -/
def matchesPeer (addr : Maddr) (p : Bytes) : Bool :=
  match addr.getLast? with
  | some (.p2p q) => q == p
  | _ => true

/-- the `Identified` arm of `Behaviour::on_connection_handler_event`: the `info` of `Event::Received` -/
def filterInfo (p : Bytes) (info : Info K E) : Info K E :=
  { info with listenAddrs := info.listenAddrs.filter (matchesPeer · p) }

/-- per-connection handler state relevant here: `Handler::remote_info` -/
abbrev HState (K E : Type) := Option (Info K E)

/-- `Handler::handle_incoming_info` (the supported-protocols bookkeeping is not observable here) -/
def handleIncomingInfo (env : Env K E) (p : Bytes) (st : HState K E) (info : Info K E) :
    HState K E × Bool :=
  if p ≠ env.peerIdOf info.publicKey then (st, false) else (some info, true)

/-- what arrives on a connection -/
inductive Op where
  /-- a message on an outbound `/ipfs/id/1.0.0` stream (`Success::ReceivedIdentify`) -/
  | identify (m : Msg)
  /-- a message on an inbound `/ipfs/id/push/1.0.0` stream (`Success::ReceivedIdentifyPush`) -/
  | push (m : Msg)
  deriving DecidableEq, Repr

/-- what the behaviour emits for it -/
inductive Out (K E : Type) where
  /-- `Event::Received { info }` -/
  | received (info : Info K E)
  /-- `Event::Error` (`UpgradeError::PublicKey`) -/
  | error
  /-- nothing (message discarded, or push before any identify) -/
  | nothing
  deriving DecidableEq

/-- One received message through `Handler::poll` and `Behaviour::on_connection_handler_event`
on a connection whose authenticated remote peer id is `p`. -/
def step (env : Env K E) (p : Bytes) (st : HState K E) : Op → HState K E × Out K E
  | .identify m =>
    match tryFrom env m with
    | none => (st, .error)
    | some remoteInfo =>
      match handleIncomingInfo env p st remoteInfo with
      | (st', true) => (st', .received (filterInfo p remoteInfo))
      | (st', false) => (st', .nothing)
  | .push m =>
    match st with
    | none => (st, .nothing)
    | some info0 =>
      let info := merge info0 (pushFrom env m)
      match handleIncomingInfo env p st info with
      | (st', true) => (st', .received (filterInfo p info))
      | (st', false) => (st', .nothing)

/-! ## The property as an executable predicate (the Spec run on the implementation's outputs) -/

variable [DecidableEq K] [DecidableEq E]

/-- addresses carried by an envelope's record (all-or-nothing decoding) -/
def recordAddrs (env : Env K E) (e : E) : Option (List Maddr) :=
  (env.decodeRecord (env.envPayload e)).bind fun r => r.addresses.mapM env.decodeAddr

/-- "`e` is a peer record validly signed by peer `p`": legacy payload type, signature verifies
under the legacy domain, the record decodes, names `p`, and the signing key derives `p`. -/
def authentic (env : Env K E) (p : Bytes) (e : E) : Bool :=
  env.envPayloadType e == legacyPayloadType && env.verify e legacyDomain &&
  (match env.decodeRecord (env.envPayload e) with
   | none => false
   | some r => env.decodePeerId r.peerId == some p && (r.addresses.mapM env.decodeAddr).isSome) &&
  env.peerIdOf (env.envKey e) == p

/-- the message carries a record authentic for `q` -/
def msgRecord (env : Env K E) (q : Bytes) (m : Msg) : Option E :=
  match m.signedPeerRecord.bind env.decodeEnvelope with
  | some e => if authentic env q e then some e else none
  | none => none

/-- Spec of one step.  `prev` = the `info` of the previous `Received` on this connection (as
reported by the implementation), `out` = what the implementation emitted for `op`. -/
def specStep (env : Env K E) (p : Bytes) (prev : Option (Info K E)) (op : Op) (out : Out K E) : Bool :=
  match out with
  | .received info =>
    -- (1) the reported key derives the connection's peer id
    env.peerIdOf info.publicKey == p &&
    -- (3) no reported listen address names another /p2p peer
    info.listenAddrs.all (matchesPeer · p) &&
    -- (2) a signed record is used only if authentic for `p`, and then supplies the addresses
    (match op with
     | .identify m =>
       msgKey env m == some info.publicKey &&
       (match info.signedPeerRecord with
        | some e => msgRecord env p m == some e &&
                    some info.listenAddrs = (recordAddrs env e).map (·.filter (matchesPeer · p))
        | none => msgRecord env p m == none &&
                  info.listenAddrs = (parseListenAddrs env m.listenAddrs).filter (matchesPeer · p))
     | .push _ =>
       (match prev with
        | none => false
        | some i0 => info.signedPeerRecord == i0.signedPeerRecord) &&
       (match info.signedPeerRecord with
        | some e => authentic env p e
        | none => true))
  | .error =>
    match op with
    | .identify m => msgKey env m == none
    | .push _ => false
  | .nothing =>
    match op with
    | .identify m =>
      (match msgKey env m with
       | some k => env.peerIdOf k != p
       | none => false)
    | .push m =>
      (match prev with
       | none => true
       | some i0 => env.peerIdOf ((parsePublicKey env m.publicKey).getD i0.publicKey) != p)

/-- the three direct calls of the `tryfrom` harness op: `Info::try_from`, then
`handle_incoming_info` on a fresh handler for peer `p`, then `multiaddr_matches_peer_id` as a
filter over the parsed addresses -/
def tryDirect (env : Env K E) (p : Bytes) (m : Msg) : Option (Info K E × Bool × List Maddr) :=
  (tryFrom env m).map fun i =>
    (i, (handleIncomingInfo env p none i).2, i.listenAddrs.filter (matchesPeer · p))

/-- Spec of the direct calls -/
def specTryFrom (env : Env K E) (p : Bytes) (m : Msg) (res : Option (Info K E × Bool × List Maddr)) : Bool :=
  match res with
  | none => msgKey env m == none
  | some (info, acc, filt) =>
    msgKey env m == some info.publicKey &&
    (acc == (env.peerIdOf info.publicKey == p)) &&
    filt.all (matchesPeer · p) && filt == info.listenAddrs.filter (matchesPeer · p) &&
    (match info.signedPeerRecord with
     | some e => msgRecord env (env.peerIdOf info.publicKey) m == some e &&
                 some info.listenAddrs = recordAddrs env e
     | none => msgRecord env (env.peerIdOf info.publicKey) m == none &&
               info.listenAddrs = parseListenAddrs env m.listenAddrs)

/-- monitor: the previous reported info is tracked from the outputs themselves -/
def specNext (prev : Option (Info K E)) (out : Out K E) : Option (Info K E) :=
  match out with
  | .received info => some info
  | _ => prev

/-- run the Spec over a trace of (op, output) pairs -/
def specTrace (env : Env K E) (p : Bytes) : Option (Info K E) → List (Op × Out K E) → Bool
  | _, [] => true
  | prev, (op, out) :: rest => specStep env p prev op out && specTrace env p (specNext prev out) rest

end C46
