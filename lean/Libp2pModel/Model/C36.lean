import Libp2pModel.Common.Drv
/-!
# C36 — subscription filters bound what peers can make us track

Anchors: `protocols/gossipsub/src/subscription_filter.rs` (the trait's default methods,
`AllowAll`, `Whitelist` (and `Regex`/`Callback`: any predicate), `MaxCount`, `Combined`) and
`protocols/gossipsub/src/behaviour.rs::handle_received_subscriptions` (how the filtered set is
applied to the peer's topic set and which events are emitted), `handle_graft` (first loop).

Topics and peers are naturals.  A `HashMap<TopicHash, &Subscription>` / `HashSet<&Subscription>` is a
list with at most one entry per topic (iteration order is irrelevant for everything observed:
the peer's topic *set* and the *set* of emitted events).
-/
namespace C36

/-- `Subscription`: action (true = Subscribe) and topic -/
structure Sub where
  subscribe : Bool
  topic : Nat
deriving Repr, DecidableEq

inductive Filter where
  | allowAll
  | pred (allow : Nat → Bool)            -- Whitelist / Regex / Callback: `can_subscribe` is a predicate
  | maxCount (inner : Filter) (maxTopics maxPerRequest : Nat)
  | combined (f1 f2 : Filter)

/-- `can_subscribe` -/
def Filter.can : Filter → Nat → Bool
  | .allowAll, _ => true
  | .pred allow, t => allow t
  | .maxCount inner _ _, t => inner.can t
  | .combined f1 f2, t => f1.can t && f2.can t

/-- `filter_incoming_subscription_set`: the default (`retain(allow_incoming_subscription)` with
`allow_incoming_subscription = can_subscribe`) for every filter but `Combined`, which chains the
two members' methods.  (None of these returns `Err`.) -/
def Filter.filterSet : Filter → List Sub → List Sub
  | .combined f1 f2, s => f2.filterSet (f1.filterSet s)
  | f, s => s.filter (fun x => f.can x.topic)

/-- one step of the dedup loop of the default `filter_incoming_subscriptions`:
`Occupied(e) => if e.get().action != s.action { e.remove() }`, `Vacant(e) => e.insert(s)` -/
def dedupStep : List Sub → Sub → List Sub
  | [], s => [s]
  | e :: m, s =>
    if e.topic = s.topic then (if e.subscribe ≠ s.subscribe then m else e :: m)
    else e :: dedupStep m s

def dedup (subs : List Sub) : List Sub := subs.foldl dedupStep []

/-- `filter_incoming_subscriptions(subscriptions, currently_subscribed_topics)`;
`none` = `Err(..)` -/
def Filter.filterIncoming : Filter → List Sub → List Nat → Option (List Sub)
  | .maxCount inner maxTopics maxPerRequest, subs, cur =>
    if subs.length > maxPerRequest then none
    else match inner.filterIncoming subs cur with
      | none => none
      | some result =>
        let unsubscribed := (result.filter (fun s => !s.subscribe && cur.contains s.topic)).length
        let newSubscribed := (result.filter (fun s => s.subscribe && !cur.contains s.topic)).length
        if newSubscribed + cur.length > maxTopics + unsubscribed then none else some result
  | f, subs, _ => some (f.filterSet (dedup subs))

/-- `BTreeSet::insert` on a duplicate-free list -/
def setInsert (l : List Nat) (t : Nat) : List Nat := if l.contains t then l else t :: l

/-- the loop of `handle_received_subscriptions` over the filtered set, as far as the peer's topic
set goes -/
def applySubs (cur : List Nat) : List Sub → List Nat
  | [] => cur
  | s :: r => applySubs (if s.subscribe then setInsert cur s.topic else cur.erase s.topic) r

/-- node state: the tracked topic set of every connected peer -/
abbrev State := List (Nat × List Nat)

def topicsOf (st : State) (p : Nat) : List Nat :=
  match st.find? (·.1 = p) with
  | some e => e.2
  | none => []

def setTopics (st : State) (p : Nat) (ts : List Nat) : State :=
  match st with
  | [] => [(p, ts)]
  | e :: r => if e.1 = p then (p, ts) :: r else e :: setTopics r p ts

inductive Op where
  | subs (peer : Nat) (subs : List Sub)   -- the subscriptions of one RPC
  | graft (peer : Nat) (topic : Nat)      -- a GRAFT (not a subscription RPC; see `handle_graft`)
deriving Repr

/-- what one op makes observable: the filter's verdict and the emitted `Subscribed`/`Unsubscribed`
events (as subscriptions) -/
structure Out where
  verdict : Option (List Sub)
  events : List Sub
deriving Repr

/-- `handle_received_subscriptions` / the first loop of `handle_graft` -/
def step (F : Filter) (st : State) : Op → State × Out
  | .subs p subs =>
    match F.filterIncoming subs (topicsOf st p) with
    | none => (st, ⟨none, []⟩)                       -- "ignoring RPC from peer": early return
    | some result => (setTopics st p (applySubs (topicsOf st p) result), ⟨some result, result⟩)
  | .graft p t => (setTopics st p (setInsert (topicsOf st p) t), ⟨some [], []⟩)

/-! ## executable Spec (a monitor over the implementation's outputs) -/

/-- Judged after a `subs` op on what the IMPLEMENTATION reported: the peer's topics before and
after, whether the filter (called directly) rejected, the emitted events, the topics that entered
the peer's set through a GRAFT (exempt: not a subscription RPC).
* `disallowed_topic_tracked`: a tracked topic the filter does not allow;
* `max_topics_exceeded`: under an outermost `MaxCount`, more than `max_subscribed_topics` topics;
* `oversize_request_accepted`: under an outermost `MaxCount`, a request with more than
  `max_subscriptions_per_request` entries that was not rejected;
* `reject_not_noop`: a rejected request changed the topic set or emitted events. -/
def specSubs (F : Filter) (reqLen : Nat) (before after grafted : List Nat) (rejected : Bool)
    (nEvents : Nat) : String :=
  let tracked := after.filter (fun t => !grafted.contains t)
  if tracked.any (fun t => !F.can t) then "FAIL:disallowed_topic_tracked"
  else match F with
    | .maxCount _ maxTopics maxPerRequest =>
      if tracked.length > maxTopics then "FAIL:max_topics_exceeded"
      else if reqLen > maxPerRequest ∧ !rejected then "FAIL:oversize_request_accepted"
      else if rejected ∧ (nEvents ≠ 0 ∨ after ≠ before) then "FAIL:reject_not_noop"
      else "ok"
    | _ => if rejected ∧ (nEvents ≠ 0 ∨ after ≠ before) then "FAIL:reject_not_noop" else "ok"

end C36
