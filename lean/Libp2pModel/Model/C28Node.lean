import Libp2pModel.Model.C32
/-!
# The gossipsub node model shared by C28 and C29
(`protocols/gossipsub/src/behaviour.rs`: `on_connection_established/closed`, `handle_established_*`,
`HandlerEvent::PeerKind`, `handle_received_subscriptions`, `handle_graft`, `handle_prune`,
`remove_peer_from_mesh`, `join`, `leave`, `make_prune`, the mesh part of `heartbeat`,
`send_graft_prune`, `peer_added_to_mesh`, `peer_removed_from_mesh`)

Transcribed state: `connected_peers` (kind, outbound, connections, topics), `explicit_peers`, `mesh`,
`fanout`, `backoffs` (the C32 model of `BackoffStorage`, driven with the op's time), `heartbeat_ticks`.
Ghost state: `belief p c` = what the handler of connection `c` of peer `p` believes (`in_mesh`):
the fold of the `JoinedMesh`/`LeftMesh` notifications sent to it, `false` for a new connection.

Not modelled, inputs instead:
* peer scores — every op carries `sc p` (the integer score `peer_score()` reports just before the op;
  0 when scoring is off);
* `rand` — every random selection is an oracle read off the implementation's result and validated
  (`choice ⊆ pool ∧ |choice| = min need |pool|`); for the heartbeat the final mesh is the oracle and the
  model searches the decomposition into the three grafting steps;
* the fanout writers `publish` / heartbeat fanout maintenance (exact model: C35) — here the resulting
  fanout entry is an oracle validated as `new ⊆ old ∪ {connected gossipsub subscribers}`, which is what
  `join` relies on;
* peers are gossipsub v1.1 or floodsub (a v1.0 peer gets PRUNE without backoff and no backoff entry);
  `do_px` off, `prune_peers = 0`, no blacklist, no partial messages.

`Fixes` selects the repaired code paths: `graftKind` (`handle_graft` ignores peers that did not
negotiate gossipsub; finding C28-graft-from-floodsub) and `hbJoin` (`send_graft_prune` calls
`peer_added_to_mesh` once per peer with all grafted topics; finding C29-heartbeat-multi-graft).
-/
namespace C28

structure Peer where
  /-- `kind.is_gossipsub()`; `false` = `PeerKind::Floodsub` -/
  gossip : Bool
  outbound : Bool
  /-- `connections`; the first one is the one that gets notified -/
  conns : List Nat
  topics : List Nat
deriving Repr

structure Cfg where
  meshN : Nat
  meshLow : Nat
  meshHigh : Nat
  outMin : Nat
  /-- `prune_backoff`, `unsubscribe_backoff` in seconds -/
  pruneBackoff : Nat
  unsubBackoff : Nat
  /-- peer scoring active -/
  scoring : Bool
  oppTicks : Nat
  oppPeers : Nat
  /-- 2 × `opportunistic_graft_threshold` -/
  oppThr2 : Int
deriving Repr

structure Fixes where
  graftKind : Bool
  hbJoin : Bool

def fixed : Fixes := ⟨true, true⟩

structure State where
  cfg : Cfg
  peers : Nat → Option Peer
  explicit : List Nat
  mesh : Nat → Option (List Nat)
  fanout : Nat → Option (List Nat)
  backoff : C32.State
  ticks : Nat
  belief : Nat → Nat → Bool

/-- peer and topic universes of the driver (pools are enumerated over them) -/
def peerUniverse : List Nat := List.range 16
def topicUniverse : List Nat := [0, 1, 2, 3]

def sec : Nat := 1000000000

/-- greatest `Instant` under the harness' frozen clock (base 10^6 s), as in C32 -/
def instantLimit : Nat := (2 ^ 63 - 1 - 1000000) * sec + 999999999

def emptyBackoff : C32.State :=
  { backoffs := fun _ => none, ring := [[]], hi := 0, hb := sec, slack := 1, limit := instantLimit }

def init (c : Cfg) (hb slack : Nat) : State :=
  { cfg := c, peers := fun _ => none, explicit := [], mesh := fun _ => none, fanout := fun _ => none,
    backoff := (C32.new instantLimit (sec * c.pruneBackoff) hb slack).getD emptyBackoff,
    ticks := 0, belief := fun _ _ => false }

def setF {α : Type} (f : Nat → Option α) (k : Nat) (v : Option α) : Nat → Option α :=
  fun k' => if k' = k then v else f k'

def ins (l : List Nat) (x : Nat) : List Nat := if l.contains x then l else l ++ [x]
def insAll (l : List Nat) (xs : List Nat) : List Nat := xs.foldl ins l
def del (l : List Nat) (x : Nat) : List Nat := l.filter (· != x)

def inMesh (s : State) (t p : Nat) : Bool :=
  match s.mesh t with
  | some m => m.contains p
  | none => false

/-! ## notifications -/

/-- `(peer, connection, joined?)` = `NotifyHandler { peer_id, handler: One(connection), event }` -/
abbrev Notif := Nat × Nat × Bool

/-- `peer_added_to_mesh(peer, new_topics, &mesh, …)` evaluated on `s` -/
def peerAdded (s : State) (p : Nat) (newTopics : List Nat) : List Notif :=
  match s.peers p with
  | none => []
  | some pd =>
    match pd.conns with
    | [] => []   -- `.expect("There should be at least one connection to a peer.")`: unreachable (Inv)
    | c :: _ =>
      if pd.topics.any (fun t => !newTopics.contains t && inMesh s t p) then [] else [(p, c, true)]

/-- `peer_removed_from_mesh(peer, old_topic, &mesh, …)` evaluated on `s` -/
def peerRemoved (s : State) (p : Nat) (old : Nat) : List Notif :=
  match s.peers p with
  | none => []
  | some pd =>
    match pd.conns with
    | [] => []
    | c :: _ =>
      if pd.topics.any (fun t => t != old && inMesh s t p) then [] else [(p, c, false)]

def applyNotifs (b : Nat → Nat → Bool) (ns : List Notif) : Nat → Nat → Bool :=
  ns.foldl (fun b n => fun p c => if p = n.1 ∧ c = n.2.1 then n.2.2 else b p c) b

/-- queue the notifications: the ghost belief follows them -/
def notify (s : State) (ns : List Notif) : State := { s with belief := applyNotifs s.belief ns }

/-! ## outputs of one op -/

/-- control RPCs queued for a peer: `(peer, topic, none)` = GRAFT, `(peer, topic, some secs)` = PRUNE
with that backoff -/
abbrev Rpc := Nat × Nat × Option Nat

structure Out where
  notifs : List Notif := []
  rpcs : List Rpc := []
  /-- the oracle of the op was not an admissible random choice -/
  bad : Bool := false

/-! ## connections -/

/-- `handle_established_{in,out}bound_connection` + `on_connection_established`; a new connection has
a new handler (`in_mesh = false`) -/
def connect (s : State) (p c : Nat) (outbound : Bool) : State :=
  let pd := match s.peers p with
    | some pd => { pd with conns := pd.conns ++ [c] }
    | none => { gossip := false, outbound := outbound, conns := [c], topics := [] }
  { s with peers := setF s.peers p (some pd), belief := fun p' c' => if p' = p ∧ c' = c then false else s.belief p' c' }

/-- `HandlerEvent::PeerKind(kind)`: only a `Floodsub` entry is changed -/
def setKind (s : State) (p : Nat) (gossip : Bool) : State :=
  match s.peers p with
  | some pd => if pd.gossip then s else { s with peers := setF s.peers p (some { pd with gossip := gossip }) }
  | none => s

def eraseFirst (l : List Nat) (c : Nat) : List Nat := l.erase c

/-- `on_connection_closed`; `remaining_established` = connections left after this one -/
def disconnect (s : State) (p c : Nat) : State × Out :=
  match s.peers p with
  | none => (s, {})
  | some pd =>
    let rest := eraseFirst pd.conns c
    if rest ≠ [] then
      let s1 := { s with peers := setF s.peers p (some { pd with conns := rest }) }
      -- "If there are more connections and this peer is in a mesh, inform the first connection handler."
      let ns : List Notif := if pd.topics.any (fun t => inMesh s t p) then [(p, rest.headD 0, true)] else []
      (notify s1 ns, { notifs := ns })
    else
      ({ s with
          mesh := fun t => if pd.topics.contains t then (s.mesh t).map (fun m => del m p) else s.mesh t
          fanout := fun t => if pd.topics.contains t then (s.fanout t).map (fun m => del m p) else s.fanout t
          peers := setF s.peers p none }, {})

/-! ## backoff and score helpers -/

def backedOffSlack (s : State) (t p : Nat) : Bool := C32.isBackoffWithSlack s.backoff (t, p)
def backedOffNow (s : State) (t p now : Nat) : Bool := C32.penalisesGraft s.backoff (t, p) now

def updateBackoff (s : State) (now t p secs : Nat) : State :=
  { s with backoff := C32.update s.backoff now (t, p) (sec * secs) }

def setTopics (s : State) (p : Nat) (f : List Nat → List Nat) : State :=
  match s.peers p with
  | some pd => { s with peers := setF s.peers p (some { pd with topics := f pd.topics }) }
  | none => s

/-- `MAX_REMOTE_PRUNE_BACKOFF_SECONDS` -/
def maxRemoteBackoff : Nat := 3600

/-- `remove_peer_from_mesh(peer, topic, backoff, always_update_backoff)` -/
def removePeerFromMesh (s : State) (now p t : Nat) (backoff : Option Nat) (always : Bool) : State × List Notif :=
  let removed := inMesh s t p
  let (s1, ns) :=
    if removed then
      let s1 := { s with mesh := setF s.mesh t ((s.mesh t).map (fun m => del m p)) }
      let ns := peerRemoved s1 p t
      (notify s1 ns, ns)
    else (s, [])
  let s2 := if always || removed then
      updateBackoff s1 now t p (match backoff with | some b => min b maxRemoteBackoff | none => s.cfg.pruneBackoff)
    else s1
  (s2, ns)

/-! ## subscriptions -/

/-- the default `filter_incoming_subscriptions` (see C35) -/
def filterSubs : List (Bool × Nat) → List (Bool × Nat) → List (Bool × Nat)
  | acc, [] => acc
  | acc, (a, t) :: rest =>
    match acc.find? (fun e => e.2 == t) with
    | some e => if e.1 != a then filterSubs (acc.filter (fun e => e.2 != t)) rest else filterSubs acc rest
    | none => filterSubs (acc ++ [(a, t)]) rest

/-- the `Subscribe` arm of the loop in `handle_received_subscriptions`; returns the topic when the
peer was grafted -/
def subscribeArm (s : State) (sc : Nat → Int) (p t : Nat) : State × List Nat :=
  let s1 := setTopics s p (fun ts => ins ts t)
  match s1.peers p with
  | none => (s1, [])
  | some pd =>
    if !s1.explicit.contains p && pd.gossip && !(decide (sc p < 0)) && !backedOffSlack s1 t p then
      match s1.mesh t with
      | some m =>
        if m.length < s1.cfg.meshLow && !m.contains p then
          ({ s1 with mesh := setF s1.mesh t (some (m ++ [p])) }, [t])
        else (s1, [])
      | none => (s1, [])
    else (s1, [])

/-- the loop over the filtered subscriptions: state, grafted topics, unsubscribed topics -/
def subsLoop (sc : Nat → Int) (p : Nat) :
    List (Bool × Nat) → State → List Nat → List Nat → State × List Nat × List Nat
  | [], s, g, u => (s, g, u)
  | (true, t) :: rest, s, g, u =>
    let r := subscribeArm s sc p t
    subsLoop sc p rest r.1 (g ++ r.2) u
  | (false, t) :: rest, s, g, u =>
    subsLoop sc p rest (setTopics s p (fun ts => del ts t)) g (u ++ [t])

/-- "remove unsubscribed peers from the mesh and fanout if they exist there" -/
def unsubLoop (now p : Nat) : List Nat → State → List Notif → State × List Notif
  | [], s, ns => (s, ns)
  | t :: rest, s, ns =>
    let s1 := { s with fanout := setF s.fanout t ((s.fanout t).map (fun m => del m p)) }
    let r := removePeerFromMesh s1 now p t none false
    unsubLoop now p rest r.1 (ns ++ r.2)

/-- `handle_received_subscriptions` -/
def recvSubs (s : State) (now : Nat) (sc : Nat → Int) (p : Nat) (subs : List (Bool × Nat)) : State × Out :=
  match s.peers p with
  | none => (s, {})
  | some _ =>
    let (s1, grafted, unsub) := subsLoop sc p (filterSubs [] subs) s [] []
    let (s2, ns1) := unsubLoop now p unsub s1 []
    let ns2 := if grafted.isEmpty then [] else peerAdded s2 p grafted
    (notify s2 ns2, { notifs := ns1 ++ ns2, rpcs := grafted.map (fun t => (p, t, none)) })

/-! ## GRAFT / PRUNE received -/

/-- one topic of the loop in `handle_graft`: state, topics to answer with PRUNE, notifications -/
def graftTopic (s : State) (now : Nat) (belowZero : Bool) (p t : Nat) : State × List Nat × List Notif :=
  match s.mesh t with
  | none => (s, [], [])                      -- unknown topic: ignored
  | some m =>
    if m.contains p then (s, [], [])         -- already in the mesh
    else if backedOffNow s t p now then (s, [t], [])   -- penalty, PRUNE
    else if belowZero then (s, [t], [])
    else if m.length ≥ s.cfg.meshHigh then (s, [t], [])
    else
      let s1 := { s with mesh := setF s.mesh t (some (m ++ [p])) }
      let ns := peerAdded s1 p [t]
      (notify s1 ns, [], ns)

def graftLoop (now : Nat) (belowZero : Bool) (p : Nat) :
    List Nat → State → List Nat → List Notif → State × List Nat × List Notif
  | [], s, pr, ns => (s, pr, ns)
  | t :: rest, s, pr, ns =>
    let r := graftTopic s now belowZero p t
    graftLoop now belowZero p rest r.1 (insAll pr r.2.1) (ns ++ r.2.2)

/-- `make_prune` for each topic (v1.1 peer): backoff recorded, PRUNE carries it -/
def pruneAll (now p secs : Nat) : List Nat → State → State
  | [], s => s
  | t :: rest, s => pruneAll now p secs rest (updateBackoff s now t p secs)

/-- `handle_graft` -/
def recvGraftG (fx : Fixes) (s : State) (now : Nat) (sc : Nat → Int) (p : Nat) (ts : List Nat) : State × Out :=
  match s.peers p with
  | none => (s, {})
  | some pd =>
    if fx.graftKind && !pd.gossip then (s, {})
    else
      let s1 := setTopics s p (fun cur => insAll cur ts)
      if s1.explicit.contains p then (s1, {})
      else
        let (s2, toPrune, ns) := graftLoop now (decide (sc p < 0)) p ts s1 [] []
        let s3 := pruneAll now p s.cfg.pruneBackoff toPrune s2
        (s3, { notifs := ns, rpcs := toPrune.map (fun t => (p, t, some s.cfg.pruneBackoff)) })

def pruneLoop (now p : Nat) : List (Nat × Option Nat) → State → List Notif → State × List Notif
  | [], s, ns => (s, ns)
  | (t, b) :: rest, s, ns =>
    let r := removePeerFromMesh s now p t b true
    pruneLoop now p rest r.1 (ns ++ r.2)

/-- `handle_prune` -/
def recvPrune (s : State) (now p : Nat) (l : List (Nat × Option Nat)) : State × Out :=
  let (s1, ns) := pruneLoop now p l s []
  (s1, { notifs := ns })

/-! ## subscribe / unsubscribe -/

/-- is `choice` an admissible result of `get_random_peers(.., need, f)` over `pool`? -/
def validChoice (choice pool : List Nat) (need : Nat) : Bool :=
  choice.all (pool.contains ·) && choice.Nodup && choice.length == min need pool.length

/-- `get_random_peers` pool: connected, subscribed to `t`, gossipsub, and `f` -/
def poolOf (s : State) (t : Nat) (f : Nat → Peer → Bool) : List Nat :=
  peerUniverse.filter (fun p => match s.peers p with
    | some pd => pd.topics.contains t && pd.gossip && f p pd
    | none => false)

def sortNat (l : List Nat) : List Nat := l.mergeSort (fun a b => a ≤ b)

/-- notifications of a batch of `peer_added_to_mesh(p, [t])` calls on the final state -/
def addedCalls (s : State) (t : Nat) : List Nat → List Notif
  | [] => []
  | p :: rest => peerAdded s p [t] ++ addedCalls s t rest

/-- `join`: not explicit, score not negative, not backed off (with slack) -/
def joinOk (s : State) (sc : Nat → Int) (t p : Nat) : Bool :=
  !s.explicit.contains p && !(decide (sc p < 0)) && !backedOffSlack s t p

/-- `join`: fanout peers first (BTreeSet order), up to `mesh_n` -/
def joinFromFan (s : State) (sc : Nat → Int) (t : Nat) : List Nat :=
  match s.fanout t with
  | some f => ((sortNat f).filter (joinOk s sc t)).take s.cfg.meshN
  | none => []

/-- `subscribe` → `join`; `final` = the topic's mesh the implementation ended with (oracle) -/
def subscribe (s : State) (sc : Nat → Int) (t : Nat) (final : List Nat) : State × Out :=
  match s.mesh t with
  | some _ => (s, {})                     -- already subscribed
  | none =>
    let fromFan := joinFromFan s sc t
    let s1 := { s with fanout := setF s.fanout t none }
    if fromFan.length < s.cfg.meshN then
      let pool := poolOf s t (fun p _ => !fromFan.contains p && joinOk s sc t p)
      let pick := final.filter (fun p => !fromFan.contains p)
      if validChoice pick pool (s.cfg.meshN - fromFan.length) then
        let added := fromFan ++ pick
        let s2 := { s1 with mesh := setF s.mesh t (some added) }
        let ns := addedCalls s2 t added
        (notify s2 ns, { notifs := ns, rpcs := added.map (fun p => (p, t, none)) })
      else (s, { bad := true })
    else
      let s2 := { s1 with mesh := setF s.mesh t (some fromFan) }
      let ns := addedCalls s2 t fromFan
      (notify s2 ns, { notifs := ns, rpcs := fromFan.map (fun p => (p, t, none)) })

/-- the peers of `leave`: PRUNE with the unsubscribe backoff + `peer_removed_from_mesh` each -/
def leaveLoop (now t secs : Nat) : List Nat → State → List Notif → State × List Notif
  | [], s, ns => (s, ns)
  | p :: rest, s, ns =>
    let s1 := updateBackoff s now t p secs
    let n := peerRemoved s1 p t
    leaveLoop now t secs rest (notify s1 n) (ns ++ n)

/-- `unsubscribe` → `leave` -/
def unsubscribe (s : State) (now t : Nat) : State × Out :=
  match s.mesh t with
  | none => (s, {})
  | some m =>
    let s1 := { s with mesh := setF s.mesh t none }
    let (s2, ns) := leaveLoop now t s.cfg.unsubBackoff m s1 []
    (s2, { notifs := ns, rpcs := m.map (fun p => (p, t, some s.cfg.unsubBackoff)) })

def addExplicit (s : State) (p : Nat) : State := { s with explicit := ins s.explicit p }

/-! ## fanout writers outside this model (exact model: C35) -/

def fanEligible (s : State) (t p : Nat) : Bool :=
  match s.peers p with
  | some pd => pd.topics.contains t && pd.gossip
  | none => false

/-- is `new` an admissible successor of the fanout entry `old` of topic `t`? -/
def validFan (s : State) (t : Nat) (old new : Option (List Nat)) (mayCreate : Bool) : Bool :=
  match new with
  | none => true
  | some n =>
    (mayCreate || old.isSome) && n.all (fun p => (old.getD []).contains p || fanEligible s t p)

/-- `publish`: only the topic's fanout entry can change, and only when not subscribed -/
def publish (s : State) (t : Nat) (new : Option (List Nat)) : State × Out :=
  if (s.mesh t).isSome then
    (s, { bad := !(decide (new = s.fanout t)) })
  else if validFan s t (s.fanout t) new true then ({ s with fanout := setF s.fanout t new }, {})
  else (s, { bad := true })

/-! ## heartbeat -/

def outboundCount (s : State) (l : List Nat) : Nat :=
  (l.filter (fun p => match s.peers p with | some pd => pd.outbound | none => false)).length

/-- all ways to split a list into three labelled parts -/
def splits3 : List Nat → List (List Nat × List Nat × List Nat)
  | [] => [([], [], [])]
  | x :: xs => (splits3 xs).flatMap (fun r => [(x :: r.1, r.2.1, r.2.2), (r.1, x :: r.2.1, r.2.2), (r.1, r.2.1, x :: r.2.2)])

/-- admissible result of the "too many peers" step: `removed ⊆ m`, outbound peers are only
removed while more than `mesh_outbound_min` remain, as many as possible up to `excess` -/
def validRemoval (s : State) (removed m : List Nat) (excess : Nat) : Bool :=
  let out := outboundCount s m
  let outAllowed := out - s.cfg.outMin
  removed.all (m.contains ·) && removed.Nodup
    && decide (outboundCount s removed ≤ outAllowed)
    && removed.length == min excess ((m.length - out) + outAllowed)

/-- 2 × the median score of the mesh (as `heartbeat` computes it) -/
def median2 (sc : Nat → Int) (m : List Nat) : Int :=
  let sorted := (m.map sc).mergeSort (fun a b => a ≤ b)
  let middle := sorted.length / 2
  if sorted.length % 2 == 0 then sorted.getD (middle - 1) 0 + sorted.getD middle 0
  else 2 * sorted.getD middle 0

structure HbTopic where
  mesh : List Nat
  graft : List Nat
  prune : List Nat

/-- the eligibility every heartbeat graft shares -/
def hbOk (s : State) (t : Nat) (cur : List Nat) (p : Nat) : Bool :=
  !cur.contains p && !s.explicit.contains p && !backedOffSlack s t p

/-- the "too many peers" step -/
def removalOk (s : State) (removed m1 : List Nat) : Bool :=
  if m1.length ≥ s.cfg.meshHigh then validRemoval s removed m1 (m1.length - s.cfg.meshN) else removed.isEmpty

/-- one grafting step: when its condition holds the choice is a valid sample, otherwise nothing is chosen -/
def stepOk (cond : Bool) (choice pool : List Nat) (need : Nat) : Bool :=
  if cond then validChoice choice pool need else choice.isEmpty

/-- "too little peers" pool -/
def pool1 (s : State) (sc : Nat → Int) (t : Nat) (cur : List Nat) : List Nat :=
  poolOf s t (fun p _ => hbOk s t cur p && decide (sc p ≥ 0))

/-- "not enough outbound peers" pool -/
def pool2 (s : State) (sc : Nat → Int) (t : Nat) (cur : List Nat) : List Nat :=
  poolOf s t (fun p pd => hbOk s t cur p && decide (sc p ≥ 0) && pd.outbound)

/-- opportunistic grafting pool: score above the median -/
def pool3 (s : State) (sc : Nat → Int) (t : Nat) (cur : List Nat) : List Nat :=
  poolOf s t (fun p _ => hbOk s t cur p && decide (2 * sc p > median2 sc cur))

/-- does opportunistic grafting run for a mesh `cur`? -/
def oppCond (s : State) (sc : Nat → Int) (cur : List Nat) : Bool :=
  s.ticks % s.cfg.oppTicks == 0 && decide (cur.length > 1) && s.cfg.scoring && decide (median2 sc cur < s.cfg.oppThr2)

/-- mesh maintenance of one topic given the decomposition `(a1, a2, a3)` of the added peers and the
peers `removed` as excess; `none` = not an admissible run -/
def hbTry (s : State) (sc : Nat → Int) (t : Nat) (m removed : List Nat) (a : List Nat × List Nat × List Nat) :
    Option HbTopic :=
  let c := s.cfg
  -- drop all peers with negative score
  let m0 := m.filter (fun p => !(decide (sc p < 0)))
  let neg := m.filter (fun p => decide (sc p < 0))
  -- too little peers
  let ok1 := stepOk (decide (m0.length < c.meshLow)) a.1 (pool1 s sc t m0) (c.meshN - m0.length)
  let m1 := m0 ++ a.1
  -- too many peers
  let ok2 := removalOk s removed m1
  let m2 := m1.filter (fun p => !removed.contains p)
  -- enough outbound peers?
  let ok3 := stepOk (decide (m2.length ≥ c.meshLow) && decide (outboundCount s m2 < c.outMin)) a.2.1
      (pool2 s sc t m2) (c.outMin - outboundCount s m2)
  let m3 := m2 ++ a.2.1
  -- opportunistic grafting
  let ok4 := stepOk (oppCond s sc m3) a.2.2 (pool3 s sc t m3) c.oppPeers
  if ok1 && ok2 && ok3 && ok4 then
    some { mesh := m3 ++ a.2.2, graft := a.1 ++ a.2.1 ++ a.2.2, prune := neg ++ removed }
  else none

/-- one topic; `final` = the mesh the implementation ended with (oracle) -/
def hbTopic (s : State) (sc : Nat → Int) (t : Nat) (m final : List Nat) : Option HbTopic :=
  let m0 := m.filter (fun p => !(decide (sc p < 0)))
  let added := final.filter (fun p => !m0.contains p)
  let removed := m0.filter (fun p => !final.contains p)
  (splits3 added).findSome? (fun a => hbTry s sc t m removed a)

/-- the mesh loop over the topic universe: new mesh map, `to_graft`, `to_prune` as (peer, topic) -/
def hbMeshLoop (s : State) (sc : Nat → Int) (final : Nat → List Nat) :
    List Nat → (Nat → Option (List Nat)) → List (Nat × Nat) → List (Nat × Nat) →
      Option ((Nat → Option (List Nat)) × List (Nat × Nat) × List (Nat × Nat))
  | [], mesh, g, pr => some (mesh, g, pr)
  | t :: rest, mesh, g, pr =>
    match s.mesh t with
    | none => hbMeshLoop s sc final rest mesh g pr
    | some m =>
      match hbTopic s sc t m (final t) with
      | none => none
      | some r =>
        hbMeshLoop s sc final rest (setF mesh t (some r.mesh))
          (g ++ r.graft.map (fun p => (p, t))) (pr ++ r.prune.map (fun p => (p, t)))

/-- `send_graft_prune`, graft side, for one peer with its grafted topics `ts` (evaluated on the final
meshes): repaired = one `peer_added_to_mesh(p, ts)`; before = one call per topic -/
def graftCalls (fx : Fixes) (s : State) (p : Nat) (ts : List Nat) : List Notif :=
  if fx.hbJoin then peerAdded s p ts
  else ts.flatMap (fun t => peerAdded s p [t])

def topicsOf (l : List (Nat × Nat)) (p : Nat) : List Nat := (l.filter (fun e => e.1 == p)).map (·.2)

/-- graft side of `send_graft_prune` over the peers of `to_graft` -/
def sendGrafts (fx : Fixes) (toGraft : List (Nat × Nat)) : List Nat → State → List Notif → State × List Notif
  | [], s, ns => (s, ns)
  | p :: rest, s, ns =>
    let ts := topicsOf toGraft p
    if ts.isEmpty then sendGrafts fx toGraft rest s ns
    else
      let n := graftCalls fx s p ts
      sendGrafts fx toGraft rest (notify s n) (ns ++ n)

/-- "handle the remaining prunes": peers of `to_prune` that were not grafted anywhere -/
def sendPrunes (toGraft : List (Nat × Nat)) : List (Nat × Nat) → State → List Notif → State × List Notif
  | [], s, ns => (s, ns)
  | (p, t) :: rest, s, ns =>
    if (topicsOf toGraft p).isEmpty then
      let n := peerRemoved s p t
      sendPrunes toGraft rest (notify s n) (ns ++ n)
    else sendPrunes toGraft rest s ns

def pruneBackoffs (now secs : Nat) : List (Nat × Nat) → State → State
  | [], s => s
  | (p, t) :: rest, s => pruneBackoffs now secs rest (updateBackoff s now t p secs)

/-- fanout entries after the heartbeat (oracle, validated) -/
def hbFanout (s : State) (new : Nat → Option (List Nat)) : Option (Nat → Option (List Nat)) :=
  if topicUniverse.all (fun t => validFan s t (s.fanout t) (new t) false) then
    some (fun t => if topicUniverse.contains t then new t else s.fanout t)
  else none

/-- `heartbeat` (mesh maintenance, fanout, `send_graft_prune`) -/
def heartbeatG (fx : Fixes) (s : State) (now : Nat) (sc : Nat → Int) (final : Nat → List Nat)
    (fan : Nat → Option (List Nat)) : State × Out :=
  let s0 := { s with ticks := s.ticks + 1, backoff := (C32.heartbeat s.backoff now).getD s.backoff }
  match hbMeshLoop s0 sc final topicUniverse s0.mesh [] [], hbFanout s0 fan with
  | some (mesh, toGraft, toPrune), some fanout =>
    let s1 := { s0 with mesh := mesh, fanout := fanout }
    let (s2, ns1) := sendGrafts fx toGraft peerUniverse s1 []
    let (s3, ns2) := sendPrunes toGraft toPrune s2 []
    let s4 := pruneBackoffs now s.cfg.pruneBackoff toPrune s3
    (s4, { notifs := ns1 ++ ns2
           rpcs := toGraft.map (fun e => (e.1, e.2, none)) ++ toPrune.map (fun e => (e.1, e.2, some s.cfg.pruneBackoff)) })
  | _, _ => (s, { bad := true })

/-! ## op machine -/

inductive Op where
  | connect (p c : Nat) (outbound : Bool)
  | kind (p : Nat) (gossip : Bool)
  | disconnect (p c : Nat)
  | explicit (p : Nat)
  | subs (p : Nat) (l : List (Bool × Nat))
  | graft (p : Nat) (ts : List Nat)
  | prune (p : Nat) (l : List (Nat × Option Nat))
  | subscribe (t : Nat) (final : List Nat)
  | unsubscribe (t : Nat)
  | publish (t : Nat) (fan : Option (List Nat))
  | heartbeat (final : Nat → List Nat) (fan : Nat → Option (List Nat))
  | nop

/-- an op with the time and the scores read just before it -/
structure TOp where
  now : Nat
  sc : Nat → Int
  op : Op

def stepG (fx : Fixes) (s : State) (o : TOp) : State × Out :=
  match o.op with
  | .connect p c ob => (connect s p c ob, {})
  | .kind p g => (setKind s p g, {})
  | .disconnect p c => disconnect s p c
  | .explicit p => (addExplicit s p, {})
  | .subs p l => recvSubs s o.now o.sc p l
  | .graft p ts => recvGraftG fx s o.now o.sc p ts
  | .prune p l => recvPrune s o.now p l
  | .subscribe t final => subscribe s o.sc t final
  | .unsubscribe t => unsubscribe s o.now t
  | .publish t fan => publish s t fan
  | .heartbeat final fan => heartbeatG fx s o.now o.sc final fan
  | .nop => (s, {})

def step := stepG fixed

end C28
