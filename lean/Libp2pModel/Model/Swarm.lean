import Libp2pModel.Common.Multiaddr
/-!
# Shared Swarm model (used by C01 C02 C04 C05 C06)

Transcription of the connection bookkeeping of `swarm/src/lib.rs` (`Swarm::dial`,
`handle_pool_event`, `handle_transport_event`, `handle_behaviour_event`) and
`swarm/src/connection/pool.rs` (`add_outgoing`, `add_incoming`, `spawn_connection`, `disconnect`,
`poll` incl. the `check_peer_id` closure, `ConnectionCounters`), in *step mode*: the environment
makes one move, the Swarm is polled until idle, and the model returns the events produced.

Behaviour decisions (deny at one of the four decision points, addresses contributed to a dial),
transport refusals and the closing order of simultaneous closes are *oracle arguments of the op*,
so the model — and every theorem about it — is independent of the particular behaviour.
Import-free (only `Common.Multiaddr`).
-/
namespace Swarm

inductive DialErr where
  | localPeerId
  | noAddresses
  | condFalse
  | aborted
  | wrongPeerId (obtained : Nat)
  | denied
  /-- per address: `true` = `MultiaddrNotSupported`, `false` = `Other` -/
  | transport (errs : List (Maddr × Bool))
  deriving DecidableEq, Repr, Inhabited

inductive ListenErr where
  | aborted | wrongPeerId | localPeerId | denied | transport
  deriving DecidableEq, Repr, Inhabited

/-- Everything observable during one step, in the order it happens: `b*` = calls into the
`NetworkBehaviour`, `s*` = `SwarmEvent`s, `tdial` = `Transport::dial` calls, `muxClosed` = the
scripted muxer saw `poll_close`. -/
inductive Ev where
  | bPendingIn (c : Nat) (deny : Bool)
  | bPendingOut (c : Nat) (deny : Bool)
  | bEstIn (c : Nat) (deny : Bool)
  | bEstOut (c : Nat) (deny : Bool)
  | bEstablished (c p : Nat) (out : Bool) (other : Nat) (failed : List Maddr)
  | bClosed (c p remaining : Nat) (err : Bool)
  | bDialFailure (c : Nat) (p : Option Nat) (e : DialErr)
  | bListenFailure (c : Nat) (p : Option Nat) (e : ListenErr)
  | bNewListenAddr (a : Maddr)
  | bExpiredListenAddr (a : Maddr)
  | sEstablished (c p : Nat) (out : Bool) (num : Nat) (failed : List Maddr)
  /-- cause: 0 clean, 1 IO error, 2 keep-alive timeout -/
  | sClosed (c p num : Nat) (cause : Nat)
  | sIncoming (c : Nat)
  | sIncomingError (c : Nat) (p : Option Nat) (e : ListenErr)
  | sOutgoingError (c : Nat) (p : Option Nat) (e : DialErr)
  | sDialing (c : Nat) (p : Option Nat)
  | sNewListenAddr (a : Maddr)
  | sExpiredListenAddr (a : Maddr)
  | tdial (a : Maddr)
  /-- `dial = true`: muxer produced by the k-th transport dial; `false`: by the k-th incoming upgrade -/
  | muxClosed (dial : Bool) (k : Nat)
  | other (s : String)
  deriving DecidableEq, Repr, Inhabited

inductive Cond where
  | always | disconnected | notDialing | disconnectedAndNotDialing
  deriving DecidableEq, Repr, Inhabited

structure PendingOut where
  id : Nat
  peer : Option Nat
  /-- transport dials still in flight: (global dial index, address as dialed) -/
  inflight : List (Nat × Maddr)
  errors : List (Maddr × Bool)
  deriving DecidableEq, Repr, Inhabited

structure PendingIn where
  id : Nat
  k : Nat
  deriving DecidableEq, Repr, Inhabited

structure Est where
  id : Nat
  peer : Nat
  out : Bool
  muxDial : Bool
  muxK : Nat
  /-- `start_close` was called and the connection task is still closing the muxer (only the
  `closeHold`/`release` transitions of `XOp` use it; a closing connection is still in the table) -/
  closing : Bool := false
  deriving DecidableEq, Repr, Inhabited

structure State where
  localPeer : Nat
  /-- multihash bytes of peer i (to interpret `/p2p/…` components) -/
  peerIds : List (List Nat)
  nextId : Nat
  nextDial : Nat
  nextIncoming : Nat
  pendOut : List PendingOut
  pendIn : List PendingIn
  est : List Est
  listened : List Maddr
  cPI : Nat
  cPO : Nat
  cEI : Nat
  cEO : Nat
  deriving Repr, Inhabited

def State.init (peerIds : List (List Nat)) : State :=
  { localPeer := 0, peerIds, nextId := 0, nextDial := 0, nextIncoming := 0,
    pendOut := [], pendIn := [], est := [], listened := [],
    cPI := 0, cPO := 0, cEI := 0, cEO := 0 }

inductive Res where
  | none
  | ok (id : Nat)
  | err (e : DialErr) (id : Nat)
  | queued (id : Nat)
  | bool (b : Bool)
  | okErr (ok : Bool)
  | badOp
  deriving DecidableEq, Repr, Inhabited

/-! ## observations -/

def State.isConnected (s : State) (p : Nat) : Bool := s.est.any (·.peer == p)
def State.isDialing (s : State) (p : Nat) : Bool := s.pendOut.any (·.peer == some p)
def State.numEst (s : State) (p : Nat) : Nat := (s.est.filter (·.peer == p)).length

def insertSorted (x : Nat) : List Nat → List Nat
  | [] => [x]
  | y :: ys => if x < y then x :: y :: ys else if x = y then y :: ys else y :: insertSorted x ys

/-- `connected_peers`, sorted, duplicate-free -/
def State.connectedPeers (s : State) : List Nat := s.est.foldl (fun acc e => insertSorted e.peer acc) []

/-! ## `Swarm::dial` -/

/-- `should_dial` of `Swarm::dial` -/
def shouldDial (s : State) (c : Cond) (peer : Option Nat) : Bool :=
  match peer with
  | none => true
  | some p =>
    match c with
    | .always => true
    | .disconnected => !s.isConnected p
    | .notDialing => !s.isDialing p
    | .disconnectedAndNotDialing => !s.isDialing p && !s.isConnected p

/-- the address as `Swarm::dial` is going to hand it to the transport: with the `/p2p/<peer>` suffix
when a peer is given; an address that already names ANOTHER peer stays as it is (it is later
turned into an immediate `MultiaddrNotSupported` error). `pb` = the peer's multihash bytes. -/
def dialForm (pb : Option (List Nat)) (a : Maddr) : Maddr :=
  match pb with
  | none => a
  | some b => (Maddr.withP2p a b).getD a

/-- first-occurrence dedup on the dialed form (`HashSet::insert` inside `retain`) -/
def dedup (pb : Option (List Nat)) : List Maddr → List Maddr → List Maddr
  | _, [] => []
  | seen, a :: rest =>
    if seen.contains (dialForm pb a) then dedup pb seen rest else a :: dedup pb (dialForm pb a :: seen) rest

/-- the `retain` of `Swarm::dial`: drop own listen addresses, keep first occurrences -/
def selectAddrs (pb : Option (List Nat)) (listened addrs : List Maddr) : List Maddr :=
  dedup pb [] (addrs.filter (fun a => !listened.contains a))

def peerBytes (s : State) (p : Nat) : List Nat := s.peerIds.getD p []

def peerOfBytes (s : State) (b : List Nat) : Option Nat :=
  let rec go : List (List Nat) → Nat → Option Nat
    | [], _ => none
    | x :: xs, i => if x = b then some i else go xs (i + 1)
  go s.peerIds 0

/-- One address of an accepted dial, as `Swarm::dial` turns it into a `PendingDial`:
`.inl (idx, a')` = transport future in flight; `.inr (a, true)` = immediate `MultiaddrNotSupported`. -/
structure DialPlan where
  events : List Ev
  inflight : List (Nat × Maddr)
  errors : List (Maddr × Bool)
  nextDial : Nat

/-- how `Swarm::dial` suffixes one selected address: `peer_id.map_or(Ok(a), |p| a.with_p2p(p))` -/
def dialSuffix (s : State) (peer : Option Nat) (a : Maddr) : Option Maddr :=
  match peer with
  | none => some a
  | some p => Maddr.withP2p a (peerBytes s p)

def planDials (s : State) (peer : Option Nat) (refuse : List Maddr) : List Maddr → Nat → DialPlan
  | [], nd => { events := [], inflight := [], errors := [], nextDial := nd }
  | a :: rest, nd =>
    match dialSuffix s peer a with
    | none =>
      let r := planDials s peer refuse rest nd
      { r with errors := (a, true) :: r.errors }
    | some a' =>
      if refuse.contains a' then
        let r := planDials s peer refuse rest (nd + 1)
        { r with events := Ev.tdial a' :: r.events, errors := (a', true) :: r.errors }
      else
        let r := planDials s peer refuse rest (nd + 1)
        { r with events := Ev.tdial a' :: r.events, inflight := (nd, a') :: r.inflight }

/-- events of a failed pending outgoing connection (`PoolEvent::PendingOutboundConnectionError`) -/
def outFailEvents (id : Nat) (peer : Option Nat) (e : DialErr) : List Ev :=
  [Ev.bDialFailure id peer e, Ev.sOutgoingError id peer e]

def inFailEvents (id : Nat) (peer : Option Nat) (e : ListenErr) : List Ev :=
  [Ev.bListenFailure id peer e, Ev.sIncomingError id peer e]

/-- `get_peer_id`: the explicit peer, else the trailing `/p2p` of the first address -/
def dialPeer (s : State) (peer : Option Nat) (addrs : List Maddr) : Option (Option Nat) :=
  match peer with
  | some p => some (some p)
  | none =>
    match addrs.head? with
    | none => some none
    | some a =>
      match a.getLast? with
      | some (.p2p b) => (peerOfBytes s b).map some
      | _ => some none

/-- the addresses a dial considers: those of the `DialOpts`, extended by the behaviour's when requested -/
def dialRequested (addrs behAddrs : List Maddr) (extend : Bool) : List Maddr :=
  addrs ++ (if extend then behAddrs else [])

/-- the accepted part of `Swarm::dial`: one `Transport::dial` per selected address (or an immediate
error), then `Pool::add_outgoing`; when every dial future fails at its first poll the pending
connection fails right away. -/
def dialAccepted (s : State) (viaBeh : Bool) (id : Nat) (peer : Option Nat) (refuse sel : List Maddr) :
    State × Res × List Ev :=
  let plan := planDials s peer refuse sel s.nextDial
  let evs := Ev.bPendingOut id false :: plan.events ++ (if viaBeh then [Ev.sDialing id peer] else [])
  let res : Res := if viaBeh then .queued id else .ok id
  if plan.inflight.isEmpty then
    ({ s with nextId := id + 1, nextDial := plan.nextDial }, res,
     evs ++ outFailEvents id peer (.transport plan.errors))
  else
    ({ s with nextId := id + 1, nextDial := plan.nextDial,
              pendOut := s.pendOut ++ [{ id, peer, inflight := plan.inflight, errors := plan.errors }],
              cPO := s.cPO + 1 }, res, evs)

/-- a synchronously rejected dial: only the connection id is consumed -/
def dialRejected (s : State) (viaBeh : Bool) (id : Nat) (e : DialErr) (evs : List Ev) : State × Res × List Ev :=
  ({ s with nextId := id + 1 }, (if viaBeh then Res.queued id else Res.err e id), evs)

def dial (s : State) (viaBeh : Bool) (c : Cond) (peer0 : Option Nat) (addrs : List Maddr)
    (extend : Bool) (behAddrs : List Maddr) (deny : Bool) (refuse : List Maddr) : State × Res × List Ev :=
  match dialPeer s peer0 addrs with
  | none => (s, .badOp, [])
  | some peer =>
    let id := s.nextId
    if !shouldDial s c peer then
      dialRejected s viaBeh id .condFalse [Ev.bDialFailure id peer .condFalse]
    else if deny then
      dialRejected s viaBeh id .denied [Ev.bPendingOut id true, Ev.bDialFailure id peer .denied]
    else if (selectAddrs (peer.map (peerBytes s)) s.listened (dialRequested addrs behAddrs extend)).isEmpty then
      dialRejected s viaBeh id .noAddresses [Ev.bPendingOut id false, Ev.bDialFailure id peer .noAddresses]
    else
      dialAccepted s viaBeh id peer refuse
        (selectAddrs (peer.map (peerBytes s)) s.listened (dialRequested addrs behAddrs extend))

/-! ## pool events -/

/-- the `check_peer_id` closure of `Pool::poll` -/
inductive PeerCheck where
  | ok | wrongPeerId | localPeerId
  deriving DecidableEq, Repr

def checkPeerId (expected : Option Nat) (obtained localPeer : Nat) : PeerCheck :=
  match expected with
  | some e => if e ≠ obtained then .wrongPeerId else if localPeer = obtained then .localPeerId else .ok
  | none => if localPeer = obtained then .localPeerId else .ok

def establish (s : State) (id p : Nat) (out : Bool) (muxDial : Bool) (muxK : Nat) (failed : List Maddr) :
    State × List Ev :=
  let other := s.numEst p
  let s' := { s with est := s.est ++ [{ id, peer := p, out, muxDial, muxK }],
                     cEO := if out then s.cEO + 1 else s.cEO,
                     cEI := if out then s.cEI else s.cEI + 1 }
  (s', [Ev.bEstablished id p out other failed, Ev.sEstablished id p out (other + 1) failed])

def findPendOut (l : List PendingOut) (k : Nat) : Option PendingOut :=
  l.find? (fun pc => pc.inflight.any (·.1 == k))

def removePendOut (s : State) (id : Nat) : State :=
  { s with pendOut := s.pendOut.filter (·.id != id), cPO := s.cPO - 1 }

/-- a transport dial future resolves successfully with an authenticated peer -/
def resolveDial (s : State) (k p : Nat) (deny : Bool) : State × List Ev :=
  match findPendOut s.pendOut k with
  | none => (s, [])
  | some pc =>
    let addr := ((pc.inflight.find? (·.1 == k)).map (·.2)).getD []
    let s := removePendOut s pc.id
    match checkPeerId pc.peer p s.localPeer with
    | .wrongPeerId =>
      (s, outFailEvents pc.id pc.peer (.wrongPeerId p) ++ [Ev.muxClosed true k])
    | .localPeerId =>
      (s, outFailEvents pc.id (some p) .localPeerId ++ [Ev.muxClosed true k])
    | .ok =>
      if deny then
        (s, Ev.bEstOut pc.id true :: outFailEvents pc.id (some p) .denied ++ [Ev.muxClosed true k])
      else
        let (s', evs) := establish s pc.id p true true k (pc.errors.map (·.1))
        let _ := addr
        (s', Ev.bEstOut pc.id false :: evs)

/-- a transport dial future resolves with an error -/
def failDial (s : State) (k : Nat) : State × List Ev :=
  match findPendOut s.pendOut k with
  | none => (s, [])
  | some pc =>
    let addr := ((pc.inflight.find? (·.1 == k)).map (·.2)).getD []
    let errors := pc.errors ++ [(addr, false)]
    let inflight := pc.inflight.filter (·.1 != k)
    if inflight.isEmpty then
      (removePendOut s pc.id, outFailEvents pc.id pc.peer (.transport errors))
    else
      ({ s with pendOut := s.pendOut.map (fun q => if q.id = pc.id then { q with inflight, errors } else q) }, [])

def incoming (s : State) (deny : Bool) : State × List Ev :=
  let id := s.nextId
  let k := s.nextIncoming
  let s := { s with nextId := s.nextId + 1, nextIncoming := s.nextIncoming + 1 }
  if deny then
    (s, Ev.bPendingIn id true :: inFailEvents id none .denied)
  else
    ({ s with pendIn := s.pendIn ++ [{ id, k }], cPI := s.cPI + 1 }, [Ev.bPendingIn id false, Ev.sIncoming id])

def removePendIn (s : State) (id : Nat) : State :=
  { s with pendIn := s.pendIn.filter (·.id != id), cPI := s.cPI - 1 }

def resolveIn (s : State) (k p : Nat) (deny : Bool) : State × List Ev :=
  match s.pendIn.find? (·.k == k) with
  | none => (s, [])
  | some pc =>
    let s := removePendIn s pc.id
    match checkPeerId none p s.localPeer with
    | .wrongPeerId => (s, [])  -- unreachable: no expected peer on inbound connections
    | .localPeerId => (s, inFailEvents pc.id none .localPeerId ++ [Ev.muxClosed false k])
    | .ok =>
      if deny then
        (s, Ev.bEstIn pc.id true :: inFailEvents pc.id (some p) .denied ++ [Ev.muxClosed false k])
      else
        let (s', evs) := establish s pc.id p false false k []
        (s', Ev.bEstIn pc.id false :: evs)

def failIn (s : State) (k : Nat) : State × List Ev :=
  match s.pendIn.find? (·.k == k) with
  | none => (s, [])
  | some pc => (removePendIn s pc.id, inFailEvents pc.id none .transport)

/-- an established connection's task reports `Closed` -/
def closeConn (s : State) (c : Nat) (graceful : Bool) : State × List Ev :=
  match s.est.find? (·.id == c) with
  | none => (s, [])
  | some e =>
    let s' := { s with est := s.est.filter (·.id != c),
                       cEO := if e.out then s.cEO - 1 else s.cEO,
                       cEI := if e.out then s.cEI else s.cEI - 1 }
    let remaining := s'.numEst e.peer
    (s', (if graceful then [Ev.muxClosed e.muxDial e.muxK] else []) ++
         [Ev.bClosed c e.peer remaining (!graceful), Ev.sClosed c e.peer remaining (if graceful then 0 else 1)])

def closeMany (s : State) : List Nat → State × List Ev
  | [] => (s, [])
  | c :: cs =>
    let (s1, e1) := closeConn s c true
    let (s2, e2) := closeMany s1 cs
    (s2, e1 ++ e2)

def isPerm (a b : List Nat) : Bool :=
  a.length == b.length && a.all (fun x => a.count x == b.count x) && b.all (fun x => a.count x == b.count x)

/-- abort one pending dial (its task observes the dropped abort handle and reports `Aborted`) -/
def abortOne (s : State) (c : Nat) : State × List Ev :=
  match s.pendOut.find? (·.id == c) with
  | none => (s, [])
  | some pc => (removePendOut s c, outFailEvents c pc.peer .aborted)

def abortMany (s : State) : List Nat → State × List Ev
  | [] => (s, [])
  | c :: cs =>
    let (s1, e1) := abortOne s c
    let (s2, e2) := abortMany s1 cs
    (s2, e1 ++ e2)

/-- `Pool::disconnect`: close every established connection of `p` and abort every pending dial to
`p`.  The orders in which the closed / aborted tasks report back (`HashMap` iteration, task wake-up
order) are oracle arguments; `none` = an oracle is not a permutation of the affected connections. -/
def disconnect (s : State) (p : Nat) (order aborts : List Nat) : Option (State × List Ev) :=
  let mine := (s.est.filter (·.peer == p)).map (·.id)
  let victims := (s.pendOut.filter (·.peer == some p)).map (·.id)
  if isPerm mine order && isPerm victims aborts then
    some ((abortMany (closeMany s order).1 aborts).1,
          (closeMany s order).2 ++ (abortMany (closeMany s order).1 aborts).2)
  else none

/-- A race the step-mode ops above cannot express: the task of pending dial `k` has finished
negotiating (its `ConnectionEstablished` report is queued in the pool's channel) when
`disconnect_peer_id(dp)` is called, and only then is the Swarm polled.  The abort of that pending
connection comes too late — the pool processes the queued report first — so the connection is
established (or fails its peer-id check / is denied) exactly as in `resolveDial`; afterwards the
connections of `dp` that were established at the time of the call close and its other pending dials
abort, in the orders given by the oracles. -/
def race (s : State) (k p : Nat) (deny : Bool) (dp : Nat) (order aborts : List Nat) : Option (State × List Ev) :=
  let mine := (s.est.filter (·.peer == dp)).map (·.id)
  let owner := (findPendOut s.pendOut k).map (·.id)
  let victims := ((s.pendOut.filter (·.peer == some dp)).map (·.id)).filter (fun c => some c != owner)
  if isPerm mine order && isPerm victims aborts then
    some ((abortMany (closeMany (resolveDial s k p deny).1 order).1 aborts).1,
          (resolveDial s k p deny).2 ++ (closeMany (resolveDial s k p deny).1 order).2 ++
            (abortMany (closeMany (resolveDial s k p deny).1 order).1 aborts).2)
  else none

def newAddr (s : State) (a : Maddr) : State × List Ev :=
  ({ s with listened := if s.listened.contains a then s.listened else s.listened ++ [a] },
   [Ev.bNewListenAddr a, Ev.sNewListenAddr a])

def expireAddr (s : State) (a : Maddr) : State × List Ev :=
  ({ s with listened := s.listened.filter (· != a) }, [Ev.bExpiredListenAddr a, Ev.sExpiredListenAddr a])

/-! ## ops -/

inductive Op where
  | dial (viaBeh : Bool) (c : Cond) (peer : Option Nat) (addrs : List Maddr) (extend : Bool)
      (behAddrs : List Maddr) (deny : Bool) (refuse : List Maddr)
  | resolve (k p : Nat) (deny : Bool)
  | fail (k : Nat)
  | incoming (deny : Bool)
  | resolveIn (k p : Nat) (deny : Bool)
  | failIn (k : Nat)
  | close (c : Nat)
  | disconnect (p : Nat) (order aborts : List Nat)
  | remoteClose (c : Nat)
  | newAddr (a : Maddr)
  | expire (a : Maddr)
  | behClose (p : Nat) (one : Option Nat) (order aborts : List Nat)
  deriving Repr, Inhabited

def step (s : State) : Op → State × Res × List Ev
  | .dial v c p a e b d r => dial s v c p a e b d r
  | .resolve k p d => let (s', ev) := resolveDial s k p d; (s', .none, ev)
  | .fail k => let (s', ev) := failDial s k; (s', .none, ev)
  | .incoming d => let (s', ev) := incoming s d; (s', .none, ev)
  | .resolveIn k p d => let (s', ev) := resolveIn s k p d; (s', .none, ev)
  | .failIn k => let (s', ev) := failIn s k; (s', .none, ev)
  | .close c =>
    let found := s.est.any (·.id == c)
    let (s', ev) := closeConn s c true
    (s', .bool found, ev)
  | .disconnect p order aborts =>
    match disconnect s p order aborts with
    | none => (s, .badOp, [])
    | some (s', ev) => (s', .okErr (s.isConnected p), ev)
  | .remoteClose c => let (s', ev) := closeConn s c false; (s', .none, ev)
  | .newAddr a => let (s', ev) := newAddr s a; (s', .none, ev)
  | .expire a => let (s', ev) := expireAddr s a; (s', .none, ev)
  | .behClose p one order aborts =>
    match one with
    | some c => let (s', ev) := closeConn s c true; (s', .none, ev)
    | none =>
      match disconnect s p order aborts with
      | none => (s, .badOp, [])
      | some (s', ev) => (s', .none, ev)

end Swarm

namespace Swarm

/-- `Swarm::close_connection(c)` while the muxer's `poll_close` stays pending: the connection is
marked closing, nothing is reported yet, it stays in the table and keeps being counted -/
def closeHold (s : State) (c : Nat) : State :=
  { s with est := s.est.map (fun e => if e.id = c then { e with closing := true } else e) }

/-- the muxer of a closing connection finishes `poll_close`: the task reports `Closed` -/
def release (s : State) (c : Nat) : State × List Ev :=
  if s.est.any (fun e => e.id == c && e.closing) then closeConn s c true else (s, [])

/-- operations extended by the `race` and `closeHold`/`release` transitions (kept separate from `Op`
so that models composed with `Op` are unaffected) -/
inductive XOp where
  | base (o : Op)
  | race (k p : Nat) (deny : Bool) (dp : Nat) (order aborts : List Nat)
  | closeHold (c : Nat)
  | release (c : Nat)
  deriving Repr, Inhabited

def xstep (s : State) : XOp → State × Res × List Ev
  | .base o => step s o
  | .closeHold c => (closeHold s c, .bool (s.est.any (·.id == c)), [])
  | .release c => let r := release s c; (r.1, .none, r.2)
  | .race k p d dp o a =>
    match race s k p d dp o a with
    | some (s', ev) => (s', .okErr (s.isConnected dp), ev)
    | none => (s, .badOp, [])

end Swarm
