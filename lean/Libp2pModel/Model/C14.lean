import Libp2pModel.Common.Mss
/-!
# C14 — protocol negotiation agrees and is transparent to application data

The automata (`dStart`/`dStep`/`lStep`, transcribed from `dialer_select.rs`, `listener_select.rs`,
`negotiated.rs`) and the frame reader live in `Common/Mss.lean`.  This file has

* `Sys`   — the two automata connected by two FIFO channels at MESSAGE granularity, with an
            arbitrary scheduler (`Move` list): the object of the agreement theorem;
* `Net`   — the executable BYTE-level network (frame reader, wire encodings, application data,
            half-close) run under a canonical schedule: the prediction compared with the real
            futures, which the harness runs under arbitrary chunkings / readiness schedules;
* `spec`  — the property as a decidable predicate over (parameters, observed outcome).
-/
namespace C14
open Mss

/-! ## message-level system -/

/-- what travels on a channel at message granularity -/
inductive Item where
  | msg (m : Msg)
  /-- early application bytes of a `V1Lazy` dialer as the listener's FRAME READER perceives
  them: the error they produce (they are not a well-formed negotiation frame) -/
  | junk (e : PErr)
  deriving DecidableEq, Repr

def itemEv : Item → RdEv
  | .msg m => .msg m
  | .junk e => .err e

structure Chan where
  q : List Item
  /-- the writer closed / dropped its end: once `q` is drained the reader sees EOF -/
  closed : Bool
  deriving DecidableEq, Repr

structure Params where
  lazy : Bool
  ds : List Bytes
  /-- the listener's protocols after the `filter_map` of `listener_select_proto` -/
  ls : List Bytes
  /-- `V1Lazy` only: how the listener's reader perceives the optimistic application data
  (`none`: there is none) -/
  junk : Option PErr

structure Cfg where
  /-- has the dialer future been polled at all (`SendHeader`/first `SendProtocol` done)? -/
  started : Bool
  d : DSt
  l : LSt
  /-- dialer → listener -/
  dl : Chan
  /-- listener → dialer -/
  ld : Chan
  deriving DecidableEq, Repr

inductive Move where
  | stepD
  | stepL
  deriving DecidableEq, Repr

def dFailed : DSt → Bool
  | .done (.ok _) => false
  | .done _ => true
  | _ => false

def lFailed : LSt → Bool
  | .done (.ok _) => false
  | .done _ => true
  | _ => false

def isExpecting : DSt → Bool
  | .expecting _ _ => true
  | _ => false

def junkItems (P : Params) : List Item :=
  match P.junk with
  | some e => [.junk e]
  | none => []

/-- items the dialer puts on the wire in one step: its messages, followed — when this step took
the lazy exit — by the optimistic application data -/
def dEmit (P : Params) (old new : DSt) (out : List Msg) : List Item :=
  out.map .msg ++ (if isExpecting new && !isExpecting old then junkItems P else [])

def init : Cfg :=
  { started := false, d := .done .failed, l := .recvHeader,
    dl := ⟨[], false⟩, ld := ⟨[], false⟩ }

/-- one poll of the dialer that makes progress by at most one received item -/
def stepD (P : Params) (c : Cfg) : Cfg :=
  if !c.started then
    let (d', out) := dStart P.lazy P.ds
    { c with started := true, d := d',
             dl := ⟨c.dl.q ++ dEmit P (.done .failed) d' out, c.dl.closed || dFailed d'⟩ }
  else
    match c.d with
    | .done _ => c
    | _ =>
      match c.ld.q with
      | it :: rest =>
        let (d', out) := dStep P.lazy c.d (itemEv it)
        { c with d := d', ld := ⟨rest, c.ld.closed⟩,
                 dl := ⟨c.dl.q ++ dEmit P c.d d' out, c.dl.closed || dFailed d'⟩ }
      | [] =>
        if c.ld.closed then
          let (d', out) := dStep P.lazy c.d .eof
          { c with d := d', dl := ⟨c.dl.q ++ dEmit P c.d d' out, c.dl.closed || dFailed d'⟩ }
        else c

/-- one poll of the listener that makes progress by at most one received item -/
def stepL (P : Params) (c : Cfg) : Cfg :=
  match c.l with
  | .done _ => c
  | _ =>
    match c.dl.q with
    | it :: rest =>
      let (l', out) := lStep P.ls c.l (itemEv it)
      { c with l := l', dl := ⟨rest, c.dl.closed⟩,
               ld := ⟨c.ld.q ++ out.map .msg, c.ld.closed || lFailed l'⟩ }
    | [] =>
      if c.dl.closed then
        let (l', out) := lStep P.ls c.l .eof
        { c with l := l', ld := ⟨c.ld.q ++ out.map .msg, c.ld.closed || lFailed l'⟩ }
      else c

def step (P : Params) (c : Cfg) : Move → Cfg
  | .stepD => stepD P c
  | .stepL => stepL P c

def exec (P : Params) (sched : List Move) : Cfg := sched.foldl (step P) init

/-- the outcome the property demands: the first dialer protocol the listener supports, on both
sides; or `Failed` on both sides -/
def expected (ds ls : List Bytes) : NRes :=
  match ds.find? (fun d => ls.contains d) with
  | some p => .ok p
  | none => .failed

/-- a dialer protocol name the property ranges over: accepted by `Protocol::try_from`, UTF-8,
one line, not literally the header line, fits a frame -/
def validName (p : Bytes) : Bool :=
  nameOk p && utf8Valid p && !p.contains 10 && p ≠ headerName &&
    decide (p.length + 1 ≤ MAX_FRAME_SIZE)

/-! ## byte-level network (executable; canonical schedule) -/

inductive Fin where
  | eof
  | err (r : NRes)
  deriving DecidableEq, Repr

/-- the interface of an automaton the network needs -/
structure Auto (σ : Type) where
  step : σ → RdEv → σ × List Msg
  /-- `some r` in state `done r` -/
  result : σ → Option NRes
  /-- the future has returned `Ok(name)`: `done (ok name)` or the lazy exit -/
  settled : σ → Option Bytes

def dAuto (lazy : Bool) : Auto DSt where
  step := dStep lazy
  result := fun s => match s with | .done r => some r | _ => none
  settled := fun s => match s with
    | .done (.ok p) => some p
    | .expecting p _ => some p
    | _ => none

def lAuto (ls : List Bytes) : Auto LSt where
  step := lStep ls
  result := fun s => match s with | .done r => some r | _ => none
  settled := fun s => match s with | .done (.ok p) => some p | _ => none

structure Peer (σ : Type) where
  st : σ
  /-- received and not yet consumed -/
  inbuf : Bytes
  /-- everything written so far -/
  out : Bytes
  /-- how much of `out` has been handed to the other side -/
  delivered : Nat
  /-- write half closed (application closed it, or the stream was dropped) -/
  wclosed : Bool
  /-- what the future returned, once it has -/
  futureRes : Option NRes
  appSent : Bool
  /-- application bytes obtained from the `Negotiated` stream -/
  recv : Bytes
  fin : Option Fin

def isSomeB {α : Type} : Option α → Bool
  | some _ => true
  | none => false

/-- drive one side as far as it can go with what it has received (`peerClosed`: the other side
closed its write half, so after `inbuf` comes EOF). -/
def advance {σ : Type} (a : Auto σ) (app : Bytes) (peerClosed : Bool) (p : Peer σ) : Peer σ :=
  if isSomeB p.fin then p else
  -- 1. negotiation frames
  let (st1, msgs1, rest1) := runBytes a.step (fun s => isSomeB (a.result s)) (p.inbuf.length + 1) p.st p.inbuf
  let (st2, msgs2, rest2) :=
    if !isSomeB (a.result st1) && peerClosed then
      let (s, m) := a.step st1 (eofEvent rest1)
      (s, m, ([] : Bytes))
    else (st1, ([] : List Msg), rest1)
  let out2 := p.out ++ wireOfAll (msgs1 ++ msgs2)
  -- 2. has the future returned?
  let fut : Option NRes :=
    match p.futureRes with
    | some r => some r
    | none =>
      match a.settled st2 with
      | some name => some (.ok name)
      | none => a.result st2
  match fut with
  | none => { p with st := st2, inbuf := rest2, out := out2 }
  | some (.ok name) =>
    -- 3. application: write everything, close the write half, then read to the end
    let out3 := if p.appSent then out2 else out2 ++ app
    match a.result st2 with
    | some (.ok _) =>
      { p with st := st2, inbuf := [], out := out3, wclosed := true, futureRes := some (.ok name),
               appSent := true, recv := p.recv ++ rest2,
               fin := if peerClosed then some .eof else none }
    | some r =>
      { p with st := st2, inbuf := rest2, out := out3, wclosed := true, futureRes := some (.ok name),
               appSent := true, fin := some (.err r) }
    | none =>
      { p with st := st2, inbuf := rest2, out := out3, wclosed := true, futureRes := some (.ok name),
               appSent := true }
  | some r =>
    { p with st := st2, inbuf := rest2, out := out2, wclosed := true, futureRes := some r,
             fin := some (.err r) }

structure Net where
  d : Peer DSt
  l : Peer LSt

/-- hand over everything `a` has written and `b` has not yet received -/
def deliver {σ τ : Type} (a : Peer σ) (b : Peer τ) : Peer σ × Peer τ :=
  ({ a with delivered := a.out.length }, { b with inbuf := b.inbuf ++ a.out.drop a.delivered })

def netRound (lazy : Bool) (ls : List Bytes) (A B : Bytes) (n : Net) : Net :=
  let d1 := advance (dAuto lazy) A n.l.wclosed n.d
  let (d2, l1) := deliver d1 n.l
  let l2 := advance (lAuto ls) B d2.wclosed l1
  let (l3, d3) := deliver l2 d2
  ⟨d3, l3⟩

def netRun (lazy : Bool) (ls : List Bytes) (A B : Bytes) : Nat → Net → Net
  | 0, n => n
  | k + 1, n => netRun lazy ls A B k (netRound lazy ls A B n)

def mkPeer {σ : Type} (s : σ) (out : Bytes) : Peer σ :=
  { st := s, inbuf := [], out := out, delivered := 0, wclosed := false, futureRes := none,
    appSent := false, recv := [], fin := none }

def isOk : Option NRes → Bool
  | some (.ok _) => true
  | _ => false

/-- observed outcome of one run -/
structure Obs where
  dres : Option NRes
  lres : Option NRes
  /-- byte transcript dialer → listener, listener → dialer -/
  dl : Bytes
  ld : Bytes
  drecv : Bytes
  dfin : Option Fin
  lrecv : Bytes
  lfin : Option Fin
  deriving DecidableEq, Repr

/-- the model's prediction for `dialer_select_proto(_, ds, version)` against
`listener_select_proto(_, lnames)` with application data `A` (dialer) and `B` (listener) -/
def simulate (lazy : Bool) (ds lnames : List Bytes) (A B : Bytes) : Obs :=
  let (d0, m0) := dStart lazy ds
  let n0 : Net := ⟨mkPeer d0 (wireOfAll m0), mkPeer LSt.recvHeader []⟩
  let n := netRun lazy (listenerProtocols lnames) A B (2 * ds.length + 8) n0
  { dres := n.d.futureRes, lres := n.l.futureRes, dl := n.d.out, ld := n.l.out,
    drecv := n.d.recv, dfin := if isOk n.d.futureRes then n.d.fin else none,
    lrecv := n.l.recv, lfin := if isOk n.l.futureRes then n.l.fin else none }

/-! ## the executable Spec -/

/-- the optimistic application data cannot be mistaken for negotiation traffic: read as a frame
stream it is empty or its first frame is an error / incomplete (so the listener sees garbage,
not a message) -/
def appDataOk (A : Bytes) : Bool :=
  match frameDec A with
  | none => true
  | some (.err _, _) => true
  | some (.data bs, _) =>
    match decodeMsg bs with
    | .err _ => true
    | _ => false

/-- last element -/
def lastName (ds : List Bytes) : Option Bytes := ds.getLast?

def spec (lazy : Bool) (ds lnames : List Bytes) (A B : Bytes) (o : Obs) : String :=
  let ls := listenerProtocols lnames
  let hyp := ds.all validName && (!lazy || appDataOk A)
  let exp := expected ds ls
  let anyPanic := [o.dres, o.lres].any (fun r => match r with | some (.panic _) => true | _ => false)
  if anyPanic then "FAIL:panic"
  else if o.dres.isNone || o.lres.isNone then "FAIL:stuck"
  -- agreement (listener side: identical for V1 and V1Lazy)
  else if hyp && o.lres ≠ some exp then "FAIL:listener_outcome"
  else if hyp && !lazy && o.dres ≠ some exp then "FAIL:dialer_outcome"
  -- V1Lazy: the dialer either gets the agreed protocol, or it settled optimistically on its
  -- last protocol and learns of the failure at its first read, before any data
  else if hyp && lazy && !(o.dres = some exp ||
      (exp = .failed && o.dres = (lastName ds).map .ok && o.drecv = [] && o.dfin = some (.err .failed))) then
    "FAIL:lazy_dialer_outcome"
  else if hyp && lazy && exp ≠ .failed && o.dfin ≠ some .eof then "FAIL:lazy_dialer_read"
  -- transparency: in every successful case both byte streams arrive complete and in order
  else if isOk o.dres && isOk o.lres && o.dfin = some .eof &&
      !(o.lrecv = A && o.lfin = some .eof && o.drecv = B) then "FAIL:transparency"
  else if hyp && isOk o.lres && !(o.lrecv = A && o.lfin = some .eof && o.drecv = B && o.dfin = some .eof) then
    "FAIL:transparency"
  else "ok"

end C14
