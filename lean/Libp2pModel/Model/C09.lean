import Libp2pModel.Common.Multiaddr
/-!
# C09 — smart-dial ranking (`swarm/src/connection/pool/dial_ranker.rs`)

Literal transcription of `rank_dials`, `group_delays`, `score`, `is_global_addr`,
`is_global_ipv4`, `is_global_ipv6`.  A `PendingDial` is represented by its address (the future is
never touched by the ranking).  Durations are natural numbers of milliseconds.

Two variants of the two repaired places are kept:
* `isGlobalAddrBuggy` / `lastDelay` — the code as it was at the pinned commit
  (DNS test inverted; `max_delay` = delay of the *last* ranked element),
* `isGlobalAddr` / `maxDelay?` — the repaired code (`findings/C09-*.fix.diff`), which `rank` uses.
-/
namespace C09

/-! ## constants (`dial_ranker.rs:31-44`, milliseconds) -/
def PUBLIC_TCP_DELAY : Nat := 250
def PRIVATE_TCP_DELAY : Nat := 30
def PUBLIC_QUIC_DELAY : Nat := 250
def PRIVATE_QUIC_DELAY : Nat := 30
def RELAY_DELAY : Nat := 250
def PUBLIC_OTHER_DELAY : Nat := 1000
def PRIVATE_OTHER_DELAY : Nat := 100

/-! ## component predicates (`a.iter().any(|p| matches!(p, …))`) -/
def hasQuicV1 (a : Maddr) : Bool := a.any fun p => match p with | .quicV1 => true | _ => false
def hasQuic0 (a : Maddr) : Bool := a.any fun p => match p with | .quic => true | _ => false
def isQuic (a : Maddr) : Bool := a.any fun p => match p with | .quic | .quicV1 => true | _ => false
def isTcp (a : Maddr) : Bool := a.any fun p => match p with | .tcp _ => true | _ => false
def isIp6 (a : Maddr) : Bool := a.any fun p => match p with | .ip6 _ => true | _ => false
def isIp4 (a : Maddr) : Bool := a.any fun p => match p with | .ip4 _ => true | _ => false
def hasWebTransport (a : Maddr) : Bool := a.any fun p => match p with | .webtransport => true | _ => false
def hasWebRtc (a : Maddr) : Bool := a.any fun p => match p with | .webrtcDirect => true | _ => false
def hasCircuit (a : Maddr) : Bool := a.any fun p => match p with | .p2pCircuit => true | _ => false
def hasIp (a : Maddr) : Bool := a.any fun p => match p with | .ip4 _ | .ip6 _ => true | _ => false
def hasZone (a : Maddr) : Bool := a.any fun p => match p with | .ip6zone _ => true | _ => false

/-! ## `is_global_ipv4` / `is_global_ipv6` -/
def oct (a : Nat) (i : Nat) : Nat := (a / 256 ^ (3 - i)) % 256
def seg (a : Nat) (i : Nat) : Nat := (a / 65536 ^ (7 - i)) % 65536

def isGlobalIpv4 (a : Nat) : Bool :=
  let o0 := oct a 0; let o1 := oct a 1; let o2 := oct a 2; let o3 := oct a 3
  if a == 0xc0000009 || a == 0xc000000a then true else
  let isPrivate := o0 == 10 || (o0 == 172 && o1 / 16 == 1) || (o0 == 192 && o1 == 168)
  let isLoopback := o0 == 127
  let isLinkLocal := o0 == 169 && o1 == 254
  let isBroadcast := o0 == 255 && o1 == 255 && o2 == 255 && o3 == 255
  let isDoc := (o0 == 192 && o1 == 0 && o2 == 2) || (o0 == 198 && o1 == 51 && o2 == 100)
                || (o0 == 203 && o1 == 0 && o2 == 113)
  !isPrivate && !isLoopback && !isLinkLocal && !isBroadcast && !isDoc
    && !(o0 == 100 && o1 / 64 == 1)
    && !(o0 / 16 == 15 && !isBroadcast)
    && !(o0 == 192 && o1 == 0 && o2 == 0)
    && o0 != 0

def isGlobalIpv6 (a : Nat) : Bool :=
  let s0 := seg a 0; let s1 := seg a 1; let s2 := seg a 2; let s3 := seg a 3
  let s4 := seg a 4; let s5 := seg a 5
  !(a == 0
    || a == 1
    || (s0 == 0 && s1 == 0 && s2 == 0 && s3 == 0 && s4 == 0 && s5 == 0xffff)
    || (s0 == 0x64 && s1 == 0xff9b && s2 == 1)
    || (s0 == 0x100 && s1 == 0 && s2 == 0 && s3 == 0)
    || ((s0 == 0x2001 && s1 < 0x200)
        && !(a == 0x20010001000000000000000000000001
            || a == 0x20010001000000000000000000000002
            || (s0 == 0x2001 && s1 == 3)
            || (s0 == 0x2001 && s1 == 4 && s2 == 0x112)
            || (s0 == 0x2001 && s1 ≥ 0x20 && s1 ≤ 0x2F)))
    || (s0 == 0x2001 && s1 == 0xdb8)
    || (s0 / 512 == 0xfc00 / 512)
    || (s0 / 64 == 0xfe80 / 64))

/-! ## `is_global_addr` -/
def firstIp4 : Maddr → Option Nat
  | [] => none
  | .ip4 x :: _ => some x
  | _ :: r => firstIp4 r

def firstIp6 : Maddr → Option Nat
  | [] => none
  | .ip6 x :: _ => some x
  | _ :: r => firstIp6 r

/-- `find_map` of the first `Dns | Dns4 | Dns6` name -/
def firstDns : Maddr → Option (List Nat)
  | [] => none
  | .dns n :: _ => some n
  | .dns4 n :: _ => some n
  | .dns6 n :: _ => some n
  | _ :: r => firstDns r

/-- the bytes of `"localhost"` and `".localhost"` -/
def localhostB : List Nat := [108, 111, 99, 97, 108, 104, 111, 115, 116]
def dotLocalhostB : List Nat := 46 :: localhostB

/-- `dns == "localhost" || dns.ends_with(".localhost")` -/
def isLocalName (n : List Nat) : Bool := n == localhostB || dotLocalhostB.isSuffixOf n

/-- `is_global_addr`, repaired (`return !(dns == "localhost" || …)`). -/
def isGlobalAddr (a : Maddr) : Bool :=
  match firstIp4 a with
  | some x => isGlobalIpv4 x
  | none =>
    match firstIp6 a with
    | some x => isGlobalIpv6 x
    | none =>
      if hasZone a then false else
      match firstDns a with
      | some n => !isLocalName n
      | none => false

/-- `is_global_addr` as it was at the pinned commit: the DNS test is inverted. -/
def isGlobalAddrBuggy (a : Maddr) : Bool :=
  match firstIp4 a with
  | some x => isGlobalIpv4 x
  | none =>
    match firstIp6 a with
    | some x => isGlobalIpv6 x
    | none =>
      if hasZone a then false else
      match firstDns a with
      | some n => isLocalName n
      | none => false

/-! ## `score` -/
def transportRank (a : Maddr) : Nat :=
  if hasQuicV1 a then 0 else if hasQuic0 a then 1 else if hasWebTransport a then 2
  else if isTcp a then 3 else if hasWebRtc a then 4 else 5

/-- first `Udp(p) | Tcp(p)` component, `0` if none -/
def firstPort : Maddr → Nat
  | [] => 0
  | .udp p :: _ => p
  | .tcp p :: _ => p
  | _ :: r => firstPort r

/-- `(u8, bool, u16)` compared lexicographically, packed order-isomorphically into one number
(ports are `u16`). -/
def score (a : Maddr) : Nat :=
  (transportRank a * 2 + (if isIp4 a then 1 else 0)) * 65536 + firstPort a % 65536

/-! ## stable sort by key (`sort_by_key`) -/
def insertByKey (key : Maddr → Nat) (x : Maddr) : List Maddr → List Maddr
  | [] => [x]
  | y :: ys => if key y < key x then y :: insertByKey key x ys else x :: y :: ys

/-- stable: the head (earlier in the input) is placed before every later element of equal key -/
def sortByKey (key : Maddr → Nat) : List Maddr → List Maddr
  | [] => []
  | x :: xs => insertByKey key x (sortByKey key xs)

/-! ## `group_delays` -/
/-- `Vec::insert(i, d)` -/
def insertAt (l : List Maddr) (i : Nat) (d : Maddr) : List Maddr := l.take i ++ d :: l.drop i

/-- loop state of the Happy-Eyeballs reorder pass -/
structure HE where
  out : List Maddr := []
  qNeed : Bool := false
  qHe : Bool := false
  tNeed : Bool := false
  tHe : Bool := false
  firstTcp : Option Nat := none

def heStep (s : HE) (d : Maddr) : HE :=
  if isQuic d then
    if !s.out.isEmpty && s.qNeed && isIp4 d then
      { s with out := insertAt s.out 1 d, qNeed := false, qHe := true }
    else
      { s with qNeed := if isIp6 d then true else s.qNeed, out := s.out ++ [d] }
  else if isTcp d then
    match s.firstTcp with
    | some idx =>
      if s.tNeed && isIp4 d then
        { s with out := insertAt s.out (idx + 1) d, tNeed := false, tHe := true }
      else
        { s with tNeed := if isIp6 d then true else s.tNeed, out := s.out ++ [d] }
    | none =>
      { s with firstTcp := some s.out.length, tNeed := if isIp6 d then true else s.tNeed,
               out := s.out ++ [d] }
  else
    { s with out := s.out ++ [d] }

/-- loop state of the delay-assignment pass -/
structure AS where
  qc : Nat := 0
  tc : Nat := 0
  tcpStart : Nat := 0
  base : Nat := 0

def stagger (count : Nat) (he : Bool) (delay : Nat) : Nat :=
  match count with
  | 0 => 0
  | 1 => delay
  | _ => if he then 2 * delay else delay

def assignStep (qHe tHe : Bool) (td qd od : Nat) (s : AS) (d : Maddr) : AS × Nat :=
  if isQuic d then
    let dd := stagger s.qc qHe qd
    ({ s with qc := s.qc + 1, tcpStart := dd + td, base := dd }, dd)
  else if isTcp d then
    let dd := stagger s.tc tHe td + s.tcpStart
    ({ s with tc := s.tc + 1, base := dd }, dd)
  else
    (s, s.base + od)

def assign (qHe tHe : Bool) (td qd od off : Nat) : AS → List Maddr → List (Nat × Maddr)
  | _, [] => []
  | s, d :: ds =>
    let r := assignStep qHe tHe td qd od s d
    (off + r.2, d) :: assign qHe tHe td qd od off r.1 ds

def groupDelays (dials : List Maddr) (td qd od off : Nat) : List (Nat × Maddr) :=
  if dials.isEmpty then [] else
  let sorted := sortByKey score dials
  let he := sorted.foldl heStep {}
  assign he.qHe he.tHe td qd od off {} he.out

/-! ## `rank_dials` -/
inductive Cat where
  | priv | pub | relay | other
  deriving DecidableEq, Repr

def Cat.idx : Cat → Nat
  | .priv => 0 | .pub => 1 | .relay => 2 | .other => 3

/-- the `if / else if` chain of the categorisation loop -/
def classify (glob : Maddr → Bool) (a : Maddr) : Cat :=
  if hasCircuit a then .relay
  else if !glob a then .priv
  else if hasIp a then .pub
  else .other

/-- `result.last().map(|d| d.0)` — the pinned commit -/
def lastDelay (r : List (Nat × Maddr)) : Option Nat := r.getLast?.map (·.1)

def maxD : List (Nat × Maddr) → Nat
  | [] => 0
  | x :: xs => max x.1 (maxD xs)

/-- `result.iter().map(|d| d.0).max()` — the repaired code -/
def maxDelay? (r : List (Nat × Maddr)) : Option Nat := if r.isEmpty then none else some (maxD r)

def rankWith (glob : Maddr → Bool) (sel : List (Nat × Maddr) → Option Nat) (dials : List Maddr) :
    List (Nat × Maddr) :=
  let relay := dials.filter (fun a => classify glob a == .relay)
  let pub := dials.filter (fun a => classify glob a == .pub)
  let priv := dials.filter (fun a => classify glob a == .priv)
  let other := dials.filter (fun a => classify glob a == .other)
  let relayOffset := if pub.isEmpty then 0 else RELAY_DELAY
  let result :=
    groupDelays priv PRIVATE_TCP_DELAY PRIVATE_QUIC_DELAY PRIVATE_OTHER_DELAY 0
    ++ groupDelays pub PUBLIC_TCP_DELAY PUBLIC_QUIC_DELAY PUBLIC_OTHER_DELAY 0
    ++ groupDelays relay PUBLIC_TCP_DELAY PUBLIC_QUIC_DELAY PUBLIC_OTHER_DELAY relayOffset
  result ++ other.map fun d =>
    match sel result with
    | some m => (m + PUBLIC_OTHER_DELAY, d)
    | none => (0, d)

/-- the model of `rank_dials` (repaired code) -/
def rank (dials : List Maddr) : List (Nat × Maddr) := rankWith isGlobalAddr maxDelay? dials

/-- `rank_dials` at the pinned commit -/
def rankBuggy (dials : List Maddr) : List (Nat × Maddr) := rankWith isGlobalAddrBuggy lastDelay dials
/-- only the DNS defect / only the `last` defect (for the two counterexample theorems) -/
def rankBuggyDns (dials : List Maddr) : List (Nat × Maddr) := rankWith isGlobalAddrBuggy maxDelay? dials
def rankBuggyLast (dials : List Maddr) : List (Nat × Maddr) := rankWith isGlobalAddr lastDelay dials

/-! ## the property as an executable statement -/

/-- The *documented* categorisation (doc comment of `rank_dials` + property statement):
relay = contains `/p2p-circuit`; otherwise by the (first) IP component: public if globally
routable, private if not; without IP component: private for a zone id or a localhost name,
else "other" (e.g. `/dns/example.com/tcp/443`). -/
def category (a : Maddr) : Cat :=
  if hasCircuit a then .relay
  else match firstIp4 a with
    | some x => if isGlobalIpv4 x then .pub else .priv
    | none =>
      match firstIp6 a with
      | some x => if isGlobalIpv6 x then .pub else .priv
      | none =>
        if hasZone a then .priv else
        match firstDns a with
        | some n => if isLocalName n then .priv else .other
        | none => .other

/-- the property's alphabet: relay addresses, addresses with an IP / zone, and DNS-named addresses -/
def inAlphabet (a : Maddr) : Bool :=
  hasCircuit a || hasIp a || hasZone a || (firstDns a).isSome

/-- a "TCP address": has `/tcp` and no QUIC component -/
def isTcpOnly (a : Maddr) : Bool := isTcp a && !isQuic a

/-- explicit finite bound on every delay (ms): relay offset + 2·quic + 3·tcp + other, + other -/
def DELAY_BOUND : Nat :=
  RELAY_DELAY + 2 * PUBLIC_QUIC_DELAY + 3 * PUBLIC_TCP_DELAY + PUBLIC_OTHER_DELAY + PUBLIC_OTHER_DELAY

/-- every input exactly once -/
def SpecPerm (ds : List Maddr) (out : List (Nat × Maddr)) : Prop := (out.map (·.2)).Perm ds
def SpecFinite (out : List (Nat × Maddr)) : Prop := ∀ x ∈ out, x.1 ≤ DELAY_BOUND
/-- output order: private, public, relay, other -/
def SpecGroups (out : List (Nat × Maddr)) : Prop :=
  out.Pairwise fun x y => (category x.2).idx ≤ (category y.2).idx
/-- no address of the last group is scheduled before an address of an earlier group -/
def SpecOtherLast (out : List (Nat × Maddr)) : Prop :=
  ∀ x ∈ out, ∀ y ∈ out, category x.2 = .other → category y.2 ≠ .other → y.1 ≤ x.1
/-- within a group QUIC no later than TCP -/
def SpecQuicTcp (out : List (Nat × Maddr)) : Prop :=
  ∀ q ∈ out, ∀ t ∈ out, category q.2 = category t.2 → isQuic q.2 = true → isTcpOnly t.2 = true → q.1 ≤ t.1

instance (ds out) : Decidable (SpecPerm ds out) := by unfold SpecPerm; infer_instance
instance (out) : Decidable (SpecFinite out) := by unfold SpecFinite; infer_instance
instance (out) : Decidable (SpecGroups out) := by unfold SpecGroups; infer_instance
instance (out) : Decidable (SpecOtherLast out) := by unfold SpecOtherLast; infer_instance
instance (out) : Decidable (SpecQuicTcp out) := by unfold SpecQuicTcp; infer_instance

/-- Spec verdict as a clause key (`""` = holds).  Outside the alphabet only permutation and
finiteness are claimed. -/
def specKey (ds : List Maddr) (out : List (Nat × Maddr)) : String :=
  if !decide (SpecPerm ds out) then "not_a_permutation"
  else if !decide (SpecFinite out) then "delay_not_bounded"
  else if !ds.all inAlphabet then ""
  else if !decide (SpecGroups out) then "group_order"
  else if !decide (SpecOtherLast out) then "other_not_last"
  else if !decide (SpecQuicTcp out) then "quic_after_tcp"
  else ""

def spec (ds : List Maddr) (out : List (Nat × Maddr)) : Bool := specKey ds out == ""

end C09
