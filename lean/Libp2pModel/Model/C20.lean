import Libp2pModel.Common.Varint
/-!
# C20 — PeerId and key encodings (`identity/src/peer_id.rs`, `identity/src/keypair.rs`)

Bytes are `List Nat` (each < 256).  Modelled as they are:
* `unsigned_varint::io::read_u64` (what `multihash::Multihash::from_bytes` uses): at most 10 bytes,
  rejects a trailing zero byte (`NotMinimal`), and — as the crate does — silently drops the bits
  above 2⁶⁴ of a 10-byte encoding (`k << 63`);
* `Multihash::<64>::from_bytes` / `to_bytes`, `PeerId::from_multihash`, `from_bytes`, `to_bytes`,
  `from_public_key` (SHA-256 is an abstract function parameter);
* base58 (`bs58`, bitcoin alphabet) as positional notation: leading zero bytes ↔ leading `'1'`s;
* the prost decoder of `keys_proto::{PublicKey, PrivateKey}` (`Type` = field 1 varint, `Data` =
  field 2 bytes; unknown fields skipped, groups with prost's recursion limit, last value wins,
  missing fields default) and `encode_to_vec`; key-type specific validity of `Data` is an abstract
  oracle.
-/
namespace C20

/-! ## unsigned-varint `io::read_u64` -/

inductive VErr where
  | eof | notMinimal | overflow
  deriving DecidableEq, Repr

/-- `fuel` bytes may still be read; `i` = index of the next byte; `acc` = Σ (bⱼ & 0x7f)·2^(7j). -/
def readU64Aux : Nat → Nat → Nat → List Nat → Except VErr (Nat × List Nat)
  | 0, _, _, _ => .error .overflow
  | _ + 1, _, _, [] => .error .eof
  | f + 1, i, acc, b :: rest =>
    let acc' := acc + (b % 128) * 2 ^ (7 * i)
    if b < 128 then
      if b == 0 && i > 0 then .error .notMinimal else .ok (acc' % 2 ^ 64, rest)
    else readU64Aux f (i + 1) acc' rest

def readU64 (bs : List Nat) : Except VErr (Nat × List Nat) := readU64Aux 10 0 0 bs

/-! ## multihash and PeerId -/

structure Mh where
  code : Nat
  digest : List Nat
  deriving DecidableEq, Repr

inductive ParseErr where
  | invalidMultihash
  | unsupportedCode (c : Nat)
  | b58
  deriving DecidableEq, Repr

/-- `Multihash::<64>::from_bytes` -/
def mhFromBytes (bs : List Nat) : Except ParseErr Mh :=
  match readU64 bs with
  | .error _ => .error .invalidMultihash
  | .ok (code, r1) =>
    match readU64 r1 with
    | .error _ => .error .invalidMultihash
    | .ok (size, r2) =>
      if size > 64 then .error .invalidMultihash            -- `size > S || size > u8::MAX`
      else if r2.length < size then .error .invalidMultihash  -- `read_exact` fails
      else if r2.length > size then .error .invalidMultihash  -- "more bytes supplied than read"
      else .ok ⟨code, r2⟩

/-- `Multihash::to_bytes`: varint code, varint size, digest -/
def mhToBytes (m : Mh) : List Nat := Varint.encode m.code ++ Varint.encode m.digest.length ++ m.digest

def MAX_INLINE_KEY_LENGTH : Nat := 42
def IDENTITY : Nat := 0
def SHA256 : Nat := 0x12

/-- `PeerId::from_multihash` -/
def fromMultihash (m : Mh) : Except ParseErr Mh :=
  if m.code = SHA256 then .ok m
  else if m.code = IDENTITY ∧ m.digest.length ≤ MAX_INLINE_KEY_LENGTH then .ok m
  else .error (.unsupportedCode m.code)

/-- `PeerId::from_bytes` -/
def fromBytes (bs : List Nat) : Except ParseErr Mh :=
  match mhFromBytes bs with
  | .error e => .error e
  | .ok m => fromMultihash m

/-- `PeerId::to_bytes` -/
def toBytes (p : Mh) : List Nat := mhToBytes p

/-- `PeerId::from_public_key`, given the protobuf encoding of the key; `sha` = SHA-256 -/
def fromPublicKey (sha : List Nat → List Nat) (keyEnc : List Nat) : Mh :=
  if keyEnc.length ≤ MAX_INLINE_KEY_LENGTH then ⟨IDENTITY, keyEnc⟩ else ⟨SHA256, sha keyEnc⟩

/-! ## base58 -/

/-- little-endian digits of `n` in base `b` (`b ≥ 2`) -/
def digitsLE (b : Nat) (n : Nat) : List Nat :=
  if _h : n = 0 ∨ b < 2 then [] else n % b :: digitsLE b (n / b)
termination_by n
decreasing_by
  have : 0 < n := by omega
  exact Nat.div_lt_self this (by omega)

def ofDigitsLE (b : Nat) : List Nat → Nat
  | [] => 0
  | d :: ds => d + b * ofDigitsLE b ds

/-- change of base on big-endian digit strings, leading zeros kept one-for-one -/
def rebase (from_ to : Nat) (ds : List Nat) : List Nat :=
  let zeros := ds.takeWhile (· == 0)
  let rest := ds.dropWhile (· == 0)
  zeros ++ (digitsLE to (ofDigitsLE from_ rest.reverse)).reverse

def b58digits (bytes : List Nat) : List Nat := rebase 256 58 bytes
def b58undigits (ds : List Nat) : List Nat := rebase 58 256 ds

def alphabet : List Char := "123456789ABCDEFGHJKLMNPQRSTUVWXYZabcdefghijkmnopqrstuvwxyz".toList

def charOf (d : Nat) : Char := alphabet.getD d '?'
def digitOf (c : Char) : Option Nat :=
  match alphabet.idxOf c with
  | i => if i < 58 then some i else none

/-- `bs58::encode(bytes).into_string()` -/
def b58encode (bytes : List Nat) : List Char := (b58digits bytes).map charOf

/-- `bs58::decode(s).into_vec()` -/
def b58decode (s : List Char) : Option (List Nat) := (s.mapM digitOf).map b58undigits

/-- `PeerId::from_str` -/
def fromStr (s : List Char) : Except ParseErr Mh :=
  match b58decode s with
  | none => .error .b58
  | some bs => fromBytes bs

def toBase58 (p : Mh) : List Char := b58encode (toBytes p)

/-! ## prost: `keys_proto::PublicKey` / `PrivateKey` -/

/-- `prost::encoding::decode_varint`: at most 10 bytes, the 10th must be < 2 -/
def pvAux : Nat → Nat → Nat → List Nat → Option (Nat × List Nat)
  | 0, _, _, _ => none
  | _ + 1, _, _, [] => none
  | f + 1, i, acc, b :: rest =>
    let acc' := acc + (b % 128) * 2 ^ (7 * i)
    if b < 128 then
      if i == 9 && b ≥ 2 then none else some (acc', rest)
    else pvAux f (i + 1) acc' rest

def pv (bs : List Nat) : Option (Nat × List Nat) := pvAux 10 0 0 bs

/-- `decode_key`: (tag, wire type) -/
def decodeKey (bs : List Nat) : Option (Nat × Nat × List Nat) :=
  match pv bs with
  | none => none
  | some (key, r) =>
    if key > 0xFFFFFFFF then none
    else if key % 8 > 5 then none
    else if key / 8 = 0 then none
    else some (key / 8, key % 8, r)

/-- `skip_field`; `depth` = remaining recursion budget (`DecodeContext`), `fuel` bounds the walk -/
def skipField : Nat → Nat → Nat → Nat → List Nat → Option (List Nat)
  | 0, _, _, _, _ => none
  | fuel + 1, wt, tag, depth, buf =>
    if depth = 0 then none else
    match wt with
    | 0 => (pv buf).map (·.2)
    | 5 => if buf.length < 4 then none else some (buf.drop 4)
    | 1 => if buf.length < 8 then none else some (buf.drop 8)
    | 2 =>
      match pv buf with
      | none => none
      | some (len, r) => if len > r.length then none else some (r.drop len)
    | 3 => skipGroup fuel tag depth buf
    | _ => none
where
  /-- the `loop` of the `StartGroup` arm -/
  skipGroup : Nat → Nat → Nat → List Nat → Option (List Nat)
  | 0, _, _, _ => none
  | fuel + 1, tag, depth, buf =>
    match decodeKey buf with
    | none => none
    | some (itag, iwt, r) =>
      if iwt = 4 then (if itag ≠ tag then none else some r)
      else
        match skipField fuel iwt itag (depth - 1) r with
        | none => none
        | some r' => skipGroup fuel tag depth r'

structure KeyMsg where
  ty : Nat          -- the `i32` as its 32 bit pattern
  data : List Nat
  deriving DecidableEq, Repr

/-- `Message::decode` for the two-field messages: loop `decode_key` / `merge_field` -/
def decodeMsg : Nat → KeyMsg → List Nat → Option KeyMsg
  | 0, _, _ => none
  | fuel + 1, m, buf =>
    if buf.isEmpty then some m else
    match decodeKey buf with
    | none => none
    | some (tag, wt, r) =>
      if tag = 1 then
        if wt ≠ 0 then none else
        match pv r with
        | none => none
        | some (v, r') => decodeMsg fuel { m with ty := v % 2 ^ 32 } r'
      else if tag = 2 then
        if wt ≠ 2 then none else
        match pv r with
        | none => none
        | some (len, r') =>
          if len > r'.length then none
          else decodeMsg fuel { m with data := r'.take len } (r'.drop len)
      else
        match skipField (2 * r.length + 300) wt tag 100 r with
        | none => none
        | some r' => decodeMsg fuel m r'

def decodeKeyMsg (bs : List Nat) : Option KeyMsg := decodeMsg (bs.length + 1) ⟨0, []⟩ bs

/-- `encode_to_vec` of `{ type, data }` (both fields `required`: always written) -/
def encodeKeyMsg (ty : Nat) (data : List Nat) : List Nat :=
  [0x08] ++ Varint.encode ty ++ [0x12] ++ Varint.encode data.length ++ data

inductive KeyErr where
  | badProtobuf
  | unknownKeyType
  | badKey
  deriving DecidableEq, Repr

/-- `PublicKey::try_decode_protobuf` / `Keypair::from_protobuf_encoding`; `parse ty data` is the
key-type specific parser (`some canonicalBytes` when `data` is a valid key of type `ty`). -/
def decodeKeyProto (parse : Nat → List Nat → Option (List Nat)) (bs : List Nat) :
    Except KeyErr (Nat × List Nat) :=
  match decodeKeyMsg bs with
  | none => .error .badProtobuf
  | some m =>
    if m.ty ≥ 4 then .error .unknownKeyType
    else match parse m.ty m.data with
      | none => .error .badKey
      | some canon => .ok (m.ty, canon)

/-! ## executable Spec -/

/-- what `from_bytes` may accept: identity multihashes of at most 42 bytes and SHA2-256
multihashes (of at most 64 digest bytes — the `Multihash<64>` bound) -/
def validPeerId (p : Mh) : Bool :=
  (p.code == SHA256 && p.digest.length ≤ 64) || (p.code == IDENTITY && p.digest.length ≤ 42)

def bytesOk (l : List Nat) : Bool := l.all (· < 256)

/-- the accepted input carries an over-long (10-byte) varint: it is at least 9 bytes longer than
the canonical encoding of the result (`unsigned-varint` drops the bits ≥ 2⁶⁴ instead of rejecting) -/
def isOverlong (bs : List Nat) (r : Except ParseErr Mh) : Bool :=
  match r with
  | .ok p => validPeerId p && toBytes p != bs && decide (bs.length ≥ p.digest.length + 11)
  | .error _ => false

/-- Spec for `from_bytes bs = r` (strict): an accepted value is a valid peer id whose canonical
encoding IS `bs`; a valid canonical encoding is never rejected. -/
def specFromBytes (bs : List Nat) (r : Except ParseErr Mh) : Bool :=
  match r with
  | .ok p => validPeerId p && toBytes p == bs
  | .error _ =>
    -- not the canonical encoding of any valid peer id
    match bs with
    | c :: s :: dig => !(validPeerId ⟨c, dig⟩ && s == dig.length && (c == 0 || c == 0x12))
    | _ => true

def resIs (r : Except ParseErr Mh) (p : Mh) : Bool :=
  match r with
  | .ok q => q == p
  | .error _ => false

/-- Spec for a round trip through bytes and base58 of a peer id `p` -/
def specRoundTrip (p : Mh) (bytes : List Nat) (back : Except ParseErr Mh)
    (b58 : List Char) (back58 : Except ParseErr Mh) : Bool :=
  bytes == toBytes p && resIs back p && b58 == toBase58 p && resIs back58 p

end C20
