import Libp2pModel.Model.C19_Key
/-!
# C19 (part 2) — plaintext handshake (`transports/plaintext/src/{handshake,lib}.rs`)

`handshake` = `Framed::new(socket, prost_codec::Codec::<Exchange>::new(100))`, send our exchange,
`framed.next()`, validate, `into_parts()` → the read buffer's remainder becomes `Output.read_buffer`,
which `Output::poll_read` drains before it touches the socket again.

The socket's read side is a list of chunks (what each `poll_read` of the transport yields; the
`Framed` read buffer is 8 KiB, larger than any stream considered here); the end of the list is EOF.
`PublicKey::try_decode_protobuf(..).to_peer_id()` and `PeerId::from_bytes` (identity crate, property
C20) are parameters (`Oracle`).
-/
namespace C19

structure Exchange where
  id : Option Bytes
  pubkey : Option Bytes
  deriving DecidableEq, Repr

/-! ## `unsigned_varint::decode::usize` (u64, `max_bytes = 9`) -/

inductive UviRes
  | ok (n : Nat) (rest : Bytes)
  | insufficient | overflow | notMinimal
  deriving DecidableEq, Repr

def uviLoop : Bytes → Nat → Nat → UviRes
  | [], _, _ => .insufficient
  | b :: rest, i, n =>
    -- `n |= k << (i * 7)` on u64 (high bits shifted out are lost)
    let n' := n ||| (((b % 128) <<< (i * 7)) % 2 ^ 64)
    if b < 128 then
      (if b = 0 ∧ i > 0 then .notMinimal else .ok n' rest)
    else if i = 9 then .overflow
    else uviLoop rest (i + 1) n'

def uviDecode (buf : Bytes) : UviRes := uviLoop buf 0 0

/-! ## `prost` decoding of `Exchange { optional bytes id = 1; optional bytes pubkey = 2; }` -/

/-- `prost::encoding::decode_varint`: at most 10 bytes, the 10th must be 0 or 1 -/
def pbVarintLoop : Bytes → Nat → Nat → Option (Nat × Bytes)
  | [], _, _ => none
  | b :: rest, c, v =>
    if c ≥ 10 then none
    else
      let v' := v ||| (((b % 128) <<< (c * 7)) % 2 ^ 64)
      if b < 128 then (if c = 9 ∧ b ≥ 2 then none else some (v', rest))
      else pbVarintLoop rest (c + 1) v'

def pbVarint (buf : Bytes) : Option (Nat × Bytes) := pbVarintLoop buf 0 0

inductive PbRes
  | ok (ex : Exchange)
  | err
  /-- a group wire type in an unknown field: not modelled (the driver makes no prediction) -/
  | unsupported
  deriving DecidableEq, Repr

/-- `Message::merge`: `while buf.has_remaining() { decode_key; merge_field }` -/
def pbDecode : Nat → Bytes → Exchange → PbRes
  | _, [], ex => .ok ex
  | 0, _ :: _, _ => .err
  | f+1, b :: bs, ex =>
    match pbVarint (b :: bs) with
    | none => .err
    | some (key, r) =>
      if key > 0xFFFFFFFF then .err
      else
        let wt := key % 8
        let tag := key / 8
        if wt > 5 then .err
        else if tag = 0 then .err
        else if tag = 1 ∨ tag = 2 then
          -- `bytes::merge`: wire type must be LengthDelimited; the value REPLACES an earlier one
          if wt ≠ 2 then .err
          else match pbVarint r with
            | none => .err
            | some (len, r2) =>
              if len > r2.length then .err
              else
                let v := r2.take len
                pbDecode f (r2.drop len) (if tag = 1 then { ex with id := some v } else { ex with pubkey := some v })
        else
          -- `skip_field`
          match wt with
          | 0 => match pbVarint r with
            | none => .err
            | some (_, r2) => pbDecode f r2 ex
          | 1 => if 8 > r.length then .err else pbDecode f (r.drop 8) ex
          | 2 => match pbVarint r with
            | none => .err
            | some (len, r2) => if len > r2.length then .err else pbDecode f (r2.drop len) ex
          | 3 => .unsupported
          | 4 => .err
          | _ => if 4 > r.length then .err else pbDecode f (r.drop 4) ex

def pbDecodeMsg (msg : Bytes) : PbRes := pbDecode (msg.length + 1) msg ⟨none, none⟩

/-! ## `prost_codec::Codec::decode` -/

def MAX_MSG : Nat := 100

inductive FrameRes
  | need
  | err
  | got (ex : Exchange) (rest : Bytes)
  | unsupported
  deriving DecidableEq, Repr

def frameDecode (buf : Bytes) : FrameRes :=
  match uviDecode buf with
  | .insufficient => .need
  | .overflow => .err
  | .notMinimal => .err
  | .ok len remaining =>
    if len > MAX_MSG then .err
    else if remaining.length < len then .need
    else match pbDecodeMsg (remaining.take len) with
      | .ok ex => .got ex (remaining.drop len)
      | .err => .err
      | .unsupported => .unsupported

/-! ## the handshake's receive half -/

structure Oracle where
  /-- `PublicKey::try_decode_protobuf(bytes).map(|k| k.to_peer_id().to_bytes())` -/
  key : Bytes → Option Bytes
  /-- `PeerId::from_bytes(bytes).map(|p| p.to_bytes())` -/
  pid : Bytes → Option Bytes

inductive HsRes
  | ok (peer : Bytes) (leftover : Bytes)
  | io | invalidPayload | invalidPublicKey | invalidPeerId | mismatch
  | unsupported
  deriving DecidableEq, Repr

/-- validation of the remote's exchange, in the code's order -/
def checkExchange (O : Oracle) (ex : Exchange) (rest : Bytes) : HsRes :=
  match O.key (ex.pubkey.getD []) with
  | none => .invalidPublicKey
  | some kp =>
    match O.pid (ex.id.getD []) with
    | none => .invalidPeerId
    | some ip => if ip ≠ kp then .mismatch else .ok kp rest

/-- `framed.next()` over the chunked socket: decode what is buffered, else read one more chunk;
at EOF an empty buffer is `None` (⇒ `Io(BrokenPipe)`), a non-empty one `UnexpectedEof` from the
codec (⇒ `InvalidPayload`).  Returns the verdict and the chunks not yet read. -/
def hsRead (O : Oracle) : Bytes → List Bytes → HsRes × List Bytes
  | buf, [] =>
    match frameDecode buf with
    | .got ex rest => (checkExchange O ex rest, [])
    | .err => (.invalidPayload, [])
    | .unsupported => (.unsupported, [])
    | .need => (if buf.isEmpty then .io else .invalidPayload, [])
  | buf, c :: cs =>
    match frameDecode buf with
    | .got ex rest => (checkExchange O ex rest, c :: cs)
    | .err => (.invalidPayload, c :: cs)
    | .unsupported => (.unsupported, c :: cs)
    | .need => hsRead O (buf ++ c) cs

/-- the verdict on the un-chunked stream -/
def hsWhole (O : Oracle) (stream : Bytes) : HsRes :=
  match frameDecode stream with
  | .got ex rest => checkExchange O ex rest
  | .err => .invalidPayload
  | .unsupported => .unsupported
  | .need => if stream.isEmpty then .io else .invalidPayload

/-! ## `Output::poll_read` -/

/-- the socket: next chunk, at most `n` bytes of it; empty chunks are skipped; `[]` = EOF -/
def pipeRead : List Bytes → Nat → List Bytes × Bytes
  | [], _ => ([], [])
  | c :: cs, n =>
    if c.isEmpty then pipeRead cs n
    else if n ≥ c.length then (cs, c)
    else (c.drop n :: cs, c.take n)

/-- connection after a successful handshake: `read_buffer` and the unread socket chunks -/
structure PlainSt where
  leftover : Bytes
  chunks : List Bytes
  deriving Repr

def outRead (st : PlainSt) (n : Nat) : PlainSt × Bytes :=
  if !st.leftover.isEmpty then
    -- `n = min(buf.len(), read_buffer.len()); read_buffer.split_to(n)`
    ({ st with leftover := st.leftover.drop n }, st.leftover.take n)
  else
    let (cs, out) := pipeRead st.chunks n
    ({ st with chunks := cs }, out)

/-- everything the application can still read -/
def PlainSt.pending (st : PlainSt) : Bytes := st.leftover ++ st.chunks.flatten

/-! ## our own exchange (what `framed.send` writes) -/

/-- protobuf length varint (canonical) -/
def pbVarintEnc (n : Nat) : Bytes :=
  if h : n < 128 then [n] else (n % 128 + 128) :: pbVarintEnc (n / 128)
termination_by n
decreasing_by omega

def encodeExchange (id pubkey : Bytes) : Bytes :=
  [0x0A] ++ pbVarintEnc id.length ++ id ++ ([0x12] ++ pbVarintEnc pubkey.length ++ pubkey)

def encodeFrame (msg : Bytes) : Bytes := pbVarintEnc msg.length ++ msg

/-! ## executable Spec on the implementation's outputs -/

/-- `hs` op: the verdict is the one the property demands for the un-chunked stream — in particular
`PeerIdMismatch` whenever the announced id is not the announced key's. (`unsupported` streams are
not judged.) -/
def specHs (O : Oracle) (stream : Bytes) (verdict : HsRes) : Bool :=
  match hsWhole O stream with
  | .unsupported => true
  | .ok p _ => match verdict with
    | .ok p' _ => p == p'
    | _ => false
  | w => verdict == w

/-- `rd` op: the bytes returned are the next bytes of what followed the handshake message, and a
read of `n > 0` bytes returns nothing only when everything was delivered. -/
def specRead (pending : Bytes) (n : Nat) (out : Bytes) : Bool :=
  out.length ≤ n && out == pending.take out.length && (out.isEmpty → (n == 0 || pending.isEmpty))

end C19
