import Libp2pModel.Model.C39
/-!
# C39 — `ClosestDisjointPeersIter` (`protocols/kad/src/query/peers/closest/disjoint.rs`)

`parallelism` copies of the plain iterator, a round-robin index (`iter_order: Cycle<…>`), and the
`contacted_peers` map (association list in insertion order).  The inner `loop` of `next` runs with
explicit fuel (`closest.len() + 2`, never exhausted: every iteration turns a `NotContacted` peer of
that path into `Waiting`); running out of fuel would be reported as `panic`.
-/
namespace C39.Disjoint
open C39 (Out Cfg)

inductive Resp
  | waiting | succeeded | failed
deriving DecidableEq, Repr

structure DIter where
  iters : List C39.Iter
  /-- position of `iter_order` -/
  pos : Nat
  /-- `contacted_peers`: peer ↦ (initiated_by, response) -/
  contacted : List (Nat × Nat × Resp)
deriving DecidableEq, Repr

def cfind : List (Nat × Nat × Resp) → Nat → Option (Nat × Resp)
  | [], _ => none
  | (q, v) :: t, p => if q = p then some v else cfind t p

def cset : List (Nat × Nat × Resp) → Nat → Nat × Resp → List (Nat × Nat × Resp)
  | [], _, _ => []
  | (q, v) :: t, p, v' => if q = p then (q, v') :: t else (q, v) :: cset t p v'

/-- `with_config` -/
def init (cfg : Cfg) (kValue : Nat) (known : List Nat) : DIter :=
  ⟨List.replicate cfg.parallelism (C39.init cfg kValue (known.take kValue)), 0, []⟩

/-- `state: Option<PeersIterState>` inside `next` (only these three values are reachable) -/
inductive Acc
  | none | waitingNone | atCap
deriving DecidableEq, Repr

inductive InnerRes
  | brk (acc : Acc)
  | ret (p : Nat)
  | panic
deriving DecidableEq, Repr

/-- the inner `loop { match iter.next(now) … }` for one path -/
def innerLoop (now : Nat) (contacted : List (Nat × Nat × Resp)) :
    Nat → C39.Iter → Acc → C39.Iter × InnerRes
  | 0, it, _ => (it, .panic)
  | fuel + 1, it, acc =>
    let r := C39.next it now
    match r.2 with
    | .waiting none =>
      (r.1, .brk (match acc with
        | .none => .waitingNone
        | .atCap => .waitingNone
        | .waitingNone => .waitingNone))
    | .waiting (some p) =>
      match cfind contacted p with
      | some (_, .waiting) => innerLoop now contacted fuel r.1 acc
      | some (_, .succeeded) =>
        let r2 := C39.onSuccess r.1 p []
        if r2.2 = .panic then (r2.1, .panic) else innerLoop now contacted fuel r2.1 acc
      | some (_, .failed) =>
        let r2 := C39.onFailure r.1 p
        if r2.2 = .panic then (r2.1, .panic) else innerLoop now contacted fuel r2.1 acc
      | none => (r.1, .ret p)
    | .atCapacity =>
      (r.1, .brk (match acc with
        | .none => .atCap
        | a => a))
    | .finished => (r.1, .brk acc)
    | _ => (r.1, .panic)

/-- the outer `for _ in 0..self.iters.len()` -/
def outer (now : Nat) : Nat → DIter → Acc → DIter × Out
  | 0, d, acc =>
    (d, match acc with
      | .none => .finished
      | .waitingNone => .waiting none
      | .atCap => .atCapacity)
  | rounds + 1, d, acc =>
    let i := d.pos
    let d1 := { d with pos := (d.pos + 1) % d.iters.length }
    match d.iters[i]? with
    | none => (d1, .panic)
    | some it =>
      let r := innerLoop now d.contacted (it.closest.length + 2) it acc
      let d2 := { d1 with iters := d1.iters.set i r.1 }
      match r.2 with
      | .brk acc' => outer now rounds d2 acc'
      | .ret p => ({ d2 with contacted := d2.contacted ++ [(p, i, .waiting)] }, .waiting (some p))
      | .panic => (d2, .panic)

/-- `ClosestDisjointPeersIter::next` -/
def next (d : DIter) (now : Nat) : DIter × Out := outer now d.iters.length d .none

/-- apply `f` to every path except `skip` -/
def mapOthers (f : C39.Iter → C39.Iter) (skip : Nat) : Nat → List C39.Iter → List C39.Iter
  | _, [] => []
  | j, it :: t => (if j = skip then it else f it) :: mapOthers f skip (j + 1) t

/-- `on_success` -/
def onSuccess (d : DIter) (p : Nat) (closer : List Nat) : DIter × Out :=
  match cfind d.contacted p with
  | none => (d, .bool false)
  | some (by_, _) =>
    match d.iters[by_]? with
    | none => (d, .panic)
    | some it =>
      let r := C39.onSuccess it p closer
      if r.2 = .panic then (d, .panic)
      else
        let updated := decide (r.2 = .bool true)
        let contacted' := if updated then cset d.contacted p (by_, .succeeded) else d.contacted
        let iters' := mapOthers (fun x => (C39.onSuccess x p []).1) by_ 0 (d.iters.set by_ r.1)
        (⟨iters', d.pos, contacted'⟩, .bool updated)

/-- `on_failure` -/
def onFailure (d : DIter) (p : Nat) : DIter × Out :=
  match cfind d.contacted p with
  | none => (d, .bool false)
  | some (by_, _) =>
    match d.iters[by_]? with
    | none => (d, .panic)
    | some it =>
      let r := C39.onFailure it p
      if r.2 = .panic then (d, .panic)
      else
        let updated := decide (r.2 = .bool true)
        let contacted' := if updated then cset d.contacted p (by_, .failed) else d.contacted
        let iters' := mapOthers (fun x => (C39.onFailure x p).1) by_ 0 (d.iters.set by_ r.1)
        (⟨iters', d.pos, contacted'⟩, .bool updated)

def isFinished (d : DIter) : Bool := d.iters.all C39.isFinished

/-- `finish_paths` -/
def finishPaths (d : DIter) (peers : List Nat) : DIter × Out :=
  let d' := peers.foldl (fun (d : DIter) p =>
    match cfind d.contacted p with
    | some (by_, _) =>
      match d.iters[by_]? with
      | some it => { d with iters := d.iters.set by_ (C39.finish it) }
      | none => d
    | none => d) d
  (d', .bool (isFinished d'))

/-- `finish` -/
def finish (d : DIter) : DIter := { d with iters := d.iters.map C39.finish }

/-! ## `into_result`: `ResultIter` -/

def setNth (l : List (List Nat)) (i : Nat) (v : List Nat) : List (List Nat) := l.set i v

/-- the `fold` of `ResultIter::next`: index of the chosen path, and the lists after the
deduplicating `iter_b.next()` calls -/
def pickFold : List (List Nat) → Option Nat → Nat → Nat → List (List Nat) × Option Nat
  | ls, best, _, 0 => (ls, best)
  | ls, best, j, n + 1 =>
    match best with
    | none => pickFold ls (some j) (j + 1) n
    | some a =>
      match (ls.getD a []).head?, (ls.getD j []).head? with
      | some x, some y =>
        if x = y then pickFold (ls.set j ((ls.getD j []).tail)) (some a) (j + 1) n
        else if x < y then pickFold ls (some a) (j + 1) n
        else pickFold ls (some j) (j + 1) n
      | some _, none => pickFold ls (some a) (j + 1) n
      | none, some _ => pickFold ls (some j) (j + 1) n
      | none, none => pickFold ls none (j + 1) n

/-- collect `ResultIter` -/
def merge : Nat → List (List Nat) → List Nat
  | 0, _ => []
  | fuel + 1, ls =>
    let r := pickFold ls none 0 ls.length
    match r.2 with
    | none => []
    | some a =>
      match r.1.getD a [] with
      | [] => []
      | x :: rest => x :: merge fuel (r.1.set a rest)

/-- `into_result` -/
def result (d : DIter) : List Nat :=
  let per := d.iters.map C39.result
  merge ((per.map List.length).sum + 1) per

inductive Op
  | next (now : Nat)
  | success (p : Nat) (closer : List Nat)
  | failure (p : Nat)
  | finishPaths (peers : List Nat)
  | finish
deriving DecidableEq, Repr

def step (d : DIter) : Op → DIter × Out
  | .next now => next d now
  | .success p closer => onSuccess d p closer
  | .failure p => onFailure d p
  | .finishPaths ps => finishPaths d ps
  | .finish => (finish d, .unit)

/-! ## executable statement (observation = `is_finished()` after every call; `into_result()` at
the end of the case) -/

structure Mon where
  cfg : Cfg
  n : Nat
  learned : List Nat
  issued : List Nat
  pending : List Nat
  accepted : List Nat
deriving Repr

def monInit (cfg : Cfg) (kValue n : Nat) (known : List Nat) : Mon :=
  ⟨cfg, n, known.take kValue, [], [], []⟩

def monStep (m : Mon) (op : Op) (out : Out) (_fin : Bool) : Mon × Option String :=
  match op, out with
  | .next _, .waiting (some p) =>
    if m.issued.contains p then (m, some "peer_twice")
    else if !m.learned.contains p then (m, some "unknown_peer")
    else if !(decide (p < m.n)) then (m, some "outside_universe")
    else if m.issued.length ≥ m.n then (m, some "too_many_requests")
    else ({ m with issued := p :: m.issued, pending := p :: m.pending }, none)
  | .next _, .waiting none => (m, none)
  | .next _, .atCapacity => (m, none)
  | .next _, .finished => (m, none)
  | .success p closer, .bool true =>
    if !m.issued.contains p then (m, some "unsolicited")
    else ({ m with accepted := p :: m.accepted, pending := m.pending.filter (· ≠ p),
                    learned := m.learned ++ closer }, none)
  | .success p _, .bool false =>
    -- the initiating path may already be finished and return `false` while the other paths still
    -- record the response: a delivered response of a contacted peer makes it a responder
    if m.issued.contains p then ({ m with accepted := p :: m.accepted }, none) else (m, none)
  | .failure p, .bool true =>
    if !m.issued.contains p then (m, some "unsolicited")
    else ({ m with pending := m.pending.filter (· ≠ p) }, none)
  | .failure _, .bool false => (m, none)
  | .finishPaths _, .bool _ => (m, none)
  | .finish, .unit => (m, none)
  | _, _ => (m, some "bad_output")

/-- final result: only accepted responders, strictly increasing distance (so no duplicates), at
most `num_results` per path -/
def monResult (m : Mon) (res : List Nat) : Option String :=
  if res.all (fun p => m.accepted.contains p) && C39.sortedAsc res
      && decide (res.length ≤ m.cfg.parallelism * m.cfg.numResults) then none
  else some "result"

end C39.Disjoint
