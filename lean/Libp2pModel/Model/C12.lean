import Libp2pModel.Common.Multiaddr
/-!
# C12 — listen / external / peer address views (model of the code as it is)

* `swarm/src/behaviour/external_addresses.rs`  — `ExternalAddresses` (`Vec`, most recent first, cap 20)
* `swarm/src/behaviour/listen_addresses.rs`    — `ListenAddresses` (`HashSet`)
* `swarm/src/behaviour/peer_addresses.rs`      — `PeerAddresses` (`hashlink::LruCache<PeerId, LruCache<Multiaddr, ()>>`)
* `swarm/src/lib.rs`                           — `listened_addrs` / `confirmed_external_addr` bookkeeping in
  `handle_transport_event`, `add/remove_external_address`, `handle_behaviour_event`.

A `hashlink::LruCache` is modelled by the list of its entries in iteration order: front = least
recently used, back = most recently used (`insert`/`get`/`get_mut` move to the back, eviction pops
the front).  A hash map holds one entry per key, so "remove key `k`" is `filter (·.1 != k)`.
The capacities are parameters (`Caps`); the harness reads them from the source at run time.
-/
namespace C12

abbrev Peer := List Nat

structure Caps where
  ext : Nat      -- MAX_LOCAL_EXTERNAL_ADDRS
  addr : Nat     -- per-peer `LruCache::new(10)`
  peers : Nat    -- `PeerAddresses::new(number_of_peers)`
  deriving Repr

inductive DialErr where
  | transport (addrs : List Maddr)
  | other
  deriving DecidableEq, Repr

/-- the `FromSwarm` events the helpers look at (everything else is `other`) -/
inductive Ev where
  | extConfirmed (a : Maddr)
  | extExpired (a : Maddr)
  | extCandidate (a : Maddr)
  | newListenAddr (lid : Nat) (a : Maddr)
  | expiredListenAddr (lid : Nat) (a : Maddr)
  | listenerClosed (lid : Nat)
  | listenerError (lid : Nat)
  | newExtAddrOfPeer (p : Peer) (a : Maddr)
  | dialFailure (p : Option Peer) (err : DialErr)
  | other
  deriving DecidableEq, Repr

/-! ## ExternalAddresses -/

/-- `FromSwarm::ExternalAddrConfirmed`: `position` → `remove(pos)` + `push_front`, return `false`;
otherwise `push_front`, `pop` when over the limit, return `true`. -/
def extConfirmed (cap : Nat) (l : List Maddr) (a : Maddr) : List Maddr × Bool :=
  if a ∈ l then (a :: l.erase a, false)
  else
    let l' := a :: l
    (if l'.length > cap then l'.dropLast else l', true)

/-- `FromSwarm::ExternalAddrExpired` -/
def extExpired (l : List Maddr) (a : Maddr) : List Maddr × Bool :=
  if a ∈ l then (l.erase a, true) else (l, false)

def extStep (cap : Nat) (l : List Maddr) : Ev → List Maddr × Bool
  | .extConfirmed a => extConfirmed cap l a
  | .extExpired a => extExpired l a
  | _ => (l, false)

/-! ## ListenAddresses (a `HashSet`; kept in insertion order, compared sorted) -/

def lisStep (s : List Maddr) : Ev → List Maddr × Bool
  | .newListenAddr _ a => if a ∈ s then (s, false) else (s ++ [a], true)
  | .expiredListenAddr _ a => if a ∈ s then (s.filter (· != a), true) else (s, false)
  | _ => (s, false)

/-! ## PeerAddresses -/

abbrev Inner := List Maddr
abbrev PA := List (Peer × Inner)

/-- `LruCache<Multiaddr, ()>::insert(a, ())`: move/append to the back, evict the front when over
capacity; second component = `.is_none()` of the returned old value. -/
def innerInsert (cap : Nat) (l : Inner) (a : Maddr) : Inner × Bool :=
  let l' := l.filter (· != a) ++ [a]
  (if l'.length > cap then l'.drop 1 else l', !(l.contains a))

def lookup (p : Peer) : PA → Option Inner
  | [] => none
  | (q, l) :: t => if q = p then some l else lookup p t

def del (p : Peer) (o : PA) : PA := o.filter (·.1 != p)

/-- `LruCache::insert(peer, set)` on the outer cache -/
def outerInsert (cap : Nat) (o : PA) (p : Peer) (l : Inner) : PA :=
  let o' := del p o ++ [(p, l)]
  if o'.length > cap then o'.drop 1 else o'

/-- `PeerAddresses::add` -/
def paAdd (c : Caps) (o : PA) (p : Peer) (a : Maddr) : PA × Bool :=
  match Maddr.withP2p a p with
  | none => (o, false)
  | some a' =>
    match lookup p o with
    | some l =>   -- `get_mut` moved the peer to the back
      let r := innerInsert c.addr l a'
      (del p o ++ [(p, r.1)], r.2)
    | none => (outerInsert c.peers o p (innerInsert c.addr [] a').1, true)

/-- `PeerAddresses::remove`: `get_mut(peer)` (moves the peer to the back) comes first -/
def paRemove (o : PA) (p : Peer) (a : Maddr) : PA × Bool :=
  match lookup p o with
  | some l =>
    match Maddr.withP2p a p with
    | some a' => (del p o ++ [(p, l.filter (· != a'))], l.contains a')
    | none => (del p o ++ [(p, l)], false)
  | none => (o, false)

/-- the `for (addr, _) in errors { … self.remove(peer_id, addr) }` loop: state and whether any
`remove` returned `true` -/
def paRemoveAll (o : PA) (p : Peer) : List Maddr → PA × Bool
  | [] => (o, false)
  | a :: as =>
    let r := paRemove o p a
    let r' := paRemoveAll r.1 p as
    (r'.1, r.2 || r'.2)

/-- `DialFailure { peer_id: Some(p), error: Transport(errors) }` — REPAIRED code
(findings/C12-dialfailure-changed.fix.diff): reports whether an address was removed. -/
def paDialFailure (o : PA) (p : Peer) (addrs : List Maddr) : PA × Bool :=
  paRemoveAll o p addrs

/-- the same arm before the repair: `for … { self.remove(..); } true` -/
def paDialFailureBuggy (o : PA) (p : Peer) (addrs : List Maddr) : PA × Bool :=
  ((paRemoveAll o p addrs).1, true)

def paStep (c : Caps) (o : PA) : Ev → PA × Bool
  | .newExtAddrOfPeer p a => paAdd c o p a
  | .dialFailure (some p) (.transport addrs) => paDialFailure o p addrs
  | _ => (o, false)

def paStepBuggy (c : Caps) (o : PA) : Ev → PA × Bool
  | .newExtAddrOfPeer p a => paAdd c o p a
  | .dialFailure (some p) (.transport addrs) => paDialFailureBuggy o p addrs
  | _ => (o, false)

/-- `PeerAddresses::get`: `LruCache::get` moves the peer to the back; yields the per-peer cache
in iteration order (least recently used first). -/
def paGet (o : PA) (p : Peer) : PA × List Maddr :=
  match lookup p o with
  | some l => (del p o ++ [(p, l)], l)
  | none => (o, [])

/-- the addresses currently cached for `p` (pure view, no reordering) -/
def addrsOf (o : PA) (p : Peer) : List Maddr := (lookup p o).getD []

/-! ## the three helpers together -/

structure Helpers where
  ext : List Maddr := []
  lis : List Maddr := []
  pa : PA := []
  deriving Repr

def Helpers.feed (c : Caps) (h : Helpers) (ev : Ev) : Helpers × (Bool × Bool × Bool) :=
  let e := extStep c.ext h.ext ev
  let l := lisStep h.lis ev
  let p := paStep c h.pa ev
  ({ ext := e.1, lis := l.1, pa := p.1 }, (e.2, l.2, p.2))

def Helpers.feedAll (c : Caps) (h : Helpers) : List Ev → Helpers × List (Ev × (Bool × Bool × Bool))
  | [] => (h, [])
  | e :: es =>
    let r := h.feed c e
    let r' := Helpers.feedAll c r.1 es
    (r'.1, (e, r.2) :: r'.2)

/-! ## Swarm-level bookkeeping -/

abbrev LMap := List (Nat × List Maddr)

def lget (lid : Nat) : LMap → Option (List Maddr)
  | [] => none
  | (k, v) :: t => if k = lid then some v else lget lid t

def lset (lid : Nat) (v : List Maddr) (m : LMap) : LMap := (lid, v) :: m.filter (·.1 != lid)

def lremove (lid : Nat) (m : LMap) : LMap := m.filter (·.1 != lid)

/-- what the scripted transport / behaviour / API user does to the Swarm -/
inductive SwOp where
  | newAddr (lid : Nat) (a : Maddr)        -- TransportEvent::NewAddress
  | addrExpired (lid : Nat) (a : Maddr)    -- TransportEvent::AddressExpired
  | closed (lid : Nat)                     -- TransportEvent::ListenerClosed
  | lerr (lid : Nat)                       -- TransportEvent::ListenerError
  | addExt (a : Maddr)                     -- Swarm::add_external_address
  | rmExt (a : Maddr)                      -- Swarm::remove_external_address
  | bConf (a : Maddr)                      -- ToSwarm::ExternalAddrConfirmed
  | bExp (a : Maddr)                       -- ToSwarm::ExternalAddrExpired
  | bCand (a : Maddr)                      -- ToSwarm::NewExternalAddrCandidate
  | bPeer (p : Peer) (a : Maddr)           -- ToSwarm::NewExternalAddrOfPeer
  | addPeer (p : Peer) (a : Maddr)         -- Swarm::add_peer_address
  deriving DecidableEq, Repr

/-- `SwarmEvent`s the Swarm returns -/
inductive SwEv where
  | newListenAddr (lid : Nat) (a : Maddr)
  | expiredListenAddr (lid : Nat) (a : Maddr)
  | listenerClosed (lid : Nat) (addrs : List Maddr)
  | listenerError (lid : Nat)
  | newExtCandidate (a : Maddr)
  | extConfirmed (a : Maddr)
  | extExpired (a : Maddr)
  | newExtAddrOfPeer (p : Peer) (a : Maddr)
  deriving DecidableEq, Repr

structure Sw where
  listened : LMap := []            -- `listened_addrs: HashMap<ListenerId, SmallVec<[Multiaddr; 1]>>`
  confirmed : List Maddr := []     -- `confirmed_external_addr: HashSet<Multiaddr>`
  deriving Repr

/-- one Swarm step: new bookkeeping, the `FromSwarm` events handed to the behaviour (in order)
and the `SwarmEvent`s queued. -/
def swStep (s : Sw) : SwOp → Sw × (List Ev × List SwEv)
  | .newAddr lid a =>
    let addrs := (lget lid s.listened).getD []                 -- `entry(listener_id).or_default()`
    let addrs' := if addrs.contains a then addrs else addrs ++ [a]
    ({ s with listened := lset lid addrs' s.listened }, ([.newListenAddr lid a], [.newListenAddr lid a]))
  | .addrExpired lid a =>
    let m := match lget lid s.listened with
      | some addrs => lset lid (addrs.filter (· != a)) s.listened   -- `retain`
      | none => s.listened
    ({ s with listened := m }, ([.expiredListenAddr lid a], [.expiredListenAddr lid a]))
  | .closed lid =>
    let addrs := (lget lid s.listened).getD []                 -- `remove(..).unwrap_or_default()`
    ({ s with listened := lremove lid s.listened },
      (addrs.map (Ev.expiredListenAddr lid) ++ [.listenerClosed lid], [.listenerClosed lid addrs]))
  | .lerr lid => (s, ([.listenerError lid], [.listenerError lid]))
  | .addExt a =>
    ({ s with confirmed := if s.confirmed.contains a then s.confirmed else s.confirmed ++ [a] },
      ([.extConfirmed a], []))
  | .rmExt a => ({ s with confirmed := s.confirmed.filter (· != a) }, ([.extExpired a], []))
  | .bConf a =>
    ({ s with confirmed := if s.confirmed.contains a then s.confirmed else s.confirmed ++ [a] },
      ([.extConfirmed a], [.extConfirmed a]))
  | .bExp a => ({ s with confirmed := s.confirmed.filter (· != a) }, ([.extExpired a], [.extExpired a]))
  | .bCand a =>
    if s.confirmed.contains a then (s, ([], [])) else (s, ([.extCandidate a], [.newExtCandidate a]))
  | .bPeer p a => (s, ([.newExtAddrOfPeer p a], [.newExtAddrOfPeer p a]))
  | .addPeer p a => (s, ([.newExtAddrOfPeer p a], []))

/-- `Swarm::listeners()` = `listened_addrs.values().flatten()` (order of the hash map unspecified) -/
def listeners (s : Sw) : List Maddr := s.listened.flatMap (·.2)

/-- run a history, collecting the `FromSwarm` and `SwarmEvent` streams -/
def swRun (s : Sw) : List SwOp → Sw × (List Ev × List SwEv)
  | [] => (s, ([], []))
  | o :: os =>
    let r := swStep s o
    let r' := swRun r.1 os
    (r'.1, (r.2.1 ++ r'.2.1, r.2.2 ++ r'.2.2))

/-! ## Spec — the property as an independent, executable fold

Written "most recent first, truncated to capacity" (the reverse orientation of the LRU lists
above); judged on the IMPLEMENTATION's outputs by the driver. -/
namespace Spec

def sameSet (a b : List Maddr) : Bool := a.all (b.contains ·) && b.all (a.contains ·)

/-- ExternalAddresses: most recent first, at most `cap` -/
def ext (cap : Nat) (l : List Maddr) : Ev → List Maddr
  | .extConfirmed a => (a :: l.filter (· != a)).take cap
  | .extExpired a => l.filter (· != a)
  | _ => l

/-- ListenAddresses as a set (newest first) -/
def lis (l : List Maddr) : Ev → List Maddr
  | .newListenAddr _ a => if l.contains a then l else a :: l
  | .expiredListenAddr _ a => l.filter (· != a)
  | _ => l

/-- PeerAddresses, most recently used peer first, per peer most recently reported address first -/
abbrev PAS := List (Peer × List Maddr)

def addrs (o : PAS) (p : Peer) : List Maddr := (lookup p o).getD []

def paAdd (c : Caps) (o : PAS) (p : Peer) (a : Maddr) : PAS :=
  match Maddr.withP2p a p with
  | none => o
  | some a' => ((p, (a' :: (addrs o p).filter (· != a')).take c.addr) :: del p o).take c.peers

/-- a use of peer `p` (a removal attempt or a `get`) makes it the most recent one — only if cached -/
def paUse (o : PAS) (p : Peer) (f : List Maddr → List Maddr) : PAS :=
  match lookup p o with
  | some l => (p, f l) :: del p o
  | none => o

def paRemove (o : PAS) (p : Peer) (a : Maddr) : PAS :=
  match Maddr.withP2p a p with
  | some a' => paUse o p (·.filter (· != a'))
  | none => paUse o p id

def pa (c : Caps) (o : PAS) : Ev → PAS
  | .newExtAddrOfPeer p a => paAdd c o p a
  | .dialFailure (some p) (.transport as) => as.foldl (fun o a => paRemove o p a) o
  | _ => o

/-- do the per-peer address sets differ? -/
def paChanged (old new : PAS) : Bool :=
  (old.map (·.1) ++ new.map (·.1)).any fun p => !sameSet (addrs old p) (addrs new p)

/-- listeners: fold of the emitted `SwarmEvent`s -/
def listen (m : LMap) : SwEv → LMap
  | .newListenAddr lid a =>
    let cur := (lget lid m).getD []
    lset lid (if cur.contains a then cur else cur ++ [a]) m
  | .expiredListenAddr lid a =>
    match lget lid m with
    | some cur => lset lid (cur.filter (· != a)) m
    | none => m
  | .listenerClosed lid _ => lremove lid m
  | _ => m

/-- `ListenerClosed` must carry exactly the listener's remaining addresses -/
def closedOk (m : LMap) : SwEv → Bool
  | .listenerClosed lid addrs => addrs == (lget lid m).getD []
  | _ => true

def listenCheck (m : LMap) : List SwEv → Bool
  | [] => true
  | e :: es => closedOk m e && listenCheck (listen m e) es

/-- confirmed external addresses: fold of the `FromSwarm` events given to the behaviours -/
def confirmed (l : List Maddr) : Ev → List Maddr
  | .extConfirmed a => if l.contains a then l else l ++ [a]
  | .extExpired a => l.filter (· != a)
  | _ => l

/-- on `ListenerClosed` the behaviours see `ExpiredListenAddr` for exactly the remaining
addresses, then `ListenerClosed` (checked on the `FromSwarm` stream of one step) -/
def closedFromSwarmOk (m : LMap) (lid : Nat) (evs : List Ev) : Bool :=
  evs == ((lget lid m).getD []).map (Ev.expiredListenAddr lid) ++ [.listenerClosed lid]

end Spec

end C12
