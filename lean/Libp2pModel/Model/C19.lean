import Libp2pModel.Model.C19_Key
import Libp2pModel.Model.C19_Plain
import Libp2pModel.Model.C19_Pnet
/-!
# C19 — Plaintext and pnet upgrades preserve data and reject mismatches

The model is split in three files (all import-free apart from `Common.Drv`):
* `C19_Key`   — pnet key file `Display`/`FromStr` over UTF-8 byte lists with Rust's byte-offset slicing;
* `C19_Plain` — plaintext handshake receive half (uvi frame + prost `Exchange`) and `Output::poll_read`;
* `C19_Pnet`  — `CryptWriter` buffering over a scripted inner writer, `PnetOutput::poll_read`.
Each file ends with the executable Spec clauses used by the driver on the implementation's outputs.
-/
